(* Model of utils/cloud_utils.py (sanitize_paths, is_exposed, _word_to_path,
   is_relative_to), of the part of pathlib.PurePosixPath they rely on (parsing,
   parent, name, str, relative_to) and of the way cli/from_specified_markers.py:
   run_mapping and cli/cli_log.py:write_log feed the `config` and `log` sinks.

   A string is the list of its code points.  The file system is a predicate on
   (lexically normalised) paths: ex p = p.is_file() or p.is_dir(); resolve p =
   p.resolve().absolute(); mapper = the directory that contains the package.  They
   are Section variables for the theorems and finite tables for the extracted
   model.  Definitions only. *)
From Coq Require Import ZArith List Bool.
From CTM Require Import Base.Sx.
Import ListNotations.
Open Scope Z_scope.

Definition str := list Z.

Fixpoint str_eqb (a b : str) : bool :=
  match a, b with
  | [], [] => true
  | x :: a', y :: b' => (x =? y) && str_eqb a' b'
  | _, _ => false
  end.

(* ---------------- str.split() ---------------- *)
(* the code points Python's str.split() / str.isspace() treat as whitespace *)
Definition is_space (c : Z) : bool :=
  ((9 <=? c) && (c <=? 13)) || ((28 <=? c) && (c <=? 32)) || (c =? 133) || (c =? 160) ||
  (c =? 5760) || ((8192 <=? c) && (c <=? 8202)) || (c =? 8232) || (c =? 8233) ||
  (c =? 8239) || (c =? 8287) || (c =? 12288).

(* cur = the current word, reversed *)
Fixpoint split_go (cur : str) (s : str) : list str :=
  match s with
  | [] => match cur with [] => [] | _ => [rev cur] end
  | c :: t =>
      if is_space c then
        match cur with [] => split_go [] t | _ => rev cur :: split_go [] t end
      else split_go (c :: cur) t
  end.
Definition split (s : str) : list str := split_go [] s.

(* ---------------- pathlib.PurePosixPath ---------------- *)
Definition SLASH := 47.
Definition DOT := 46.
(* root: 0 = relative, 1 = "/", 2 = "//" (exactly two leading slashes, kept by POSIX rules) *)
Record path := mkPath { p_root : nat; p_parts : list str }.

(* s.split('/'), empty pieces included *)
Fixpoint pieces_go (cur : str) (s : str) : list str :=
  match s with
  | [] => [rev cur]
  | c :: t => if c =? SLASH then rev cur :: pieces_go [] t else pieces_go (c :: cur) t
  end.
Definition pieces (s : str) : list str := pieces_go [] s.
Definition is_nil {A} (l : list A) : bool := match l with [] => true | _ => false end.
Definition is_dot (x : str) : bool := match x with [c] => c =? DOT | _ => false end.
Definition root_of (s : str) : nat :=
  match s with
  | a :: rest =>
      if a =? SLASH then
        match rest with
        | b :: rest2 =>
            if b =? SLASH then
              match rest2 with
              | c :: _ => if c =? SLASH then 1%nat else 2%nat
              | [] => 2%nat
              end
            else 1%nat
        | [] => 1%nat
        end
      else 0%nat
  | [] => 0%nat
  end.
(* PurePosixPath(s): posixpath.splitroot, then the pieces that are neither '' nor '.' *)
Definition parse_path (s : str) : path :=
  mkPath (root_of s) (filter (fun x => negb (is_nil x) && negb (is_dot x)) (pieces s)).

Definition root_str (r : nat) : str :=
  match r with O => [] | S O => [SLASH] | _ => [SLASH; SLASH] end.
Fixpoint join_slash (ps : list str) : str :=
  match ps with
  | [] => []
  | [p] => p
  | p :: t => p ++ SLASH :: join_slash t
  end.
(* str(path) *)
Definition path_str (p : path) : str :=
  match p_root p, p_parts p with
  | O, [] => [DOT]
  | r, ps => root_str r ++ join_slash ps
  end.
(* path.name *)
Definition path_name (p : path) : str := last (p_parts p) [].

Fixpoint parts_eqb (a b : list str) : bool :=
  match a, b with
  | [], [] => true
  | x :: a', y :: b' => str_eqb x y && parts_eqb a' b'
  | _, _ => false
  end.
Definition path_eqb (p q : path) : bool := Nat.eqb (p_root p) (p_root q) && parts_eqb (p_parts p) (p_parts q).

(* ---------------- _word_to_path ---------------- *)
Definition QUOTE2 := 34.   (* the double quote *)
Definition QUOTE1 := 39.   (* the single quote *)
Definition strip_quotes (w : str) : str :=
  filter (fun c => negb ((c =? QUOTE2) || (c =? QUOTE1))) w.
Definition word_to_path (w : str) : path := parse_path (strip_quotes w).

(* ---------------- is_exposed ---------------- *)
Inductive exposure := Exposed | Hidden | Loops.   (* Loops: RecursionError ("//" that is not a directory) *)

(* rp = the parts, reversed: the walk p, p.parent, p.parent.parent ... *)
Fixpoint exposed_rev (ex : path -> bool) (root : nat) (rp : list str) : exposure :=
  match rp with
  | [] =>
      match root with
      | O => Hidden                        (* Path('.') *)
      | S O => Hidden                      (* Path('/') *)
      | _ => if ex (mkPath root []) then Exposed else Loops
      end
  | _ :: rp' => if ex (mkPath root (rev rp)) then Exposed else exposed_rev ex root rp'
  end.
Definition is_exposed (ex : path -> bool) (p : path) : exposure :=
  exposed_rev ex (p_root p) (rev (p_parts p)).

(* ---------------- sanitize_paths on a string ---------------- *)
Inductive sres (A : Type) := SOk (a : A) | SErr (code : Z).
Arguments SOk {A}. Arguments SErr {A}.
Definition E_VALUE := 1.       (* ValueError of Path.relative_to: is_relative_to compares str prefixes *)
Definition E_RECURSION := 2.   (* RecursionError *)
Definition E_KEY := 3.         (* KeyError: safe_config.pop(...) of a key the config lacks *)

Fixpoint prefix_b (a b : str) : bool :=     (* b.startswith(a) *)
  match a, b with
  | [], _ => true
  | x :: a', y :: b' => (x =? y) && prefix_b a' b'
  | _ :: _, [] => false
  end.
(* the parts of child after those of parent, if parent's parts are a prefix of them *)
Fixpoint parts_after (parent child : list str) : option (list str) :=
  match parent, child with
  | [], rest => Some rest
  | x :: p', y :: c' => if str_eqb x y then parts_after p' c' else None
  | _ :: _, [] => None
  end.
(* child.relative_to(parent): None = ValueError *)
Definition relative_to (child parent : path) : option path :=
  if Nat.eqb (p_root child) (p_root parent) then
    match parts_after (p_parts parent) (p_parts child) with
    | Some rest => Some (mkPath 0 rest)
    | None => None
    end
  else None.

(* str.replace(old, new) for a non-empty old: skip = characters of a match still to be dropped *)
Fixpoint replace_go (old new : str) (skip : nat) (s : str) : str :=
  match s with
  | [] => []
  | c :: t =>
      match skip with
      | S k => replace_go old new k t
      | O => if prefix_b old s then new ++ replace_go old new (length old - 1) t
             else c :: replace_go old new 0 t
      end
  end.
Definition replace_all (old new s : str) : str :=
  match old with [] => s | _ => replace_go old new 0 s end.

Fixpoint has_key (k : str) (d : list (str * str)) : bool :=
  match d with [] => false | (k', _) :: t => str_eqb k k' || has_key k t end.

(* JSON-like structures: strings, lists, dicts (keys are not touched), anything else *)
Inductive jv := JStr (s : str) | JList (l : list jv) | JDict (kv : list (str * jv)) | JOther (tag : Z).

Section Sanitize.
  Variable ex : path -> bool.          (* p.is_file() or p.is_dir() *)
  Variable resolve : path -> path.     (* p.resolve().absolute() *)
  Variable mapper : path.              (* pathlib.Path(cell_type_mapper.__file__).resolve().absolute().parent.parent *)

  (* None: the word is left alone; Some (SOk t): it is replaced by t *)
  Definition safe_path (w : str) : option (sres str) :=
    let p := word_to_path w in
    match is_exposed ex p with
    | Hidden => None
    | Loops => Some (SErr E_RECURSION)
    | Exposed =>
        let a := resolve p in
        if prefix_b (path_str mapper) (path_str a) then
          match relative_to a mapper with
          | Some r => Some (SOk (path_str r))
          | None => Some (SErr E_VALUE)
          end
        else Some (SOk (path_name p))
    end.

  (* the dict `substitutions`, in insertion order *)
  Fixpoint collect (ws : list str) (acc : list (str * str)) : sres (list (str * str)) :=
    match ws with
    | [] => SOk acc
    | w :: t =>
        match safe_path w with
        | None => collect t acc
        | Some (SErr e) => SErr e
        | Some (SOk v) => collect t (if has_key w acc then acc else acc ++ [(w, v)])
        end
    end.

  Definition apply_subs (subs : list (str * str)) (s : str) : str :=
    fold_left (fun r on => replace_all (fst on) (snd on) r) subs s.

  Definition sanitize_str (s : str) : sres str :=
    match collect (split s) [] with
    | SErr e => SErr e
    | SOk subs => SOk (apply_subs subs s)
    end.

  Fixpoint sanitize (v : jv) : sres jv :=
    match v with
    | JStr s => match sanitize_str s with SOk r => SOk (JStr r) | SErr e => SErr e end
    | JList l =>
        match (fix go (l : list jv) : sres (list jv) :=
                 match l with
                 | [] => SOk []
                 | x :: t =>
                     match sanitize x with
                     | SErr e => SErr e
                     | SOk y => match go t with SErr e => SErr e | SOk ys => SOk (y :: ys) end
                     end
                 end) l with
        | SOk r => SOk (JList r)
        | SErr e => SErr e
        end
    | JDict kv =>
        match (fix go (l : list (str * jv)) : sres (list (str * jv)) :=
                 match l with
                 | [] => SOk []
                 | (k, x) :: t =>
                     match sanitize x with
                     | SErr e => SErr e
                     | SOk y => match go t with SErr e => SErr e | SOk ys => SOk ((k, y) :: ys) end
                     end
                 end) kv with
        | SOk r => SOk (JDict r)
        | SErr e => SErr e
        end
    | JOther t => SOk (JOther t)
    end.

  (* ---------------- run_mapping / write_log: what reaches the sinks ---------------- *)
  Definition K_TMP_DIR : str := [116; 109; 112; 95; 100; 105; 114].                 (* "tmp_dir" *)
  Definition K_EXT_DIR : str :=                                                     (* "extended_result_dir" *)
    [101; 120; 116; 101; 110; 100; 101; 100; 95; 114; 101; 115; 117; 108; 116; 95; 100; 105; 114].

  (* dict.pop(k) without default: None = KeyError *)
  Fixpoint pop_key (k : str) (kv : list (str * jv)) : option (list (str * jv)) :=
    match kv with
    | [] => None
    | (k', v) :: t =>
        if str_eqb k k' then Some t
        else match pop_key k t with Some t' => Some ((k', v) :: t') | None => None end
    end.

  Fixpoint sanitize_lines (l : list str) : sres (list str) :=
    match l with
    | [] => SOk []
    | x :: t =>
        match sanitize_str x with
        | SErr e => SErr e
        | SOk y => match sanitize_lines t with SErr e => SErr e | SOk ys => SOk (y :: ys) end
        end
    end.

  Record sinks := mkSinks {
    s_config : jv;             (* output["config"] of the JSON and HDF5 files *)
    s_log : list str;          (* output["log"] *)
    s_log_file : list str      (* the lines appended to log_path *)
  }.

  (* safe_config = sanitize_paths(deepcopy(config)); pop('extended_result_dir'); pop('tmp_dir');
     finally: write_log(log_path, cloud_safe) ; output["log"] = sanitize_paths(deepcopy(log.log)) *)
  Definition run_sinks (cloud_safe : bool) (config : list (str * jv)) (log : list str) : sres sinks :=
    if cloud_safe then
      match sanitize (JDict config) with
      | SErr e => SErr e
      | SOk (JDict kv) =>
          match pop_key K_EXT_DIR kv with
          | None => SErr E_KEY
          | Some kv1 =>
              match pop_key K_TMP_DIR kv1 with
              | None => SErr E_KEY
              | Some kv2 =>
                  match sanitize_lines log with
                  | SErr e => SErr e
                  | SOk l => SOk (mkSinks (JDict kv2) l l)
                  end
              end
          end
      | SOk other => SOk (mkSinks other log log)      (* unreachable: sanitize keeps the constructor *)
      end
    else SOk (mkSinks (JDict config) log log).

  (* ---------------- the property: no absolute path of the host in a string ---------------- *)
  (* a '/' starts an absolute path when it is at the start of the text or follows a character that
     cannot belong to a file name written before it *)
  Definition name_char (c : Z) : bool :=
    ((48 <=? c) && (c <=? 57)) || ((65 <=? c) && (c <=? 90)) || ((97 <=? c) && (c <=? 122)) ||
    (c =? 95) || (c =? 45) || (c =? 46) || (c =? 126) || (c =? SLASH) || (127 <? c).
  Definition boundary (pre : str) : bool :=
    match rev pre with [] => true | c :: _ => negb (name_char c) end.
  (* sub, found in s after pre, is the absolute path of something that exists (other than "/") *)
  Definition leaks (s : str) : Prop :=
    exists pre sub post,
      s = pre ++ sub ++ post /\ boundary pre = true /\ hd_error sub = Some SLASH /\
      p_parts (parse_path sub) <> [] /\ ex (parse_path sub) = true.
End Sanitize.


(* ---------------- finite tables for the extracted model ---------------- *)
Definition ex_of (fs : list path) (p : path) : bool := existsb (path_eqb p) fs.
Definition resolve_of (tbl : list (path * path)) (p : path) : path :=
  match find (fun pq => path_eqb p (fst pq)) tbl with Some pq => snd pq | None => p end.

(* ---------------- wire ---------------- *)
Definition sx_str : sx -> option str := sx_LZ.
Definition sx_path (x : sx) : option path :=
  match x with
  | L [r; ps] => match sx_nat r, sx_list sx_str ps with
                 | Some r', Some ps' => Some (mkPath r' ps') | _, _ => None end
  | _ => None
  end.
Definition of_path (p : path) : sx := L [of_nat (p_root p); of_LLZ (p_parts p)].

Fixpoint sx_jv (fuel : nat) (x : sx) : option jv :=
  match fuel with
  | O => None
  | S k =>
      match x with
      | L [I 0; s] => option_map JStr (sx_str s)
      | L [I 1; L l] => option_map JList (opt_all (map (sx_jv k) l))
      | L [I 2; L l] =>
          option_map JDict
            (opt_all (map (fun e => match e with
                                    | L [a; b] => match sx_str a, sx_jv k b with
                                                  | Some a', Some b' => Some (a', b') | _, _ => None end
                                    | _ => None end) l))
      | L [I 3; I t] => Some (JOther t)
      | _ => None
      end
  end.
Fixpoint of_jv (v : jv) : sx :=
  match v with
  | JStr s => L [I 0; of_LZ s]
  | JList l => L [I 1; L (map of_jv l)]
  | JDict kv => L [I 2; L (map (fun e => L [of_LZ (fst e); of_jv (snd e)]) kv)]
  | JOther t => L [I 3; I t]
  end.
Fixpoint sx_depth (x : sx) : nat :=
  match x with
  | I _ => 1%nat
  | L l => S (fold_right (fun e acc => Nat.max (sx_depth e) acc) 0%nat l)
  end.
Definition of_sres {A} (f : A -> sx) (r : sres A) : sx :=
  match r with SOk a => sx_ok (f a) | SErr e => sx_err e end.

Definition sx_world (fs tbl mp : sx) : option (list path * list (path * path) * path) :=
  match sx_list sx_path fs, sx_list (sx_pair sx_path sx_path) tbl, sx_path mp with
  | Some fs', Some tbl', Some mp' => Some (fs', tbl', mp')
  | _, _, _ => None
  end.

(* tag 2001: (existing-paths resolve-table mapper value) -> sanitize_paths(value) *)
Definition run_sanitize (x : sx) : sx :=
  match x with
  | L [fs; tbl; mp; v] =>
      match sx_world fs tbl mp, sx_jv (sx_depth v) v with
      | Some (fs', tbl', mp'), Some v' => of_sres of_jv (sanitize (ex_of fs') (resolve_of tbl') mp' v')
      | _, _ => sx_bad
      end
  | _ => sx_bad
  end.
(* tag 2002: (existing-paths resolve-table mapper cloud_safe config log) -> (config log log-file) *)
Definition run_run_sinks (x : sx) : sx :=
  match x with
  | L [fs; tbl; mp; cs; cfg; lg] =>
      match sx_world fs tbl mp, sx_bool cs, sx_jv (sx_depth cfg) cfg, sx_list sx_str lg with
      | Some (fs', tbl', mp'), Some cs', Some (JDict kv), Some lg' =>
          of_sres (fun s => L [of_jv (s_config s); of_LLZ (s_log s); of_LLZ (s_log_file s)])
                  (run_sinks (ex_of fs') (resolve_of tbl') mp' cs' kv lg')
      | _, _, _, _ => sx_bad
      end
  | _ => sx_bad
  end.
(* tag 2003: string -> str.split() *)
Definition run_split (x : sx) : sx :=
  match sx_str x with Some s => sx_ok (of_LLZ (split s)) | None => sx_bad end.
(* tag 2004: list of words -> (root parts str name) of _word_to_path(word) *)
Definition run_word_to_path (x : sx) : sx :=
  match sx_list sx_str x with
  | Some ws => sx_ok (of_list (fun w => let p := word_to_path w in
                                        L [of_path p; of_LZ (path_str p); of_LZ (path_name p)]) ws)
  | None => sx_bad
  end.
