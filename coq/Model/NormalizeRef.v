(* The REAL indexing between the query preparation (Model/Normalize.v, C07), the marker cache
   (Model/Markers.v, C08) and the reference side (Model/RefSide.v, C18).

   Model/NormalizeVote.v reads the query row of a cell at a parent through two free parameters:
   `lists` (the per-parent marker lists handed to prepare_query) and `pidx` (which of the
   prepared matrices belongs to which parent).  Here both are DERIVED from the marker cache the
   way matching.assemble_query_data derives them:

       query_idx      = cache[parent]['query']                         (c_groups c)
       query_markers  = [all_query_identifiers[ii] for ii in query_idx]  (names_at qg qi)
       query_data     = full_query_data.downsample_genes(query_markers)

   so the list of parent p is names_at qg (query indices of p's group) and the matrix of parent
   p is the one at the position of p's group.  Definitions only; also the float-summation
   witness of Props/C07.v (fsum_lr, rnd24). *)
From Coq Require Import ZArith List Bool.
From CTM Require Import Base.Sx Base.SortX Model.Tree Model.Normalize Model.Markers.
Import ListNotations.
Open Scope Z_scope.

(* the per-parent query-marker lists, one per group of the cache, in the order of the groups;
   None = IndexError in all_query_identifiers[ii] *)
Definition cache_lists (c : cache) (qg : list gene) : option (list (list gene)) :=
  opt_all (map (fun g => names_at qg (snd (snd g))) (c_groups c)).

(* position of the (first) group keyed p -- the same entry tget finds *)
Fixpoint group_index {X} (p : pkey) (gs : list (pkey * X)) : option nat :=
  match gs with
  | [] => None
  | (k, _) :: r => if pkey_eqb p k then Some O else option_map S (group_index p r)
  end.

(* pidx of Model/NormalizeVote.v, instantiated: a parent without a group points past the end
   (q_of then reads the empty row; the real code raises 'parent group not in marker cache') *)
Definition pidx_of (c : cache) (p : pkey) : nat :=
  match group_index p (c_groups c) with Some i => i | None => length (c_groups c) end.

(* the matrix of normalised values of ALL query genes: what run_type_assignment_on_h5ad_cpu holds
   after to_log2CPM_in_place (raw input) or as read (declared log2CPM) *)
Definition normalised_rows (R : Type) (lg : frac -> R) (inp : qinput R) : list (list R) :=
  match inp with
  | DeclRaw d => map (log2cpm_row R lg) d
  | DeclNorm d => d
  end.

(* ---- float summation (witness only; the theorems of C07 are about the exact rsum) ----
   np.sum(axis=1) of one row in a floating-point storage type adds the entries in an order fixed by
   the COLUMN order (plainly left to right for rows of fewer than 8 entries, numpy's pairwise blocks
   for longer ones) and rounds every partial sum to the type.  fsum_lr is the left-to-right case;
   rnd is the rounding function of the type on non-negative integers. *)
Definition fsum_lr (rnd : Z -> Z) (row : list Z) : Z := fold_left (fun acc x => rnd (acc + x)) row 0.

(* binary32 on the integers 0 .. 2^25: exact up to 2^24, then spacing 2 with ties to the even
   significand (above 2^25 the spacing grows further; not needed by the witness) *)
Definition two24 : Z := 16777216.
Definition rnd24 (z : Z) : Z :=
  if z <=? two24 then z
  else if Z.even z then z
  else if Z.even (z / 2) then 2 * (z / 2) else 2 * (z / 2 + 1).
