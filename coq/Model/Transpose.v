(* Model of the on-disk transposition of a compressed sparse matrix:
     utils/csc_to_csr.py          : _calculate_csr_indptr, transpose_sparse_matrix_on_disk,
                                    csc_to_csr_on_disk
     utils/csc_to_csr_parallel.py : _transpose_sparse_matrix_on_disk_v2,
                                    _transpose_subset_of_indices
     anndata_iterator.py          : AnnDataRowIterator._initialize_as_csc
     utils/anndata_utils.py       : pivot_csr_h5ad (= the parallel transposition of a CSR file)
   The input is called CSC throughout (ptr = one pointer per column + 1, idx = row
   of each stored entry); the same code transposes CSR to CSC.
   Budgets (elements_at_a_time E, load chunk size L of the fill pass, load chunk
   size Lc of the count pass) are parameters: the code derives them from max_gb and
   enforces >= 100; the model accepts every value >= 1.
   Definitions only. *)
From Coq Require Import List Arith ZArith Bool.
From CTM Require Import Base.Sx Model.Sparse.
Import ListNotations.

Record entry : Type := { e_minor : nat; e_major : nat; e_val : Z }.

(* np.searchsorted(csc_indptr, k, side='right') - 1 on a sorted pointer array *)
Definition major_of (p : list nat) (k : nat) : nat :=
  length (filter (fun x => x <=? k) p) - 1.

(* stored entry k = (indices[k], column of k, data[k]); k < length idx by construction *)
Definition all_entries (m : comp) (use_data : bool) : list entry :=
  map (fun k => {| e_minor := nth k (idx m) 0;
                   e_major := major_of (ptr m) k;
                   e_val := if use_data then nth k (dat m) 0%Z else 0%Z |})
      (seq 0 (length (idx m))).

Definition in_slice (lo hi : nat) (e : entry) : bool :=
  (lo <=? e_minor e) && (e_minor e <? hi).

Definition shift_minor (lo : nat) (e : entry) : entry :=
  {| e_minor := e_minor e - lo; e_major := e_major e; e_val := e_val e |}.

(* row_chunk = row_chunk[indices_filter]; row_chunk -= indices_slice[0] *)
Definition apply_slice (sl : option (nat * nat)) (es : list entry) : list entry :=
  match sl with
  | None => es
  | Some s => map (shift_minor (fst s)) (filter (in_slice (fst s) (snd s)) es)
  end.

Definition count_of (r : nat) (l : list nat) : nat := length (filter (Nat.eqb r) l).

(* the values of np.unique(l) lying in [a, a+n): sorted, distinct *)
Definition uniq_in (a n : nat) (l : list nat) : list nat :=
  filter (fun r => existsb (Nat.eqb r) l) (seq a n).

(* ---------------------------------------------------------------- pass 1 *)
(* one load chunk of _calculate_csr_indptr:
   n_non_zero += len(chunk); cumulative_count[unq_val] += unq_ct *)
Definition count_chunk (sl : option (nat * nat)) (st : list nat * nat) (chunk : list entry)
  : list nat * nat :=
  let rows := map e_minor (apply_slice sl chunk) in
  (fold_left (fun cn r => upd cn r (nth r cn 0 + count_of r rows))
             (uniq_in 0 (length (fst st)) rows) (fst st),
   snd st + length rows).

Definition chunks_of {A} (l : list A) (c : nat) : list (list A) :=
  map (fun ch => slice l (fst ch) (snd ch)) (range_chunks (length l) c).

Definition calc_indptr (es : list entry) (n_out : nat) (sl : option (nat * nat)) (Lc : nat)
  : list nat * nat :=
  let st := fold_left (count_chunk sl) (chunks_of es Lc) (repeat 0 n_out, 0) in
  (0 :: cumsum_from 0 (fst st), snd st).

(* ---------------------------------------------------------------- pass 2 *)
(* for candidate in range(r0+1, len(csr_indptr)):
       if csr_indptr[candidate]-e0 >= elements_at_a_time or candidate == len-1: r1 = candidate *)
Definition next_block (iptr : list nat) (E r0 : nat) : option nat :=
  let e0 := nth r0 iptr 0 in
  let lst := length iptr - 1 in
  find (fun c => (E <=? nth c iptr 0 - e0) || (c =? lst)) (seq (S r0) (length iptr - S r0)).

(* buf[pos : pos+len(xs)] = xs  (in range; the flag b_ok records that it was) *)
Definition put {A} (buf : list A) (pos : nat) (xs : list A) : list A :=
  firstn pos buf ++ xs ++ skipn (pos + length xs) buf.

Record bstate : Type := { b_next : list nat; b_idx : list nat; b_dat : list Z; b_ok : bool }.

(* one major slice (row r of the output) of one load chunk *)
Definition fill_row (es : list entry) (d0 : nat) (st : bstate) (r : nat) : bstate :=
  let grp := sort_by e_major (filter (fun e => e_minor e =? r) es) in
  let b0 := nth r (b_next st) 0 - d0 in
  {| b_next := upd (b_next st) r (nth r (b_next st) 0 + length grp);
     b_idx := put (b_idx st) b0 (map e_major grp);
     b_dat := put (b_dat st) b0 (map e_val grp);
     b_ok := b_ok st && (b0 + length grp <=? length (b_idx st)) |}.

(* one load chunk [i0,i1) of the block [r0,r1) *)
Definition fill_chunk (sl : option (nat * nat)) (r0 r1 d0 : nat) (st : bstate) (chunk : list entry)
  : bstate :=
  let es := apply_slice sl chunk in
  fold_left (fill_row es d0) (uniq_in r0 (r1 - r0) (map e_minor es)) st.

Definition fill_block (chunks : list (list entry)) (sl : option (nat * nat))
           (iptr nxt : list nat) (r0 r1 : nat) : bstate :=
  let d0 := nth r0 iptr 0 in
  let d1 := nth r1 iptr 0 in
  fold_left (fill_chunk sl r0 r1 d0) chunks
            {| b_next := nxt; b_idx := repeat 0 (d1 - d0); b_dat := repeat 0%Z (d1 - d0);
               b_ok := true |}.

(* the `while True` loop over blocks of major slices *)
Fixpoint fill_blocks (fuel : nat) (chunks : list (list entry)) (sl : option (nat * nat)) (E : nat)
         (iptr nxt : list nat) (r0 : nat) (oi : list nat) (od : list Z)
  : res (list nat * list Z * list (nat * nat)) :=
  match next_block iptr E r0 with
  | None => Ok (oi, od, [])
  | Some r1 =>
      match fuel with
      | O => Err EFuel
      | S f =>
          let d0 := nth r0 iptr 0 in
          let d1 := nth r1 iptr 0 in
          let st := fill_block chunks sl iptr nxt r0 r1 in
          if b_ok st && (d1 <=? length oi) then
            bind (fill_blocks f chunks sl E iptr (b_next st) r1
                              (put oi d0 (b_idx st)) (put od d0 (b_dat st)))
                 (fun r => Ok (fst (fst r), snd (fst r), (r0, r1) :: snd r))
          else Err EValue
      end
  end.

Record tresult : Type :=
  { t_out : comp; t_blocks : list (nat * nat);
    t_count_chunks : list (nat * nat); t_load_chunks : list (nat * nat) }.

Definition n_out_of (indices_max : nat) (sl : option (nat * nat)) : nat :=
  match sl with Some s => snd s - fst s | None => indices_max end.

(* transpose_sparse_matrix_on_disk *)
Definition transpose (m : comp) (use_data : bool) (indices_max : nat) (sl : option (nat * nat))
           (E L Lc : nat) : res tresult :=
  if (L =? 0) || (Lc =? 0) then Err EValue else            (* range() with step 0 *)
  let n_out := n_out_of indices_max sl in
  if use_data && negb (length (dat m) =? length (idx m)) then Err EIndex else
  if match sl with
     | None => existsb (fun r => n_out <=? r) (idx m)      (* cumulative_count[unq_val] *)
     | Some _ => false
     end then Err EIndex else
  let es := all_entries m use_data in
  let ci := calc_indptr es n_out sl Lc in
  let iptr := fst ci in
  let nnz := snd ci in
  (* 'data' and 'indices' are created with chunks=None when n_non_zero = 0: an empty
     slice gives empty arrays beside the all-zero pointer array *)
  bind (fill_blocks (S n_out) (chunks_of es L) sl E iptr iptr 0 (repeat 0 nnz) (repeat 0%Z nnz))
       (fun r =>
  Ok {| t_out := {| ptr := iptr; idx := fst (fst r);
                    dat := if use_data then snd (fst r) else [] |};
        t_blocks := snd r;
        t_count_chunks := range_chunks (length es) Lc;
        t_load_chunks := range_chunks (length es) L |}).

(* data_group[i0:i1] is read only for the load chunks holding an entry of the block *)
Definition data_reads (m : comp) (sl : option (nat * nat)) (L : nat) (blocks : list (nat * nat))
  : list (list (nat * nat)) :=
  let es := all_entries m false in
  map (fun b => filter (fun ch =>
                  existsb (fun e => (fst b <=? e_minor e) && (e_minor e <? snd b))
                          (apply_slice sl (slice es (fst ch) (snd ch))))
                (range_chunks (length es) L)) blocks.

(* ---------------------------------------------------------------- parallel version *)
(* _transpose_sparse_matrix_on_disk_v2: slices of ceil(indices_max / n_processors)
   minor indices, one worker each, joined in range order *)
Definition transpose_v2 (m : comp) (use_data : bool) (indices_max n_proc : nat) (E L Lc : nat)
  : res comp :=
  if n_proc =? 0 then Err EValue else                      (* max_gb / n_processors *)
  (* indices_chunk_size = max(1, ceil(indices_max / n_processors)) *)
  let chunk := Nat.max 1 ((indices_max + n_proc - 1) / n_proc) in
  bind (res_map (fun s => match transpose m use_data indices_max (Some s) E L Lc with
                          | Ok t => Ok (t_out t)
                          | Err _ => Err EWorker
                          end) (range_chunks indices_max chunk)) (fun pieces =>
  (* 'indices' and 'data' have indices_size entries (chunks=None when that is 0) *)
  let indices_size := sum_list (map (fun p => length (idx p)) pieces) in
  let r := merge_from 0 pieces in
  Ok {| ptr := fst r ++ [indices_size]; idx := fst (snd r); dat := snd (snd r) |}).

(* AnnDataRowIterator on a CSC matrix: csc_to_csr_on_disk, then the CSR iterator *)
Definition iterate_csc (m : comp) (n_rows n_cols c E L Lc : nat)
  : res (list (nat * nat * dense)) :=
  bind (transpose m true n_rows None E L Lc) (fun t => iterate_csr (t_out t) n_rows n_cols c).

Definition csc_get_batch (m : comp) (rows : list nat) (n_rows n_cols E L Lc : nat) : res dense :=
  bind (transpose m true n_rows None E L Lc) (fun t => csr_get_batch rows n_cols (t_out t)).

(* ---------------------------------------------------------------- specification *)
(* the abstract transpose: entries of the slice grouped by (renumbered) minor index,
   in storage order inside each group *)
Definition out_row (es : list entry) (r : nat) : list entry :=
  filter (fun e => e_minor e =? r) es.
Definition spec_entries (es : list entry) (n_out : nat) : list entry :=
  concat (map (out_row es) (seq 0 n_out)).
Definition transpose_spec (m : comp) (use_data : bool) (indices_max : nat)
           (sl : option (nat * nat)) : comp :=
  let es := apply_slice sl (all_entries m use_data) in
  let n_out := n_out_of indices_max sl in
  {| ptr := 0 :: cumsum_from 0 (map (fun r => length (out_row es r)) (seq 0 n_out));
     idx := map e_major (spec_entries es n_out);
     dat := if use_data then map e_val (spec_entries es n_out) else [] |}.

(* ---------------------------------------------------------------- wire *)
Definition clamp (z : Z) (bound : nat) : nat := Z.to_nat (Z.max 0 (Z.min z (Z.of_nat bound))).

Definition sx_slice (x : sx) : option (option (nat * nat)) :=
  match x with
  | L [] => Some None
  | L [a; b] => match sx_nat a, sx_nat b with
                | Some a', Some b' => Some (Some (a', b'))
                | _, _ => None
                end
  | _ => None
  end.

Definition of_tresult (m : comp) (sl : option (nat * nat)) (L0 : nat) (t : tresult) : sx :=
  L [of_comp (t_out t); of_ranges (t_blocks t); of_ranges (t_count_chunks t);
     of_ranges (t_load_chunks t); of_list of_ranges (data_reads m sl L0 (t_blocks t))].

(* budgets arrive as integers of any size; beyond the number of stored entries they
   all behave alike, so they are clamped to length idx + 1 before becoming unary *)
(* 1301: (comp use_data indices_max slice? E L Lc) -> transpose_sparse_matrix_on_disk *)
Definition run_transpose (x : sx) : sx :=
  match x with
  | L [m; ud; im; sl; e; l; lc] =>
      match sx_comp m, sx_bool ud, sx_nat im, sx_slice sl, sx_Z e, sx_Z l, sx_Z lc with
      | Some m', Some ud', Some im', Some sl', Some e', Some l', Some lc' =>
          let b := S (length (idx m')) in
          of_res (of_tresult m' sl' (clamp l' b))
                 (transpose m' ud' im' sl' (clamp e' b) (clamp l' b) (clamp lc' b))
      | _, _, _, _, _, _, _ => sx_bad
      end
  | _ => sx_bad
  end.

(* 1302: (comp use_data indices_max n_processors E L Lc) -> transpose_sparse_matrix_on_disk_v2 *)
Definition run_transpose_v2 (x : sx) : sx :=
  match x with
  | L [m; ud; im; np; e; l; lc] =>
      match sx_comp m, sx_bool ud, sx_nat im, sx_nat np, sx_Z e, sx_Z l, sx_Z lc with
      | Some m', Some ud', Some im', Some np', Some e', Some l', Some lc' =>
          let b := S (length (idx m')) in
          of_res of_comp (transpose_v2 m' ud' im' np' (clamp e' b) (clamp l' b) (clamp lc' b))
      | _, _, _, _, _, _, _ => sx_bad
      end
  | _ => sx_bad
  end.

(* 1313: (comp indices_max slice? Lc) -> _calculate_csr_indptr = (indptr, n_non_zero) *)
Definition run_calc_indptr (x : sx) : sx :=
  match x with
  | L [m; im; sl; lc] =>
      match sx_comp m, sx_nat im, sx_slice sl, sx_Z lc with
      | Some m', Some im', Some sl', Some lc' =>
          let b := S (length (idx m')) in
          if clamp lc' b =? 0 then sx_err (err_code EValue) else
          if match sl' with
             | None => existsb (fun r => im' <=? r) (idx m')
             | Some _ => false
             end then sx_err (err_code EIndex) else
          let ci := calc_indptr (all_entries m' false) (n_out_of im' sl') sl' (clamp lc' b) in
          sx_ok (L [of_Lnat (fst ci); of_nat (snd ci)])
      | _, _, _, _ => sx_bad
      end
  | _ => sx_bad
  end.

(* 503: (comp n_rows n_cols chunk E L Lc) -> blocks of AnnDataRowIterator on a CSC matrix *)
Definition run_iter_csc (x : sx) : sx :=
  match x with
  | L [m; nr; nc; c; e; l; lc] =>
      match sx_comp m, sx_nat nr, sx_nat nc, sx_nat c, sx_Z e, sx_Z l, sx_Z lc with
      | Some m', Some nr', Some nc', Some c', Some e', Some l', Some lc' =>
          let b := S (length (idx m')) in
          of_res of_blocks (iterate_csc m' nr' nc' c' (clamp e' b) (clamp l' b) (clamp lc' b))
      | _, _, _, _, _, _, _ => sx_bad
      end
  | _ => sx_bad
  end.

(* 510: (comp rows n_rows n_cols E L Lc) -> get_batch of AnnDataRowIterator on a CSC matrix *)
Definition run_get_batch_csc (x : sx) : sx :=
  match x with
  | L [m; rows; nr; nc; e; l; lc] =>
      match sx_comp m, sx_Lnat rows, sx_nat nr, sx_nat nc, sx_Z e, sx_Z l, sx_Z lc with
      | Some m', Some rows', Some nr', Some nc', Some e', Some l', Some lc' =>
          let b := S (length (idx m')) in
          of_res of_dense (csc_get_batch m' rows' nr' nc' (clamp e' b) (clamp l' b) (clamp lc' b))
      | _, _, _, _, _, _, _ => sx_bad
      end
  | _ => sx_bad
  end.
