(* FsModel — C19: a file system as a finite map and an ACCEPTOR for the trace of
   file operations of one pipeline-stage run (what `strace` shows of
   cli/from_specified_markers.py:run_mapping, precompute_summary_stats_from_h5ad,
   find_markers_for_all_taxonomy_pairs, create_marker_gene_lookup_from_ref_list).

   Paths are lists of integer components (the harness renames every path component
   to an integer).  There are NO SYMBOLIC LINKS among the modelled paths: a path is what
   pathlib.Path(x).resolve() gives, every operation acts on the entry it names.  (Real code on
   a symbolic link differs: exists() and open() follow a link, unlink() removes the link
   itself -- run_mapping's probe on a requested output that is a dangling link leaves 'junk'
   at the link target: finding F30, harness/props/c19.py history_symlink.)
   The file system maps a path to (kind, content id).  A run is
   described by its declared inputs, declared outputs, scratch root, query file and
   whether results are to be stored in the query file (obsm_key set).

   The acceptor's state is (fs, created, fresh_dirs, owned, new, names, done) — DESIGN A.7:
     created     paths that exist now and were created by this run
     fresh_dirs  directories created by this run (with a name absent before)
     owned       declared outputs this run has created or truncated at least once
     new         declared outputs that were ABSENT when this run created them (and that
                 it has not removed since): the only declared outputs it may remove again
     names       the names this run has made directly in the scratch root so far
   Rules (error codes in brackets):
     OpenR p        p is an input or was created by this run                      [1]
     OpenW p        (no O_CREAT) p was created by this run, or p is the query
                    file and obsm_key is set                                      [2]
     Create p t     (O_CREAT; t = O_TRUNC) own file: reopened; declared output:
                    truncating, or already owned (appending to a file left by an
                    earlier run is [11]); otherwise only at a fresh location:
                    directly in the scratch root or in a fresh directory, name
                    absent before                                                 [3]
     Mkdir p        only at a fresh location, name absent before                  [3]
     Unlink/Rmdir   only what this run created                                    [6]
                    ... and a declared output only if it was ABSENT when this run
                    created it (run_mapping's probe `if not pth.exists(): write
                    'junk'; unlink`): an output that an earlier run left is
                    overwritten, never removed                                    [13]
     Rename p q     p own file (for a declared output: as Unlink [13]); q own file,
                    declared output or fresh location                             [3,6]
                    (directories are never renamed by the stages: [10])
     ListDir p      only a fresh directory of this run                            [5]
     Stat p r       an OBSERVATION without effect (stat / lstat / access / exists() /
                    is_file() / opening a directory / a call that failed with ENOENT or
                    EEXIST); r is what the run was told: absent, file, directory, or
                    "exists" (kind not told).  Allowed on the declared paths (scratch
                    root, query, inputs, outputs) and their ancestors, and on everything
                    at or below a name this run itself made in the scratch root (also
                    after it removed it again).  Anything else is an entry -- or the
                    absence of an entry -- of the shared scratch/output directories that
                    this run did not make: a run that looks there can depend on what an
                    earlier run left                                              [12]
                    (r contradicts the model's file system: [4])
     Return ok      last operation; when ok, or when the stage promises to clean
                    up after an error (mapping), nothing created under scratch
                    may be left                                                   [7]
     an operation impossible in the model's file system (the harness' snapshot or
     parser is wrong)                                                             [4]
     operation after Return [8]; trace without Return [9].

   The content ids that Create / OpenW write are PART OF THE TRACE (the harness numbers the
   writes): the acceptor constrains WHERE a run reads, looks and writes, not WHAT it writes.
   That what is written is computed from the inputs only is data flow inside the Python
   process; it is covered by the tie (digests of the outputs across histories), not here.

   PROGRAMS (bottom of the file): a trace is what ONE run did on ONE file system.  A
   program is a function from the history of observations (what its OpenR / ListDir /
   Stat operations returned) to its next operation; `prun` runs it on a file system
   through the acceptor and records the trace.  Stale independence is stated for
   programs (Props/C19.v: c19_stale_independence_program).
   Definitions only. *)
From Coq Require Import ZArith List Bool.
From CTM Require Import Base.Sx.
Import ListNotations.
Open Scope Z_scope.

Definition path := list Z.

(* strip d p = Some r  <->  p = d ++ r *)
Fixpoint strip (d p : path) : option path :=
  match d with
  | [] => Some p
  | a :: d' => match p with
               | [] => None
               | b :: p' => if a =? b then strip d' p' else None
               end
  end.

Definition path_eqb (p q : path) : bool :=
  match strip p q with Some [] => true | _ => false end.
Definition is_prefix (d p : path) : bool :=
  match strip d p with Some _ => true | None => false end.
(* p lies strictly below d *)
Definition under (d p : path) : bool :=
  match strip d p with Some (_ :: _) => true | _ => false end.
(* p is an immediate child of d *)
Definition child_of (d p : path) : bool :=
  match strip d p with Some [_] => true | _ => false end.

Definition mem (p : path) (l : list path) : bool := existsb (path_eqb p) l.
Definition add (p : path) (l : list path) : list path := if mem p l then l else p :: l.
Definition del (p : path) (l : list path) : list path :=
  filter (fun q => negb (path_eqb p q)) l.

Inductive kind := KFile | KDir.
Definition entry := (kind * Z)%type.
Definition fs := list (path * entry).

Fixpoint lookup (f : fs) (p : path) : option entry :=
  match f with
  | [] => None
  | (q, e) :: t => if path_eqb q p then Some e else lookup t p
  end.
Definition remove (p : path) (f : fs) : fs :=
  filter (fun kv => negb (path_eqb (fst kv) p)) f.
Definition set (p : path) (e : entry) (f : fs) : fs := (p, e) :: remove p f.
Definition has_child (f : fs) (d : path) : bool :=
  existsb (fun kv => under d (fst kv)) f.

Record config := {
  c_inputs : list path;
  c_outputs : list path;
  c_scratch : path;
  c_query : path;
  c_obsm : bool;       (* obsm_key set: results are also stored in the query file *)
  c_strict : bool      (* the stage promises an empty scratch also after an error (mapping) *)
}.

Record bk := {
  b_created : list path;
  b_dirs : list path;
  b_owned : list path;
  b_new : list path;
  b_names : list Z;
  b_done : bool
}.
Definition bk0 : bk :=
  {| b_created := []; b_dirs := []; b_owned := []; b_new := []; b_names := []; b_done := false |}.

(* what an observation tells: nothing there, a file, a directory, or just "something" *)
Inductive probe := PAbsent | PFile | PDir | PExists.

Inductive op :=
| OpenR (p : path)
| OpenW (p : path) (cid : Z)
| Create (p : path) (trunc : bool) (cid : Z)
| Mkdir (p : path)
| Unlink (p : path)
| Rmdir (p : path)
| Rename (p q : path)
| ListDir (p : path)
| Return (ok : bool)
| Stat (p : path) (r : probe).

Inductive res (A : Type) := Ok (a : A) | Err (code : Z).
Arguments Ok {A} a.
Arguments Err {A} code.

(* the query file is writable only when obsm_key is set *)
Definition wq (c : config) (p : path) : bool := c_obsm c && path_eqb p (c_query c).

(* a location where this run may make a new name: directly in the scratch root or
   directly in a directory this run created *)
Definition creatable (c : config) (b : bk) (p : path) : bool :=
  child_of (c_scratch c) p || existsb (fun d => child_of d p) (b_dirs b).

Definition with_created (b : bk) (l : list path) : bk :=
  {| b_created := l; b_dirs := b_dirs b; b_owned := b_owned b; b_new := b_new b;
     b_names := b_names b; b_done := b_done b |}.
Definition with_owned (b : bk) (l : list path) : bk :=
  {| b_created := b_created b; b_dirs := b_dirs b; b_owned := l; b_new := b_new b;
     b_names := b_names b; b_done := b_done b |}.
Definition with_dirs (b : bk) (l : list path) : bk :=
  {| b_created := b_created b; b_dirs := l; b_owned := b_owned b; b_new := b_new b;
     b_names := b_names b; b_done := b_done b |}.
Definition with_new (b : bk) (l : list path) : bk :=
  {| b_created := b_created b; b_dirs := b_dirs b; b_owned := b_owned b; b_new := l;
     b_names := b_names b; b_done := b_done b |}.
Definition with_names (b : bk) (l : list Z) : bk :=
  {| b_created := b_created b; b_dirs := b_dirs b; b_owned := b_owned b; b_new := b_new b;
     b_names := l; b_done := b_done b |}.
Definition finished (b : bk) : bk :=
  {| b_created := b_created b; b_dirs := b_dirs b; b_owned := b_owned b; b_new := b_new b;
     b_names := b_names b; b_done := true |}.

(* names made directly in the scratch root *)
Definition top_name (c : config) (p : path) : list Z :=
  match strip (c_scratch c) p with Some [n] => [n] | _ => [] end.
Definition named (c : config) (b : bk) (p : path) : bk := with_names b (top_name c p ++ b_names b).

Definition in_cone (c : config) (N : list Z) (p : path) : bool :=
  existsb (fun n => is_prefix (c_scratch c ++ [n]) p) N.

(* the declared paths of a run *)
Definition declared (c : config) : list path := c_query c :: c_inputs c ++ c_outputs c.
(* what a run may look at without reading it: a declared path (or the scratch root) or an
   ancestor of one ... *)
Definition kregion (c : config) (p : path) : bool :=
  existsb (is_prefix p) (c_scratch c :: declared c).
(* ... or anything at or below a name it made itself in the scratch root *)
Definition statable (c : config) (b : bk) (p : path) : bool :=
  kregion c p || in_cone c (b_names b) p.

Definition kind_of (e : option (kind * Z)) : probe :=
  match e with None => PAbsent | Some (KFile, _) => PFile | Some (KDir, _) => PDir end.
(* is the answer r consistent with what is there (k = kind_of (lookup f p))? *)
Definition probe_ok (k r : probe) : bool :=
  match r, k with
  | PAbsent, PAbsent | PFile, PFile | PDir, PDir => true
  | PExists, PAbsent => false
  | PExists, _ => true
  | _, _ => false
  end.

(* a declared output that is ABSENT when this run creates it may be removed again *)
Definition new_out (e : option (kind * Z)) (p : path) (l : list path) : list path :=
  match e with None => add p l | Some _ => l end.
(* may this run remove its own path p? not a declared output that was there before *)
Definition removable (c : config) (b : bk) (p : path) : bool :=
  negb (mem p (c_outputs c)) || mem p (b_new b).

Definition is_file (e : option entry) : bool :=
  match e with Some (KFile, _) => true | _ => false end.
Definition is_dir (e : option entry) : bool :=
  match e with Some (KDir, _) => true | _ => false end.

(* the effect of one operation on the file system *)
Inductive eff :=
| ENone
| ESet (p : path) (e : entry)
| EDel (p : path)
| EMove (p q : path) (e : entry).

Definition apply (e : eff) (f : fs) : fs :=
  match e with
  | ENone => f
  | ESet p x => set p x f
  | EDel p => remove p f
  | EMove p q x => set q x (remove p f)
  end.

(* decide: is the operation allowed, what does it do, how does the book-keeping change *)
Definition decide (c : config) (f : fs) (b : bk) (o : op) : res (eff * bk) :=
  if b_done b then Err 8 else
  match o with
  | OpenR p =>
      if mem p (c_inputs c) || mem p (b_created b) then
        if is_file (lookup f p) then Ok (ENone, b) else Err 4
      else Err 1
  | OpenW p cid =>
      if mem p (b_created b) || wq c p then
        if is_file (lookup f p) then Ok (ESet p (KFile, cid), b) else Err 4
      else Err 2
  | Create p trunc cid =>
      if mem p (b_created b) then
        if is_file (lookup f p) then Ok (ESet p (KFile, cid), b) else Err 4
      else if mem p (c_outputs c) then
        if trunc || mem p (b_owned b) then
          Ok (ESet p (KFile, cid),
              with_new (with_owned (with_created b (add p (b_created b))) (add p (b_owned b)))
                       (new_out (lookup f p) p (b_new b)))
        else Err 11
      else if creatable c b p then
        match lookup f p with
        | None => Ok (ESet p (KFile, cid), named c (with_created b (add p (b_created b))) p)
        | Some _ => Err 3
        end
      else Err 3
  | Mkdir p =>
      if mem p (c_outputs c) then Err 3
      else if creatable c b p then
        match lookup f p with
        | None => Ok (ESet p (KDir, 0),
                      named c (with_dirs (with_created b (add p (b_created b))) (add p (b_dirs b))) p)
        | Some _ => Err 3
        end
      else Err 3
  | Unlink p =>
      if mem p (b_created b) then
        if is_file (lookup f p) then
          if removable c b p then
            Ok (EDel p, with_new (with_created b (del p (b_created b))) (del p (b_new b)))
          else Err 13
        else Err 4
      else Err 6
  | Rmdir p =>
      if mem p (b_dirs b) then
        if is_dir (lookup f p) then
          if has_child f p then Err 4
          else Ok (EDel p, with_dirs (with_created b (del p (b_created b))) (del p (b_dirs b)))
        else Err 4
      else Err 6
  | Rename p q =>
      if mem p (b_created b) then
        match lookup f p with
        | Some (KFile, cid) =>
            if path_eqb p q then Ok (ENone, b)
            else if removable c b p then
              if mem q (b_created b) then
                if is_file (lookup f q) then
                  Ok (EMove p q (KFile, cid),
                      with_new (with_created b (del p (b_created b))) (del p (b_new b)))
                else Err 4
              else if mem q (c_outputs c) then
                Ok (EMove p q (KFile, cid),
                    with_new (with_owned (with_created b (add q (del p (b_created b)))) (add q (b_owned b)))
                             (new_out (lookup f q) q (del p (b_new b))))
              else if creatable c b q then
                match lookup f q with
                | None => Ok (EMove p q (KFile, cid),
                              named c (with_new (with_created b (add q (del p (b_created b))))
                                                (del p (b_new b))) q)
                | Some _ => Err 3
                end
              else Err 3
            else Err 13
        | Some (KDir, _) => Err 10
        | None => Err 4
        end
      else Err 6
  | ListDir p =>
      if mem p (b_dirs b) then Ok (ENone, b) else Err 5
  | Return ok =>
      if ok || c_strict c then
        if forallb (fun p => negb (under (c_scratch c) p)) (b_created b ++ b_dirs b)
        then Ok (ENone, finished b) else Err 7
      else Ok (ENone, finished b)
  | Stat p r =>
      if statable c b p then
        if probe_ok (kind_of (lookup f p)) r then Ok (ENone, b) else Err 4
      else Err 12
  end.

Definition step (c : config) (f : fs) (b : bk) (o : op) : res (fs * bk) :=
  match decide c f b o with
  | Ok (e, b') => Ok (apply e f, b')
  | Err code => Err code
  end.

Inductive result := Accepted (f : fs) | Rejected (i : nat) (code : Z).

Fixpoint run (c : config) (f : fs) (b : bk) (t : list op) (i : nat) : result :=
  match t with
  | [] => if b_done b then Accepted f else Rejected i 9
  | o :: t' => match step c f b o with
               | Ok (f', b') => run c f' b' t' (S i)
               | Err e => Rejected i e
               end
  end.

Definition accept (c : config) (f : fs) (t : list op) : result := run c f bk0 t 0.

(* the same fold without the position counter, keeping the final book-keeping *)
Fixpoint exec (c : config) (f : fs) (b : bk) (t : list op) : res (fs * bk) :=
  match t with
  | [] => Ok (f, b)
  | o :: t' => match step c f b o with
               | Ok (f', b') => exec c f' b' t'
               | Err e => Err e
               end
  end.

(* names this trace makes directly in the scratch root *)
Definition op_fresh (c : config) (o : op) : list Z :=
  match o with
  | Create p _ _ | Mkdir p => top_name c p
  | Rename _ q => top_name c q
  | _ => []
  end.
Definition fresh_names (c : config) (t : list op) : list Z := flat_map (op_fresh c) t.

(* did the run end with a Return that obliges it to have cleaned up? *)
Definition must_be_clean (c : config) (t : list op) : bool :=
  existsb (fun o => match o with Return ok => ok || c_strict c | _ => false end) t.

(* ---- two runs sharing one file system ---- *)
Inductive result2 := Accepted2 (f : fs) | Rejected2 (i : nat) (who : bool) (code : Z).

Fixpoint run2 (c1 c2 : config) (f : fs) (b1 b2 : bk) (il : list (bool * op)) (i : nat) : result2 :=
  match il with
  | [] => if b_done b1 then (if b_done b2 then Accepted2 f else Rejected2 i false 9)
          else Rejected2 i true 9
  | (true, o) :: t => match step c1 f b1 o with
                      | Ok (f', b1') => run2 c1 c2 f' b1' b2 t (S i)
                      | Err e => Rejected2 i true e
                      end
  | (false, o) :: t => match step c2 f b2 o with
                       | Ok (f', b2') => run2 c1 c2 f' b1 b2' t (S i)
                       | Err e => Rejected2 i false e
                       end
  end.
Definition accept2 (c1 c2 : config) (f : fs) (il : list (bool * op)) : result2 :=
  run2 c1 c2 f bk0 bk0 il 0.

Definition proj (w : bool) (il : list (bool * op)) : list op :=
  map snd (filter (fun x => Bool.eqb (fst x) w) il).

(* what a run may look at / may change, given the names N it makes in the scratch root *)
Definition reads (c : config) (N : list Z) (p : path) : bool :=
  in_cone c N p || mem p (c_inputs c) || mem p (c_outputs c) || wq c p.
Definition writes (c : config) (N : list Z) (p : path) : bool :=
  in_cone c N p || mem p (c_outputs c) || wq c p.

(* nothing declared lies in the scratch directory *)
Definition outside_scratch (c : config) : bool :=
  forallb (fun p => negb (is_prefix (c_scratch c) p))
          (c_query c :: c_inputs c ++ c_outputs c).

Definition wlist (c : config) : list path :=
  c_outputs c ++ (if c_obsm c then [c_query c] else []).
Definition rlist (c : config) : list path :=
  c_inputs c ++ c_outputs c ++ (if c_obsm c then [c_query c] else []).

(* two runs may share scratch and output directories: same scratch root, different
   fresh names, and neither writes a declared file the other reads, writes or may look at
   (kregion: the declared paths of the other and their ancestors) *)
Definition compatb (c1 : config) (N1 : list Z) (c2 : config) (N2 : list Z) : bool :=
  path_eqb (c_scratch c1) (c_scratch c2)
  && forallb (fun n => negb (existsb (Z.eqb n) N2)) N1
  && forallb (fun p => negb (mem p (rlist c2)) && negb (kregion c2 p)) (wlist c1)
  && forallb (fun p => negb (mem p (rlist c1)) && negb (kregion c1 p)) (wlist c2)
  && outside_scratch c1 && outside_scratch c2.

(* ---- programs: the next operation as a function of what has been observed so far ---- *)
(* what an operation returns to the run that makes it *)
Inductive obs :=
| ONone                                (* an effect; nothing is learnt (it succeeded) *)
| OContent (e : option entry)          (* OpenR: what is read *)
| ONames (l : list Z)                  (* ListDir: the names in the directory, sorted *)
| OKind (k : probe).                   (* Stat: absent / file / directory *)

Fixpoint name_insert (x : Z) (l : list Z) : list Z :=
  match l with
  | [] => [x]
  | y :: t => if x <? y then x :: l else if x =? y then l else y :: name_insert x t
  end.
(* the names n with an entry at d ++ [n], ascending, each once *)
Definition listing (f : fs) (d : path) : list Z :=
  fold_right (fun kv acc => match strip d (fst kv) with Some [n] => name_insert n acc | _ => acc end) [] f.

Definition observe (f : fs) (o : op) : obs :=
  match o with
  | OpenR p => OContent (lookup f p)
  | ListDir p => ONames (listing f p)
  | Stat p _ => OKind (kind_of (lookup f p))
  | _ => ONone
  end.

(* the answer slot of a Stat is filled in by the file system, not by the program *)
Definition fill (f : fs) (o : op) : op :=
  match o with Stat p _ => Stat p (kind_of (lookup f p)) | _ => o end.

Definition program := list obs -> op.

(* run a program for at most `fuel` operations: (final fs, book-keeping, trace, observations);
   it stops after its Return; a refused operation refuses the run *)
Fixpoint prun (c : config) (pg : program) (fuel : nat) (f : fs) (b : bk) (h : list obs)
  : res (fs * bk * list op * list obs) :=
  match fuel with
  | O => Ok (f, b, [], h)
  | S n =>
      if b_done b then Ok (f, b, [], h) else
      let o := fill f (pg h) in
      match step c f b o with
      | Ok (f', b') =>
          match prun c pg n f' b' (h ++ [observe f o]) with
          | Ok (g, b2, t, h2) => Ok (g, b2, o :: t, h2)
          | Err e => Err e
          end
      | Err e => Err e
      end
  end.

(* the run of a program is accepted: it returned within the fuel *)
Definition paccept (c : config) (pg : program) (fuel : nat) (f : fs) (g : fs) (t : list op) (h : list obs) : Prop :=
  exists b, prun c pg fuel f bk0 [] = Ok (g, b, t, h) /\ b_done b = true.

(* ---- probing programs (audit defect A8): stale independence UP TO PROBES ----
   run_mapping looks whether an output exists and, when it does not, probes the path
   (cli/from_specified_markers.py:122-139, after the symbolic-link fix):
     if not pth.exists():                       stat(pth)              -> ENOENT
         if pth.is_symlink(): ...               lstat(pth)             -> ENOENT
         open(pth, 'w').write('junk')           open(O_CREAT|O_TRUNC)
         pth.unlink()                           unlink
   and a single stat(pth) when the path exists: TWO Stats on the path where it is absent, ONE
   where an earlier run left it.  This is the one place where a real stage branches on whether
   an earlier run left an output.  A probing program is a CORE that cannot see the answer of a
   Stat on a set O' of declared outputs, wrapped so that a Stat the core FLAGS is followed, when
   the answer was "absent", by k FURTHER LOOKS at the path and then the probe.
     pcore            the erased history of observations -> (next operation, "probe this Stat")
                      (the flag means something only when the operation is `Stat p _`, p in O')
     wrapP O' cid k cr  the program: a left-to-right fold over the full history with state
                      (erased history, pending operations); the answer of a Stat on O'
                      enters the erased history masked as `OKind PExists`; after a flagged one
                      answered "absent" the pending operations are
                        k times `Stat p _`  ;  Create p true cid  ;  Unlink p
                      (k is a parameter of the wrapper: k = 1 is the real run_mapping -- the
                      lstat of is_symlink --, k = 0 the code before the symbolic-link fix; audit 4,
                      A3: with k fixed to 0 the real program was outside the class); the
                      observations of the pending operations do not enter the erased history
     erase O' t       a trace without what may differ: every `Stat p _` with p in O' and every
                      adjacent pair `Create p _ _ :: Unlink p` with p in O' *)
Definition pcore := list obs -> op * bool.

(* a Stat whose answer the core does not see *)
Definition hidden (O' : list path) (o : op) : bool :=
  match o with Stat p _ => mem p O' | _ => false end.
Definition is_absent (x : obs) : bool :=
  match x with OKind PAbsent => true | _ => false end.

(* what follows a flagged Stat on p that answered "absent" (the answer slot of the further
   Stats is filled in by the file system: `fill`) *)
Definition probe_ops (cid : Z) (k : nat) (p : path) : list op :=
  repeat (Stat p PAbsent) k ++ [Create p true cid; Unlink p].

(* state: (erased history, pending operations); x is what the operation just issued returned *)
Definition pfeed (O' : list path) (cid : Z) (k : nat) (cr : pcore) (s : list obs * list op) (x : obs)
  : list obs * list op :=
  match snd s with
  | _ :: r => (fst s, r)
  | [] =>
      match cr (fst s) with
      | (Stat p _, fl) =>
          if mem p O'
          then (fst s ++ [OKind PExists],
                if fl && is_absent x then probe_ops cid k p else [])
          else (fst s ++ [x], [])
      | _ => (fst s ++ [x], [])
      end
  end.
Definition pnext (cr : pcore) (s : list obs * list op) : op :=
  match snd s with o :: _ => o | [] => fst (cr (fst s)) end.
Definition pstate (O' : list path) (cid : Z) (k : nat) (cr : pcore) (h : list obs) : list obs * list op :=
  fold_left (pfeed O' cid k cr) h ([], []).
Definition wrapP (O' : list path) (cid : Z) (k : nat) (cr : pcore) : program :=
  fun h => pnext cr (pstate O' cid k cr h).

Fixpoint erase (O' : list path) (t : list op) : list op :=
  match t with
  | [] => []
  | o :: t' =>
      match o, t' with
      | Stat p _, _ => if mem p O' then erase O' t' else o :: erase O' t'
      | Create p _ _, Unlink q :: t'' =>
          if mem p O' && path_eqb p q then erase O' t'' else o :: erase O' t'
      | _, _ => o :: erase O' t'
      end
  end.

(* ---- wire ---- *)
Definition sx_path : sx -> option path := sx_LZ.

Definition sx_config (x : sx) : option config :=
  match x with
  | L [i; o; s; q; ob; st] =>
      match sx_list sx_path i, sx_list sx_path o, sx_path s, sx_path q, sx_bool ob, sx_bool st with
      | Some i', Some o', Some s', Some q', Some ob', Some st' =>
          Some {| c_inputs := i'; c_outputs := o'; c_scratch := s'; c_query := q';
                  c_obsm := ob'; c_strict := st' |}
      | _, _, _, _, _, _ => None
      end
  | _ => None
  end.

Definition sx_entry (x : sx) : option (path * entry) :=
  match x with
  | L [p; I k; I cid] =>
      match sx_path p with
      | Some p' => if k =? 0 then Some (p', (KFile, cid))
                   else if k =? 1 then Some (p', (KDir, cid)) else None
      | None => None
      end
  | _ => None
  end.

Definition sx_op (x : sx) : option op :=
  match x with
  | L [I k; p] =>
      match sx_path p with
      | Some p' =>
          if k =? 0 then Some (OpenR p')
          else if k =? 3 then Some (Mkdir p')
          else if k =? 4 then Some (Unlink p')
          else if k =? 5 then Some (Rmdir p')
          else if k =? 7 then Some (ListDir p')
          else None
      | None => if k =? 8 then (match sx_bool p with Some b => Some (Return b) | None => None end)
                else None
      end
  | L [I k; p; a] =>
      match sx_path p with
      | Some p' =>
          if k =? 1 then (match a with I cid => Some (OpenW p' cid) | _ => None end)
          else if k =? 6 then (match sx_path a with Some q => Some (Rename p' q) | None => None end)
          else if k =? 9 then
            (match a with
             | I r => if r =? 0 then Some (Stat p' PAbsent) else if r =? 1 then Some (Stat p' PFile)
                      else if r =? 2 then Some (Stat p' PDir) else if r =? 3 then Some (Stat p' PExists)
                      else None
             | _ => None
             end)
          else None
      | None => None
      end
  | L [I k; p; I t; I cid] =>
      match sx_path p with
      | Some p' => if k =? 2 then Some (Create p' (negb (t =? 0)) cid) else None
      | None => None
      end
  | _ => None
  end.

Definition of_entry (kv : path * entry) : sx :=
  L [of_LZ (fst kv); I (match fst (snd kv) with KFile => 0 | KDir => 1 end); I (snd (snd kv))].

(* tag 1901: (config fs ops) -> (0 final-fs) | (1 index code) *)
Definition run_accept (x : sx) : sx :=
  match x with
  | L [c; f; t] =>
      match sx_config c, sx_list sx_entry f, sx_list sx_op t with
      | Some c', Some f', Some t' =>
          match accept c' f' t' with
          | Accepted g => sx_ok (L [I 0; of_list of_entry g; of_list I (fresh_names c' t')])
          | Rejected i e => sx_ok (L [I 1; of_nat i; I e])
          end
      | _, _, _ => sx_bad
      end
  | _ => sx_bad
  end.

Definition sx_tagged (x : sx) : option (bool * op) :=
  match x with
  | L [w; o] => match sx_bool w, sx_op o with
                | Some w', Some o' => Some (w', o')
                | _, _ => None
                end
  | _ => None
  end.

(* tag 1902: (config1 config2 fs tagged-ops) -> (0 final-fs compatible?) | (1 index who code) *)
Definition run_accept2 (x : sx) : sx :=
  match x with
  | L [c1; c2; f; il] =>
      match sx_config c1, sx_config c2, sx_list sx_entry f, sx_list sx_tagged il with
      | Some c1', Some c2', Some f', Some il' =>
          match accept2 c1' c2' f' il' with
          | Accepted2 g =>
              sx_ok (L [I 0; of_list of_entry g;
                        of_bool (compatb c1' (fresh_names c1' (proj true il'))
                                         c2' (fresh_names c2' (proj false il')))])
          | Rejected2 i w e => sx_ok (L [I 1; of_nat i; of_bool w; I e])
          end
      | _, _, _, _ => sx_bad
      end
  | _ => sx_bad
  end.
