(* Model of TaxonomyTree.from_str(tree.to_str()) (and of TaxonomyTree(data=json.loads(tree.to_str()))).

   What the code does (taxonomy_tree.py to_str / from_str / __init__, utils/utils.py clean_for_json):
     to_str     = json.dumps(clean_for_json(self._data))        (no sort_keys)
     clean_for_json, recursively:
        dict       -> dict with the same keys IN THE SAME (insertion) ORDER, values cleaned
        list/tuple -> list of the cleaned elements IN THE SAME ORDER
        set        -> list(set), .sort()ed, then cleaned            <- the only place anything is reordered
        np.int64 / np.bool_ / np.ndarray -> int / bool / list
     json.dumps / json.loads keep dict key order and list order; from_str hands the loaded dict to
     the constructor, which deep-copies it, validates it and builds the child -> parent table.
   Hence a re-read tree has every level's keys in the old insertion order, every child collection
   that was a Python *list* (or tuple) in the old order, and every child collection that was a
   Python *set* replaced by the sorted list of its elements.  Which collections are sets depends on
   how the tree was made: get_taxonomy_tree / from_h5ad build the children of every non-leaf node
   as sets and the rows of every leaf as lists; a tree loaded from JSON has lists everywhere;
   drop_level of a set-valued tree rebuilds the level above the dropped one with lists and keeps
   the sets elsewhere.  The model's tree (Model/Tree.v) stores every collection as a list -- for a
   set: the order in which Python happens to iterate over it (nondeterminism as input) -- and does
   not record which ones are sets.  That information is therefore an explicit argument here:
   flags, shaped like the tree (per level, per dict entry in insertion order), true = "this child
   collection is a Python set".  Missing flags mean "list".  Names are order preserving integers,
   so Python's sort of the str names (and of the int rows of a leaf) is zsort.  Definitions only. *)
From Coq Require Import ZArith List Bool.
From CTM Require Import Base.Sx Base.SortX Model.Tree.
Import ListNotations.
Open Scope Z_scope.

Definition flags := list (list bool).

(* clean_for_json on one dict value *)
Definition reread_entry (is_set : bool) (nc : node * list Z) : node * list Z :=
  (fst nc, if is_set then zsort (snd nc) else snd nc).
(* ... on one level: the keys in insertion order *)
Fixpoint reread_level (fl : list bool) (lv : level) : level :=
  match lv with
  | [] => []
  | nc :: rest => reread_entry (hd false fl) nc :: reread_level (tl fl) rest
  end.
(* ... on the tree *)
Fixpoint reread (fs : flags) (t : tree) : tree :=
  match t with
  | [] => []
  | lv :: rest => reread_level (hd [] fs) lv :: reread (tl fs) rest
  end.

(* the two states that occur in the pipeline *)
(* a tree loaded from JSON (from_str, from_json_file, from_precomputed_stats): lists everywhere *)
Definition flags_json : flags := [].
(* a tree just built by get_taxonomy_tree / from_h5ad: sets at every non-leaf level, lists of rows *)
Definition flags_built (t : tree) : flags :=
  map (fun lv => map (fun _ => true) lv) (removelast t).

(* ---------------- wire ---------------- *)
Definition sx_flags : sx -> option flags := sx_list (sx_list sx_bool).

(* tag 1050: (tree flags) -> the re-read tree *)
Definition run_reread (x : sx) : sx :=
  match x with
  | L [a; b] => match sx_tree a, sx_flags b with
                | Some t, Some fs => sx_ok (of_tree (reread fs t))
                | _, _ => sx_bad end
  | _ => sx_bad end.
