(* run_mapping_model (Model/RunMapping.v) with its two abstract parameters INSTANTIATED by the
   marker model (Model/Markers.v) -- audit 3, defect A7:

     cache_ok t' tb   := create_marker_cache_from_specified_markers(tb, reference genes, query genes,
                         reduced tree t', min_markers) does not raise
     mk_decide t' tb  := the bootstrapped vote of one parent, which sees the marker table ONLY through
                         what matching.assemble_query_data reads from the cache for THAT parent
                         (Markers.used c refg qg p: the names at the group's reference indices and at
                         its query indices)

   The vote itself (`vote`) stays abstract: any procedure that is a function of the reduced tree,
   the parent's (reference columns, query columns) read from the cache, the generator, the parent,
   its children and the cells routed to it.  Definitions only. *)
From Coq Require Import ZArith List Bool.
From CTM Require Import Base.Sx Base.SortX Model.Tree Model.Election Model.RunMapping Model.RunMappingKeys.
From CTM Require Model.Markers.
Import ListNotations.
Open Scope Z_scope.

Section Real.
Variable cell rng : Type.
Variable refg qg : list Markers.gene.      (* reference / query gene names *)
Variable minm : nat.                       (* min_markers *)
Variable vote : tree -> option (list Markers.gene * list Markers.gene) ->
                rng -> option (nat * node) -> list node -> list cell -> list rec * rng.

Definition cache_ok_real (t' : tree) (tb : Markers.table) : bool :=
  match Markers.create_cache tb refg qg (Some t') minm with
  | Markers.MOk _ => true
  | Markers.MErr _ => false
  end.

Definition mk_decide_real (t' : tree) (tb : Markers.table)
           (g : rng) (p : option (nat * node)) (kids : list node) (cs : list cell) : list rec * rng :=
  match Markers.create_cache tb refg qg (Some t') minm with
  | Markers.MOk c => vote t' (Markers.used c refg qg p) g p kids cs
  | Markers.MErr _ => ([], g)      (* not reached: run_mapping_model tests cache_ok first *)
  end.

(* _run_mapping with the table as the marker FILE holds it (keyed by the names of the stored tree) *)
Definition run_mapping_real : tree -> cfg -> Markers.table -> list cell -> rng -> tres (list cellmap * rng) :=
  run_mapping_named cell rng cache_ok_real mk_decide_real.
(* ... and with a table keyed by the positions of the tree that is queried *)
Definition run_mapping_real_keyed : tree -> cfg -> Markers.table -> list cell -> rng -> tres (list cellmap * rng) :=
  run_mapping_model cell rng cache_ok_real mk_decide_real.
End Real.
