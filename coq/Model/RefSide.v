(* Model of the REFERENCE side of the mapper (C18):

     diff_exp/score_utils.py      read_raw_precomputed_stats -> raw_stats
                                  aggregate_stats (the parts that can fail) -> agg_check
                                  read_precomputed_stats     -> agg_all (every node of every level is aggregated)
     type_assignment/matching.py  get_leaf_means             -> get_leaf_means
                                  assemble_query_data        -> assemble_reference (everything but the query VALUES:
                                                                the query gene names take part in the error branches)
     cell_by_gene/cell_by_gene.py CellByGeneMatrix.__init__  -> make_rmat
                                  downsample_cells           -> downsample_cells
                                  downsample_genes_in_place  -> downsample_genes_ip

   Names (clusters, genes, taxonomy nodes) are order-preserving integers.  A statistics file is
   what the code reads of it: the JSON dict cluster_to_row (insertion order; keys pairwise
   different, as in any JSON object read by json.loads), the gene names col_names, the dataset
   n_cells and the dataset sum.  A log2(CPM+1) value is an exact dyadic v/D with a common
   denominator D, so a row of `sum` is a list of integers (numerators over D), exactly as in
   Model/Stats.v.  A MEAN is the exact rational sum/(D*max(1,n)): the model carries it as the
   value `mean sum (max 1 n)` of a Section variable `mean : Z -> Z -> A` (numerator, divisor),
   about which nothing is assumed; the extracted instance takes A = Z*Z and mean = the PAIR
   (sum, max(1,n)) -- no division is ever performed by the model, so it stays exact, and the
   harness compares the float64 quotient numpy computed with the correctly rounded quotient of
   the pair.  Errors are values.  Definitions only. *)
From Coq Require Import ZArith List Bool Arith.
From CTM Require Import Base.Sx Base.SortX Model.Tree Model.Normalize Model.Markers.
Import ListNotations.
Open Scope Z_scope.

Inductive rres (A : Type) := ROk (a : A) | RErr (code : Z).
Arguments ROk {A}. Arguments RErr {A}.
Definition rbind {A B} (r : rres A) (f : A -> rres B) : rres B :=
  match r with ROk a => f a | RErr c => RErr c end.

Definition RE_NOBASIC := 1.      (* RuntimeError: 'n_cells' and 'sum' must be in precomputed stats file *)
Definition RE_NOSEL := 2.        (* RuntimeError: 'sumsq' and 'ge1' must be in ... to use it for marker selection *)
Definition RE_ROWINDEX := 3.     (* IndexError: a row of cluster_to_row lies outside the datasets *)
Definition RE_NOLEAF := 4.       (* KeyError: a leaf of the taxonomy has no entry in cluster_to_row *)
Definition RE_EMPTYPOP := 5.     (* IndexError: leaf_population[0] of a node without any leaf *)
Definition RE_NODATA := 6.       (* AttributeError: taxonomy without leaves, data is None *)
Definition RE_SHAPE := 7.        (* RuntimeError: You gave N gene_identifiers, but data has M columns *)
Definition RE_DUPGENES := 8.     (* RuntimeError: gene identifiers appear more than once *)
Definition RE_DUPCELLS := 9.     (* RuntimeError: cell identifiers repeated *)
Definition RE_LEVEL := 10.       (* RuntimeError: not a valid level *)
Definition RE_NONODE := 11.      (* RuntimeError: not a valid node at level *)
Definition RE_LEAFPARENT := 12.  (* IndexError: hierarchy[idx+1] for a parent of the leaf level *)
Definition RE_CHILDKEY := 13.    (* KeyError: tree_as_leaves[child_level][child] / leaf_to_type[leaf] *)
Definition RE_NOGROUP := 14.     (* RuntimeError: parent group not in marker cache path *)
Definition RE_MARKERINDEX := 15. (* IndexError: all_*_identifiers[ii] *)
Definition RE_DUPSELECTED := 16. (* RuntimeError: gene occurs more than once in selected_genes *)
Definition RE_UNKNOWNGENE := 17. (* KeyError: gene_to_col[n] *)
Definition RE_UNKNOWNCELL := 18. (* KeyError: cell_to_row[c] *)
Definition RE_MISMATCH := 19.    (* RuntimeError: Mismatch between query marker genes and reference marker genes *)
Definition RE_QNORM := 20.       (* RuntimeError: query data normalization is ... *)
Definition RE_RNORM := 21.       (* RuntimeError: reference data normalization is ... *)
Definition RE_DATAINDEX := 22.   (* IndexError in data[idx, :] / data[:, idx] (cannot happen on a well-shaped matrix) *)
Definition RE_ZEROGENES := 23.   (* ValueError: zero-size array to reduction operation minimum which has no identity:
                                    aggregate_stats, result['gt0'].min() on a statistics file without any gene (audit 3) *)

(* ------------------------------------------------------------------ the statistics file *)
Record sfile := mk_sfile {
  sf_basic : bool;               (* 'n_cells' and 'sum' are both datasets of the file *)
  sf_sel : bool;                 (* 'sumsq' and 'ge1' are both datasets of the file *)
  sf_c2r : list (Z * Z);         (* cluster_to_row *)
  sf_cols : list Z;              (* col_names *)
  sf_n : list Z;                 (* n_cells *)
  sf_sum : list (list Z) }.      (* sum, numerators over the common denominator *)

(* a[i] for a Python / numpy integer i: negative indices count from the end; None = IndexError *)
Definition py_index {X} (l : list X) (i : Z) : option X :=
  let n := Z.of_nat (length l) in
  if (0 <=? i) && (i <? n) then nth_error l (Z.to_nat i)
  else if (- n <=? i) && (i <? 0) then nth_error l (Z.to_nat (i + n))
  else None.

(* raw_data['n_cells'][idx], raw_data['sum'][idx, :] *)
Definition raw_entry (sf : sfile) (idx : Z) : option (Z * list Z) :=
  match py_index (sf_n sf) idx, py_index (sf_sum sf) idx with
  | Some n, Some s => Some (n, s)
  | _, _ => None
  end.

(* read_raw_precomputed_stats: `for leaf_name in row_lookup` -- EVERY entry is read *)
Fixpoint raw_stats (sf : sfile) (c2r : list (Z * Z)) : option (list (Z * (Z * list Z))) :=
  match c2r with
  | [] => Some []
  | (k, idx) :: r =>
      match raw_entry sf idx, raw_stats sf r with
      | Some e, Some rest => Some ((k, e) :: rest)
      | _, _ => None
      end
  end.

Definition is_some {X} (o : option X) : bool := match o with Some _ => true | None => false end.

(* n_genes = len(precomputed_stats[leaf]['sum']) is 0 *)
Definition zero_row (cs : list (Z * (Z * list Z))) (leaf : Z) : bool :=
  match zassoc leaf cs with Some (_, []) => true | _ => false end.
(* aggregate_stats(leaf_population): precomputed_stats[leaf_population[0]] first (n_genes is read
   there), then every leaf, then choose_int_dtype((result[k].min(), result[k].max())) on arrays
   of n_genes entries: with n_genes = 0 numpy raises ValueError (zero-size array to reduction
   operation minimum).  Observed: a 0-gene file makes get_leaf_means raise that ValueError, with
   or without for_marker_selection; a 1-gene file is accepted. *)
Definition agg_check (cs : list (Z * (Z * list Z))) (pop : list Z) : rres unit :=
  match pop with
  | [] => RErr RE_EMPTYPOP
  | l0 :: _ => if forallb (fun l => is_some (zassoc l cs)) pop
               then (if zero_row cs l0 then RErr RE_ZEROGENES else ROk tt)
               else RErr RE_NOLEAF
  end.
(* read_precomputed_stats: for level in as_leaves: for node in as_leaves[level]: aggregate_stats *)
Fixpoint agg_all (cs : list (Z * (Z * list Z))) (pops : list (list Z)) : rres unit :=
  match pops with
  | [] => ROk tt
  | p :: r => rbind (agg_check cs p) (fun _ => agg_all cs r)
  end.

(* ------------------------------------------------------------------ CellByGeneMatrix with cell identifiers *)
Section RefSide.
Variable A : Type.
Variable mean : Z -> Z -> A.       (* sum, max(1, n_cells) |-> sum / max(1, n_cells) *)

Record rmat := mk_rmat {
  m_cells : list Z; m_genes : list Z; m_data : list (list A); m_norm : norm_tag }.

(* __init__ (normalisation is one of the two valid tags): shape, gene identifiers, cell identifiers *)
Definition make_rmat (cells genes : list Z) (data : list (list A)) (n : norm_tag) : rres rmat :=
  if negb (forallb (fun r => Nat.eqb (length r) (length genes)) data) then RErr RE_SHAPE
  else if negb (znodup_b genes) then RErr RE_DUPGENES
  else if negb (znodup_b cells) then RErr RE_DUPCELLS
  else ROk (mk_rmat cells genes data n).

(* downsample_cells(selected_cells): cell_to_row[c] for every selected cell, data[idx, :], a NEW matrix *)
Definition downsample_cells (m : rmat) (sel : list Z) : rres rmat :=
  match opt_all (map (gene_to_col (m_cells m)) sel) with
  | None => RErr RE_UNKNOWNCELL
  | Some idx =>
      match opt_all (map (nth_error (m_data m)) idx) with
      | None => RErr RE_DATAINDEX
      | Some d => make_rmat sel (m_genes m) d (m_norm m)
      end
  end.

(* _downsample_genes: duplicates refused, gene_to_col[n] for every selected gene *)
Definition check_downsample (genes sel : list Z) : rres (list nat) :=
  if negb (znodup_b sel) then RErr RE_DUPSELECTED
  else match idx_array genes sel with
       | None => RErr RE_UNKNOWNGENE
       | Some idx => ROk idx
       end.
(* downsample_genes_in_place(selected_genes) *)
Definition downsample_genes_ip (m : rmat) (sel : list Z) : rres rmat :=
  rbind (check_downsample (m_genes m) sel) (fun idx =>
  match opt_all (map (take_cols idx) (m_data m)) with
  | None => RErr RE_DATAINDEX
  | Some d => ROk (mk_rmat (m_cells m) sel d (m_norm m))
  end).

(* ------------------------------------------------------------------ get_leaf_means *)
(* stats['mean'] of the leaf-level node `leaf`: its population is [leaf] *)
Definition leaf_mean_row (cs : list (Z * (Z * list Z))) (leaf : Z) : option (list A) :=
  match zassoc leaf cs with
  | Some (n, s) => Some (map (fun x => mean x (Z.max 1 n)) s)
  | None => None
  end.

Definition get_leaf_means (t : tree) (sf : sfile) (for_sel : bool) : rres rmat :=
  if negb (sf_basic sf) then RErr RE_NOBASIC
  else if for_sel && negb (sf_sel sf) then RErr RE_NOSEL
  else match raw_stats sf (sf_c2r sf) with
       | None => RErr RE_ROWINDEX
       | Some cs =>
           rbind (agg_all cs (map snd (concat (as_leaves t)))) (fun _ =>
           let leaf_names := zsort (nodes (leaf_level t)) in
           match opt_all (map (leaf_mean_row cs) leaf_names) with
           | None => RErr RE_NOLEAF
           | Some data =>
               if is_nil leaf_names then RErr RE_NODATA
               else make_rmat leaf_names (sf_cols sf) data Log2CPM
           end)
       end.

(* ------------------------------------------------------------------ assemble_query_data, reference half *)
Definition child_level_of (parent : pkey) : nat :=
  match parent with None => O | Some (li, _) => S li end.

(* immediate_children, sorted *)
Definition immediate_children (t : tree) (parent : pkey) : rres (list Z) :=
  match parent with
  | None => ROk (zsort (nodes (hd [] t)))
  | Some (li, x) =>
      if (length t <=? li)%nat then RErr RE_LEVEL
      else if negb (zmem x (nodes (nth li t []))) then RErr RE_NONODE
      else if (length t <=? S li)%nat then RErr RE_LEAFPARENT
      else ROk (zsort (children_of (nth li t []) x))
  end.

(* the assignments leaf_to_type[leaf] = child in the order they are made; None = KeyError *)
Definition leaf_assignments (t : tree) (cl : nat) (kids : list Z) : option (list (Z * Z)) :=
  if forallb (fun c => zmem c (nodes (nth cl t []))) kids
  then Some (flat_map (fun c => map (fun l => (l, c)) (leaves_of t cl c)) kids)
  else None.
(* leaf_to_type[leaf]: the last assignment wins *)
Definition type_of_leaf (asg : list (Z * Z)) (leaf : Z) : option Z := zassoc leaf (rev asg).
(* sorted(leaf_to_type.keys()) *)
Definition sorted_keys (asg : list (Z * Z)) : list Z := zsort (nodup Z.eq_dec (map fst asg)).

Fixpoint zlist_eq (a b : list Z) : bool :=
  match a, b with
  | [], [] => true
  | x :: a', y :: b' => (x =? y) && zlist_eq a' b'
  | _, _ => false
  end.
Definition is_log2 (n : norm_tag) : bool := match n with Log2CPM => true | Raw => false end.

Record assembled := mk_assembled {
  a_ref : rmat;                  (* 'reference_data' *)
  a_types : list Z;              (* 'reference_types' *)
  a_qgenes : list Z }.           (* query_data.gene_identifiers *)

(* groups = the groups of the marker cache (group -> 'reference', 'query' index arrays),
   refg / qg = its reference_gene_names / query_gene_names,
   qgenes / qnorm = gene identifiers and normalisation of full_query_data, m = mean_profile_matrix *)
Definition assemble_reference (t : tree) (groups : list (pkey * (list nat * list nat)))
           (refg qg qgenes : list Z) (qnorm : norm_tag) (m : rmat) (parent : pkey) : rres assembled :=
  rbind (immediate_children t parent) (fun kids =>
  match leaf_assignments t (child_level_of parent) kids with
  | None => RErr RE_CHILDKEY
  | Some asg =>
  match tget parent groups with
  | None => RErr RE_NOGROUP
  | Some (ri, qi) =>
  match names_at qg qi with
  | None => RErr RE_MARKERINDEX
  | Some qmark =>
  rbind (check_downsample qgenes qmark) (fun _ =>
  match names_at refg ri with
  | None => RErr RE_MARKERINDEX
  | Some rmark =>
  rbind (downsample_cells m (sorted_keys asg)) (fun m1 =>
  rbind (downsample_genes_ip m1 rmark) (fun m2 =>
  match opt_all (map (type_of_leaf asg) (m_cells m2)) with
  | None => RErr RE_CHILDKEY
  | Some types =>
      if negb (zlist_eq qmark (m_genes m2)) then RErr RE_MISMATCH
      else if negb (is_log2 qnorm) then RErr RE_QNORM
      else if negb (is_log2 (m_norm m2)) then RErr RE_RNORM
      else ROk (mk_assembled m2 types qmark)
  end))
  end)
  end
  end
  end).

(* ------------------------------------------------------------------ reading by NAME (helpers of the statements) *)
(* entry of matrix m at cell c, gene g *)
Definition mat_at (m : rmat) (c g : Z) : option A :=
  match gene_to_col (m_cells m) c, gene_to_col (m_genes m) g with
  | Some i, Some j => match nth_error (m_data m) i with
                      | Some row => nth_error row j
                      | None => None
                      end
  | _, _ => None
  end.
(* row of matrix m at cell c *)
Definition mat_row (m : rmat) (c : Z) : option (list A) :=
  match gene_to_col (m_cells m) c with
  | Some i => nth_error (m_data m) i
  | None => None
  end.

End RefSide.
Arguments mk_rmat {A} _ _ _ _.
Arguments m_cells {A} _.
Arguments m_genes {A} _.
Arguments m_data {A} _.
Arguments m_norm {A} _.
Arguments a_ref {A} _.
Arguments a_types {A} _.
Arguments a_qgenes {A} _.

(* the statistics file read by NAME: (sum, n_cells) of cluster c at gene g *)
Definition sf_at (sf : sfile) (c g : Z) : option (Z * Z) :=
  match zassoc c (sf_c2r sf) with
  | None => None
  | Some idx =>
      match raw_entry sf idx, gene_to_col (sf_cols sf) g with
      | Some (n, s), Some j => option_map (fun x => (x, n)) (nth_error s j)
      | _, _ => None
      end
  end.

(* a statistics file with its rows and columns rearranged: new row i is old row rp[i], new column
   j is old column cp[j]; cluster_to_row and col_names follow *)
Fixpoint index_nat (x : nat) (l : list nat) : option nat :=
  match l with
  | [] => None
  | h :: t => if Nat.eqb x h then Some O else option_map S (index_nat x t)
  end.
Definition pick {X} (d : X) (p : list nat) (l : list X) : list X := map (fun i => nth i l d) p.
Definition move_row (rp : list nat) (idx : Z) : Z :=
  match index_nat (Z.to_nat idx) rp with Some i => Z.of_nat i | None => idx end.
Definition rearrange (rp cp : list nat) (sf : sfile) : sfile :=
  mk_sfile (sf_basic sf) (sf_sel sf)
           (map (fun kv => (fst kv, move_row rp (snd kv))) (sf_c2r sf))
           (pick 0 cp (sf_cols sf))
           (pick 0 rp (sf_n sf))
           (map (pick 0 cp) (pick [] rp (sf_sum sf))).
(* a file as the writers produce it: rows 0 .. n-1 addressed by non-negative indices, a rectangular sum *)
Definition sf_wf (sf : sfile) : Prop :=
  length (sf_n sf) = length (sf_sum sf) /\
  Forall (fun r => length r = length (sf_cols sf)) (sf_sum sf) /\
  NoDup (map fst (sf_c2r sf)) /\
  Forall (fun kv => 0 <= snd kv < Z.of_nat (length (sf_n sf))) (sf_c2r sf).

(* ------------------------------------------------------------------ wire *)
(* instance: a mean is the pair (sum, max(1, n)) *)
Definition mpair (s d : Z) : Z * Z := (s, d).
Definition of_zz (p : Z * Z) : sx := L [I (fst p); I (snd p)].
Definition sx_zz (x : sx) : option (Z * Z) := match x with L [I a; I b] => Some (a, b) | _ => None end.

Definition sx_sfile (x : sx) : option sfile :=
  match x with
  | L [b; s; c2r; cols; n; sm] =>
      match sx_bool b, sx_bool s, sx_list sx_zz c2r, sx_LZ cols, sx_LZ n, sx_LLZ sm with
      | Some b', Some s', Some c', Some cols', Some n', Some sm' =>
          (* a JSON object has pairwise different keys; an HDF5 dataset is rectangular *)
          if znodup_b (map fst c') &&
             match sm' with [] => true | r0 :: _ => forallb (fun r => Nat.eqb (length r) (length r0)) sm' end
          then Some (mk_sfile b' s' c' cols' n' sm') else None
      | _, _, _, _, _, _ => None
      end
  | _ => None
  end.
Definition sx_tag (x : sx) : option norm_tag :=
  match x with I 0 => Some Raw | I 1 => Some Log2CPM | _ => None end.
Definition of_rmat (m : rmat (Z * Z)) : sx :=
  L [of_LZ (m_cells m); of_LZ (m_genes m); of_list (of_list of_zz) (m_data m); of_norm (m_norm m)].
Definition of_rres {X} (f : X -> sx) (r : rres X) : sx :=
  match r with ROk a => sx_ok (f a) | RErr c => sx_err c end.
Definition of_assembled (a : assembled (Z * Z)) : sx :=
  L [of_rmat (a_ref a); of_LZ (a_types a); of_LZ (a_qgenes a)].
Definition sx_groups : sx -> option (list (pkey * (list nat * list nat))) :=
  sx_list (sx_pair sx_parent (sx_pair sx_Lnat sx_Lnat)).

(* tag 1851: (tree sfile for_marker_selection) -> get_leaf_means *)
Definition run_leaf_means (x : sx) : sx :=
  match x with
  | L [a; b; c] =>
      match sx_tree a, sx_sfile b, sx_bool c with
      | Some t, Some sf, Some fs => of_rres of_rmat (get_leaf_means (Z * Z) mpair t sf fs)
      | _, _, _ => sx_bad
      end
  | _ => sx_bad
  end.

(* tag 1852: (tree sfile for_marker_selection groups refg qg qgenes qnorm parents) ->
   get_leaf_means, then assemble_query_data (reference half) for every listed parent *)
Definition run_assemble (x : sx) : sx :=
  match x with
  | L [a; b; c; g; rg; qg; qgn; qn; ps] =>
      match sx_tree a, sx_sfile b, sx_bool c, sx_groups g, sx_LZ rg, sx_LZ qg, sx_LZ qgn, sx_tag qn,
            sx_list sx_parent ps with
      | Some t, Some sf, Some fs, Some groups, Some refg, Some qgl, Some qgenes, Some qnorm, Some parents =>
          match get_leaf_means (Z * Z) mpair t sf fs with
          | RErr e => sx_err e
          | ROk m => sx_ok (of_list (fun p => of_rres of_assembled
                                       (assemble_reference (Z * Z) t groups refg qgl qgenes qnorm m p)) parents)
          end
      | _, _, _, _, _, _, _, _, _ => sx_bad
      end
  | _ => sx_bad
  end.

(* tag 1853: (tree (cells genes data norm) groups refg qg qgenes qnorm parent) -> CellByGeneMatrix(...)
   given directly (data: rows of pairs), then assemble_query_data (reference half) *)
Definition run_assemble_mat (x : sx) : sx :=
  match x with
  | L [a; L [cs; gs; d; n]; g; rg; qg; qgn; qn; p] =>
      match sx_tree a, sx_LZ cs, sx_LZ gs, sx_list (sx_list sx_zz) d, sx_tag n with
      | Some t, Some cells, Some genes, Some data, Some nt =>
          match sx_groups g, sx_LZ rg, sx_LZ qg, sx_LZ qgn, sx_tag qn, sx_parent p with
          | Some groups, Some refg, Some qgl, Some qgenes, Some qnorm, Some parent =>
              of_rres of_assembled
                (rbind (make_rmat (Z * Z) cells genes data nt) (fun m =>
                 assemble_reference (Z * Z) t groups refg qgl qgenes qnorm m parent))
          | _, _, _, _, _, _ => sx_bad
          end
      | _, _, _, _, _ => sx_bad
      end
  | _ => sx_bad
  end.

(* tag 1854: (sfile rp cp) -> the rearranged file's (cluster_to_row col_names n_cells sum) *)
Definition run_rearrange (x : sx) : sx :=
  match x with
  | L [a; b; c] =>
      match sx_sfile a, sx_Lnat b, sx_Lnat c with
      | Some sf, Some rp, Some cp =>
          let r := rearrange rp cp sf in
          sx_ok (L [of_list of_zz (sf_c2r r); of_LZ (sf_cols r); of_LZ (sf_n r); of_LLZ (sf_sum r)])
      | _, _, _ => sx_bad
      end
  | _ => sx_bad
  end.
