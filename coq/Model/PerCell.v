(* The per-cell view of run_type_assignment (C06): when the decision taken for a cell
   at a parent depends on that cell only (bootstrap factor 1: the drawn subset is the
   whole marker list whatever the generator returns), the level-by-level routing of
   Election.v is, cell by cell, the obvious recursion down the tree.  Definitions only. *)
From Coq Require Import ZArith List Bool.
From CTM Require Import Base.Sx Base.SortX Model.Tree Model.Election.
Import ListNotations.
Open Scope Z_scope.

Section PerCell.
Variable cell : Type.
(* the record _run_type_assignment computes for ONE cell at a parent with >= 2 children *)
Variable dc : option (nat * node) -> list node -> cell -> rec.

(* what a cell routed to parent p (children kids) gets at the child level *)
Definition child_rec (p : option (nat * node)) (kids : list node) (c : cell) : rec :=
  match kids with
  | [only] => trivial_rec only
  | _ => dc p kids c
  end.

(* lv = level with index pli, x = the cell's node there, rest = the levels below *)
Fixpoint descend (lv : level) (rest : list level) (pli : nat) (x : node) (c : cell) : list rec :=
  match rest with
  | [] => []
  | nxt :: rest' =>
      let r := child_rec (Some (pli, x)) (children_of lv x) c in
      r :: descend nxt rest' (S pli) (asg r) c
  end.

(* the row of the table (before the two trailing passes) *)
Definition raw_one (t : tree) (c : cell) : list rec :=
  match t with
  | [] => []
  | top :: rest =>
      let r := child_rec None (nodes top) c in
      r :: descend top rest 0 (asg r) c
  end.

(* trailing pass 1 on a complete row *)
Fixpoint inherit_tot (above : option frac) (row : list rec) : list rec :=
  match row with
  | [] => []
  | r :: t =>
      let c := match corr r with
               | Some c => c
               | None => match above with Some a => a | None => one end
               end in
      {| asg := asg r; prob := prob r; corr := Some c; runners := runners r; agg := agg r |}
        :: inherit_tot (Some c) t
  end.

Definition map_one (t : tree) (c : cell) : list rec :=
  running one (inherit_tot None (raw_one t c)).
End PerCell.

(* ---------------- wire ---------------- *)
(* the table-driven oracle of Election.table_decide, one cell at a time *)
Definition table_dc (tb : ctable) (p : option (nat * node)) (kids : list node) (c : Z) : rec :=
  match clookup (pkey p) c tb with Some r => r | None => trivial_rec 0 end.

(* tag 601: (tree cell-ids choice-table) -> rows, computed cell by cell *)
Definition run_map_one (x : sx) : sx :=
  match x with
  | L [t; cs; tb] =>
      match sx_tree t, sx_LZ cs, sx_list sx_centry tb with
      | Some t', Some cs', Some tb' =>
          sx_ok (of_list (of_list of_rec) (map (map_one Z (table_dc tb') t') cs'))
      | _, _, _ => sx_bad end
  | _ => sx_bad end.
