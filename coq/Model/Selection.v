(* Model of marker_selection/selection.py (_run_selection and its helpers,
   select_marker_genes_v2, _get_taxonomy_idx), marker_selection/utils.py
   (create_utility_array), the thinning of marker_selection/marker_array.py
   (to the query genes, then to the parent's pairs) and the per-parent loop of
   marker_selection/selection_pipeline.py.

   A slot is (pair, direction): direction false = column 0 (down), true =
   column 1 (up).  Pairs are positions in taxonomy_idx_array.  `marks g s` says
   that gene g (index into the thinned gene list) is a reference marker of slot s.
   The tie order of np.argsort is NOT modelled: the gene chosen in every
   iteration of `while True` is an input (the recorded trace) and a step is legal
   only if that gene is unchosen and maximises the utility.  Definitions only. *)
From Coq Require Import ZArith List Bool Arith.
From CTM Require Import Base.Sx Base.SortX Model.Tree.
Import ListNotations.
Local Open Scope nat_scope.

Definition slot := (nat * bool)%type.
Definition slot_eqb (a b : slot) : bool := Nat.eqb (fst a) (fst b) && Bool.eqb (snd a) (snd b).
Definition count {A} (f : A -> bool) (l : list A) : nat := length (filter f l).
Definition nmem (x : nat) (l : list nat) : bool := existsb (Nat.eqb x) l.

Section Sel.
Variable n_genes : nat.                    (* marker_gene_array.n_genes after thinning *)
Variable pairs : list nat.                 (* taxonomy_idx_array (pair identifiers) *)
Variable marks : nat -> slot -> bool.
Variable n : nat.                          (* n_per_utility *)

Definition genes : list nat := seq 0 n_genes.
Definition slots : list slot := flat_map (fun p => [(p, false); (p, true)]) pairs.

Record state := {
  chosen : list nat;             (* marker_gene_name_list, in the order chosen *)
  counts : slot -> nat;          (* marker_counts['marker_counts'] *)
  aggr : nat -> nat;             (* marker_counts['aggregate'] *)
  filled : slot -> bool;         (* been_filled *)
  utility : nat -> Z             (* utility_array; -1 once chosen *)
}.

(* create_utility_array: marker_census and utility_sum *)
Definition census (s : slot) : nat := count (fun g => marks g s) genes.
Definition utility0 (g : nat) : Z := Z.of_nat (count (fun s => marks g s) slots).
(* _get_are_possible *)
Definition are_possible (p : nat) : bool := (n <=? census (p, false)) && (n <=? census (p, true)).

Definition init : state :=
  {| chosen := []; counts := fun _ => 0; aggr := fun _ => 0; filled := fun _ => false;
     utility := utility0 |}.

(* _get_newly_full_mask | _get_maxed_out, & ~been_filled *)
Definition newly (st : state) (s : slot) : bool :=
  negb (filled st s) &&
  (((n <=? counts st s) && are_possible (fst s))
   || (counts st s =? census s)
   || (2 * n <=? aggr st (fst s))).

(* _update_been_filled (+ recalculate_utility_array_batch) *)
Definition update_filled (st : state) : state :=
  let nf := filter (newly st) slots in
  {| chosen := chosen st; counts := counts st; aggr := aggr st;
     filled := fun s => filled st s || existsb (slot_eqb s) nf;
     utility := fun g => (utility st g - Z.of_nat (count (fun s => marks g s) nf))%Z |}.

(* _choose_one_gene + _update_marker_counts *)
Definition choose (st : state) (g : nat) : state :=
  {| chosen := chosen st ++ [g];
     counts := fun s => counts st s + (if marks g s then 1 else 0);
     aggr := fun p => aggr st p + (if marks g (p, true) then 1 else 0)
                                + (if marks g (p, false) then 1 else 0);
     filled := filled st;
     utility := fun h => if Nat.eqb h g then (-1)%Z else utility st h |}.

Definition max_utility (st : state) : Z := fold_right Z.max (-1)%Z (map (utility st) genes).
Definition all_filled (st : state) : bool := forallb (filled st) slots.
(* the two `break`s of the loop *)
Definition finished (st : state) : bool := (max_utility st <=? 0)%Z || all_filled st.

(* one iteration of `while True`, the gene popped from sorted_utility_idx given by the trace *)
Definition step (st : state) (g : nat) : option state :=
  let st1 := update_filled st in
  if finished st1 then None
  else if negb (nmem g (chosen st1)) && nmem g genes && (utility st1 g =? max_utility st1)%Z
       then Some (choose st1 g) else None.

(* _choose_desperate_markers: every marker of the pairs with 0 < total <= n_desperate (= n),
   pairs in taxonomy_idx_array order, genes by index, genes already taken skipped *)
Definition desperate_pairs : list nat :=
  filter (fun p => let t := census (p, false) + census (p, true) in (0 <? t) && (t <=? n)) pairs.
Definition pair_genes (p : nat) : list nat :=
  filter (fun g => marks g (p, false) || marks g (p, true)) genes.
Definition desperate (st : state) : state :=
  fold_left (fun st p =>
      fold_left (fun st g => if nmem g (chosen st) then st else choose st g) (pair_genes p) st)
    desperate_pairs st.

(* the state when `while True` is entered *)
Definition start : state := desperate (update_filled init).

Fixpoint run (st : state) (trace : list nat) : option state :=
  match trace with
  | [] => let st1 := update_filled st in if finished st1 then Some st1 else None
  | g :: t => match step st g with Some st' => run st' t | None => None end
  end.

(* the whole of _run_selection against the returned list: the desperate genes must be its
   prefix, every further gene a legal step, and the loop must stop exactly at the end *)
Fixpoint list_eqb (a b : list nat) : bool :=
  match a, b with
  | [], [] => true
  | x :: a', y :: b' => Nat.eqb x y && list_eqb a' b'
  | _, _ => false
  end.
Inductive sres := SOk (st : state) | SBadPrefix | SIllegal (k : nat) | SNotFinished.
Fixpoint run_from (st : state) (trace : list nat) (k : nat) : sres :=
  match trace with
  | [] => let st1 := update_filled st in if finished st1 then SOk st1 else SNotFinished
  | g :: t => match step st g with Some st' => run_from st' t (S k) | None => SIllegal k end
  end.
Definition replay (observed : list nat) : sres :=
  let st0 := start in
  let nd := length (chosen st0) in
  if list_eqb (firstn nd observed) (chosen st0) then run_from st0 (skipn nd observed) nd
  else SBadPrefix.

(* a deterministic instance of the loop (first gene of maximal utility), with fuel *)
Definition first_max (st : state) : option nat :=
  find (fun g => negb (nmem g (chosen st)) && (utility st g =? max_utility st)%Z) genes.
Fixpoint greedy (fuel : nat) (st : state) : option state :=   (* None = out of fuel *)
  match fuel with
  | O => None
  | S k => let st1 := update_filled st in
           if finished st1 then Some st1
           else match first_max st1 with
                | Some g => greedy k (choose st1 g)
                | None => None
                end
  end.

(* ---------------- the property's own statement on a returned list ---------------- *)
Definition available (p : nat) : nat := census (p, false) + census (p, true).
Definition covered (sel : list nat) (p : nat) : nat :=
  count (fun g => marks g (p, false) || marks g (p, true)) sel.
Fixpoint nodup_b (l : list nat) : bool :=
  match l with [] => true | x :: t => negb (nmem x t) && nodup_b t end.
Definition spec_c12 (sel : list nat) : bool :=
  nodup_b sel &&
  forallb (fun g => (g <? n_genes) && existsb (fun s => marks g s) slots) sel &&
  forallb (fun p => Nat.min (2 * n) (available p) <=? covered sel p) pairs.
End Sel.

(* ---------------- marks from by-pair tables ---------------- *)
(* pd: for every pair of taxonomy_idx_array, (down genes, up genes) *)
Definition marks_of (pd : list (list nat * list nat)) (g : nat) (s : slot) : bool :=
  let e := nth (fst s) pd ([], []) in
  nmem g (if snd s then snd e else fst e).

(* ---------------- thinning: MarkerGeneArray.from_cache_path / downsample_pairs_to_other ---------------- *)
Record refmarkers := {
  rm_genes : list Z;                                   (* gene_names of the file *)
  rm_pairs : list ((node * node) * (list nat * list nat))
      (* pair_to_idx: (leaf1, leaf2) at position idx; (down gene indices, up gene indices) *)
}.

(* query_genes_to_mask: reference genes present in the query, in reference order *)
Definition keep_idx (rm : refmarkers) (query : list Z) : list nat :=
  filter (fun i => zmem (nth i (rm_genes rm) 0%Z) query) (seq 0 (length (rm_genes rm))).
Fixpoint index_of (x : nat) (l : list nat) : option nat :=
  match l with
  | [] => None
  | y :: t => if Nat.eqb x y then Some 0 else option_map S (index_of x t)
  end.
Definition remap (keep : list nat) (l : list nat) : list nat :=
  flat_map (fun i => match index_of i keep with Some j => [j] | None => [] end) l.
Definition thin_genes (rm : refmarkers) (query : list Z) : refmarkers :=
  let keep := keep_idx rm query in
  {| rm_genes := map (fun i => nth i (rm_genes rm) 0%Z) keep;
     rm_pairs := map (fun e => (fst e, (remap keep (fst (snd e)), remap keep (snd (snd e))))) (rm_pairs rm) |}.

Definition pair_eqb (a b : node * node) : bool := (fst a =? fst b)%Z && (snd a =? snd b)%Z.
Fixpoint idx_of_pair (pr : node * node) (l : list ((node * node) * (list nat * list nat))) (i : nat) : option nat :=
  match l with
  | [] => None
  | e :: t => if pair_eqb pr (fst e) then Some i else idx_of_pair pr t (S i)
  end.
Definition nat_sort (l : list nat) : list nat := map Z.to_nat (zsort (map Z.of_nat l)).

(* taxonomy_idx_array as positions of pair_to_idx.  behemoth = true: the global indices,
   sorted (np.sort); false: the array was downsampled to leaves_to_compare(parent), whose
   k-th pair then sits at local index k - modelled as the global indices in that (unsorted)
   order, the content per position being the same *)
Definition parent_idx (rm : refmarkers) (t : tree) (parent : option (nat * node)) (behemoth : bool)
  : option (list nat) :=
  match opt_all (map (fun pr => idx_of_pair pr (rm_pairs rm) 0) (leaf_pairs t parent)) with
  | None => None                               (* RuntimeError: not a valid taxonomy pair *)
  | Some idx => Some (if behemoth then nat_sort idx else idx)
  end.
Definition pair_tables (rm : refmarkers) : list (list nat * list nat) := map snd (rm_pairs rm).

(* up and down markers of every pair are disjoint (hypothesis of the coverage theorem) *)
Definition both_ways_free (pd : list (list nat * list nat)) : bool :=
  forallb (fun e => forallb (fun g => negb (nmem g (fst e))) (snd e)) pd.

(* ---------------- wire ---------------- *)
Definition sx_pd : sx -> option (list (list nat * list nat)) := sx_list (sx_pair sx_Lnat sx_Lnat).
(* tag 1201: (n_genes pd idx n observed) -> replay; also n_desperate, n_original_markers and the census.
   pd = by-pair tables of ALL pairs (thinned to the query genes), idx = taxonomy_idx_array *)
Definition of_state_at (n_genes : nat) (ps : list nat) (st : state) : sx :=
  L [of_Lnat (chosen st);
     of_list (fun p => L [of_nat (counts st (p, false)); of_nat (counts st (p, true))]) ps;
     of_list (fun p => of_nat (aggr st p)) ps;
     of_list (fun p => L [of_bool (filled st (p, false)); of_bool (filled st (p, true))]) ps;
     of_list (fun g => I (utility st g)) (seq 0 n_genes)].
Definition run_replay (x : sx) : sx :=
  match x with
  | L [a; b; e; c; d] =>
      match sx_nat a, sx_pd b, sx_Lnat e, sx_nat c, sx_Lnat d with
      | Some ng, Some pd, Some ps, Some n, Some obs =>
          let m := marks_of pd in
          L [match replay ng ps m n obs with
             | SOk st => sx_ok (of_state_at ng ps st)
             | SBadPrefix => sx_err 1
             | SIllegal j => L [I 1%Z; I 2%Z; of_nat j]
             | SNotFinished => sx_err 3
             end;
             of_nat (length (chosen (start ng ps m n)));
             of_nat (count (fun g => (0 <? utility0 ps m g)%Z) (genes ng));
             of_list (fun p => L [of_nat (census ng m (p, false)); of_nat (census ng m (p, true))]) ps]
      | _, _, _, _, _ => sx_bad end
  | _ => sx_bad end.

(* tag 1202: (n_genes pd idx n selected) -> (spec_c12, both_ways_free) *)
Definition run_spec_c12 (x : sx) : sx :=
  match x with
  | L [a; b; e; c; d] =>
      match sx_nat a, sx_pd b, sx_Lnat e, sx_nat c, sx_Lnat d with
      | Some ng, Some pd, Some ps, Some n, Some sel =>
          sx_ok (L [of_bool (spec_c12 ng ps (marks_of pd) n sel); of_bool (both_ways_free pd)])
      | _, _, _, _, _ => sx_bad end
  | _ => sx_bad end.

Definition sx_refmarkers (x : sx) : option refmarkers :=
  match x with
  | L [g; p] =>
      match sx_LZ g, sx_list (sx_pair (sx_pair sx_Z sx_Z) (sx_pair sx_Lnat sx_Lnat)) p with
      | Some g', Some p' => Some {| rm_genes := g'; rm_pairs := p' |}
      | _, _ => None end
  | _ => None end.

(* tag 1203: (refmarkers query tree parent behemoth) -> (thinned gene names, by-pair tables of all pairs, taxonomy_idx_array) *)
Definition run_thin (x : sx) : sx :=
  match x with
  | L [a; b; c; d; e] =>
      match sx_refmarkers a, sx_LZ b, sx_tree c, sx_parent d, sx_bool e with
      | Some rm, Some q, Some t, Some p, Some bh =>
          let rm' := thin_genes rm q in
          match parent_idx rm' t p bh with
          | Some idx => sx_ok (L [of_LZ (rm_genes rm'); of_list (of_pair of_Lnat of_Lnat) (pair_tables rm'); of_Lnat idx])
          | None => sx_err 1
          end
      | _, _, _, _, _ => sx_bad end
  | _ => sx_bad end.

(* tag 1204: (n_genes pd idx n) -> the deterministic greedy run with fuel n_genes + 1 *)
Definition run_greedy (x : sx) : sx :=
  match x with
  | L [a; b; e; c] =>
      match sx_nat a, sx_pd b, sx_Lnat e, sx_nat c with
      | Some ng, Some pd, Some ps, Some n =>
          match greedy ng ps (marks_of pd) n (S ng) (start ng ps (marks_of pd) n) with
          | Some st => sx_ok (of_Lnat (chosen st))
          | None => sx_err 1
          end
      | _, _, _, _ => sx_bad end
  | _ => sx_bad end.

(* ====================================================================================================
   Additions (repair of audit defects 3, 9, 10).  Nothing above this line was changed.
   ==================================================================================================== *)

(* ---------------- prefixes of the loop, and the loop with an ARBITRARY deterministic tie-break ---------------- *)
Section Pick.
Variable n_genes : nat.
Variable pairs : list nat.
Variable marks : nat -> slot -> bool.
Variable n : nat.

(* the choices made so far, the loop not required to have stopped (a prefix of a legal trace) *)
Fixpoint steps (st : state) (trace : list nat) : option state :=
  match trace with
  | [] => Some st
  | g :: t => match step n_genes pairs marks n st g with Some st' => steps st' t | None => None end
  end.

(* What a tie-breaking rule may look at.  One entry per call of _update_been_filled so far (the
   first pass, before the desperate phase, included):
     - was sorted_utility_idx recomputed in that call (`len(newly_full[0]) > 0 or ... is None`),
     - the utility array after that call (as a list over the genes of the thinned array),
     - marker_gene_name_list at that call;
   plus marker_gene_name_list now.  np.argsort(utility_array) - whatever its order among equal
   values - followed by pops of the possibly stale list is a function of exactly this (pick_pop). *)
Definition hentry := (bool * list Z * list nat)%type.
Definition pick_fn := list hentry -> list nat -> option nat.
Definition snapshot (st : state) : list Z := map (utility st) (genes n_genes).
(* st = the state BEFORE the call of _update_been_filled that is being recorded *)
Definition observe (st : state) (hist : list hentry) : list hentry :=
  hist ++ [(existsb (newly n_genes marks n st) (slots pairs),
            snapshot (update_filled n_genes pairs marks n st), chosen st)].

Inductive wres :=
| WDone (st : state)        (* `break` *)
| WIllegal (g : nat)        (* the rule named a gene that is not an unchosen gene of maximal utility *)
| WStuck                    (* the rule named no gene *)
| WOutOfFuel.

(* `while True` with the gene of every iteration named by `pick`; every choice is checked by `step`
   (unchosen, a gene, of maximal utility), so a WDone result is the result of a legal run *)
Fixpoint run_with (pick : pick_fn) (fuel : nat) (hist : list hentry) (st : state) : wres :=
  match fuel with
  | O => WOutOfFuel
  | S f =>
      let hist1 := observe st hist in
      let st1 := update_filled n_genes pairs marks n st in
      if finished n_genes pairs st1 then WDone st1
      else match pick hist1 (chosen st1) with
           | None => WStuck
           | Some g => match step n_genes pairs marks n st g with
                       | Some st' => run_with pick f hist1 st'
                       | None => WIllegal g
                       end
           end
  end.

(* the first call of _update_been_filled (sorted_utility_idx is None: it sorts) *)
Definition hist0_sorted : list hentry :=
  [(true, snapshot (update_filled n_genes pairs marks n (init pairs marks)), [])].
(* the whole of _run_selection with the rule `pick`; fuel n_genes + 1 always suffices *)
Definition select_with (pick : pick_fn) : wres :=
  run_with pick (S n_genes) hist0_sorted (start n_genes pairs marks n).
End Pick.

Definition last_opt {A} (l : list A) : option A :=
  match rev l with [] => None | x :: _ => Some x end.

(* three rules.  (1) the model's `greedy`: the first unchosen gene of maximal utility *)
Definition pick_first_max : pick_fn := fun hist ch =>
  match last_opt hist with
  | None => None
  | Some (_, u, _) =>
      let m := fold_right Z.max (-1)%Z u in
      find (fun g => negb (nmem g ch) && (nth g u (-1)%Z =? m)%Z) (seq 0 (length u))
  end.
(* (2) a recorded choice sequence (nd = number of desperate genes) *)
Definition pick_of_trace (nd : nat) (trace : list nat) : pick_fn := fun _ ch =>
  nth_error trace (length ch - nd).
(* (3) what _choose_one_gene(chosen_idx=None) does: sorted_utility_idx.pop(-1), the list being
   list(np.argsort(u)) for the array u of the LAST call of _update_been_filled that recomputed it,
   minus the genes taken since (popped by the loop, or removed by the desperate phase).  A list
   recomputed inside the loop holds every gene again, those already in marker_gene_name_list
   included.  `sorter` = np.argsort: ANY function of the array. *)
Definition pick_pop (sorter : list Z -> list nat) : pick_fn := fun hist ch =>
  match find (fun e : hentry => fst (fst e)) (rev hist) with
  | None => None
  | Some (_, u, ch0) => last_opt (filter (fun g => negb (nmem g ch && negb (nmem g ch0))) (sorter u))
  end.
(* np.argsort given as a finite table (array, result) - how the harness hands the real numpy
   results to the extracted model *)
Fixpoint listZ_eqb (a b : list Z) : bool :=
  match a, b with
  | [], [] => true
  | x :: a', y :: b' => (x =? y)%Z && listZ_eqb a' b'
  | _, _ => false
  end.
Definition table_sorter (tbl : list (list Z * list nat)) (u : list Z) : list nat :=
  match find (fun e => listZ_eqb (fst e) u) tbl with Some e => snd e | None => [] end.

(* ---------------- MarkerGeneArray.downsample_pairs_to_other ---------------- *)
(* the by-pair content (indices[indptr[i]:indptr[i+1]], down and up) of the pair registered under
   the key pr in taxonomy_pair_to_idx; None = RuntimeError of _idx_of_pair *)
Fixpoint tables_of_pair (pr : node * node) (l : list ((node * node) * (list nat * list nat)))
  : option (list nat * list nat) :=
  match l with
  | [] => None
  | e :: t => if pair_eqb pr (fst e) then Some (snd e) else tables_of_pair pr t
  end.
(* the new array: same genes; pair number k is only_keep_pairs[k] (new lookup of
   _create_new_pair_lookup; only_keep_pairs = leaves_to_compare(parent) has no repetition) with the
   rows downsample_indptr copies for it *)
Definition downsample_pairs (rm : refmarkers) (keep : list (node * node)) : option refmarkers :=
  match opt_all (map (fun pr => option_map (fun tb => (pr, tb)) (tables_of_pair pr (rm_pairs rm))) keep) with
  | None => None
  | Some ps => Some {| rm_genes := rm_genes rm; rm_pairs := ps |}
  end.

(* ---------------- select_all_markers / _marker_selection_worker, one parent ---------------- *)
Definition parent_eqb (a b : option (nat * node)) : bool :=
  match a, b with
  | None, None => true
  | Some (i, x), Some (j, y) => Nat.eqb i j && (x =? y)%Z
  | _, _ => false
  end.
(* this_n_per: n_per_utility_override[chosen_parent] if the parent is a key, else n_per_utility *)
Definition n_per_for (default : nat) (override : list (option (nat * node) * nat))
                     (parent : option (nat * node)) : nat :=
  match find (fun e => parent_eqb (fst e) parent) override with
  | Some e => snd e
  | None => default
  end.

Inductive parent_res :=
| PSkip                     (* len(leaves) == 0: output_dict[parent] = [] without any selection *)
| PRun (ng : nat) (r : wres)   (* select_marker_genes_v2 ran on an array of ng genes *)
| PErrOverlap               (* RuntimeError: No gene overlap between reference and query set *)
| PErrPair.                 (* RuntimeError: not a valid taxonomy pair specification *)

(* MarkerGeneArray.from_cache_path(query_gene_names) [raises on an empty overlap, before any parent is
   looked at], leaves_to_compare, the short-circuit, spawn_copy (behemoth) or
   downsample_pairs_to_other, _get_taxonomy_idx (np.sort in BOTH cases), _run_selection *)
Definition select_parent (pick : pick_fn) (rm : refmarkers) (query : list Z) (t : tree)
                         (parent : option (nat * node)) (behemoth : bool) (n : nat) : parent_res :=
  match keep_idx rm query with
  | [] => PErrOverlap
  | _ :: _ =>
      let rm' := thin_genes rm query in
      match leaf_pairs t parent with
      | [] => PSkip
      | _ :: _ =>
          match (if behemoth then Some rm' else downsample_pairs rm' (leaf_pairs t parent)) with
          | None => PErrPair
          | Some arr =>
              match parent_idx arr t parent true with
              | None => PErrPair
              | Some idx => PRun (length (rm_genes arr))
                                 (select_with (length (rm_genes arr)) idx (marks_of (pair_tables arr)) n pick)
              end
          end
      end
  end.

(* ---------------- wire (dispatch.d/c12_downsample.txt) ---------------- *)
Definition of_refmarkers (rm : refmarkers) : sx :=
  L [of_LZ (rm_genes rm);
     of_list (fun e => L [of_pair of_Z of_Z (fst e); of_pair of_Lnat of_Lnat (snd e)]) (rm_pairs rm)].
(* tag 1260: (refmarkers query tree parent) -> the array handed to the worker of a NON-behemoth parent
   (thinned to the query genes, then downsampled to leaves_to_compare(parent)) and _get_taxonomy_idx on it *)
Definition run_downsample (x : sx) : sx :=
  match x with
  | L [a; b; c; d] =>
      match sx_refmarkers a, sx_LZ b, sx_tree c, sx_parent d with
      | Some rm, Some q, Some t, Some p =>
          match downsample_pairs (thin_genes rm q) (leaf_pairs t p) with
          | None => sx_err 1
          | Some arr => match parent_idx arr t p true with
                        | None => sx_err 2
                        | Some idx => sx_ok (L [of_refmarkers arr; of_Lnat idx])
                        end
          end
      | _, _, _, _ => sx_bad end
  | _ => sx_bad end.

Definition of_wres (r : wres) : sx :=
  match r with
  | WDone st => sx_ok (of_Lnat (chosen st))
  | WIllegal g => L [I 1%Z; I 1%Z; of_nat g]
  | WStuck => sx_err 2
  | WOutOfFuel => sx_err 3
  end.
Definition of_parent_res (r : parent_res) : sx :=
  match r with
  | PSkip => L [I 0%Z; L []]
  | PRun ng w => L [I 1%Z; of_nat ng; of_wres w]
  | PErrOverlap => L [I 2%Z; L []]
  | PErrPair => L [I 3%Z; L []]
  end.
Definition sx_override : sx -> option (list (option (nat * node) * nat)) := sx_list (sx_pair sx_parent sx_nat).
(* tag 1261: (refmarkers query tree parent behemoth default override nd observed) -> select_parent with
   this_n_per = n_per_for default override parent and the recorded choices as the rule *)
Definition run_select_parent (x : sx) : sx :=
  match x with
  | L [a; b; c; d; e; f; g; h; i] =>
      match sx_refmarkers a, sx_LZ b, sx_tree c, sx_parent d, sx_bool e, sx_nat f, sx_override g, sx_nat h, sx_Lnat i with
      | Some rm, Some q, Some t, Some p, Some bh, Some dflt, Some ov, Some nd, Some obs =>
          L [of_nat (n_per_for dflt ov p);
             of_parent_res (select_parent (pick_of_trace nd (skipn nd obs)) rm q t p bh (n_per_for dflt ov p))]
      | _, _, _, _, _, _, _, _, _ => sx_bad end
  | _ => sx_bad end.

Definition of_hentry (e : hentry) : sx := L [of_bool (fst (fst e)); of_LZ (snd (fst e)); of_Lnat (snd e)].
(* the history a rule has seen when a legal trace ends *)
Fixpoint hist_along (n_genes : nat) (pairs : list nat) (marks : nat -> slot -> bool) (n : nat)
                    (hist : list hentry) (st : state) (trace : list nat) : option (list hentry) :=
  match trace with
  | [] => Some (observe n_genes pairs marks n st hist)
  | g :: t => match step n_genes pairs marks n st g with
              | Some st' => hist_along n_genes pairs marks n (observe n_genes pairs marks n st hist) st' t
              | None => None
              end
  end.
(* tag 1262: (n_genes pd idx n observed) -> the history (flag, utility array, chosen) along the recorded run *)
Definition run_history (x : sx) : sx :=
  match x with
  | L [a; b; e; c; d] =>
      match sx_nat a, sx_pd b, sx_Lnat e, sx_nat c, sx_Lnat d with
      | Some ng, Some pd, Some ps, Some n, Some obs =>
          let m := marks_of pd in
          let st0 := start ng ps m n in
          match hist_along ng ps m n (hist0_sorted ng ps m n) st0 (skipn (length (chosen st0)) obs) with
          | Some h => sx_ok (of_list of_hentry h)
          | None => sx_err 1
          end
      | _, _, _, _, _ => sx_bad end
  | _ => sx_bad end.
(* tag 1263: (n_genes pd idx n table) -> _run_selection with the rule pick_pop (np.argsort given as a table) *)
Definition run_select_pop (x : sx) : sx :=
  match x with
  | L [a; b; e; c; d] =>
      match sx_nat a, sx_pd b, sx_Lnat e, sx_nat c, sx_list (sx_pair sx_LZ sx_Lnat) d with
      | Some ng, Some pd, Some ps, Some n, Some tbl =>
          of_wres (select_with ng ps (marks_of pd) n (pick_pop (table_sorter tbl)))
      | _, _, _, _, _ => sx_bad end
  | _ => sx_bad end.
