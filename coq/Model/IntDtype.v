(* Model of utils/utils.py:choose_int_dtype and of the rounding done by
   validation/utils.py:round_x_to_integers (np.round = round half to even).
   Numbers are exact rationals n/d with d > 0 (a binary64/32 value is the dyadic
   rational float.as_integer_ratio() returns).  Definitions only. *)
From Coq Require Import ZArith List Bool.
From CTM Require Import Base.Sx.
Import ListNotations.
Open Scope Z_scope.

Definition rat := (Z * Z)%type.          (* numerator, denominator > 0 *)

(* np.round on a scalar: round half to even *)
Definition round_half_even (x : rat) : Z :=
  let (n, d) := x in
  let q := n / d in
  let r := n mod d in
  if 2 * r <? d then q
  else if d <? 2 * r then q + 1
  else if Z.even q then q else q + 1.

(* np.iinfo of the eight candidates, in the order of the loop in the code *)
Definition candidates : list (Z * Z) :=
  [ (0, 255); (-128, 127); (0, 65535); (-32768, 32767);
    (0, 4294967295); (-2147483648, 2147483647);
    (0, 18446744073709551615); (-9223372036854775808, 9223372036854775807) ].

Definition fits (lo hi : Z) (c : Z * Z) : bool := (fst c <=? lo) && (hi <=? snd c).

Fixpoint first_fit (lo hi : Z) (cs : list (Z * Z)) (k : nat) : option nat :=
  match cs with
  | [] => None
  | c :: t => if fits lo hi c then Some k else first_fit lo hi t (S k)
  end.

(* Some k = k-th candidate ; None = the fall-back `int` *)
Definition choose_int_dtype (lo hi : rat) : option nat :=
  first_fit (round_half_even lo) (round_half_even hi) candidates 0.

(* What the code really compares.  int_max is a numpy float scalar when the bound came from
   float data; `int_max <= this_info.max` then converts the Python int iinfo.max to that
   float type (round to nearest) before comparing.  mant = number of mantissa bits of the
   type of the upper bound (24: float32, 53: float64 / Python float), 0 = an integer bound
   (exact comparison).  Every iinfo.max is 2^k - 1: representable iff k <= mant, else it
   rounds up to 2^k.  (iinfo.min = -2^k is always representable.) *)
Definition fmax (mant : Z) (mx : Z) : Z :=
  if (mant =? 0) || (mx <? 2 ^ mant) then mx else mx + 1.
Definition fcandidates (mant : Z) : list (Z * Z) := map (fun c => (fst c, fmax mant (snd c))) candidates.
Definition choose_int_dtype_f (mant : Z) (lo hi : rat) : option nat :=
  first_fit (round_half_even lo) (round_half_even hi) (fcandidates mant) 0.

Definition range_of (k : nat) : Z * Z := nth k candidates (0, -1).

(* value-level view of `rounded_chunk.astype(output_dtype)` *)
Definition round_values (xs : list rat) : list Z := map round_half_even xs.

Definition rat_le (x y : rat) : Prop := fst x * snd y <= fst y * snd x.

(* ---- wire ---- *)
Definition sx_rat (x : sx) : option rat :=
  match x with
  | L [I n; I d] => if 0 <? d then Some (n, d) else None
  | _ => None
  end.

(* tag 1601: (lo hi) -> index of the chosen candidate, 8 for `int` *)
Definition run_choose (x : sx) : sx :=
  match x with
  | L [a; b] =>
      match sx_rat a, sx_rat b with
      | Some lo, Some hi =>
          sx_ok (of_nat (match choose_int_dtype lo hi with Some k => k | None => 8%nat end))
      | _, _ => sx_bad
      end
  | _ => sx_bad
  end.

(* tag 1605: (mant lo hi) -> index chosen by the float-faithful model *)
Definition run_choose_f (x : sx) : sx :=
  match x with
  | L [I m; a; b] =>
      match sx_rat a, sx_rat b with
      | Some lo, Some hi =>
          sx_ok (of_nat (match choose_int_dtype_f m lo hi with Some k => k | None => 8%nat end))
      | _, _ => sx_bad
      end
  | _ => sx_bad
  end.

(* tag 1602: list of rationals -> their roundings *)
Definition run_round (x : sx) : sx :=
  match sx_list sx_rat x with
  | Some xs => sx_ok (of_LZ (round_values xs))
  | None => sx_bad
  end.
