(* Model of gene_id/utils.py:is_ensembl, gene_id_mapper.py:map_gene_identifiers,
   validation/utils.py:map_gene_ids_in_var and of the decision table of
   validation/validate_h5ad.py:_validate_h5ad.  Strings are lists of code points.
   Definitions only. *)
From Coq Require Import ZArith List Bool.
From CTM Require Import Base.Sx.
Import ListNotations.
Open Scope Z_scope.

Definition str := list Z.

Fixpoint str_eqb (a b : str) : bool :=
  match a, b with
  | [], [] => true
  | x :: a', y :: b' => (x =? y) && str_eqb a' b'
  | _, _ => false
  end.

Definition is_upper (c : Z) : bool := (65 <=? c) && (c <=? 90).
Definition is_digit (c : Z) : bool := (48 <=? c) && (c <=? 57).

Fixpoint span (p : Z -> bool) (s : str) : str * str :=
  match s with
  | [] => ([], [])
  | c :: t => if p c then let (a, b) := span p t in (c :: a, b) else ([], s)
  end.

Definition is_nil {A} (l : list A) : bool := match l with [] => true | _ => false end.

(* re.compile(r'ENS[A-Z]+[0-9]+(\.[0-9]+)?').fullmatch *)
Definition is_ensembl (s : str) : bool :=
  match s with
  | 69 :: 78 :: 83 :: rest =>
      let (up, r1) := span is_upper rest in
      let (dg, r2) := span is_digit r1 in
      negb (is_nil up) && negb (is_nil dg) &&
      match r2 with
      | [] => true
      | 46 :: r3 => let (dg2, r4) := span is_digit r3 in negb (is_nil dg2) && is_nil r4
      | _ => false
      end
  | _ => false
  end.

(* n.split('.')[0] *)
Fixpoint before_dot (s : str) : str :=
  match s with
  | [] => []
  | c :: t => if c =? 46 then [] else c :: before_dot t
  end.

Fixpoint lookup (k : str) (tbl : list (str * str)) : option str :=
  match tbl with
  | [] => None
  | (k', v) :: t => if str_eqb k k' then Some v else lookup k t
  end.

(* an output name: a real string, or the ct-th placeholder
   f"unmapped_{ct}_{timestamp}" (the time stamp is not modelled) *)
Inductive oname := Name (s : str) | Placeholder (ct : nat).

Definition oname_eqb (a b : oname) : bool :=
  match a, b with
  | Name s, Name t => str_eqb s t
  | Placeholder i, Placeholder j => Nat.eqb i j
  | _, _ => false
  end.

(* the loop of map_gene_identifiers; ct = RandomNameGenerator.ct *)
Fixpoint map_loop (tbl : list (str * str)) (ct : nat) (genes : list str) : list oname * nat :=
  match genes with
  | [] => ([], ct)
  | g :: t =>
      if is_ensembl g then
        let (o, c) := map_loop tbl ct t in (Name (before_dot g) :: o, c)
      else match lookup g tbl with
           | Some v => let (o, c) := map_loop tbl ct t in (Name (before_dot v) :: o, c)
           | None => let (o, c) := map_loop tbl (S ct) t in (Placeholder ct :: o, c)
           end
  end.

Inductive gres (A : Type) := GOk (a : A) | GErr (code : Z).
Arguments GOk {A}. Arguments GErr {A}.

(* error codes *)
Definition E_ALL_UNMAPPED := 1.
Definition E_DUP_MAPPED := 2.
Definition E_DUP_CELL := 3.
Definition E_DUP_GENE := 4.
Definition E_EMPTY_GENE := 5.

(* map_gene_identifiers on a fresh mapper: (mapped names, n_unmapped) *)
Definition map_gene_identifiers (tbl : list (str * str)) (genes : list str)
  : gres (list oname * nat) :=
  match genes with
  | [] => GOk ([], 0%nat)
  | _ =>
    let (o, n) := map_loop tbl 0 genes in
    if Nat.eqb n (length genes) then GErr E_ALL_UNMAPPED else GOk (o, n)
  end.

Fixpoint has_dup {A} (eqb : A -> A -> bool) (l : list A) : bool :=
  match l with
  | [] => false
  | x :: t => existsb (eqb x) t || has_dup eqb t
  end.

Fixpoint onames_eq_strs (o : list oname) (g : list str) : bool :=
  match o, g with
  | [], [] => true
  | Name s :: o', x :: g' => str_eqb s x && onames_eq_strs o' g'
  | _, _ => false
  end.

(* the renaming recorded in uns['AIBS_CDM_gene_mapping'] *)
Fixpoint gene_mapping (g : list str) (o : list oname) : list (str * oname) :=
  match g, o with
  | x :: g', y :: o' =>
      (match y with
       | Name s => if str_eqb s x then [] else [(x, y)]
       | Placeholder _ => [(x, y)]
       end) ++ gene_mapping g' o'
  | _, _ => []
  end.

Record vresult := {
  v_new_file : bool;                       (* a validated file is written *)
  v_genes : list oname;                    (* var index of the written file *)
  v_mapping : list (str * oname);          (* recorded renaming *)
  v_n_mapped : nat;                        (* AIBS_CDM_n_mapped_genes *)
  v_rounded : bool                         (* X was cast to an integer type *)
}.

(* decision logic of _validate_h5ad.  cells / genes: the obs and var indices;
   layer_is_x; round_to_int; x_is_int = is_x_integers(...) *)
Definition validate (tbl : list (str * str)) (cells genes : list str)
           (layer_is_x round_to_int x_is_int : bool) : gres vresult :=
  if has_dup str_eqb cells then GErr E_DUP_CELL
  else if has_dup str_eqb genes then GErr E_DUP_GENE
  else if existsb is_nil genes then GErr E_EMPTY_GENE
  else
    let cast := round_to_int && negb x_is_int in
    match map_gene_identifiers tbl genes with
    | GErr c => GErr c
    | GOk (o, n_unmapped) =>
        let changed := negb (onames_eq_strs o genes) in
        if changed && has_dup oname_eqb o then GErr E_DUP_MAPPED
        else
          let newf := negb layer_is_x || changed || cast in
          GOk {| v_new_file := newf;
                 v_genes := if changed then o else map Name genes;
                 v_mapping := if changed then gene_mapping genes o else [];
                 v_n_mapped := (length genes - (if changed then n_unmapped else 0))%nat;
                 v_rounded := cast |}
    end.

(* ---- wire ---- *)
Definition sx_str : sx -> option str := sx_LZ.
Definition of_oname (o : oname) : sx :=
  match o with Name s => L [I 0; of_LZ s] | Placeholder k => L [I 1; of_nat k] end.
Definition sx_tbl : sx -> option (list (str * str)) := sx_list (sx_pair sx_str sx_str).

(* tag 1603: list of strings -> is_ensembl flags *)
Definition run_is_ensembl (x : sx) : sx :=
  match sx_list sx_str x with
  | Some l => sx_ok (of_list of_bool (map is_ensembl l))
  | None => sx_bad
  end.

(* tag 1604: (tbl cells genes layer_is_x round_to_int x_is_int) *)
Definition run_validate (x : sx) : sx :=
  match x with
  | L [t; c; g; a; b; d] =>
      match sx_tbl t, sx_list sx_str c, sx_list sx_str g, sx_bool a, sx_bool b, sx_bool d with
      | Some t', Some c', Some g', Some a', Some b', Some d' =>
          match validate t' c' g' a' b' d' with
          | GErr code => sx_err code
          | GOk r => sx_ok (L [of_bool (v_new_file r); of_list of_oname (v_genes r);
                               of_list (of_pair of_LZ of_oname) (v_mapping r);
                               of_nat (v_n_mapped r); of_bool (v_rounded r)])
          end
      | _, _, _, _, _, _ => sx_bad
      end
  | _ => sx_bad
  end.
