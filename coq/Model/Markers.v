(* Model of type_assignment/marker_cache_v2.py:
     validate_marker_lookup, create_marker_cache_from_specified_markers,
     write_query_markers_to_h5, serialize_markers
   and of the flattening of the marker table in cli/from_specified_markers.py.

   Gene and node names are order-preserving integers.  A key of the marker
   table is None (the string 'None', the root) or Some (level index, node)
   (the string 'level/node'; a level name that is not in the hierarchy gets an
   index >= the number of levels).  The table is a Python dict in insertion
   order (NoDup keys is a precondition of the theorems); Python sets of genes
   are lists read modulo order and multiplicity, canonicalised (sorted, without
   duplicates) exactly where the code sorts.  Definitions only. *)
From Coq Require Import ZArith List Bool Arith.
From CTM Require Import Base.Sx Base.SortX Model.Tree.
Import ListNotations.
Open Scope Z_scope.

Definition gene := Z.
Definition pkey := option (nat * node).
Definition pkey_eqb (a b : pkey) : bool :=
  match a, b with
  | None, None => true
  | Some (i, x), Some (j, y) => Nat.eqb i j && (x =? y)
  | _, _ => false
  end.

Definition table := list (pkey * list gene).

Fixpoint tget {A} (k : pkey) (tb : list (pkey * A)) : option A :=
  match tb with
  | [] => None
  | (k', v) :: r => if pkey_eqb k k' then Some v else tget k r
  end.
(* d[k] = v : overwrite in place, or append a new key at the end *)
Fixpoint tset {A} (k : pkey) (v : A) (tb : list (pkey * A)) : list (pkey * A) :=
  match tb with
  | [] => [(k, v)]
  | (k', v') :: r => if pkey_eqb k k' then (k', v) :: r else (k', v') :: tset k v r
  end.

Inductive mres (A : Type) := MOk (a : A) | MErr (code : Z).
Arguments MOk {A}. Arguments MErr {A}.
Definition E_VALIDATE := 1.     (* "validating marker lookup ..." *)
Definition E_NOWHERE := 2.      (* "no valid marker genes could be found at any level" *)
Definition E_NO_OVERLAP := 3.   (* "No markers at parent node ... were present in query set." *)
Definition E_NOT_IN_REF := 4.   (* "The following marker genes are not in the reference dataset" *)
Definition E_KEY := 5.          (* KeyError *)
Definition E_INDEX := 6.        (* IndexError *)

(* set(l) as a list without duplicates; sorted(set(l)) *)
Definition uniq (l : list gene) : list gene := nodup Z.eq_dec l.
Definition canon (l : list gene) : list gene := zsort (uniq l).
Definition inq (q : list gene) (l : list gene) : list gene := filter (fun g => zmem g q) l.
(* len(query_gene_names.intersection(set(l))) *)
Definition n_usable (q l : list gene) : nat := length (uniq (inq q l)).

(* ---------------- validate_marker_lookup ---------------- *)
Record vstate := {
  v_tb : table;                          (* the (deep-copied) marker_lookup being patched *)
  v_err : bool;                          (* len(error_msg) > 0 *)
  v_bad : nat;                           (* bad_parent_ct *)
  v_skip : nat;                          (* skipped_parent_ct *)
  v_log : list (pkey * list pkey)        (* (parent, patched_with) of every "augmenting" warning *)
}.

(* the loop over reverse_hier restricted to the ancestors: nearest first,
   ancestors absent from the table skipped, stop as soon as min_markers is reached *)
Fixpoint patch_loop (tb : table) (q : list gene) (minm : nat) (ancs : list (nat * node))
         (new : list gene) (patched : list pkey) : list gene * list pkey :=
  match ancs with
  | [] => (new, patched)
  | a :: rest =>
      match tget (Some a) tb with
      | None => patch_loop tb q minm rest new patched
      | Some l =>
          let new' := new ++ l in
          let patched' := patched ++ [Some a] in
          if (minm <=? n_usable q new')%nat then (new', patched')
          else patch_loop tb q minm rest new' patched'
      end
  end.

(* the block under `if len(query ∩ markers) < min_markers` for a non-root parent *)
Definition patch_parent (t : tree) (q : list gene) (minm : nat) (tb : table)
           (li : nat) (x : node) (markers : list gene) : table * list pkey :=
  let '(new1, patched1) := patch_loop tb q minm (ancestors t li x) markers [] in
  let '(new2, patched2) :=
    if (n_usable q new1 <? minm)%nat then
      match tget None tb with
      | Some l => (new1 ++ l, patched1 ++ [None])
      | None => (new1, patched1)
      end
    else (new1, patched1) in
  (if is_nil patched2 then tb else tset (Some (li, x)) (canon (inq q new2)) tb, patched2).

Definition entry (tb : table) (k : pkey) : list gene :=
  match tget k tb with Some l => l | None => [] end.

(* one iteration of `for parent in all_parents` *)
Definition vstep (t : tree) (q : list gene) (minm : nat) (st : vstate) (p : pkey) : vstate :=
  if (length (children t p) <=? 1)%nat then
    {| v_tb := v_tb st; v_err := v_err st; v_bad := v_bad st; v_skip := S (v_skip st); v_log := v_log st |}
  else
    let root_fail :=
      {| v_tb := v_tb st; v_err := true; v_bad := v_bad st; v_skip := v_skip st; v_log := v_log st |} in
    let go (tb : table) (markers : list gene) :=
      if (n_usable q markers <? minm)%nat then
        let '(tb', log') :=
          match p with
          | Some (li, x) =>
              let '(tb', patched) := patch_parent t q minm tb li x markers in
              (tb', v_log st ++ [(p, patched)])
          | None => (tb, v_log st)
          end in
        if Nat.eqb (n_usable q (entry tb' p)) 0 then
          {| v_tb := tb'; v_err := true; v_bad := S (v_bad st); v_skip := v_skip st; v_log := log' |}
        else
          {| v_tb := tb'; v_err := v_err st; v_bad := v_bad st; v_skip := v_skip st; v_log := log' |}
      else
        {| v_tb := tb; v_err := v_err st; v_bad := v_bad st; v_skip := v_skip st; v_log := v_log st |} in
    match tget p (v_tb st) with
    | Some l =>
        if is_nil l then
          match p with
          | None => root_fail                         (* error_msg += ...; continue *)
          | Some _ => go (v_tb st) l
          end
        else go (v_tb st) l
    | None =>
        match p with
        | None => root_fail
        | Some _ => go (tset p [] (v_tb st)) []
        end
    end.

Definition vinit (tb : table) : vstate :=
  {| v_tb := tb; v_err := false; v_bad := 0; v_skip := 0; v_log := [] |}.

Definition vfold (tb : table) (q : list gene) (t : tree) (minm : nat) : vstate :=
  fold_left (vstep t q minm) (rev (all_parents t)) (vinit tb).

Definition validate_marker_lookup (tb : table) (q : list gene) (t : tree) (minm : nat)
  : mres (table * list (pkey * list pkey)) :=
  let st := vfold tb q t minm in
  if v_err st then
    if Nat.eqb (v_bad st + v_skip st) (length (all_parents t)) then MErr E_NOWHERE
    else MErr E_VALIDATE
  else MOk (v_tb st, v_log st).

(* ---------------- write_query_markers_to_h5 ---------------- *)
(* {n: ii for ii, n in enumerate(names)}[g] : the last occurrence wins *)
Fixpoint index_last (g : gene) (names : list gene) : option nat :=
  match names with
  | [] => None
  | x :: t => match index_last g t with
              | Some i => Some (S i)
              | None => if x =? g then Some 0%nat else None
              end
  end.

(* (reference index, query index) of every listed gene; None = KeyError *)
Fixpoint index_pairs (refg qg : list gene) (genes : list gene) : option (list (nat * nat)) :=
  match genes with
  | [] => Some []
  | g :: t =>
      match index_last g refg, index_last g qg, index_pairs refg qg t with
      | Some r, Some q, Some rest => Some ((r, q) :: rest)
      | _, _, _ => None
      end
  end.

(* np.argsort on the reference indices, applied to both arrays *)
Fixpoint pinsert (x : nat * nat) (l : list (nat * nat)) : list (nat * nat) :=
  match l with
  | [] => [x]
  | y :: t => if (fst x <=? fst y)%nat then x :: y :: t else y :: pinsert x t
  end.
Definition psort (l : list (nat * nat)) : list (nat * nat) := fold_right pinsert [] l.

(* np.sort(np.array(list(set(...)))) *)
Definition nat_sort_uniq (l : list nat) : list nat :=
  map Z.to_nat (zsort (nodup Z.eq_dec (map Z.of_nat l))).

Record cache := {
  c_parents : list pkey;                          (* 'parent_node_list' (a set; written sorted as strings) *)
  c_allq : list nat;                              (* 'all_query_markers' *)
  c_allr : list nat;                              (* 'all_reference_markers' *)
  c_groups : list (pkey * (list nat * list nat))  (* group -> ('reference', 'query') *)
}.

Fixpoint wq_groups (refg qg : list gene) (tb : table) : option (list (pkey * (list nat * list nat))) :=
  match tb with
  | [] => Some []
  | (k, l) :: r =>
      match index_pairs refg qg l, wq_groups refg qg r with
      | Some ps, Some rest => let s := psort ps in Some ((k, (map fst s, map snd s)) :: rest)
      | _, _ => None
      end
  end.

Definition write_query_markers (tb : table) (refg qg : list gene) : mres cache :=
  match wq_groups refg qg tb with
  | None => MErr E_KEY
  | Some gs =>
      MOk {| c_parents := map fst tb;
             c_allq := nat_sort_uniq (flat_map (fun g => snd (snd g)) gs);
             c_allr := nat_sort_uniq (flat_map (fun g => fst (snd g)) gs);
             c_groups := gs |}
  end.

(* ---------------- create_marker_cache_from_specified_markers ---------------- *)
Definition in_parents (t : tree) (p : pkey) : bool := existsb (pkey_eqb p) (all_parents t).

(* _parents_needing_markers: the keys of the parents of the tree that have more than one child *)
Definition needs_markers (t : tree) (k : pkey) : bool :=
  in_parents t k && (2 <=? length (children t k))%nat.

(* the loop `for parent_node in marker_lookup`; need k = `needs_markers is None or parent_node in
   needs_markers`: query overlap is demanded of the needed entries only, any other entry without a
   query gene is written out empty *)
Fixpoint cc_loop (need : pkey -> bool) (q : list gene) (tb : table) : mres table :=
  match tb with
  | [] => MOk []
  | (k, l) :: r =>
      let these := uniq (inq q l) in
      if is_nil these && negb (is_nil l) && need k then MErr E_NO_OVERLAP
      else match cc_loop need q r with
           | MOk f => MOk ((k, these) :: f)
           | MErr e => MErr e
           end
  end.
(* without a taxonomy_tree every entry is taken to be needed *)
Definition cc_need (topt : option tree) : pkey -> bool :=
  match topt with Some t => needs_markers t | None => fun _ => true end.
Definition missing_ref (refg : list gene) (tb : table) : bool :=
  existsb (fun kl => existsb (fun g => negb (zmem g refg)) (snd kl)) tb.

Definition create_cache (tb : table) (refg qg : list gene) (topt : option tree) (minm : nat)
  : mres cache :=
  match (match topt with
         | Some t => match validate_marker_lookup tb qg t minm with
                     | MOk (tb', _) => MOk tb'
                     | MErr e => MErr e
                     end
         | None => MOk tb
         end) with
  | MErr e => MErr e
  | MOk tb' =>
      match cc_loop (cc_need topt) qg tb' with
      | MErr e => MErr e
      | MOk final =>
          if missing_ref refg tb' then MErr E_NOT_IN_REF
          else write_query_markers final refg qg
      end
  end.

(* ---------------- serialize_markers ---------------- *)
Definition names_at (names : list gene) (idx : list nat) : option (list gene) :=
  opt_all (map (nth_error names) idx).

Definition serialize_one (c : cache) (refg : list gene) (t : tree) (k : pkey) : mres (list gene) :=
  if (match k with Some _ => (length (children t k) <? 2)%nat | None => false end) then MOk []
  else match tget k (c_groups c) with
       | None => MErr E_KEY
       | Some (ri, _) => match names_at refg ri with
                         | Some g => MOk g
                         | None => MErr E_INDEX
                         end
       end.

Fixpoint serialize_keys (c : cache) (refg : list gene) (t : tree) (ks : list pkey)
  : mres (list (pkey * list gene)) :=
  match ks with
  | [] => MOk []
  | k :: r =>
      match serialize_one c refg t k with
      | MErr e => MErr e
      | MOk g => match serialize_keys c refg t r with
                 | MOk rest => MOk ((k, g) :: rest)
                 | MErr e => MErr e
                 end
      end
  end.

Definition serialize (c : cache) (refg : list gene) (t : tree) : mres (list (pkey * list gene)) :=
  serialize_keys c refg t (map Some (all_parents_from 0 t) ++ [None]).

(* what assemble_query_data takes from the cache for parent k: the names of the
   query columns and of the reference columns (they must be the same list) *)
Definition used (c : cache) (refg qg : list gene) (k : pkey) : option (list gene * list gene) :=
  match tget k (c_groups c) with
  | None => None
  | Some (ri, qi) => match names_at refg ri, names_at qg qi with
                     | Some a, Some b => Some (a, b)
                     | _, _ => None
                     end
  end.

(* ---------------- flattening of the table (from_specified_markers._run_mapping) ---------------- *)
Definition flatten_table (tb : table) : table := [(None, canon (concat (map snd tb)))].

(* ---------------- the declarative statement, from the ORIGINAL table ---------------- *)
(* lists of the ancestors that are keys of the table, nearest first *)
Definition anc_lists (tb : table) (t : tree) (li : nat) (x : node) : list (list gene) :=
  flat_map (fun a => match tget (Some a) tb with Some l => [l] | None => [] end) (ancestors t li x).

(* own ∪ the first k ancestor lists *)
Definition with_first (own : list gene) (al : list (list gene)) (k : nat) : list gene :=
  own ++ concat (firstn k al).

(* the smallest k >= 1 whose union reaches the minimum; all of them if none does *)
Definition k_min (q : list gene) (minm : nat) (own : list gene) (al : list (list gene)) : nat :=
  match find (fun k => (minm <=? n_usable q (with_first own al k))%nat) (seq 1 (length al)) with
  | Some k => k
  | None => length al
  end.

Definition spec_markers (tb : table) (q : list gene) (minm : nat) (t : tree) (p : pkey) : list gene :=
  let own := entry tb p in
  match p with
  | None => inq q own
  | Some (li, x) =>
      if (minm <=? n_usable q own)%nat then inq q own
      else
        let al := anc_lists tb t li x in
        let u := with_first own al (k_min q minm own al) in
        let u' := if (n_usable q u <? minm)%nat then u ++ entry tb None else u in
        inq q u'
  end.

(* ---------------- which unknown markers demand an error (declarative, from the ORIGINAL table) ---------------- *)
(* the listed entry of p never reaches the reference check as listed: it is replaced by its patched
   version, which is restricted to query genes.  That happens exactly for a non-root parent of the tree
   with >= 2 children, fewer than min usable own markers and something to patch with (an ancestor that
   is a key of the table, or the root entry) *)
Definition entry_replaced (tb : table) (q : list gene) (minm : nat) (t : tree) (p : pkey) : bool :=
  match p with
  | None => false
  | Some (li, x) =>
      in_parents t p && (2 <=? length (children t p))%nat && (n_usable q (entry tb p) <? minm)%nat &&
      (negb (is_nil (anc_lists tb t li x)) || match tget None tb with Some _ => true | None => false end)
  end.

(* g, listed under key k, is unknown to the reference and must end the run with an error: the documented
   exception is a gene absent from the query too, in an entry that is replaced *)
Definition demands_error (tb : table) (refg q : list gene) (minm : nat) (t : tree) (k : pkey) (g : gene) : bool :=
  negb (zmem g refg) && (zmem g q || negb (entry_replaced tb q minm t k)).

(* the (key, gene) pairs of the parents of the tree that demand the error *)
Definition unknown_demanded (tb : table) (refg q : list gene) (minm : nat) (t : tree) : list (pkey * gene) :=
  flat_map (fun kl => map (fun g => (fst kl, g)) (filter (demands_error tb refg q minm t (fst kl)) (snd kl)))
           (filter (fun kl => in_parents t (fst kl)) tb).

(* ---------------- wire ---------------- *)
Definition sx_pkey (x : sx) : option pkey := sx_parent x.
Definition of_pkey (k : pkey) : sx :=
  match k with None => L [] | Some (li, n) => L [of_nat li; I n] end.
Definition sx_table : sx -> option table := sx_list (sx_pair sx_pkey sx_LZ).
Definition of_table (tb : table) : sx := of_list (of_pair of_pkey of_LZ) tb.
Definition of_mres {A} (f : A -> sx) (r : mres A) : sx :=
  match r with MOk a => sx_ok (f a) | MErr c => sx_err c end.
Definition of_cache (c : cache) : sx :=
  L [of_list of_pkey (c_parents c); of_Lnat (c_allq c); of_Lnat (c_allr c);
     of_list (fun g => L [of_pkey (fst g); of_Lnat (fst (snd g)); of_Lnat (snd (snd g))]) (c_groups c)].
Definition sx_group (x : sx) : option (pkey * (list nat * list nat)) :=
  match x with
  | L [k; a; b] => match sx_pkey k, sx_Lnat a, sx_Lnat b with
                   | Some k', Some a', Some b' => Some (k', (a', b'))
                   | _, _, _ => None end
  | _ => None end.
Definition sx_cache (x : sx) : option cache :=
  match x with
  | L [p; a; b; g] =>
      match sx_list sx_pkey p, sx_Lnat a, sx_Lnat b, sx_list sx_group g with
      | Some p', Some a', Some b', Some g' =>
          Some {| c_parents := p'; c_allq := a'; c_allr := b'; c_groups := g' |}
      | _, _, _, _ => None end
  | _ => None end.
Definition sx_tree_opt (x : sx) : option (option tree) :=
  match x with
  | L [] => Some None
  | L [t] => match sx_tree t with Some t' => Some (Some t') | None => None end
  | _ => None end.

(* tag 801: (tree table query min) -> (patched table, log of (parent, patched_with)) *)
Definition run_validate_lookup (x : sx) : sx :=
  match x with
  | L [a; b; c; d] =>
      match sx_tree a, sx_table b, sx_LZ c, sx_nat d with
      | Some t, Some tb, Some q, Some m =>
          of_mres (fun r => L [of_table (fst r);
                               of_list (fun e => L [of_pkey (fst e); of_list of_pkey (snd e)]) (snd r)])
                  (validate_marker_lookup tb q t m)
      | _, _, _, _ => sx_bad end
  | _ => sx_bad end.
(* tag 802: (tree? table ref query min) -> cache *)
Definition run_create_cache (x : sx) : sx :=
  match x with
  | L [a; b; c; d; e] =>
      match sx_tree_opt a, sx_table b, sx_LZ c, sx_LZ d, sx_nat e with
      | Some t, Some tb, Some r, Some q, Some m => of_mres of_cache (create_cache tb r q t m)
      | _, _, _, _, _ => sx_bad end
  | _ => sx_bad end.
(* tag 803: (table ref query) -> cache *)
Definition run_write_query_markers (x : sx) : sx :=
  match x with
  | L [b; c; d] =>
      match sx_table b, sx_LZ c, sx_LZ d with
      | Some tb, Some r, Some q => of_mres of_cache (write_query_markers tb r q)
      | _, _, _ => sx_bad end
  | _ => sx_bad end.
(* tag 804: (cache ref tree) -> reported table *)
Definition run_serialize (x : sx) : sx :=
  match x with
  | L [a; b; c] =>
      match sx_cache a, sx_LZ b, sx_tree c with
      | Some ch, Some r, Some t => of_mres of_table (serialize ch r t)
      | _, _, _ => sx_bad end
  | _ => sx_bad end.
(* tag 805: (tree table query min) -> spec_markers (sorted, without duplicates) of every
   parent with >= 2 children, in all_parents order *)
Definition run_spec_markers (x : sx) : sx :=
  match x with
  | L [a; b; c; d] =>
      match sx_tree a, sx_table b, sx_LZ c, sx_nat d with
      | Some t, Some tb, Some q, Some m =>
          sx_ok (of_table (map (fun p => (p, canon (spec_markers tb q m t p)))
                               (filter (fun p => (2 <=? length (children t p))%nat) (all_parents t))))
      | _, _, _, _ => sx_bad end
  | _ => sx_bad end.
(* tag 806: table -> flattened table *)
Definition run_flatten_table (x : sx) : sx :=
  match sx_table x with Some tb => sx_ok (of_table (flatten_table tb)) | None => sx_bad end.
(* tag 807: (cache ref query) -> per group (key, names at the reference indices, names at the query indices) *)
Definition run_used (x : sx) : sx :=
  match x with
  | L [a; b; c] =>
      match sx_cache a, sx_LZ b, sx_LZ c with
      | Some ch, Some r, Some q =>
          sx_ok (of_list (fun g => L [of_pkey (fst g);
                                      of_option (fun ab => L [of_LZ (fst ab); of_LZ (snd ab)])
                                                (used ch r q (fst g))])
                         (c_groups ch))
      | _, _, _ => sx_bad end
  | _ => sx_bad end.
(* tag 808: (tree table ref query min) -> the (key, gene) pairs, listed under parents of the tree, that are
   unknown to the reference and demand an error (unknown_demanded) *)
Definition run_unknown_demanded (x : sx) : sx :=
  match x with
  | L [a; b; c; d; e] =>
      match sx_tree a, sx_table b, sx_LZ c, sx_LZ d, sx_nat e with
      | Some t, Some tb, Some r, Some q, Some m =>
          sx_ok (of_list (fun kg => L [of_pkey (fst kg); I (snd kg)]) (unknown_demanded tb r q m t))
      | _, _, _, _, _ => sx_bad end
  | _ => sx_bad end.
