(* Extraction of the executable model: ExtrOcamlBasic only, no Extract Constant /
   Extract Inductive of our own; nat, positive, Z stay the extracted datatypes. *)
From Coq Require Import ZArith.
From CTM Require Import Base.Sx Extract.Dispatch.
Require Extraction.
Require Import ExtrOcamlBasic.
Extraction "model.ml" dispatch z_push z_pop z_neg z_is_zero z_is_neg.
