From Coq Require Import ZArith List Bool.
From CTM Require Import Model.Election.
Theorem c07_placeholder : True. Proof. exact I. Qed.
Print Assumptions c07_placeholder.
