(* C07 — the mapping of a cell is invariant to the scale of its raw counts, to whether the
   input is given raw or already normalised (declared log2CPM), to the order of the gene
   columns and (normalised input) to genes that are not markers; raw input with a negative
   value is rejected.
   Property theorems only: each is closed by `exact <lemma>` (Proofs/NormalizeP.v).

   prepare_query R lg genes input lists  (Model/Normalize.v) is everything the election sees of
   the query: one matrix per parent node, columns = that parent's markers in REFERENCE order.
   The bootstrap subsets index these columns, and the reference side does not depend on the
   query at all; so equality of prepare_query is equality of every vote, for every bootstrap
   factor and every random stream (C02's tally is a function of these matrices).

   R, lg : the type of normalised values and v |-> log2(1 + v).  Nothing is assumed about lg
   except, where stated, that it depends only on the VALUE of the fraction it is given
   (hypothesis written out in each theorem that needs it). *)
From Coq Require Import ZArith List Bool Permutation.
From CTM Require Import Base.Sx Base.SortX Model.Normalize Proofs.NormalizeP.
Import ListNotations.
Open Scope Z_scope.

(* (1) scale: for every k > 0 the CPM of k*row equals the CPM of row entry-wise AS FRACTIONS
   (including the all-zero row, whose denominator is 1), hence the normalised rows are equal,
   hence, with an arbitrary positive factor per cell, the prepared query is equal *)
Theorem c07_scale_invariant :
  forall (R : Type) (lg : frac -> R),
  (forall a b, 0 < snd a -> 0 < snd b -> feq a b -> lg a = lg b) ->
  (forall k row, 0 < k -> Forall (fun x => 0 <= x) row ->
     Forall2 feq (cpm_row (map (Z.mul k) row)) (cpm_row row) /\
     log2cpm_row R lg (map (Z.mul k) row) = log2cpm_row R lg row) /\
  (forall ks genes d lists, Forall (fun k => 0 < k) ks -> length ks = length d ->
     prepare_query R lg genes (DeclRaw (scale_rows ks d)) lists = prepare_query R lg genes (DeclRaw d) lists).
Proof. exact scale_invariant_full. Qed.
Print Assumptions c07_scale_invariant.

(* the same for a rational factor b/a: two integer rows with a*x = b*y entry-wise *)
Theorem c07_scale_invariant_rational :
  forall (R : Type) (lg : frac -> R),
  (forall a b, 0 < snd a -> 0 < snd b -> feq a b -> lg a = lg b) ->
  forall a b r1 r2, 0 < a -> 0 < b -> Forall (fun x => 0 <= x) r1 ->
    Forall2 (fun x y => a * x = b * y) r1 r2 ->
    Forall2 feq (cpm_row r1) (cpm_row r2) /\ log2cpm_row R lg r1 = log2cpm_row R lg r2.
Proof. exact scale_invariant_rational. Qed.
Print Assumptions c07_scale_invariant_rational.

(* (2) raw input mapped = its log2CPM matrix declared normalised (for EVERY lg, every gene set,
   every marker table; error cases included): normalisation happens on the full gene set,
   before any column is selected *)
Theorem c07_raw_equals_declared_normalised :
  forall (R : Type) (lg : frac -> R) genes d lists,
  has_negative d = false ->
  prepare_query R lg genes (DeclRaw d) lists =
  prepare_query R lg genes (DeclNorm (map (log2cpm_row R lg) d)) lists.
Proof. exact raw_equals_declared. Qed.
Print Assumptions c07_raw_equals_declared_normalised.

(* (3) gene order: for every permutation p of the columns, applied to the names and to every
   row, the prepared query is unchanged — raw and declared-normalised input *)
Theorem c07_gene_permutation :
  forall (R : Type) (lg : frac -> R) p genes lists,
  NoDup genes -> Permutation p (seq 0 (length genes)) ->
  (forall d : list (list Z), Forall (fun r => length r = length genes) d ->
     prepare_query R lg (permute p genes) (DeclRaw (map (permute p) d)) lists =
     prepare_query R lg genes (DeclRaw d) lists) /\
  (forall d : list (list R), Forall (fun r => length r = length genes) d ->
     prepare_query R lg (permute p genes) (DeclNorm (map (permute p) d)) lists =
     prepare_query R lg genes (DeclNorm d) lists).
Proof. exact gene_permutation_both. Qed.
Print Assumptions c07_gene_permutation.

(* (4) declared-normalised input: removing (read right to left: adding) any genes that are
   not in a marker list changes nothing ... *)
Theorem c07_extra_genes_irrelevant :
  forall (R : Type) (lg : frac -> R) (keep : Z -> bool) genes (d : list (list R)) lists,
  NoDup genes -> Forall (fun r => length r = length genes) d ->
  (forall g, In g (concat lists) -> keep g = true) ->
  prepare_query R lg (filter keep genes) (DeclNorm (map (drop_cols keep genes) d)) lists =
  prepare_query R lg genes (DeclNorm d) lists.
Proof. exact extra_genes_irrelevant. Qed.
Print Assumptions c07_extra_genes_irrelevant.

(* ... more generally two declared-normalised inputs (any gene sets, any column orders) that
   give every marker the same value BY NAME in every cell are prepared identically *)
Theorem c07_only_marker_values_by_name_matter :
  forall (R : Type) (lg : frac -> R) genes genes' (d d' : list (list R)) lists,
  NoDup genes -> NoDup genes' ->
  Forall (fun r => length r = length genes) d -> Forall (fun r => length r = length genes') d' ->
  (forall g, In g (concat lists) -> (In g genes <-> In g genes')) ->
  Forall2 (fun row row' => forall g, In g (concat lists) ->
             zassoc g (combine genes row) = zassoc g (combine genes' row')) d d' ->
  prepare_query R lg genes (DeclNorm d) lists = prepare_query R lg genes' (DeclNorm d') lists.
Proof. exact prepare_agree_assoc. Qed.
Print Assumptions c07_only_marker_values_by_name_matter.

(* (5) raw input with a negative value is never mapped; the error is the negative-value error
   whenever the marker table itself is usable *)
Theorem c07_negative_raw_rejected :
  forall (R : Type) (lg : frac -> R) genes d lists,
  has_negative d = true ->
  (forall r, prepare_query R lg genes (DeclRaw d) lists <> Ok r) /\
  (forall am, marker_cache genes lists = Ok am -> prepare_query R lg genes (DeclRaw d) lists = Err ENegative).
Proof. exact negative_raw_both. Qed.
Print Assumptions c07_negative_raw_rejected.

(* (6) the guard: whatever downsample_genes returns cannot be normalised any more *)
Theorem c07_normalise_after_downsample_rejected :
  forall (R : Type) (lg : frac -> R) (m m' : cbg Z) sel,
  downsample_genes m sel = Ok m' ->
  to_log2cpm R lg m' = Err (match c_norm m with Raw => EDownsampled | Log2CPM => ENotRaw end).
Proof. exact normalise_after_downsample_rejected. Qed.
Print Assumptions c07_normalise_after_downsample_rejected.

(* ---------------- non-vacuity ---------------- *)

(* the assumption made about lg is satisfiable by a function that separates all values:
   the fraction in lowest terms (the instance the extracted model uses) *)
Example c07_lg_assumption_satisfiable :
  (forall a b, 0 < snd a -> 0 < snd b -> feq a b -> fnorm a = fnorm b) /\
  (forall a b, 0 < snd a -> 0 < snd b -> fnorm a = fnorm b -> feq a b).
Proof. split; [exact fnorm_ext | exact fnorm_injective]. Qed.

(* why negative values must be rejected before normalising: with a non-positive row sum the
   denominator is 1 and scale invariance is lost (the hypothesis 0 <= x of (1) is needed) *)
Example c07_scale_needs_nonnegative_counts :
  ~ Forall2 feq (cpm_row (map (Z.mul 2) [1; -1])) (cpm_row [1; -1]).
Proof. vm_compute. intros H. inversion H; subst. discriminate. Qed.

(* why the guard matters: normalising AFTER down-selecting to genes 1,2 would give CPM
   500000 where normalising on the full gene set gives 250000; the model (like the code)
   refuses the first order *)
Example c07_downsample_then_normalise_differs :
  let genes := [1; 2; 3] in let row := [1; 1; 2] in let sel := [1; 2] in
  bind (bind (make_cbg genes [row] Raw) (to_log2cpm frac fnorm)) (fun m => downsample_genes m sel)
    = Ok (mk_cbg sel [[(250000, 1); (250000, 1)]] Log2CPM true) /\
  bind (make_cbg sel [[1; 1]] Raw) (to_log2cpm frac fnorm)
    = Ok (mk_cbg sel [[(500000, 1); (500000, 1)]] Log2CPM false) /\
  ~ feq (250000, 1) (500000, 1) /\
  bind (bind (make_cbg genes [row] Raw) (fun m => downsample_genes m sel)) (to_log2cpm frac fnorm)
    = Err EDownsampled.
Proof. vm_compute. repeat split; try reflexivity. discriminate. Qed.

(* scale, including an all-zero cell; factors 3 and 5 *)
Example c07_example_scale :
  Forall (fun k => 0 < k) [3; 5] /\
  scale_rows [3; 5] [[2; 4; 2]; [0; 0; 0]] = [[6; 12; 6]; [0; 0; 0]] /\
  prepare_query frac fnorm [10; 20; 30] (DeclRaw [[6; 12; 6]; [0; 0; 0]]) [[30; 10]; [20]] =
    Ok [[[(250000, 1); (250000, 1)]; [(0, 1); (0, 1)]]; [[(500000, 1)]; [(0, 1)]]] /\
  prepare_query frac fnorm [10; 20; 30] (DeclRaw [[2; 4; 2]; [0; 0; 0]]) [[30; 10]; [20]] =
    Ok [[[(250000, 1); (250000, 1)]; [(0, 1); (0, 1)]]; [[(500000, 1)]; [(0, 1)]]].
Proof. vm_compute. repeat split; try reflexivity. repeat constructor. Qed.

(* permutation p = (2 0 1); the hypotheses hold and both sides are the same successful result *)
Example c07_example_permutation :
  Permutation [2; 0; 1]%nat (seq 0 (length [10; 20; 30])) /\ NoDup [10; 20; 30] /\
  permute [2; 0; 1]%nat [10; 20; 30] = [30; 10; 20] /\
  prepare_query frac fnorm [30; 10; 20] (DeclRaw [permute [2; 0; 1]%nat [1; 1; 2]]) [[30; 10]; [20]] =
    Ok [[[(500000, 1); (250000, 1)]]; [[(250000, 1)]]] /\
  prepare_query frac fnorm [10; 20; 30] (DeclRaw [[1; 1; 2]]) [[30; 10]; [20]] =
    Ok [[[(500000, 1); (250000, 1)]]; [[(250000, 1)]]].
Proof.
  split; [|split].
  - simpl. apply perm_trans with [0; 2; 1]%nat; [apply perm_swap | apply perm_skip; apply perm_swap].
  - repeat constructor; simpl; intuition discriminate.
  - vm_compute. repeat split; reflexivity.
Qed.

(* extra genes 100 and 200 (not markers), declared-normalised values *)
Example c07_example_extra_genes :
  let keep := fun g => g <? 100 in
  filter keep [100; 10; 20; 200; 30] = [10; 20; 30] /\
  drop_cols keep [100; 10; 20; 200; 30] [(9, 1); (1, 2); (3, 4); (7, 1); (5, 8)] = [(1, 2); (3, 4); (5, 8)] /\
  prepare_query frac fnorm [100; 10; 20; 200; 30] (DeclNorm [[(9, 1); (1, 2); (3, 4); (7, 1); (5, 8)]]) [[30; 10]; [20]] =
    Ok [[[(5, 8); (1, 2)]]; [[(3, 4)]]] /\
  prepare_query frac fnorm [10; 20; 30] (DeclNorm [[(1, 2); (3, 4); (5, 8)]]) [[30; 10]; [20]] =
    Ok [[[(5, 8); (1, 2)]]; [[(3, 4)]]].
Proof. vm_compute. repeat split; reflexivity. Qed.

(* negative raw value; a marker the query lacks; a marker listed twice *)
Example c07_example_rejections :
  prepare_query frac fnorm [10; 20; 30] (DeclRaw [[1; -1; 2]]) [[30; 10]; [20]] = Err ENegative /\
  prepare_query frac fnorm [10; 20; 30] (DeclRaw [[1; 1; 2]]) [[30; 40]] = Err EUnknownGene /\
  prepare_query frac fnorm [10; 20; 30] (DeclRaw [[1; 1; 2]]) [[30; 30]] = Err EDupSelected /\
  prepare_query frac fnorm [10; 20; 10] (DeclRaw [[1; 1; 2]]) [[20]] = Err EDupGenes /\
  prepare_query frac fnorm [10; 20; 30] (DeclRaw [[1; 1]]) [[20]] = Err EShape.
Proof. vm_compute. repeat split; reflexivity. Qed.
