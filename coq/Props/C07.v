(* C07 — the mapping of a cell is invariant to the scale of its raw counts, to whether the
   input is given raw or already normalised (declared log2CPM), to the order of the gene
   columns and (normalised input) to genes that are not markers; raw input with a negative
   value is rejected.
   Property theorems only: each is closed by `exact <lemma>` (Proofs/NormalizeP.v,
   Proofs/NormalizeVoteP.v).

   Two layers.
   (A) Theorems about prepare_query R lg genes input lists (Model/Normalize.v): one matrix per
       parent node, columns = that parent's markers in REFERENCE order.
   (B) The link to the RESULT, in two steps.
       (B1) c07_prepared_row_is_the_compared_row: with the per-parent lists and the parent -> matrix
       map DERIVED from the marker cache the way matching.assemble_query_data derives them
       (Model/NormalizeRef.v: cache_lists, pidx_of), the row q_of reads out of the prepared matrices is,
       column for column, the cell's normalised value BY GENE NAME of the gene that names the same
       column of the reference matrix of Model/RefSide.v (C18) -- the row the reference side is
       compared with.  This is the content of the bridge.
       (B2) c07_equal_profile_equal_vote / c07_equal_parent_matrix_equal_vote (the vote model of
       C01-C03, Model/VoteDecide.v, receives the query only through q_at cell parent) and the
       corollaries c07_*_vote.  HONEST LABEL for all of (B2): same_votes m1 m2 is EQUIVALENT to
       m1 = m2 (c07_same_votes_is_eq below), so every c07_*_vote theorem says exactly "the prepared
       matrices are equal", i.e. it is the theorem of (A) once more; the quantification over
       refs_at, draw, n_assign, corr_of adds nothing (any function of equal matrices is equal), and
       corr_of, a function of the row alone, cannot even express the real avg_correlation, which also
       depends on the drawn subsets.  They are kept (MANIFEST / DESIGN cite them) as corollaries
       "(A) + the bridge; by construction of the model"; that the real election has the shape
       "query enters through the per-parent rows only" is in the ties (harness/props/c02.py, c07.py).

   R, lg : the type of normalised values and v |-> log2(1 + v).  Nothing is assumed about lg
   except, where stated, that it depends only on the VALUE of the fraction it is given
   (hypothesis written out in each theorem that needs it).  In (B) R := Z: the vote model
   works on exact integers scaled by a common power of two, lg stays abstract.

   DOMAIN (read this before quoting a theorem).  Raw values are INTEGER counts (Z) and a scale
   factor is an integer k > 0, or a rational b/a relating two INTEGER matrices
   (a * x = b * y entry-wise).  The model divides by the EXACT integer row sum (rsum), which does
   not depend on the order of the columns.  The real convert_to_cpm sums each row with np.sum in
   the STORAGE dtype of the matrix and in COLUMN order (float32 data are summed in float32).
   The theorems therefore describe the real code only on inputs with

       integer counts, and row sums (x k, for the scale relation) exactly representable in the
       storage dtype: < 2^24 for float32, < 2^53 for float64

   (c07_float_sum_exact_every_bracketing: under that bound the binary32 sum IS rsum for EVERY tree of
    additions over the entries in any order - numpy's pairwise blocks for rows of >= 8 entries included;
    c07_float_sum_exact_below_2_24 is its left-to-right instance).
   Outside it the real code differs from the model -- measured on the real code (audit 3,
   reproduced by harness/props/c07.py, stream `outside-domain`):
     - float32 integer counts, row sum > 2^24, times an integer factor: log2CPM NOT bitwise equal
       (rounding-level change; the property allows that for the scale relation);
     - float32 integer counts with row sum > 2^24, or float64 NON-integer raw values, with the gene
       columns permuted: to_log2CPM NOT bitwise equal, and a real run_mapping on non-integer raw
       data reports avg_correlation values that differ in the last bits after a column permutation
       (assignments equal).  The property text says "Permuting the gene columns ... leaves the
       result bitwise unchanged": finding F28 (known_findings.json; findings/F28_raw_permutation_repro.py);
       cause: a float sum depends on the order of its terms (c07_float_sum_order_matters: the exact
       model is permutation invariant, a left-to-right float sum is not).
   Within the domain, what was measured on the real code (harness/props/c07.py states it in its
   assumptions): for integer counts and integer factors (and for any power of two) log2CPM is
   bitwise equal; for a non-integer factor (0.3, 1.7) it differs in the last bits (<= 3.6e-15
   absolute, 2.2e-16 relative) -- a floating-point effect outside these exact-arithmetic
   theorems, for which the property asks only that the MAPPING be unchanged at bootstrap
   factor 1 (the paired runs of the tie check exactly that, with near ties excused). *)
From Coq Require Import ZArith List Bool Permutation.
From CTM Require Import Base.Sx Base.SortX Model.Tree Model.Vote Model.Election Model.VoteDecide
                        Model.NormalizeVote Model.Normalize Proofs.NormalizeP Proofs.NormalizeVoteP.
From CTM Require Model.Markers Model.RefSide.
From CTM Require Import Model.NormalizeRef Proofs.NormalizeRefP.
Import ListNotations.
Open Scope Z_scope.

(* (1) scale: for every k > 0 the CPM of k*row equals the CPM of row entry-wise AS FRACTIONS
   (including the all-zero row, whose denominator is 1), hence the normalised rows are equal,
   hence, with an arbitrary positive factor per cell, the prepared query is equal.
   DOMAIN of the statement about the real code: integer counts; row sums AND k x row sums exactly
   representable in the storage dtype (< 2^24 for float32, < 2^53 for float64).  Beyond that the
   real float32 code gives a rounding-level different log2CPM (see DOMAIN above; counted, not a
   violation: the property allows rounding-level change under scaling). *)
Theorem c07_scale_invariant :
  forall (R : Type) (lg : frac -> R),
  (forall a b, 0 < snd a -> 0 < snd b -> feq a b -> lg a = lg b) ->
  (forall k row, 0 < k -> Forall (fun x => 0 <= x) row ->
     Forall2 feq (cpm_row (map (Z.mul k) row)) (cpm_row row) /\
     log2cpm_row R lg (map (Z.mul k) row) = log2cpm_row R lg row) /\
  (forall ks genes d lists, Forall (fun k => 0 < k) ks -> length ks = length d ->
     prepare_query R lg genes (DeclRaw (scale_rows ks d)) lists = prepare_query R lg genes (DeclRaw d) lists).
Proof. exact scale_invariant_full. Qed.
Print Assumptions c07_scale_invariant.

(* the same for a rational factor b/a: two integer rows with a*x = b*y entry-wise *)
Theorem c07_scale_invariant_rational :
  forall (R : Type) (lg : frac -> R),
  (forall a b, 0 < snd a -> 0 < snd b -> feq a b -> lg a = lg b) ->
  forall a b r1 r2, 0 < a -> 0 < b -> Forall (fun x => 0 <= x) r1 ->
    Forall2 (fun x y => a * x = b * y) r1 r2 ->
    Forall2 feq (cpm_row r1) (cpm_row r2) /\ log2cpm_row R lg r1 = log2cpm_row R lg r2.
Proof. exact scale_invariant_rational. Qed.
Print Assumptions c07_scale_invariant_rational.

(* ... and at the level of prepare_query: two INTEGER matrices whose rows are related by
   positive rational factors (row i: a_i * x = b_i * y entry-wise, a_i, b_i > 0; written once
   with the factors existentially per row and once with explicit factor lists) are prepared
   identically -- error cases included (a negative entry on one side is a negative entry on the
   other).  Integer restriction: this covers a factor b/a only BETWEEN TWO INTEGER MATRICES;
   a non-integer raw matrix is outside the model (see DOMAIN above). *)
Theorem c07_scale_invariant_rational_matrix :
  forall (R : Type) (lg : frac -> R),
  (forall a b, 0 < snd a -> 0 < snd b -> feq a b -> lg a = lg b) ->
  (forall genes d1 d2 lists,
     Forall2 (fun r1 r2 => exists a b, 0 < a /\ 0 < b /\ Forall2 (fun x y => a * x = b * y) r1 r2) d1 d2 ->
     prepare_query R lg genes (DeclRaw d1) lists = prepare_query R lg genes (DeclRaw d2) lists) /\
  (forall (las lbs : list Z) genes d1 d2 lists,
     Forall (fun a => 0 < a) las -> Forall (fun b => 0 < b) lbs ->
     length las = length d1 -> length lbs = length d1 -> length d2 = length d1 ->
     (forall i, (i < length d1)%nat ->
        Forall2 (fun x y => nth i las 1 * x = nth i lbs 1 * y) (nth i d1 []) (nth i d2 [])) ->
     prepare_query R lg genes (DeclRaw d1) lists = prepare_query R lg genes (DeclRaw d2) lists).
Proof. exact scale_invariant_rational_matrix. Qed.
Print Assumptions c07_scale_invariant_rational_matrix.

(* (2) raw input mapped = its log2CPM matrix declared normalised (for EVERY lg, every gene set,
   every marker table; error cases included): normalisation happens on the full gene set,
   before any column is selected.
   HONEST LABEL: true by construction of the model -- after the negative check both branches of
   prepare_query build the same term (the proof unfolds and compares the shape checks).  What it
   records is the ORDER normalise-then-select in the model; that the real code has this order
   is established by the tie: harness/props/c07.py compares the real preparation
   (real_prepare) and the real run_mapping / run_type_assignment on raw input against the same
   matrix normalised by the harness and declared log2CPM.  c07_downsample_then_normalise_differs
   shows the other order would give different values. *)
Theorem c07_raw_equals_declared_normalised :
  forall (R : Type) (lg : frac -> R) genes d lists,
  has_negative d = false ->
  prepare_query R lg genes (DeclRaw d) lists =
  prepare_query R lg genes (DeclNorm (map (log2cpm_row R lg) d)) lists.
Proof. exact raw_equals_declared. Qed.
Print Assumptions c07_raw_equals_declared_normalised.

(* (3) gene order: for every permutation p of the columns, applied to the names and to every
   row, the prepared query is unchanged — raw and declared-normalised input.
   DOMAIN of the RAW half as a statement about the real code: integer counts with row sums exactly
   representable in the storage dtype (< 2^24 for float32, < 2^53 for float64): the model's row sum
   is exact and order independent (rsum_perm), np.sum is neither outside that domain
   (c07_float_sum_order_matters; finding F28).  The declared-normalised half involves no sum and
   holds bitwise of the real code for every dtype (paired runs, function-level relation). *)
Theorem c07_gene_permutation :
  forall (R : Type) (lg : frac -> R) p genes lists,
  NoDup genes -> Permutation p (seq 0 (length genes)) ->
  (forall d : list (list Z), Forall (fun r => length r = length genes) d ->
     prepare_query R lg (permute p genes) (DeclRaw (map (permute p) d)) lists =
     prepare_query R lg genes (DeclRaw d) lists) /\
  (forall d : list (list R), Forall (fun r => length r = length genes) d ->
     prepare_query R lg (permute p genes) (DeclNorm (map (permute p) d)) lists =
     prepare_query R lg genes (DeclNorm d) lists).
Proof. exact gene_permutation_both. Qed.
Print Assumptions c07_gene_permutation.

(* (4) declared-normalised input: removing (read right to left: adding) any genes that are
   not in a marker list changes nothing ... *)
Theorem c07_extra_genes_irrelevant :
  forall (R : Type) (lg : frac -> R) (keep : Z -> bool) genes (d : list (list R)) lists,
  NoDup genes -> Forall (fun r => length r = length genes) d ->
  (forall g, In g (concat lists) -> keep g = true) ->
  prepare_query R lg (filter keep genes) (DeclNorm (map (drop_cols keep genes) d)) lists =
  prepare_query R lg genes (DeclNorm d) lists.
Proof. exact extra_genes_irrelevant. Qed.
Print Assumptions c07_extra_genes_irrelevant.

(* ... more generally two declared-normalised inputs (any gene sets, any column orders) that
   give every marker the same value BY NAME in every cell are prepared identically *)
Theorem c07_only_marker_values_by_name_matter :
  forall (R : Type) (lg : frac -> R) genes genes' (d d' : list (list R)) lists,
  NoDup genes -> NoDup genes' ->
  Forall (fun r => length r = length genes) d -> Forall (fun r => length r = length genes') d' ->
  (forall g, In g (concat lists) -> (In g genes <-> In g genes')) ->
  Forall2 (fun row row' => forall g, In g (concat lists) ->
             zassoc g (combine genes row) = zassoc g (combine genes' row')) d d' ->
  prepare_query R lg genes (DeclNorm d) lists = prepare_query R lg genes' (DeclNorm d') lists.
Proof. exact prepare_agree_assoc. Qed.
Print Assumptions c07_only_marker_values_by_name_matter.

(* (5) raw input with a negative value is never mapped; the error is the negative-value error
   whenever the marker table itself is usable.
   HONEST LABEL: part 1 needs the case analysis on the marker cache; part 2 is an unfolding of
   prepare_query (by construction of the model: the negative check is the first thing done
   after the marker cache).  The content is in the tie: harness/props/c07.py feeds the real
   run_mapping a raw matrix with one negative value (dense/csr/csc, chunked, the negative value
   in a block that also holds a new maximum) and requires rejection, and compares the error
   kinds of the real preparation with the model's. *)
Theorem c07_negative_raw_rejected :
  forall (R : Type) (lg : frac -> R) genes d lists,
  has_negative d = true ->
  (forall r, prepare_query R lg genes (DeclRaw d) lists <> Ok r) /\
  (forall am, marker_cache genes lists = Ok am -> prepare_query R lg genes (DeclRaw d) lists = Err ENegative).
Proof. exact negative_raw_both. Qed.
Print Assumptions c07_negative_raw_rejected.

(* (6) the guard: whatever downsample_genes returns cannot be normalised any more.
   HONEST LABEL: by construction of the model (downsample_genes sets the flag, to_log2cpm tests
   it: a two-line unfolding).  The content is in the tie: harness/props/c07.py (ops_cases) runs
   random sequences of the real CellByGeneMatrix.to_log2CPM(_in_place) / downsample_genes
   (_in_place) / downsample_cells against make_cbg / to_log2cpm / downsample_genes /
   downsample_cells_idx, the guard included.
   SCOPE: the guard holds of what downsample_genes RETURNS.  It is not an invariant of the class:
   downsample_cells builds a new matrix through the constructor and the flag starts False again
   (c07_guard_lost_by_downsample_cells below: model and real code alike accept
   downsample_genes -> downsample_cells -> to_log2CPM).  No caller in the mapping pipeline does
   that (cells are down-selected on the reference side only, which is already log2CPM): an
   observation about the class, not a finding about the mapper. *)
Theorem c07_normalise_after_downsample_rejected :
  forall (R : Type) (lg : frac -> R) (m m' : cbg Z) sel,
  downsample_genes m sel = Ok m' ->
  to_log2cpm R lg m' = Err (match c_norm m with Raw => EDownsampled | Log2CPM => ENotRaw end).
Proof. exact normalise_after_downsample_rejected. Qed.
Print Assumptions c07_normalise_after_downsample_rejected.

(* ---------------- (B1) the prepared row IS the row the reference side is compared with ---------------- *)

(* THE CONTENT OF THE BRIDGE.  Everything the vote model reads of the query is q_of pidx mats cell
   parent (Model/NormalizeVote.v) where `lists` (input of prepare_query) and `pidx` used to be free.
   Here they are what the real matching.assemble_query_data uses: c = the marker cache written by
   write_query_markers_to_h5 (Model/Markers.v, C08) from the reconciled table tb, the reference gene
   names refg and the query gene names qg; cache_lists c qg = per group the names at the group's
   QUERY indices; pidx_of c = position of the parent's group.  a = what Model/RefSide.v's
   assemble_reference (C18: the reference half of the same function, tied to the real code by
   harness/props/c18.py) returns for the same cache and parent.  Then
     - the list prepare_query was given for this parent IS the reference matrix's column names
       (and a_qgenes a, and a permutation of the table's entry for the parent: c18_columns_aligned);
     - the prepared matrix has one row per cell;
     - for EVERY cell ci, the row the vote reads, nth ci (nth (pidx_of c parent) mats []) [] =
       q_of (pidx_of c) mats ci parent, is column for column (Forall2 against the reference columns
       m_genes (a_ref a)) the value found BY NAME (zassoc g (combine qg row)) in the cell's full
       normalised row: raw input -> log2cpm_row of the FULL row, declared input -> the row as given.
   Query gene order, reference gene order and marker order may all differ: a column mix-up between
   them would make this false.  qgenes (gene identifiers of the matrix handed over) and qnorm are
   arbitrary: they only take part in error branches. *)
Theorem c07_prepared_row_is_the_compared_row :
  forall (A R : Type) (lg : frac -> R) (tb : Markers.table) (t : tree) (refg qg : list Markers.gene)
         (c : Markers.cache) (lists : list (list Z)) (inp : qinput R) (mats : list (list (list R)))
         (qgenes : list Z) (qnorm : norm_tag) (m : RefSide.rmat A) (parent : Markers.pkey) (a : RefSide.assembled A),
  Markers.write_query_markers tb refg qg = Markers.MOk c ->
  cache_lists c qg = Some lists ->
  prepare_query R lg qg inp lists = Ok mats ->
  RefSide.assemble_reference A t (Markers.c_groups c) refg qg qgenes qnorm m parent = RefSide.ROk a ->
  exists k l,
    group_index parent (Markers.c_groups c) = Some k /\ pidx_of c parent = k /\
    nth_error lists k = Some (RefSide.m_genes (RefSide.a_ref a)) /\
    RefSide.a_qgenes a = RefSide.m_genes (RefSide.a_ref a) /\
    In (parent, l) tb /\ Permutation l (RefSide.m_genes (RefSide.a_ref a)) /\
    length (nth k mats []) = length (normalised_rows R lg inp) /\
    forall ci row, nth_error (normalised_rows R lg inp) ci = Some row ->
      Forall2 (fun g v => zassoc g (combine qg row) = Some v)
              (RefSide.m_genes (RefSide.a_ref a)) (nth ci (nth (pidx_of c parent) mats []) []).
Proof. exact prepared_row_is_the_compared_row. Qed.
Print Assumptions c07_prepared_row_is_the_compared_row.

(* ... and that row is literally what q_of hands to the vote (R := Z) *)
Example c07_q_of_reads_that_row :
  forall (c : Markers.cache) (mats : list (list vec)) (ci : nat) (p : parent),
  q_of (pidx_of c) mats ci p = nth ci (nth (pidx_of c p) mats []) [].
Proof. reflexivity. Qed.

(* ---------------- (B2) the link to the votes ---------------- *)

(* THE BRIDGE.  vote_record (one cell at one parent) and decide_vote (all cells routed to one
   parent in one call: one draw of bootstrap subsets, the records, the generator state handed
   on) take the query through q_at only.  If two queries give cell c the same row on the
   markers of parent p, c gets the same record at p; if they do so for every cell of the call,
   the whole decision at p is the same, generator state included -- for every reference side
   (refs_at, owners_at), every generator and draw, every n_assign, every kids / subsets.
   Hypothesis only about the rows on THAT parent's markers.
   The correlation oracle is taken as a function of the ROW (corr_row corr_of q := fun c p w =>
   corr_of (q c p) p w): the real avg_correlation of a cell is computed from the same row of the
   same per-parent matrix (and reference data).  Using ONE oracle corr_at for both queries
   would assume what is to be shown (that the reported correlation did not change with the
   query); making it a function of the row lets it change with the query and shows it does not
   when the row is the same.
   HONEST LABEL: once stated, the proof is a rewrite -- this is "by construction" of
   Model/VoteDecide.v.  Its content is the SHAPE of that model (the query enters through q_at
   and nowhere else); that the real election has this shape is what the ties check:
   harness/props/c02.py recomputes every vote of real runs from these per-parent rows, and
   harness/props/c07.py compares the per-parent matrices the real code hands to the election. *)
Theorem c07_equal_profile_equal_vote :
  forall (cell rng : Type) (refs_at : parent -> list vec) (owners_at : parent -> list Z)
         (draw : rng -> parent -> list (list nat) * rng) (n_assign : nat)
         (corr_of : vec -> parent -> Z -> Election.frac) (q1 q2 : cell -> parent -> vec) (p : parent),
  (forall kids subsets c, q1 c p = q2 c p ->
     vote_record cell refs_at owners_at q1 n_assign (corr_row corr_of q1) p kids subsets c =
     vote_record cell refs_at owners_at q2 n_assign (corr_row corr_of q2) p kids subsets c) /\
  (forall g kids cs, (forall c, In c cs -> q1 c p = q2 c p) ->
     decide_vote cell rng refs_at owners_at q1 draw n_assign (corr_row corr_of q1) g p kids cs =
     decide_vote cell rng refs_at owners_at q2 draw n_assign (corr_row corr_of q2) g p kids cs).
Proof. exact equal_profile_equal_vote. Qed.
Print Assumptions c07_equal_profile_equal_vote.

(* the same with the query read out of prepared matrices (q_of: cell = row index, pidx p = the
   position of p's marker list in `lists`): only the matrix of parent p matters at p *)
Theorem c07_equal_parent_matrix_equal_vote :
  forall (rng : Type) (refs_at : parent -> list vec) (owners_at : parent -> list Z)
         (draw : rng -> parent -> list (list nat) * rng) (n_assign : nat)
         (corr_of : vec -> parent -> Z -> Election.frac) (pidx : parent -> nat) (m1 m2 : list (list vec)) (p : parent),
  nth (pidx p) m1 [] = nth (pidx p) m2 [] ->
  (forall kids subsets c,
     vote_record_on refs_at owners_at n_assign corr_of pidx m1 p kids subsets c =
     vote_record_on refs_at owners_at n_assign corr_of pidx m2 p kids subsets c) /\
  (forall g kids cs,
     decide_on rng refs_at owners_at draw n_assign corr_of pidx m1 g p kids cs =
     decide_on rng refs_at owners_at draw n_assign corr_of pidx m2 g p kids cs).
Proof. exact equal_parent_matrix_equal_vote. Qed.
Print Assumptions c07_equal_parent_matrix_equal_vote.

(* WHAT same_votes SAYS (audit 3, A4): nothing but m1 = m2. *)
Theorem c07_same_votes_is_eq : forall m1 m2, same_votes m1 m2 <-> m1 = m2.
Proof. exact same_votes_is_eq. Qed.
Print Assumptions c07_same_votes_is_eq.

(* THE COROLLARIES c07_*_vote: each relation of (A), re-said about the result.
   HONEST LABEL (applies to every theorem from here to c07_only_marker_values_by_name_vote): each is
   "(A) + the bridge; by construction of the model".  By c07_same_votes_is_eq the conclusion is
   equivalent to m1 = m2, which is the theorem of (A) (two equal `Ok`s); the clauses about
   vote_record / decide_vote follow by rewriting and hold for ANY function of the matrices.  They
   carry no content beyond (A); the content of the link query -> result is
     (i) c07_prepared_row_is_the_compared_row above (the indexing, proved), and
     (ii) that the real election reads the query through these rows only (the ties:
          harness/props/c02.py recomputes every vote of real runs from the per-parent rows,
          harness/props/c07.py compares the per-parent matrices and runs the paired real runs).
   Both preparations are assumed to succeed (if one fails so does the other, with the same
   error: that is the equality of (A)).

   (1v) scale, written out in full; the conclusion is `same_votes m1 m2` of
   Model/NormalizeVote.v unfolded.  Corollary of c07_scale_invariant; by construction. *)
Theorem c07_scale_invariant_vote :
  forall (lg : frac -> Z),
  (forall a b, 0 < snd a -> 0 < snd b -> feq a b -> lg a = lg b) ->
  forall ks genes d lists m1 m2,
  Forall (fun k => 0 < k) ks -> length ks = length d ->
  prepare_query Z lg genes (DeclRaw (scale_rows ks d)) lists = Ok m1 ->
  prepare_query Z lg genes (DeclRaw d) lists = Ok m2 ->
  m1 = m2 /\
  (forall (refs_at : parent -> list vec) (owners_at : parent -> list Z) (n_assign : nat)
          (corr_of : vec -> parent -> Z -> Election.frac) (pidx : parent -> nat) p kids subsets c,
     vote_record nat refs_at owners_at (q_of pidx m1) n_assign (corr_row corr_of (q_of pidx m1)) p kids subsets c =
     vote_record nat refs_at owners_at (q_of pidx m2) n_assign (corr_row corr_of (q_of pidx m2)) p kids subsets c) /\
  (forall (rng : Type) (refs_at : parent -> list vec) (owners_at : parent -> list Z)
          (draw : rng -> parent -> list (list nat) * rng) (n_assign : nat)
          (corr_of : vec -> parent -> Z -> Election.frac) (pidx : parent -> nat) g p kids cs,
     decide_vote nat rng refs_at owners_at (q_of pidx m1) draw n_assign (corr_row corr_of (q_of pidx m1)) g p kids cs =
     decide_vote nat rng refs_at owners_at (q_of pidx m2) draw n_assign (corr_row corr_of (q_of pidx m2)) g p kids cs).
Proof. exact scale_invariant_vote. Qed.
Print Assumptions c07_scale_invariant_vote.

(* (1v') rational factors between two integer matrices.  Corollary of c07_scale_invariant_rational_matrix; by construction (conclusion <-> m1 = m2). *)
Theorem c07_scale_invariant_rational_vote :
  forall (lg : frac -> Z),
  (forall a b, 0 < snd a -> 0 < snd b -> feq a b -> lg a = lg b) ->
  forall genes d1 d2 lists m1 m2,
  Forall2 (fun r1 r2 => exists a b, 0 < a /\ 0 < b /\ Forall2 (fun x y => a * x = b * y) r1 r2) d1 d2 ->
  prepare_query Z lg genes (DeclRaw d1) lists = Ok m1 ->
  prepare_query Z lg genes (DeclRaw d2) lists = Ok m2 ->
  same_votes m1 m2.
Proof. exact scale_rational_vote. Qed.
Print Assumptions c07_scale_invariant_rational_vote.

(* (2v) raw vs declared normalised (every lg).  Corollary of c07_raw_equals_declared_normalised; by construction (conclusion <-> m1 = m2). *)
Theorem c07_raw_equals_declared_vote :
  forall (lg : frac -> Z) genes d lists m1 m2,
  has_negative d = false ->
  prepare_query Z lg genes (DeclRaw d) lists = Ok m1 ->
  prepare_query Z lg genes (DeclNorm (map (log2cpm_row Z lg) d)) lists = Ok m2 ->
  same_votes m1 m2.
Proof. exact raw_equals_declared_vote. Qed.
Print Assumptions c07_raw_equals_declared_vote.

(* (3v) gene permutation, raw and declared-normalised input (every lg).  Corollary of c07_gene_permutation (same DOMAIN
   restriction for the raw half); by construction (conclusion <-> m1 = m2). *)
Theorem c07_gene_permutation_vote :
  forall (lg : frac -> Z) p genes lists,
  NoDup genes -> Permutation p (seq 0 (length genes)) ->
  (forall (d : list (list Z)) m1 m2, Forall (fun r => length r = length genes) d ->
     prepare_query Z lg (permute p genes) (DeclRaw (map (permute p) d)) lists = Ok m1 ->
     prepare_query Z lg genes (DeclRaw d) lists = Ok m2 ->
     same_votes m1 m2) /\
  (forall (d : list (list Z)) m1 m2, Forall (fun r => length r = length genes) d ->
     prepare_query Z lg (permute p genes) (DeclNorm (map (permute p) d)) lists = Ok m1 ->
     prepare_query Z lg genes (DeclNorm d) lists = Ok m2 ->
     same_votes m1 m2).
Proof. exact gene_permutation_vote. Qed.
Print Assumptions c07_gene_permutation_vote.

(* (4v) extra non-marker genes, and agreement by name on the markers (declared-normalised).  Corollaries of
   c07_extra_genes_irrelevant / c07_only_marker_values_by_name_matter; by construction (conclusion <-> m1 = m2). *)
Theorem c07_extra_genes_vote :
  forall (lg : frac -> Z) (keep : Z -> bool) genes (d : list (list Z)) lists m1 m2,
  NoDup genes -> Forall (fun r => length r = length genes) d ->
  (forall g, In g (concat lists) -> keep g = true) ->
  prepare_query Z lg (filter keep genes) (DeclNorm (map (drop_cols keep genes) d)) lists = Ok m1 ->
  prepare_query Z lg genes (DeclNorm d) lists = Ok m2 ->
  same_votes m1 m2.
Proof. exact extra_genes_vote. Qed.
Print Assumptions c07_extra_genes_vote.

Theorem c07_only_marker_values_by_name_vote :
  forall (lg : frac -> Z) genes genes' (d d' : list (list Z)) lists m1 m2,
  NoDup genes -> NoDup genes' ->
  Forall (fun r => length r = length genes) d -> Forall (fun r => length r = length genes') d' ->
  (forall g, In g (concat lists) -> (In g genes <-> In g genes')) ->
  Forall2 (fun row row' => forall g, In g (concat lists) ->
             zassoc g (combine genes row) = zassoc g (combine genes' row')) d d' ->
  prepare_query Z lg genes (DeclNorm d) lists = Ok m1 ->
  prepare_query Z lg genes' (DeclNorm d') lists = Ok m2 ->
  same_votes m1 m2.
Proof. exact marker_values_by_name_vote. Qed.
Print Assumptions c07_only_marker_values_by_name_vote.

(* ---------------- non-vacuity ---------------- *)

(* the assumption made about lg is satisfiable by a function that separates all values:
   the fraction in lowest terms (the instance the extracted model uses) *)
Example c07_lg_assumption_satisfiable :
  (forall a b, 0 < snd a -> 0 < snd b -> feq a b -> fnorm a = fnorm b) /\
  (forall a b, 0 < snd a -> 0 < snd b -> fnorm a = fnorm b -> feq a b).
Proof. split; [exact fnorm_ext | exact fnorm_injective]. Qed.

(* why negative values must be rejected before normalising: with a non-positive row sum the
   denominator is 1 and scale invariance is lost (the hypothesis 0 <= x of (1) is needed) *)
Example c07_scale_needs_nonnegative_counts :
  ~ Forall2 feq (cpm_row (map (Z.mul 2) [1; -1])) (cpm_row [1; -1]).
Proof. vm_compute. intros H. inversion H; subst. discriminate. Qed.

(* why the guard matters: normalising AFTER down-selecting to genes 1,2 would give CPM
   500000 where normalising on the full gene set gives 250000; the model (like the code)
   refuses the first order *)
Example c07_downsample_then_normalise_differs :
  let genes := [1; 2; 3] in let row := [1; 1; 2] in let sel := [1; 2] in
  bind (bind (make_cbg genes [row] Raw) (to_log2cpm frac fnorm)) (fun m => downsample_genes m sel)
    = Ok (mk_cbg sel [[(250000, 1); (250000, 1)]] Log2CPM true) /\
  bind (make_cbg sel [[1; 1]] Raw) (to_log2cpm frac fnorm)
    = Ok (mk_cbg sel [[(500000, 1); (500000, 1)]] Log2CPM false) /\
  ~ feq (250000, 1) (500000, 1) /\
  bind (bind (make_cbg genes [row] Raw) (fun m => downsample_genes m sel)) (to_log2cpm frac fnorm)
    = Err EDownsampled.
Proof. vm_compute. repeat split; try reflexivity. discriminate. Qed.

(* the guard is lost through downsample_cells (audit 3, A13): down-selecting to genes 1, 2, then
   selecting rows [0], then normalising is ACCEPTED and gives CPM 500000 over the gene subset,
   where the full-gene-set value is 250000.  Observed identically on the real CellByGeneMatrix
   (harness/props/c07.py, ops stream, counter guard_lost_via_downsample_cells). *)
Example c07_guard_lost_by_downsample_cells :
  let genes := [1; 2; 3] in let row := [1; 1; 2] in let sel := [1; 2] in
  bind (bind (bind (make_cbg genes [row] Raw) (fun m => downsample_genes m sel))
             (fun m => downsample_cells_idx m [0%nat])) (to_log2cpm frac fnorm)
    = Ok (mk_cbg sel [[(500000, 1); (500000, 1)]] Log2CPM false) /\
  bind (bind (make_cbg genes [row] Raw) (fun m => downsample_genes m sel)) (to_log2cpm frac fnorm)
    = Err EDownsampled.
Proof. vm_compute. split; reflexivity. Qed.

(* scale, including an all-zero cell; factors 3 and 5 *)
Example c07_example_scale :
  Forall (fun k => 0 < k) [3; 5] /\
  scale_rows [3; 5] [[2; 4; 2]; [0; 0; 0]] = [[6; 12; 6]; [0; 0; 0]] /\
  prepare_query frac fnorm [10; 20; 30] (DeclRaw [[6; 12; 6]; [0; 0; 0]]) [[30; 10]; [20]] =
    Ok [[[(250000, 1); (250000, 1)]; [(0, 1); (0, 1)]]; [[(500000, 1)]; [(0, 1)]]] /\
  prepare_query frac fnorm [10; 20; 30] (DeclRaw [[2; 4; 2]; [0; 0; 0]]) [[30; 10]; [20]] =
    Ok [[[(250000, 1); (250000, 1)]; [(0, 1); (0, 1)]]; [[(500000, 1)]; [(0, 1)]]].
Proof. vm_compute. repeat split; try reflexivity. repeat constructor. Qed.

(* permutation p = (2 0 1); the hypotheses hold and both sides are the same successful result *)
Example c07_example_permutation :
  Permutation [2; 0; 1]%nat (seq 0 (length [10; 20; 30])) /\ NoDup [10; 20; 30] /\
  permute [2; 0; 1]%nat [10; 20; 30] = [30; 10; 20] /\
  prepare_query frac fnorm [30; 10; 20] (DeclRaw [permute [2; 0; 1]%nat [1; 1; 2]]) [[30; 10]; [20]] =
    Ok [[[(500000, 1); (250000, 1)]]; [[(250000, 1)]]] /\
  prepare_query frac fnorm [10; 20; 30] (DeclRaw [[1; 1; 2]]) [[30; 10]; [20]] =
    Ok [[[(500000, 1); (250000, 1)]]; [[(250000, 1)]]].
Proof.
  split; [|split].
  - simpl. apply perm_trans with [0; 2; 1]%nat; [apply perm_swap | apply perm_skip; apply perm_swap].
  - repeat constructor; simpl; intuition discriminate.
  - vm_compute. repeat split; reflexivity.
Qed.

(* extra genes 100 and 200 (not markers), declared-normalised values *)
Example c07_example_extra_genes :
  let keep := fun g => g <? 100 in
  filter keep [100; 10; 20; 200; 30] = [10; 20; 30] /\
  drop_cols keep [100; 10; 20; 200; 30] [(9, 1); (1, 2); (3, 4); (7, 1); (5, 8)] = [(1, 2); (3, 4); (5, 8)] /\
  prepare_query frac fnorm [100; 10; 20; 200; 30] (DeclNorm [[(9, 1); (1, 2); (3, 4); (7, 1); (5, 8)]]) [[30; 10]; [20]] =
    Ok [[[(5, 8); (1, 2)]]; [[(3, 4)]]] /\
  prepare_query frac fnorm [10; 20; 30] (DeclNorm [[(1, 2); (3, 4); (5, 8)]]) [[30; 10]; [20]] =
    Ok [[[(5, 8); (1, 2)]]; [[(3, 4)]]].
Proof. vm_compute. repeat split; reflexivity. Qed.

(* negative raw value; a marker the query lacks; a marker listed twice *)
Example c07_example_rejections :
  prepare_query frac fnorm [10; 20; 30] (DeclRaw [[1; -1; 2]]) [[30; 10]; [20]] = Err ENegative /\
  prepare_query frac fnorm [10; 20; 30] (DeclRaw [[1; 1; 2]]) [[30; 40]] = Err EUnknownGene /\
  prepare_query frac fnorm [10; 20; 30] (DeclRaw [[1; 1; 2]]) [[30; 30]] = Err EDupSelected /\
  prepare_query frac fnorm [10; 20; 10] (DeclRaw [[1; 1; 2]]) [[20]] = Err EDupGenes /\
  prepare_query frac fnorm [10; 20; 30] (DeclRaw [[1; 1]]) [[20]] = Err EShape.
Proof. vm_compute. repeat split; reflexivity. Qed.

(* two declared-normalised inputs with DIFFERENT gene sets (100 only left, 7 only right) and
   different column orders that give the markers 30, 10, 20 the same values by name: all
   hypotheses of c07_only_marker_values_by_name_matter hold and both sides are the same
   successful result *)
Example c07_example_by_name :
  let genes := [100; 10; 20; 30] in let genes' := [30; 7; 20; 10] in
  let lists := [[30; 10]; [20]] in
  let d  := [[(9, 1); (1, 2); (3, 4); (5, 8)]; [(2, 1); (1, 4); (0, 1); (7, 8)]] in
  let d' := [[(5, 8); (4, 1); (3, 4); (1, 2)]; [(7, 8); (6, 1); (0, 1); (1, 4)]] in
  NoDup genes /\ NoDup genes' /\
  Forall (fun r => length r = length genes) d /\ Forall (fun r => length r = length genes') d' /\
  (forall g, In g (concat lists) -> (In g genes <-> In g genes')) /\
  Forall2 (fun row row' => forall g, In g (concat lists) ->
             zassoc g (combine genes row) = zassoc g (combine genes' row')) d d' /\
  prepare_query frac fnorm genes (DeclNorm d) lists =
    Ok [[[(5, 8); (1, 2)]; [(7, 8); (1, 4)]]; [[(3, 4)]; [(0, 1)]]] /\
  prepare_query frac fnorm genes' (DeclNorm d') lists =
    Ok [[[(5, 8); (1, 2)]; [(7, 8); (1, 4)]]; [[(3, 4)]; [(0, 1)]]].
Proof.
  cbv zeta. split; [|split; [|split; [|split; [|split; [|split; [|split]]]]]].
  - repeat constructor; simpl; intuition discriminate.
  - repeat constructor; simpl; intuition discriminate.
  - repeat constructor.
  - repeat constructor.
  - intros g Hg. simpl in Hg. destruct Hg as [Hg|[Hg|[Hg|Hg]]]; [subst g|subst g|subst g|contradiction];
      split; intros _; simpl; auto 10.
  - repeat constructor; intros g Hg; simpl in Hg;
      (destruct Hg as [Hg|[Hg|[Hg|Hg]]]; [subst g|subst g|subst g|contradiction]); reflexivity.
  - vm_compute. reflexivity.
  - vm_compute. reflexivity.
Qed.

(* the rational relation at matrix level: factors 3/2 and 5/7 (and an all-zero cell) between two
   integer matrices; both sides succeed with the same matrices *)
Example c07_example_rational_matrix :
  let d1 := [[6; 12; 6]; [0; 0; 0]; [14; 0; 7]] in let d2 := [[4; 8; 4]; [0; 0; 0]; [10; 0; 5]] in
  Forall2 (fun r1 r2 => exists a b, 0 < a /\ 0 < b /\ Forall2 (fun x y => a * x = b * y) r1 r2) d1 d2 /\
  prepare_query frac fnorm [10; 20; 30] (DeclRaw d1) [[30; 10]; [20]] =
    Ok [[[(250000, 1); (250000, 1)]; [(0, 1); (0, 1)]; [(1000000, 3); (2000000, 3)]]; [[(500000, 1)]; [(0, 1)]; [(0, 1)]]] /\
  prepare_query frac fnorm [10; 20; 30] (DeclRaw d2) [[30; 10]; [20]] =
    Ok [[[(250000, 1); (250000, 1)]; [(0, 1); (0, 1)]; [(1000000, 3); (2000000, 3)]]; [[(500000, 1)]; [(0, 1)]; [(0, 1)]]].
Proof.
  cbv zeta. split; [|split; vm_compute; reflexivity].
  constructor; [exists 2, 3 | constructor; [exists 1, 1 | constructor; [exists 5, 7 | constructor]]];
    (split; [reflexivity | split; [reflexivity | repeat constructor]]).
Qed.

(* the bridge on concrete numbers: 3 cells (one all-zero), 2 parents (the root with markers
   30, 10, 20 and the node (0, 1) with markers 20, 10), R := Z with the value-extensional
   lgz = floor(2^10 * v); per-cell factors 3, 5, 2.  Both preparations succeed with the same
   integer matrices, every cell has a record at both parents (cell 2 splits its votes 3 : 2 at
   the root and has a runner-up), and the decision at the root hands on the advanced generator
   state.  So the hypotheses of c07_scale_invariant_vote are satisfiable and its conclusion
   speaks about actual records. *)
Example c07_example_vote_bridge :
  let genes := [10; 20; 30] in let lists := [[30; 10; 20]; [20; 10]] in
  let d := [[2; 4; 2]; [0; 0; 0]; [1; 5; 2]] in let ks := [3; 5; 2] in
  let pidx := fun p : parent => match p with None => 0%nat | Some _ => 1%nat end in
  let refs_at := fun p : parent => match p with None => [[1; 5; 9]; [9; 5; 1]; [2; 9; 3]] | Some _ => [[1; 7]; [8; 2]] end in
  let owners_at := fun p : parent => match p with None => [1; 2; 3] | Some _ => [3; 4] end in
  let corr_of := fun (q : vec) (p : parent) (w : Z) => (zsum q + w, 7) in
  let subsets := [[0; 1; 2]; [0; 1]; [0; 2]; [1; 2]; [1; 0]]%nat in
  let subsets' := [[0; 1]; [1; 0]; [0; 1]]%nat in
  let draw := fun (g : nat) (p : parent) => (match p with None => subsets | Some _ => subsets' end, S g) in
  let m := [[[256000000; 256000000; 512000000]; [0; 0; 0]; [256000000; 128000000; 640000000]];
            [[512000000; 256000000]; [0; 0]; [640000000; 128000000]]] in
  (forall a b, 0 < snd a -> 0 < snd b -> feq a b -> lgz a = lgz b) /\
  Forall (fun k => 0 < k) ks /\ length ks = length d /\
  scale_rows ks d = [[6; 12; 6]; [0; 0; 0]; [2; 10; 4]] /\
  prepare_query Z lgz genes (DeclRaw (scale_rows ks d)) lists = Ok m /\
  prepare_query Z lgz genes (DeclRaw d) lists = Ok m /\
  map (vote_record nat refs_at owners_at (q_of pidx m) 2 (corr_row corr_of (q_of pidx m)) None [1; 2; 3] subsets) [0; 1; 2]%nat =
    [Some {| asg := 1; prob := (5, 5); corr := Some (1024000001, 7); runners := []; agg := (1, 1) |};
     Some {| asg := 1; prob := (5, 5); corr := Some (1, 7); runners := []; agg := (1, 1) |};
     Some {| asg := 1; prob := (3, 5); corr := Some (1024000001, 7); runners := [(2, (2, 5), (1024000002, 7))]; agg := (1, 1) |}] /\
  map (vote_record nat refs_at owners_at (q_of pidx m) 2 (corr_row corr_of (q_of pidx m)) (Some (0%nat, 1)) [3; 4] subsets') [0; 1; 2]%nat =
    [Some {| asg := 4; prob := (3, 3); corr := Some (768000004, 7); runners := []; agg := (1, 1) |};
     Some {| asg := 3; prob := (3, 3); corr := Some (3, 7); runners := []; agg := (1, 1) |};
     Some {| asg := 4; prob := (3, 3); corr := Some (768000004, 7); runners := []; agg := (1, 1) |}] /\
  snd (decide_vote nat nat refs_at owners_at (q_of pidx m) draw 2 (corr_row corr_of (q_of pidx m)) 7%nat None [1; 2; 3] [0; 1; 2]%nat) = 8%nat /\
  length (fst (decide_vote nat nat refs_at owners_at (q_of pidx m) draw 2 (corr_row corr_of (q_of pidx m)) 7%nat None [1; 2; 3] [0; 1; 2]%nat)) = 3%nat.
Proof.
  cbv zeta. split; [exact lgz_ext|]. split; [repeat constructor|].
  vm_compute. repeat split; reflexivity.
Qed.

(* the vote does depend on the row (the bridge is not an equality of constants): the same cell,
   same reference side, same subsets, two different rows -> two different assignments *)
Example c07_vote_depends_on_row :
  let refs_at := fun _ : parent => [[1; 5; 9]; [9; 5; 1]] in
  let owners_at := fun _ : parent => [1; 2] in
  let corr_of := fun (q : vec) (_ : parent) (w : Z) => (zsum q + w, 7) in
  let q1 := fun (_ : nat) (_ : parent) => [1; 2; 4] in
  let q2 := fun (_ : nat) (_ : parent) => [4; 2; 1] in
  option_map asg (vote_record nat refs_at owners_at q1 1 (corr_row corr_of q1) None [1; 2] [[0; 1; 2]]%nat 0%nat) = Some 1 /\
  option_map asg (vote_record nat refs_at owners_at q2 1 (corr_row corr_of q2) None [1; 2] [[0; 1; 2]]%nat 0%nat) = Some 2.
Proof. vm_compute. split; reflexivity. Qed.

(* ---------------- non-vacuity of (B1), and the float-summation witness ---------------- *)

(* the hypotheses of c07_prepared_row_is_the_compared_row on concrete numbers: reference genes in
   the order 12, 10, 11, query genes 11, 12, 10, table entries listed in yet another order; raw
   counts (one all-zero cell); the reference side is the example of Props/C18.v.  Root: reference
   columns 12, 11, the rows the vote reads are the normalised values of genes 12 and 11 (query
   columns 1 and 0); node (0,1): columns 12, 10, 11 = query columns 1, 2, 0. *)
Example c07_example_compared_row :
  let tb : Markers.table := [(None, [11; 12]); (Some (0%nat, 1), [10; 12; 11])] in
  let refg := [12; 10; 11] in let qg := [11; 12; 10] in
  let d := [[2; 4; 2]; [0; 0; 0]; [1; 5; 2]] in
  let m := RefSide.mk_rmat [2; 3; 5] [12; 10; 11] [[8; 0; 24]; [20; 40; 60]; [4; 8; 12]] Log2CPM in
  let t : tree := [[(1, [3; 2]); (0, [5])]; [(5, []); (2, []); (3, [])]] in
  match Markers.write_query_markers tb refg qg with
  | Markers.MOk c =>
      cache_lists c qg = Some [[12; 11]; [12; 10; 11]] /\
      pidx_of c None = 0%nat /\ pidx_of c (Some (0%nat, 1)) = 1%nat /\
      normalised_rows Z lgz (DeclRaw d) = [[256000000; 512000000; 256000000]; [0; 0; 0]; [128000000; 640000000; 256000000]] /\
      match prepare_query Z lgz qg (DeclRaw d) [[12; 11]; [12; 10; 11]] with
      | Ok mats =>
          map (fun ci => q_of (pidx_of c) mats ci None) [0; 1; 2]%nat =
            [[512000000; 256000000]; [0; 0]; [640000000; 128000000]] /\
          map (fun ci => q_of (pidx_of c) mats ci (Some (0%nat, 1))) [0; 1; 2]%nat =
            [[512000000; 256000000; 256000000]; [0; 0; 0]; [640000000; 256000000; 128000000]]
      | Err _ => False
      end /\
      option_map (fun a => RefSide.m_genes (RefSide.a_ref a))
        (match RefSide.assemble_reference Z t (Markers.c_groups c) refg qg qg Log2CPM m None with
         | RefSide.ROk a => Some a | RefSide.RErr _ => None end) = Some [12; 11] /\
      option_map (fun a => RefSide.m_genes (RefSide.a_ref a))
        (match RefSide.assemble_reference Z t (Markers.c_groups c) refg qg qg Log2CPM m (Some (0%nat, 1)) with
         | RefSide.ROk a => Some a | RefSide.RErr _ => None end) = Some [12; 10; 11]
  | Markers.MErr _ => False
  end.
Proof. vm_compute. repeat split; reflexivity. Qed.

(* A3: the exact model is invariant under a permutation of the row (rsum), a left-to-right float
   sum is not.  rnd24 = binary32 rounding on the integers up to 2^25 (ties to even); the row
   [2^24; 1; 1] sums to 16777216 in float32 and its permutation [1; 1; 2^24] to 16777218 (= the
   exact sum) -- the real numpy gives exactly these two numbers
   (np.array([[16777216,1,1],[1,1,16777216]], dtype=np.float32).sum(axis=1)), hence two different CPM
   rows for one cell.  This is the mechanism of finding F28 and of the float32 scale deviation. *)
Example c07_float_sum_order_matters :
  (forall r1 r2, Permutation r1 r2 -> rsum r1 = rsum r2) /\
  Permutation [two24; 1; 1] [1; 1; two24] /\
  fsum_lr rnd24 [two24; 1; 1] = 16777216 /\ fsum_lr rnd24 [1; 1; two24] = 16777218 /\
  rsum [two24; 1; 1] = 16777218.
Proof. exact float_sum_order_matters. Qed.

(* ... and the hypothesis of the DOMAIN is what removes it: non-negative integer counts with row
   sum <= 2^24 are summed exactly by the left-to-right binary32 sum, in every column order *)
Theorem c07_float_sum_exact_below_2_24 :
  forall row, Forall (fun x => 0 <= x) row -> rsum row <= two24 -> fsum_lr rnd24 row = rsum row.
Proof. exact fsum_lr_exact. Qed.
Print Assumptions c07_float_sum_exact_below_2_24.

(* THE SAME FOR EVERY BRACKETING (audit 4, A6).  np.sum(axis=1) is the left-to-right fold only for rows of fewer
   than 8 entries; for longer rows numpy adds in pairwise blocks (8 interleaved accumulators, a fixed
   combination, the remainder one by one; halves above 128 entries).  Any such scheme is a binary tree of rounded
   additions whose leaves are the entries of the row in some order (sum_tree, leaves, fsum_tree:
   Proofs/NormalizeRefP.v).  For every tree: every sub-sum of non-negative counts is at most the row sum, hence
   at most 2^24, hence representable, hence no addition rounds. *)
Theorem c07_float_sum_exact_every_bracketing :
  forall row t, Forall (fun x => 0 <= x) row -> rsum row <= two24 -> Permutation (leaves t) row ->
  fsum_tree rnd24 t = rsum row.
Proof. exact fsum_any_bracketing_exact. Qed.
Print Assumptions c07_float_sum_exact_every_bracketing.
(* the left-to-right fold is the left comb; numpy's scheme for a row of 10 entries is another tree over the
   same leaves; outside the domain the two give different numbers, both wrong (the audit's row: numpy
   16777220, left-to-right 16777216, exact 16777222); inside it (same shape, sum 2^24 - 3 + 9 <= 2^24 fails, so
   a smaller head) both are exact *)
Example c07_bracketings :
  (forall rnd row, fsum_tree rnd (comb_tree row) = fsum_lr rnd row /\ leaves (comb_tree row) = row) /\
  (let row := [16777213; 1; 1; 1; 1; 1; 1; 1; 1; 1] in
   leaves (np_pairwise_10 row) = row /\
   fsum_tree rnd24 (np_pairwise_10 row) = 16777220 /\ fsum_lr rnd24 row = 16777216 /\ rsum row = 16777222) /\
  (let row := [16777207; 1; 1; 1; 1; 1; 1; 1; 1; 1] in
   Forall (fun x => 0 <= x) row /\ rsum row <= two24 /\ Permutation (leaves (np_pairwise_10 row)) row /\
   fsum_tree rnd24 (np_pairwise_10 row) = 16777216 /\ fsum_lr rnd24 row = 16777216).
Proof.
  split; [exact comb_tree_is_fsum_lr|]. split; [exact bracketings_differ_above_2_24|].
  cbv zeta. split; [repeat constructor; discriminate|]. split; [vm_compute; discriminate|].
  split; [vm_compute; apply Permutation_refl|]. split; vm_compute; reflexivity.
Qed.

(* a concrete non-trivial row meets the DOMAIN hypothesis (sum 12,000,007 < 2^24) and its reversal
   is summed to the same value *)
Example c07_example_domain_row :
  let row := [5000000; 0; 7; 3999999; 3000001] in
  Forall (fun x => 0 <= x) row /\ rsum row <= two24 /\
  fsum_lr rnd24 row = 12000007 /\ fsum_lr rnd24 (rev row) = 12000007.
Proof. cbv zeta. split; [repeat constructor; discriminate|]. vm_compute. repeat split; try reflexivity. discriminate. Qed.
