(* C05 — row access is exact for every on-disk encoding and chunking.
   Property theorems only: each is closed by `exact <lemma>`. *)
From Coq Require Import List Arith ZArith Bool Lia.
From CTM Require Import Base.Sx Model.Sparse Model.Transpose Proofs.SparseP Proofs.SparseBatchP Proofs.SparseCscP Proofs.SparseEncP.
From CTM Require Model.Stats.
Import ListNotations.

(* for every number of rows n and chunk size c >= 1 the iterator's chunk list exists
   (the __next__ loop terminates within n steps), starts at 0, is contiguous, has no
   empty chunk and none longer than c, ends at n; concatenating the row blocks of any
   n-row matrix gives the matrix: every row exactly once, in file order *)
Theorem c05_chunks_cover : forall n c, 1 <= c ->
  exists chs, row_chunks n c = Ok chs /\ chained 0 chs n /\
    Forall (fun ch => snd ch - fst ch <= c) chs /\
    forall (A : Type) (M : list A), length M = n ->
      concat (map (fun ch => slice M (fst ch) (snd ch)) chs) = M.
Proof. exact chunks_cover. Qed.
Print Assumptions c05_chunks_cover.

(* load_csr on a row range of a well-formed CSR matrix = those rows of its dense view *)
Theorem c05_load_csr_exact : forall m nr nc r0 r1,
  wf_csr m nr nc -> no_dup_minor m -> r0 <= r1 -> r1 <= nr ->
  load_csr r0 r1 nc m = Ok (slice (dense_of m nr nc) r0 r1).
Proof. exact load_csr_exact. Qed.
Print Assumptions c05_load_csr_exact.

(* the CSR iterator: blocks (r0, r1, rows) chained from 0 to n_rows, each the rows
   r0..r1 of the dense view, together the whole matrix *)
Theorem c05_iterate_csr_exact : forall m nr nc c,
  wf_csr m nr nc -> no_dup_minor m -> 1 <= c ->
  exists bl, iterate_csr m nr nc c = Ok bl /\
    chained 0 (map fst bl) nr /\
    Forall (fun b => snd (fst b) - fst (fst b) <= c) bl /\
    Forall (fun b => snd b = slice (dense_of m nr nc) (fst (fst b)) (snd (fst b))) bl /\
    concat (map snd bl) = dense_of m nr nc.
Proof. exact iterate_csr_exact. Qed.
Print Assumptions c05_iterate_csr_exact.

(* the dense iterator.  The content is in the first three conjuncts and the last (the
   __next__ loop terminates, its chunks tile [0, n_rows) with sizes <= c, the blocks
   together are the array); the 4th conjunct (each block is the slice r0..r1 of the array)
   is by construction of the model - iterate_dense is DEFINED as slicing d, as the h5py
   dataset slice data[r0:r1, :] is; that it is what the real iterator yields is checked by
   the tie (harness/props/c05.py), not proved here.  For CSR and CSC the same conjunct
   compares against the independent dense_of / cell and has content. *)
Theorem c05_iterate_dense_exact : forall (d : dense) nr c,
  length d = nr -> 1 <= c ->
  exists bl, iterate_dense d nr c = Ok bl /\
    chained 0 (map fst bl) nr /\
    Forall (fun b => snd (fst b) - fst (fst b) <= c) bl /\
    Forall (fun b => snd b = slice d (fst (fst b)) (snd (fst b))) bl /\
    concat (map snd bl) = d.
Proof. exact iterate_dense_exact. Qed.
Print Assumptions c05_iterate_dense_exact.

(* the CSC path: AnnDataRowIterator on a CSC matrix (csc_to_csr_on_disk into scratch,
   then the CSR iterator), for every row chunk size c >= 1, every elements_at_a_time E
   and load chunk sizes L, Lc >= 1 of the conversion: the blocks are chained from 0 to
   n_rows and are the row ranges of M = transpose of the column-major dense view.
   A CSC matrix without any stored value is included (it used to make the conversion
   raise - the former finding F2; c13_transpose_empty_slice): its blocks are all-zero. *)
Theorem c05_iterate_csc_exact : forall m n_rows n_cols c E L Lc,
  wf_comp m n_rows -> length (ptr m) = S n_cols -> length (dat m) = length (idx m) ->
  no_dup_minor m -> 1 <= c -> 1 <= L -> 1 <= Lc ->
  let M := map (fun r => map (fun j => cell m j r) (seq 0 n_cols)) (seq 0 n_rows) in
  exists bl, iterate_csc m n_rows n_cols c E L Lc = Ok bl /\
    chained 0 (map fst bl) n_rows /\
    Forall (fun b => snd (fst b) - fst (fst b) <= c) bl /\
    Forall (fun b => snd b = slice M (fst (fst b)) (snd (fst b))) bl /\
    concat (map snd bl) = M.
Proof. exact iterate_csc_exact. Qed.
Print Assumptions c05_iterate_csc_exact.

(* dense, CSR and CSC encodings of one matrix d are read as the same rows, whatever
   the three chunk sizes and the budgets of the CSC conversion *)
Theorem c05_encodings_agree : forall (d : dense) mr mc nr nc c1 c2 c3 E L Lc,
  length d = nr ->
  wf_csr mr nr nc -> no_dup_minor mr -> dense_of mr nr nc = d ->
  wf_comp mc nr -> length (ptr mc) = S nc -> length (dat mc) = length (idx mc) ->
  no_dup_minor mc ->
  map (fun r => map (fun j => cell mc j r) (seq 0 nc)) (seq 0 nr) = d ->
  1 <= c1 -> 1 <= c2 -> 1 <= c3 -> 1 <= L -> 1 <= Lc ->
  exists b1 b2 b3,
    iterate_dense d nr c1 = Ok b1 /\ iterate_csr mr nr nc c2 = Ok b2 /\
    iterate_csc mc nr nc c3 E L Lc = Ok b3 /\
    concat (map snd b1) = d /\ concat (map snd b2) = d /\ concat (map snd b3) = d.
Proof. exact encodings_agree. Qed.
Print Assumptions c05_encodings_agree.

(* ---- the last sentence of the property, as far as the models reach: the same matrix d
   stored as a dense array, as the CSR matrix mr and as the CSC matrix mc (hypotheses as in
   c05_encodings_agree; c05_example_encodings) is handed to every consumer as the same rows:
   - chunked iteration with the same chunk size c >= 1 yields the IDENTICAL list of blocks
     (r0, r1, rows) from the three encodings, for every budget of the CSC conversion;
   - with any chunk sizes the concatenated row stream is d;
   - get_batch on an accepted list (non-empty, duplicate-free, in range) returns the same
     rows in the requested order from all three, and every other list is refused by all
     three (never answered by one and refused by another). *)
Theorem c05_encodings_same_rows_for_consumers : forall (d : dense) mr mc nr nc,
  length d = nr /\
  wf_csr mr nr nc /\ no_dup_minor mr /\ dense_of mr nr nc = d /\
  wf_comp mc nr /\ length (ptr mc) = S nc /\ length (dat mc) = length (idx mc) /\
  no_dup_minor mc /\
  map (fun r => map (fun j => cell mc j r) (seq 0 nc)) (seq 0 nr) = d ->
  (forall c E L Lc, 1 <= c -> 1 <= L -> 1 <= Lc ->
     iterate_dense d nr c = Ok (blocks_of d nr c) /\
     iterate_csr mr nr nc c = Ok (blocks_of d nr c) /\
     iterate_csc mc nr nc c E L Lc = Ok (blocks_of d nr c)) /\
  (forall c, 1 <= c -> concat (map snd (blocks_of d nr c)) = d) /\
  (forall rows E L Lc, 1 <= L -> 1 <= Lc ->
     rows <> [] -> NoDup rows -> Forall (fun r => r < nr) rows ->
     let ans := Ok (map (fun r => nth r d []) rows) in
     dense_get_batch rows nr d = ans /\ csr_get_batch rows nc mr = ans /\
     csc_get_batch mc rows nr nc E L Lc = ans) /\
  (forall rows E L Lc, 1 <= L -> 1 <= Lc ->
     rows = [] \/ ~ NoDup rows \/ Exists (fun r => nr <= r) rows ->
     (exists e, dense_get_batch rows nr d = Err e) /\ (exists e, csr_get_batch rows nc mr = Err e) /\
     (exists e, csc_get_batch mc rows nr nc E L Lc = Err e)).
Proof. exact encodings_same_rows. Qed.
Print Assumptions c05_encodings_same_rows_for_consumers.

(* hence whatever the three iterators return, with three chunk sizes that may all differ,
   every function F of the row stream has the same value on the three encodings *)
Theorem c05_encodings_same_stream : forall (d : dense) mr mc nr nc c1 c2 c3 E L Lc b1 b2 b3,
  length d = nr /\
  wf_csr mr nr nc /\ no_dup_minor mr /\ dense_of mr nr nc = d /\
  wf_comp mc nr /\ length (ptr mc) = S nc /\ length (dat mc) = length (idx mc) /\
  no_dup_minor mc /\
  map (fun r => map (fun j => cell mc j r) (seq 0 nc)) (seq 0 nr) = d ->
  1 <= c1 -> 1 <= c2 -> 1 <= c3 -> 1 <= L -> 1 <= Lc ->
  iterate_dense d nr c1 = Ok b1 -> iterate_csr mr nr nc c2 = Ok b2 ->
  iterate_csc mc nr nc c3 E L Lc = Ok b3 ->
  concat (map snd b1) = d /\ concat (map snd b2) = d /\ concat (map snd b3) = d /\
  forall (X : Type) (F : dense -> X),
    F (concat (map snd b1)) = F (concat (map snd b2)) /\ F (concat (map snd b2)) = F (concat (map snd b3)).
Proof. exact encodings_same_stream. Qed.
Print Assumptions c05_encodings_same_stream.

(* ... in particular the reference statistics of C09 (Model/Stats.v, whose input IS the
   row stream: a file is its gene names and its cells = (name, row) in file order, and
   the chunks of rows_at_a_time cells its workers read are slices of that list): the
   summary of the rows read, and the whole table precompute writes for the file - beside
   any other files, for every rows_at_a_time and worker count - are the same for the three
   encodings.  What is NOT covered: the mapping of a query file (no model consumes the
   row stream of a query; C07/C01 start from the loaded matrix), X versus a layer, dtypes
   and HDF5 chunk layout (checked by the tie only).
   WHAT THIS IS (audit 3, item 13): a congruence, by construction of the model.  Once
   c05_encodings_same_stream has shown that the three iterators deliver the same rows d,
   this statement follows by `rewrite` alone and re-proves with ARBITRARY functions in
   place of Stats.stats_of_rows and Stats.precompute: it says nothing about the statistics
   code.  Its content is (i) c05_encodings_same_stream and (ii) the modelling decision that
   the precompute reads a file ONLY through its row stream, and that decision is in the
   tie, not in this theorem: harness/props/c09.py writes each reference file in an encoding
   drawn from dense / csr / csc and compares the real precompute with Stats.precompute,
   which sees the row stream only; harness/props/c05.py reduces this clause to the identity
   of the row blocks the iterator delivers (stated in its ctx.assumptions).  Kept as the
   explicit link between C05 and C09, labelled as what it is. *)
Theorem c05_stats_same_for_all_encodings : forall (d : dense) mr mc nr nc c1 c2 c3 E L Lc b1 b2 b3,
  length d = nr /\
  wf_csr mr nr nc /\ no_dup_minor mr /\ dense_of mr nr nc = d /\
  wf_comp mc nr /\ length (ptr mc) = S nc /\ length (dat mc) = length (idx mc) /\
  no_dup_minor mc /\
  map (fun r => map (fun j => cell mc j r) (seq 0 nc)) (seq 0 nr) = d ->
  1 <= c1 -> 1 <= c2 -> 1 <= c3 -> 1 <= L -> 1 <= Lc ->
  iterate_dense d nr c1 = Ok b1 -> iterate_csr mr nr nc c2 = Ok b2 ->
  iterate_csc mc nr nc c3 E L Lc = Ok b3 ->
  forall D,
  (forall ng,
     Stats.stats_of_rows D ng (concat (map snd b1)) = Stats.stats_of_rows D ng d /\
     Stats.stats_of_rows D ng (concat (map snd b2)) = Stats.stats_of_rows D ng d /\
     Stats.stats_of_rows D ng (concat (map snd b3)) = Stats.stats_of_rows D ng d) /\
  (forall leaf genes names before after rows_at_a_time n_processors,
     let file := fun (b : list (nat * nat * dense)) =>
                   Stats.mk_h5ad genes (combine names (concat (map snd b))) in
     let run := fun b => Stats.precompute D leaf (before ++ file b :: after) rows_at_a_time n_processors in
     run b1 = run b2 /\ run b2 = run b3).
Proof. exact stats_same_for_all_encodings. Qed.
Print Assumptions c05_stats_same_for_all_encodings.

(* ---- get_batch: an arbitrary list of rows.
   CSRRowIterator.get_batch (= _load_disjoint_csr: argsort the requested rows,
   merge_index_list into ranges of consecutive rows, _load_sparse each range, merge_csr,
   un-sort; then densify): for a well-formed CSR matrix and EVERY non-empty
   duplicate-free list of rows below n_rows, of any length and in any order, the result
   is exactly those rows of the dense view, in the REQUESTED order.  (Rows are in range
   by hypothesis, so the default [] of nth is never used.) *)
Theorem c05_get_batch_exact : forall m nr nc rows,
  wf_csr m nr nc -> no_dup_minor m ->
  rows <> [] -> NoDup rows -> Forall (fun r => r < nr) rows ->
  csr_get_batch rows nc m = Ok (map (fun r => nth r (dense_of m nr nc) []) rows).
Proof. exact csr_get_batch_exact. Qed.
Print Assumptions c05_get_batch_exact.

(* the sparse intermediate (what amalgamate_h5ad writes): _load_disjoint_csr returns a
   well-formed duplicate-free CSR matrix with one row per requested row whose dense view
   is the requested rows in the requested order *)
Theorem c05_load_disjoint_exact : forall m nr nc rows,
  wf_csr m nr nc -> no_dup_minor m ->
  rows <> [] -> NoDup rows -> Forall (fun r => r < nr) rows ->
  exists b, load_disjoint_csr rows m = Ok b /\
    wf_csr b (length rows) nc /\ no_dup_minor b /\
    dense_of b (length rows) nc = map (fun r => nth r (dense_of m nr nc) []) rows.
Proof. exact load_disjoint_exact. Qed.
Print Assumptions c05_load_disjoint_exact.

(* DenseArrayRowIterator.get_batch (sort, h5py point selection, scatter back) *)
Theorem c05_get_batch_exact_dense : forall (d : dense) nr rows,
  length d = nr -> rows <> [] -> NoDup rows -> Forall (fun r => r < nr) rows ->
  dense_get_batch rows nr d = Ok (map (fun r => nth r d []) rows).
Proof. exact dense_get_batch_exact. Qed.
Print Assumptions c05_get_batch_exact_dense.

(* AnnDataRowIterator.get_batch on a CSC matrix (conversion, then the CSR get_batch),
   for every budget of the conversion *)
Theorem c05_get_batch_exact_csc : forall m rows n_rows n_cols E L Lc,
  wf_comp m n_rows -> length (ptr m) = S n_cols -> length (dat m) = length (idx m) ->
  no_dup_minor m -> 1 <= L -> 1 <= Lc ->
  rows <> [] -> NoDup rows -> Forall (fun r => r < n_rows) rows ->
  let M := map (fun r => map (fun j => cell m j r) (seq 0 n_cols)) (seq 0 n_rows) in
  csc_get_batch m rows n_rows n_cols E L Lc = Ok (map (fun r => nth r M []) rows).
Proof. exact csc_get_batch_exact. Qed.
Print Assumptions c05_get_batch_exact_csc.

(* every other list is refused, never answered with other rows: the empty list, a list
   with a duplicate, a list with a row >= n_rows.  The sparse path fails with whatever
   exception the first failing step raises (IndexError on an empty array, on the merged
   pointer array, ...): the model's error value; only the number of rows of the matrix
   matters (length (ptr m) = n_rows + 1), no well-formedness.  The dense path (h5py
   point selection) always answers EReject. *)
Theorem c05_get_batch_rejects : forall m nr nc rows,
  length (ptr m) = S nr ->
  rows = [] \/ ~ NoDup rows \/ Exists (fun r => nr <= r) rows ->
  exists e, csr_get_batch rows nc m = Err e.
Proof. exact csr_get_batch_rejects. Qed.
Print Assumptions c05_get_batch_rejects.

Theorem c05_get_batch_rejects_dense : forall (d : dense) nr rows,
  rows = [] \/ ~ NoDup rows \/ Exists (fun r => nr <= r) rows ->
  dense_get_batch rows nr d = Err EReject.
Proof. exact dense_get_batch_rejects. Qed.
Print Assumptions c05_get_batch_rejects_dense.

Theorem c05_get_batch_rejects_csc : forall m rows n_rows n_cols E L Lc,
  wf_comp m n_rows -> length (ptr m) = S n_cols -> length (dat m) = length (idx m) ->
  1 <= L -> 1 <= Lc ->
  rows = [] \/ ~ NoDup rows \/ Exists (fun r => n_rows <= r) rows ->
  exists e, csc_get_batch m rows n_rows n_cols E L Lc = Err e.
Proof. exact csc_get_batch_rejects. Qed.
Print Assumptions c05_get_batch_rejects_csc.

(* non-vacuity: a 3 x 4 CSR matrix with an empty row satisfies the hypotheses *)
Definition c05_ex : comp :=
  {| ptr := [0; 3; 3; 6]; idx := [1; 2; 3; 0; 1; 3]; dat := [1; 2; 3; 8; 9; 11]%Z |}.
Example c05_example_wf : wf_csr c05_ex 3 4 /\ no_dup_minor c05_ex.
Proof.
  split.
  - unfold wf_csr, wf_comp, c05_ex; cbn [ptr idx dat hd last length mono].
    split; [split; [reflexivity | split; [reflexivity | split]] | split; reflexivity].
    + lia.
    + repeat (apply Forall_cons; [lia|]). apply Forall_nil.
  - intros j Hj. unfold c05_ex in *; cbn [ptr idx dat length] in *.
    assert (D : j = 0 \/ j = 1 \/ j = 2) by lia.
    destruct D as [ -> | [ -> | -> ] ]; vm_compute.
    + repeat (apply NoDup_cons; [cbn [In]; lia|]). apply NoDup_nil.
    + apply NoDup_nil.
    + repeat (apply NoDup_cons; [cbn [In]; lia|]). apply NoDup_nil.
Qed.
Example c05_example_blocks :
  iterate_csr c05_ex 3 4 2 =
  Ok [(0, 2, [[0; 1; 2; 3]; [0; 0; 0; 0]]%Z); (2, 3, [[8; 9; 0; 11]]%Z)] /\
  dense_of c05_ex 3 4 = [[0; 1; 2; 3]; [0; 0; 0; 0]; [8; 9; 0; 11]]%Z.
Proof. vm_compute. split; reflexivity. Qed.
(* the same matrix as CSC (4 columns, 3 rows), read through the conversion with the
   smallest budgets *)
Definition c05_ex_csc : comp :=
  {| ptr := [0; 1; 3; 4; 6]; idx := [2; 0; 2; 0; 0; 2]; dat := [8; 1; 9; 2; 3; 11]%Z |}.
Example c05_example_csc :
  iterate_csc c05_ex_csc 3 4 2 1 1 1 =
  Ok [(0, 2, [[0; 1; 2; 3]; [0; 0; 0; 0]]%Z); (2, 3, [[8; 9; 0; 11]]%Z)].
Proof. vm_compute. reflexivity. Qed.
(* a 2 x 3 CSC matrix without any stored value satisfies the hypotheses of
   c05_iterate_csc_exact and is read as all-zero rows *)
Definition c05_zero_csc : comp := {| ptr := [0; 0; 0; 0]; idx := []; dat := [] |}.
Example c05_example_zero_csc :
  wf_comp c05_zero_csc 2 /\ length (ptr c05_zero_csc) = 4 /\
  length (dat c05_zero_csc) = length (idx c05_zero_csc) /\ no_dup_minor c05_zero_csc /\
  iterate_csc c05_zero_csc 2 3 1 1 1 1 = Ok [(0, 1, [[0; 0; 0]]%Z); (1, 2, [[0; 0; 0]]%Z)].
Proof.
  split; [|split; [reflexivity | split; [reflexivity | split]]].
  - unfold wf_comp, c05_zero_csc; cbn [ptr idx dat hd last length mono].
    split; [reflexivity | split; [reflexivity | split]]; [lia | apply Forall_nil].
  - intros j Hj. unfold c05_zero_csc in *; cbn [ptr idx dat length] in *.
    assert (D : j = 0 \/ j = 1 \/ j = 2) by lia.
    destruct D as [ -> | [ -> | -> ] ]; vm_compute; apply NoDup_nil.
  - vm_compute. reflexivity.
Qed.

(* get_batch on the 3 x 4 example: rows [2; 0] satisfy the hypotheses of
   c05_get_batch_exact (non-empty, duplicate-free, below 3, not sorted, not contiguous)
   and come back in that order from all three encodings; a duplicate, a row out of
   range and the empty list are refused *)
Example c05_example_get_batch :
  [2; 0] <> [] /\ NoDup [2; 0] /\ Forall (fun r => r < 3) [2; 0] /\
  csr_get_batch [2; 0] 4 c05_ex = Ok [[8; 9; 0; 11]; [0; 1; 2; 3]]%Z /\
  dense_get_batch [2; 0] 3 (dense_of c05_ex 3 4) = Ok [[8; 9; 0; 11]; [0; 1; 2; 3]]%Z /\
  csc_get_batch c05_ex_csc [2; 0] 3 4 1 1 1 = Ok [[8; 9; 0; 11]; [0; 1; 2; 3]]%Z /\
  load_disjoint_csr [2; 0] c05_ex =
    Ok {| ptr := [0; 3; 6]; idx := [0; 1; 3; 1; 2; 3]; dat := [8; 9; 11; 1; 2; 3]%Z |}.
Proof.
  split; [discriminate|]. split; [repeat (apply NoDup_cons; [cbn [In]; lia|]); apply NoDup_nil|].
  split; [repeat (apply Forall_cons; [lia|]); apply Forall_nil|].
  vm_compute. repeat split; reflexivity.
Qed.
Example c05_example_get_batch_rejects :
  csr_get_batch [1; 1] 4 c05_ex = Err EIndex /\ csr_get_batch [0; 3] 4 c05_ex = Err EIndex /\
  csr_get_batch [] 4 c05_ex = Err EIndex /\ csr_get_batch [5] 4 c05_ex = Err EIndex /\
  dense_get_batch [1; 1] 3 (dense_of c05_ex 3 4) = Err EReject /\
  dense_get_batch [0; 3] 3 (dense_of c05_ex 3 4) = Err EReject /\
  dense_get_batch [] 3 (dense_of c05_ex 3 4) = Err EReject.
Proof. vm_compute. repeat split; reflexivity. Qed.

(* a 3 x 4 matrix with non-zero entries, an empty row (row 1) AND an empty column
   (column 2), as a dense array, in CSR and in CSC form: the hypotheses of the CSC main
   theorem c05_iterate_csc_exact, of c05_encodings_agree and of
   c05_encodings_same_rows_for_consumers hold on it; with chunk size 2 and the smallest
   budgets the three iterators yield the same two blocks, and the statistics of the rows
   are those of the array *)
Definition c05_d : dense := [[0; 1; 0; 3]; [0; 0; 0; 0]; [8; 9; 0; 11]]%Z.
Definition c05_csr : comp :=
  {| ptr := [0; 2; 2; 5]; idx := [1; 3; 0; 1; 3]; dat := [1; 3; 8; 9; 11]%Z |}.
Definition c05_csc : comp :=
  {| ptr := [0; 1; 3; 3; 5]; idx := [2; 0; 2; 0; 2]; dat := [8; 1; 9; 3; 11]%Z |}.
Example c05_example_encodings :
  (length c05_d = 3 /\
   wf_csr c05_csr 3 4 /\ no_dup_minor c05_csr /\ dense_of c05_csr 3 4 = c05_d /\
   wf_comp c05_csc 3 /\ length (ptr c05_csc) = 5 /\ length (dat c05_csc) = length (idx c05_csc) /\
   no_dup_minor c05_csc /\
   map (fun r => map (fun j => cell c05_csc j r) (seq 0 4)) (seq 0 3) = c05_d) /\
  let bl := [(0, 2, [[0; 1; 0; 3]; [0; 0; 0; 0]]%Z); (2, 3, [[8; 9; 0; 11]]%Z)] in
  iterate_dense c05_d 3 2 = Ok bl /\ iterate_csr c05_csr 3 4 2 = Ok bl /\
  iterate_csc c05_csc 3 4 2 1 1 1 = Ok bl /\ blocks_of c05_d 3 2 = bl /\
  Stats.stats_of_rows 8 4 (concat (map snd bl)) =
  Stats.mk_summary 3 [8; 10; 0; 14]%Z [64; 82; 0; 130]%Z [1; 2; 0; 2]%Z [0; 1; 0; 1]%Z [1; 1; 0; 1]%Z.
Proof.
  split; [|vm_compute; repeat split; reflexivity].
  split; [reflexivity|]. split.
  { unfold wf_csr, wf_comp, c05_csr; cbn [ptr idx dat hd last length mono].
    split; [split; [reflexivity | split; [reflexivity | split]] | split; reflexivity].
    - lia.
    - repeat (apply Forall_cons; [lia|]). apply Forall_nil. }
  split.
  { intros j Hj. unfold c05_csr in *; cbn [ptr idx dat length] in *.
    assert (D : j = 0 \/ j = 1 \/ j = 2) by lia.
    destruct D as [ -> | [ -> | -> ] ]; vm_compute;
      repeat (apply NoDup_cons; [cbn [In]; lia|]); apply NoDup_nil. }
  split; [vm_compute; reflexivity|]. split.
  { unfold wf_comp, c05_csc; cbn [ptr idx dat hd last length mono].
    split; [reflexivity | split; [reflexivity | split]].
    - lia.
    - repeat (apply Forall_cons; [lia|]). apply Forall_nil. }
  split; [reflexivity|]. split; [reflexivity|]. split.
  { intros j Hj. unfold c05_csc in *; cbn [ptr idx dat length] in *.
    assert (D : j = 0 \/ j = 1 \/ j = 2 \/ j = 3) by lia.
    destruct D as [ -> | [ -> | [ -> | -> ] ] ]; vm_compute;
      repeat (apply NoDup_cons; [cbn [In]; lia|]); apply NoDup_nil. }
  vm_compute. reflexivity.
Qed.
