(* C05 — row access is exact for every on-disk encoding and chunking.
   Property theorems only: each is closed by `exact <lemma>`. *)
From Coq Require Import List Arith ZArith Bool Lia.
From CTM Require Import Base.Sx Model.Sparse Proofs.SparseP.
Import ListNotations.

(* for every number of rows n and chunk size c >= 1 the iterator's chunk list exists
   (the __next__ loop terminates within n steps), starts at 0, is contiguous, has no
   empty chunk and none longer than c, ends at n; concatenating the row blocks of any
   n-row matrix gives the matrix: every row exactly once, in file order *)
Theorem c05_chunks_cover : forall n c, 1 <= c ->
  exists chs, row_chunks n c = Ok chs /\ chained 0 chs n /\
    Forall (fun ch => snd ch - fst ch <= c) chs /\
    forall (A : Type) (M : list A), length M = n ->
      concat (map (fun ch => slice M (fst ch) (snd ch)) chs) = M.
Proof. exact chunks_cover. Qed.
Print Assumptions c05_chunks_cover.

(* load_csr on a row range of a well-formed CSR matrix = those rows of its dense view *)
Theorem c05_load_csr_exact : forall m nr nc r0 r1,
  wf_csr m nr nc -> no_dup_minor m -> r0 <= r1 -> r1 <= nr ->
  load_csr r0 r1 nc m = Ok (slice (dense_of m nr nc) r0 r1).
Proof. exact load_csr_exact. Qed.
Print Assumptions c05_load_csr_exact.

(* the CSR iterator: blocks (r0, r1, rows) chained from 0 to n_rows, each the rows
   r0..r1 of the dense view, together the whole matrix *)
Theorem c05_iterate_csr_exact : forall m nr nc c,
  wf_csr m nr nc -> no_dup_minor m -> 1 <= c ->
  exists bl, iterate_csr m nr nc c = Ok bl /\
    chained 0 (map fst bl) nr /\
    Forall (fun b => snd (fst b) - fst (fst b) <= c) bl /\
    Forall (fun b => snd b = slice (dense_of m nr nc) (fst (fst b)) (snd (fst b))) bl /\
    concat (map snd bl) = dense_of m nr nc.
Proof. exact iterate_csr_exact. Qed.
Print Assumptions c05_iterate_csr_exact.

(* the dense iterator *)
Theorem c05_iterate_dense_exact : forall (d : dense) nr c,
  length d = nr -> 1 <= c ->
  exists bl, iterate_dense d nr c = Ok bl /\
    chained 0 (map fst bl) nr /\
    Forall (fun b => snd (fst b) - fst (fst b) <= c) bl /\
    Forall (fun b => snd b = slice d (fst (fst b)) (snd (fst b))) bl /\
    concat (map snd bl) = d.
Proof. exact iterate_dense_exact. Qed.
Print Assumptions c05_iterate_dense_exact.

(* non-vacuity: a 3 x 4 CSR matrix with an empty row satisfies the hypotheses *)
Definition c05_ex : comp :=
  {| ptr := [0; 3; 3; 6]; idx := [1; 2; 3; 0; 1; 3]; dat := [1; 2; 3; 8; 9; 11]%Z |}.
Example c05_example_wf : wf_csr c05_ex 3 4 /\ no_dup_minor c05_ex.
Proof.
  split.
  - unfold wf_csr, wf_comp, c05_ex; cbn [ptr idx dat hd last length mono].
    split; [split; [reflexivity | split; [reflexivity | split]] | split; reflexivity].
    + lia.
    + repeat (apply Forall_cons; [lia|]). apply Forall_nil.
  - intros j Hj. unfold c05_ex in *; cbn [ptr idx dat length] in *.
    assert (D : j = 0 \/ j = 1 \/ j = 2) by lia.
    destruct D as [ -> | [ -> | -> ] ]; vm_compute.
    + repeat (apply NoDup_cons; [cbn [In]; lia|]). apply NoDup_nil.
    + apply NoDup_nil.
    + repeat (apply NoDup_cons; [cbn [In]; lia|]). apply NoDup_nil.
Qed.
Example c05_example_blocks :
  iterate_csr c05_ex 3 4 2 =
  Ok [(0, 2, [[0; 1; 2; 3]; [0; 0; 0; 0]]%Z); (2, 3, [[8; 9; 0; 11]]%Z)] /\
  dense_of c05_ex 3 4 = [[0; 1; 2; 3]; [0; 0; 0; 0]; [8; 9; 0; 11]]%Z.
Proof. vm_compute. split; reflexivity. Qed.
