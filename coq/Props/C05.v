(* C05 — row access is exact for every on-disk encoding and chunking. (theorems follow) *)
From Coq Require Import List.
