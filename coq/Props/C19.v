(* C19 — runs leave inputs untouched, scratch space empty, and do not interfere.
   Property theorems only: each is closed by `exact <lemma>` (Proofs/FsModelP.v, Proofs/FsProgP.v,
   Proofs/FsProbeP.v; Proofs/TrackerP.v for the FileTracker part).
   The acceptor `accept : config -> fs -> list op -> result` (Model/FsModel.v) is what the
   harness feeds the strace'd operation traces of the real stages to.  The trace alphabet
   contains the OBSERVATIONS a run makes (`Stat p r`: stat / exists() / is_file() / access /
   opening a directory / a call that failed with ENOENT or EEXIST), not only its effects.

   What these theorems are and are not.  They are soundness theorems of the ACCEPTOR and of
   program runs through it; they say something about the real stages only because the real
   traces are accepted (the tie: harness/props/c19.py, tag 1901/1902).  The content ids that
   operations write (`Create p t cid`, `OpenW p cid`) are PART OF THE TRACE / chosen by the
   program from what it observed: the theorems show that no observation OF THE MODEL that the
   acceptor permits can differ between the two file systems, so a program has nothing to compute
   different content FROM.  The model's observations are: the content an OpenR reads, the names a
   ListDir returns, and the KIND (absent / file / directory) a Stat is told.  A real stat() of a
   declared output that an earlier run left also returns st_size / st_mtime / st_ino of the stale
   file: the model does not expose them (the mapper does not use them today: its looks at the
   outputs are exists() / is_file() / open(); the tie compares the outputs across histories), so
   "nothing observable differs" is a statement about kinds, not about everything a system call
   returns.  That the real stages compute their output from their inputs only (data flow
   inside the Python process) is not a statement about file operations and is established by
   the tie, which digests the outputs of runs across histories (stale files planted, success
   after success/failure, concurrent pairs) against an undisturbed run. *)
From Coq Require Import ZArith List Bool.
From CTM Require Import Base.Sx Model.FsModel Proofs.FsModelP Proofs.FsProgP Proofs.FsProbeP.
Import ListNotations.
Open Scope Z_scope.

(* Every accepted trace, for ALL file systems, configurations and traces:
   1. leaves each input with its original content id (the query file is exempt exactly
      when obsm_key is set: wq);
   2. if it ended with `Return ok`, or with `Return err` of a stage that promises to clean
      up after errors (c_strict: the mapping stage): leaves every path under the scratch
      directory exactly as it was ...
   3. ... and has created nothing except at declared outputs;
   4. in any case, whatever is new lies at a declared output or under scratch. *)
Theorem c19_acceptor_sound : forall c f0 t g,
  accept c f0 t = Accepted g ->
  (forall i, In i (c_inputs c) -> lookup f0 i <> None -> ~ In i (c_outputs c) -> wq c i = false ->
             lookup g i = lookup f0 i) /\
  (must_be_clean c t = true -> outside_scratch c = true ->
     forall p, under (c_scratch c) p = true -> lookup g p = lookup f0 p) /\
  (must_be_clean c t = true ->
     forall p, lookup f0 p = None -> lookup g p <> None -> In p (c_outputs c)) /\
  (forall p, lookup f0 p = None -> lookup g p <> None ->
             In p (c_outputs c) \/ under (c_scratch c) p = true).
Proof. exact acceptor_sound. Qed.
Print Assumptions c19_acceptor_sound.

(* Nothing that existed before an accepted run is gone after it — for EVERY path, so in
   particular for a declared output that an earlier run left: it may be overwritten
   (Create with O_TRUNC, Rename onto it), it is never removed.  The only declared outputs a
   run may Unlink (or Rename away) are those that were ABSENT when it created them:
   run_mapping's probe `if not pth.exists(): write 'junk'; pth.unlink()`
   (ex_delete_preexisting_output_rejected: code 13; ex_accepted: the probe of an absent log). *)
Theorem c19_preexisting_output_never_deleted : forall c f0 t g,
  accept c f0 t = Accepted g -> forall p, lookup f0 p <> None -> lookup g p <> None.
Proof. exact preexisting_never_deleted. Qed.
Print Assumptions c19_preexisting_output_never_deleted.

(* PROGRAMS.  A trace is what one run did on one file system; what a run does NEXT may depend
   on what it has seen.  A program `pg : list obs -> op` maps the history of observations
   (OContent: what an OpenR read; ONames: the sorted names a ListDir returned; OKind: what a
   Stat was told — its answer slot is filled in by the file system, `fill`; ONone for effects)
   to the next operation; `paccept c pg fuel f g t h`: run through the acceptor on f it
   returned within `fuel` operations, leaving g, having made the trace t and seen h.

   Files left by earlier runs do not matter.  Let f1, f2 agree
     - on the inputs (and on the query file when it is writable),
     - in KIND (absent / file / directory — not content) at the declared paths and their
       ancestors (kregion: scratch root, query, inputs, outputs; so the same declared outputs
       exist in both, with arbitrary, different stale content),
     - in not containing the names the run makes in the scratch root (tempfile drew names
       that are new in both),
   and be otherwise ARBITRARY — in particular in the scratch and output directories.
   If the run of pg on f1 is accepted then the run of THE SAME PROGRAM on f2 is accepted, makes
   the same trace (every operation, every answer) and sees the same observations; every
   declared output ends up the same (or, if the run never wrote it, is what it was in each);
   and every other path outside the run's own scratch names — every stale entry — is in each
   file system exactly what it was.  The reason is observe_sim: each observation the acceptor
   permits (code 12 refuses the others) has the same answer in both -- where a Stat answers
   with the KIND only (see the head of this file: size and times of a stale output, which a real
   stat returns too, are not modelled).

   The second hypothesis cannot be dropped: whether a declared OUTPUT exists is something the
   acceptor lets a run see (run_mapping does look: the probe above), and a program may
   branch on it (ex_existence_hypothesis_needed).  For the shape run_mapping has -- a probe
   wrapper around a body that does not use the answer -- the comparison "outputs absent" against
   "outputs left by an earlier run" is c19_stale_independence_up_to_probes below; beyond that
   shape, what the real stages do with the answer is checked by the tie: histories
   `success-after-success` / `log-file-of-earlier-run` run with the outputs present and compare
   against a run with them absent. *)
Theorem c19_stale_independence_program : forall c pg fuel f1 f2 g1 t h,
  outside_scratch c = true -> mem (c_query c) (c_outputs c) = false ->
  (forall p, In p (c_inputs c) -> lookup f1 p = lookup f2 p) ->
  (c_obsm c = true -> lookup f1 (c_query c) = lookup f2 (c_query c)) ->
  (forall p, kregion c p = true -> kind_of (lookup f1 p) = kind_of (lookup f2 p)) ->
  paccept c pg fuel f1 g1 t h ->
  (forall p, in_cone c (fresh_names c t) p = true -> lookup f1 p = None /\ lookup f2 p = None) ->
  exists g2,
    paccept c pg fuel f2 g2 t h /\
    (forall o, In o (c_outputs c) ->
       lookup g1 o = lookup g2 o \/ (lookup g1 o = lookup f1 o /\ lookup g2 o = lookup f2 o)) /\
    (forall p, in_cone c (fresh_names c t) p = false -> ~ In p (c_outputs c) -> wq c p = false ->
       lookup g1 p = lookup f1 p /\ lookup g2 p = lookup f2 p).
Proof. exact stale_independence_program_thm. Qed.
Print Assumptions c19_stale_independence_program.

(* c19_stale_independence_program compares two file systems with the same KIND of entry at
   every declared output, so it cannot compare a FIRST run (outputs absent) with a run AFTER AN
   EARLIER SUCCESS (outputs present) -- the one situation in which the real run_mapping
   branches (cli/from_specified_markers.py:122-139):
     if not pth.exists(): [if pth.is_symlink(): ...] open(pth,'w').write('junk'); pth.unlink()
   strace: `stat p = ENOENT; lstat p = ENOENT; open(p, O_CREAT|O_TRUNC); unlink p` where p is
   absent, the single `stat p` where an earlier run left it.  This theorem does, for probing
   programs (Model/FsModel.v): a core that does not see the answer of a Stat on a set O' of
   declared outputs (it sees `OKind PExists` whatever is there), wrapped by
   `wrapP O' cid k core` so that a Stat the core flags is followed, exactly when it answered
   "absent", by k FURTHER Stats on the path and the probe `Create p true cid; Unlink p`.
   The theorem is for EVERY k; k = 1 is the real run_mapping (the lstat of is_symlink; audit 4,
   A3: with the class fixed to k = 0 the real program was outside it), k = 0 the code before the
   symbolic-link fix.  c19_real_probe_is_instance: with k = 1 the wrapped program issues exactly
   the strace'd sequence.

   f2 is the STALE file system: every path of O' is a file (an earlier run left it); f1 the
   FRESH one: every path of O' is absent.  Otherwise the hypotheses of
   c19_stale_independence_program: agreement on the inputs (and the writable query), in KIND
   on the declared paths and their ancestors OUTSIDE O', the run's scratch names new in both.
   If the run on the STALE file system is accepted then the run of the same program on the
   FRESH one is accepted (within (3 + k) * fuel operations: each Stat may grow into 3 + k), and
     - erase O' t1 = erase O' t2: the traces are equal once the Stat operations on O' (their
       answers differ) and the adjacent pairs `Create p _ _; Unlink p` on O' (the probes) are
       removed -- same operations, same order, same content ids written;
     - the runs make the same names in the scratch root;
     - every declared output ends up the same (or, never written, is what it was in each);
     - everything else outside the run's own scratch names is what it was, in each.
   DIRECTION.  Only stale => fresh holds.  The acceptor's book-keeping is more permissive where
   an output was absent: the probe makes the path `owned` (a later append-first
   `Create p false` is allowed; on a file an earlier run left it is code 11, finding F9b), and
   an output created where nothing was is `new` (it may be unlinked again; one that was there
   may not, code 13).  ex_probe_direction_append / ex_probe_direction_unlink: accepted fresh,
   refused stale.
   WHAT IS NOT SAID.  Nothing about a core that sees the answer (that is
   ex_existence_hypothesis_needed: it may then write anything), and `Stat` tells only the KIND:
   a real stat() of a stale output also returns st_size / st_mtime, which the model does not
   expose (the mapper does not use them today). *)
Theorem c19_stale_independence_up_to_probes : forall c O' cid k core fuel f1 f2 g2 t2 h2,
  outside_scratch c = true -> mem (c_query c) (c_outputs c) = false ->
  incl O' (c_outputs c) ->
  (forall p, In p (c_inputs c) -> lookup f1 p = lookup f2 p) ->
  (c_obsm c = true -> lookup f1 (c_query c) = lookup f2 (c_query c)) ->
  (forall p, kregion c p = true -> ~ In p O' -> kind_of (lookup f1 p) = kind_of (lookup f2 p)) ->
  (forall p, In p O' -> lookup f1 p = None /\ kind_of (lookup f2 p) = PFile) ->
  paccept c (wrapP O' cid k core) fuel f2 g2 t2 h2 ->
  (forall p, in_cone c (fresh_names c t2) p = true -> lookup f1 p = None /\ lookup f2 p = None) ->
  exists fuel1 g1 t1 h1,
    (fuel1 <= (3 + k) * fuel)%nat /\
    paccept c (wrapP O' cid k core) fuel1 f1 g1 t1 h1 /\
    erase O' t1 = erase O' t2 /\
    fresh_names c t1 = fresh_names c t2 /\
    (forall o, In o (c_outputs c) ->
       lookup g1 o = lookup g2 o \/ (lookup g1 o = lookup f1 o /\ lookup g2 o = lookup f2 o)) /\
    (forall p, in_cone c (fresh_names c t2) p = false -> ~ In p (c_outputs c) -> wq c p = false ->
       lookup g1 p = lookup f1 p /\ lookup g2 p = lookup f2 p).
Proof. exact stale_independence_up_to_probes_thm. Qed.
Print Assumptions c19_stale_independence_up_to_probes.

(* The real probe is an instance of the class (k = 1).  Wherever the core flags a look at an
   output p of O' (the erased history being eh), the wrapped program issues
     where p is absent:  Stat p ; Stat p ; Create p true cid ; Unlink p     (x1 x2 x3: whatever
                         the three further operations return)
     where p is a file:  Stat p
   and then, in both cases, what the core says at eh ++ [OKind PExists].  That is the sequence
   strace shows for the real run_mapping on each of output_path and log_path:
     first run   stat = ENOENT ; lstat = ENOENT ; openat(O_WRONLY|O_CREAT|O_TRUNC) ; unlink
     second run  stat = file
   (ex_real_probe_sequence: both paths, both runs).  For a general k: Proofs/FsProbeP.v
   wrapP_probe_shape. *)
Theorem c19_real_probe_is_instance : forall O' cid core h eh p r x1 x2 x3,
  pstate O' cid 1 core h = (eh, []) -> core eh = (Stat p r, true) -> mem p O' = true ->
  wrapP O' cid 1 core h = Stat p r /\
  wrapP O' cid 1 core (h ++ [OKind PAbsent]) = Stat p PAbsent /\
  wrapP O' cid 1 core (h ++ [OKind PAbsent; x1]) = Create p true cid /\
  wrapP O' cid 1 core (h ++ [OKind PAbsent; x1; x2]) = Unlink p /\
  wrapP O' cid 1 core (h ++ [OKind PAbsent; x1; x2; x3]) = fst (core (eh ++ [OKind PExists])) /\
  wrapP O' cid 1 core (h ++ [OKind PFile]) = fst (core (eh ++ [OKind PExists])).
Proof. exact real_probe_is_instance. Qed.
Print Assumptions c19_real_probe_is_instance.

(* The trace of an accepted program run is an accepted trace: c19_acceptor_sound,
   c19_preexisting_output_never_deleted and c19_concurrent_noninterference apply to it. *)
Theorem c19_program_run_is_accepted_trace : forall c pg fuel f g t h,
  paccept c pg fuel f g t h -> accept c f t = Accepted g.
Proof. exact program_run_is_accepted_trace. Qed.
Print Assumptions c19_program_run_is_accepted_trace.

(* The same for ONE FIXED trace (the lemma behind the program theorem; it is what applies to
   a recorded trace): a trace accepted on f1 — including the answers of its Stat operations —
   is accepted on f2, with the same conclusion on the outputs.  On its own this says little
   about a run that adapts to what it sees (audit defect 6): that is the program theorem. *)
Theorem c19_stale_independence : forall c t f1 f2 g1,
  outside_scratch c = true -> mem (c_query c) (c_outputs c) = false ->
  (forall p, In p (c_inputs c) -> lookup f1 p = lookup f2 p) ->
  (c_obsm c = true -> lookup f1 (c_query c) = lookup f2 (c_query c)) ->
  (forall p, in_cone c (fresh_names c t) p = true -> lookup f1 p = None /\ lookup f2 p = None) ->
  (forall p, kregion c p = true -> kind_of (lookup f1 p) = kind_of (lookup f2 p)) ->
  accept c f1 t = Accepted g1 ->
  exists g2, accept c f2 t = Accepted g2 /\
    forall o, In o (c_outputs c) ->
      lookup g1 o = lookup g2 o \/ (lookup g1 o = lookup f1 o /\ lookup g2 o = lookup f2 o).
Proof. exact stale_independence_thm. Qed.
Print Assumptions c19_stale_independence.

(* Two runs sharing scratch and output directories: if each trace is accepted on its own
   and the runs are compatible (same scratch root, disjoint fresh names, neither writes a
   declared file the other reads, writes or may look at, nothing declared inside scratch), then
   EVERY interleaving `il` of the two traces is accepted by the two-run machine — every Stat
   of either run gets the answer it got alone — and every output of either run ends exactly
   as in its solo run. *)
Theorem c19_concurrent_noninterference : forall c1 c2 f t1 t2 il g1 g2,
  proj true il = t1 -> proj false il = t2 ->
  mem (c_query c1) (c_outputs c1) = false -> mem (c_query c2) (c_outputs c2) = false ->
  accept c1 f t1 = Accepted g1 ->
  accept c2 f t2 = Accepted g2 ->
  compatb c1 (fresh_names c1 t1) c2 (fresh_names c2 t2) = true ->
  exists g, accept2 c1 c2 f il = Accepted2 g /\
    (forall o, In o (c_outputs c1) -> lookup g o = lookup g1 o) /\
    (forall o, In o (c_outputs c2) -> lookup g o = lookup g2 o).
Proof.
  intros c1 c2 f t1 t2 il g1 g2 <- <-. exact (concurrent_noninterference_thm c1 c2 f il g1 g2).
Qed.
Print Assumptions c19_concurrent_noninterference.

(* ------------------------------------------------------------------ examples *)
(* names: 1 = in/, 2 = out/, 3 = tmp/ ; [1;1] query, [1;2] statistics, [1;3] marker lookup;
   outputs [2;1] result.json, [2;2] log.txt ; the scratch directory holds a stale
   directory 9 with a stale assignment file, the output directory a stale result.json *)
Definition ex_cfg : config :=
  {| c_inputs := [[1;1]; [1;2]; [1;3]]; c_outputs := [[2;1]; [2;2]]; c_scratch := [3];
     c_query := [1;1]; c_obsm := false; c_strict := true |}.
Definition ex_fs : fs :=
  [([1], (KDir, 0)); ([2], (KDir, 0)); ([3], (KDir, 0));
   ([1;1], (KFile, 1)); ([1;2], (KFile, 2)); ([1;3], (KFile, 3));
   ([3;9], (KDir, 0)); ([3;9;1], (KFile, 7)); ([2;1], (KFile, 8))].
(* the shape of a successful run_mapping as strace shows it: is tmp/ a directory?,
   cell_type_mapper_* (5), log.txt exists? no (stat, then the lstat of is_symlink: TWO looks):
   probe of the log path (open with O_TRUNC, unlink), result_buffer_* (6),
   file_tracker_* copy of the query, results_buffer_* with one assignment file that is listed,
   stat'ed, read and removed, clean-up (with a look at a directory that is gone), outputs *)
Definition ex_body : list op :=
  [ Mkdir [3;6];
    Mkdir [3;5;1]; Stat [1;1] PFile; OpenR [1;1]; Create [3;5;1;1] true 101; OpenR [1;2]; OpenR [3;5;1;1];
    OpenR [1;3]; Mkdir [3;6;2]; Create [3;6;2;7] true 102; ListDir [3;6;2]; Stat [3;6;2;7] PFile;
    OpenR [3;6;2;7]; Unlink [3;6;2;7]; Rmdir [3;6;2]; Unlink [3;5;1;1]; Rmdir [3;5;1];
    Stat [3;5;1] PAbsent; Rmdir [3;6]; Rmdir [3;5]; Stat [2] PDir; Stat [2;1] PFile;
    Create [2;2] false 103; Create [2;1] true 104; Return true ].
Definition ex_trace : list op :=
  [ Stat [3] PDir; Mkdir [3;5]; Stat [2;2] PAbsent; Stat [2;2] PAbsent; Create [2;2] true 100; Unlink [2;2] ] ++ ex_body.

Example ex_accepted : exists g, accept ex_cfg ex_fs ex_trace = Accepted g /\
  lookup g [2;1] = Some (KFile, 104) /\ lookup g [2;2] = Some (KFile, 103) /\
  lookup g [3;9;1] = Some (KFile, 7) /\ lookup g [3;5] = None /\
  must_be_clean ex_cfg ex_trace = true /\ outside_scratch ex_cfg = true /\
  fresh_names ex_cfg ex_trace = [5; 6].
Proof. eexists. vm_compute. repeat split; reflexivity. Qed.

(* the same trace on a file system with a different stale content of the scratch and output
   directories, and OTHER content in the stale result.json *)
Definition ex_fs' : fs :=
  [([1], (KDir, 0)); ([2], (KDir, 0)); ([3], (KDir, 0));
   ([1;1], (KFile, 1)); ([1;2], (KFile, 2)); ([1;3], (KFile, 3));
   ([3;4], (KFile, 11)); ([2;1], (KFile, 12)); ([2;5], (KFile, 13))].
Example ex_stale : exists g, accept ex_cfg ex_fs' ex_trace = Accepted g /\
  lookup g [2;1] = Some (KFile, 104) /\ lookup g [2;2] = Some (KFile, 103) /\
  lookup g [3;4] = Some (KFile, 11) /\ lookup g [2;5] = Some (KFile, 13).
Proof. eexists. vm_compute. repeat split; reflexivity. Qed.

(* a PROGRAM with the shape of run_mapping: it looks whether the log exists and, only when it
   does not, looks again (is_symlink) and probes the path; then the body above.  (The answer slot PExists of the Stat it
   issues is irrelevant: it is filled in by the file system.) *)
Definition ex_prog : program := fun h =>
  match h with
  | [] => Stat [3] PExists
  | [_] => Mkdir [3;5]
  | [_; _] => Stat [2;2] PExists
  | _ :: _ :: OKind PAbsent :: r =>
      nth (length r) ([Stat [2;2] PExists; Create [2;2] true 100; Unlink [2;2]] ++ ex_body) (Return false)
  | _ :: _ :: _ :: r => nth (length r) ex_body (Return false)
  end.

(* all hypotheses of the program theorem hold for ex_prog on ex_fs / ex_fs' (which differ in
   the stale entries and in the content of the stale output [2;1]); the run makes ex_trace *)
Example ex_program_hypotheses :
  outside_scratch ex_cfg = true /\ mem (c_query ex_cfg) (c_outputs ex_cfg) = false /\
  (forall p, In p (c_inputs ex_cfg) -> lookup ex_fs p = lookup ex_fs' p) /\
  (forall p, kregion ex_cfg p = true -> kind_of (lookup ex_fs p) = kind_of (lookup ex_fs' p)) /\
  (exists g h, paccept ex_cfg ex_prog 40 ex_fs g ex_trace h /\ length h = 31%nat) /\
  (forall p, in_cone ex_cfg (fresh_names ex_cfg ex_trace) p = true ->
             lookup ex_fs p = None /\ lookup ex_fs' p = None) /\
  lookup ex_fs [2;1] <> lookup ex_fs' [2;1] /\ lookup ex_fs [3;9;1] <> lookup ex_fs' [3;9;1].
Proof.
  split; [vm_compute; reflexivity|]. split; [vm_compute; reflexivity|].
  split; [intros p [<-|[<-|[<-|[]]]]; reflexivity|].
  split; [apply kagree_b_spec; vm_compute; reflexivity|].
  split; [do 2 eexists; split; [eexists; vm_compute; split; reflexivity | vm_compute; reflexivity]|].
  split; [intros p Hp; split; (eapply cone_free_b_spec; [|exact Hp]); vm_compute; reflexivity|].
  split; vm_compute; discriminate.
Qed.

(* the same program where an earlier run left log.txt: it does NOT probe (a shorter trace),
   and the log left there is appended to -- refused with code 11 (finding F9b: the real
   run_mapping does this; known_findings.json) *)
Definition ex_fs_log : fs := ([2;2], (KFile, 15)) :: ex_fs.
Example ex_program_log_exists :
  prun ex_cfg ex_prog 40 ex_fs_log bk0 [] = Err 11 /\
  (exists g b h, prun ex_cfg ex_prog 25 ex_fs_log bk0 [] = Ok (g, b, [Stat [3] PDir; Mkdir [3;5]; Stat [2;2] PFile] ++ firstn 22 ex_body, h)).
Proof. split; [vm_compute; reflexivity | do 3 eexists; vm_compute; reflexivity]. Qed.

(* ... and the trace recorded where log.txt was absent is NOT accepted where it exists (the
   audit's example: the acceptor used to accept it there): the answer of its Stat is wrong *)
Example ex_trace_where_log_exists_rejected : accept ex_cfg ex_fs_log ex_trace = Rejected 2 4.
Proof. vm_compute. reflexivity. Qed.

(* the hypothesis on the KIND at the declared outputs is needed: this program looks whether
   the output [2;2] exists and writes a different result [2;1] accordingly; both runs are
   accepted, on file systems that differ ONLY in that an earlier run left [2;2] *)
Definition ex_peek : program := fun h =>
  match h with
  | [] => Stat [2;2] PExists
  | [OKind PAbsent] => Create [2;1] true 1
  | [_] => Create [2;1] true 2
  | _ => Return true
  end.
Example ex_existence_hypothesis_needed : exists g1 g2 t1 t2 h1 h2,
  paccept ex_cfg ex_peek 5 ex_fs g1 t1 h1 /\ paccept ex_cfg ex_peek 5 ex_fs_log g2 t2 h2 /\
  (forall p, p <> [2;2] -> lookup ex_fs p = lookup ex_fs_log p) /\
  lookup g1 [2;1] = Some (KFile, 1) /\ lookup g2 [2;1] = Some (KFile, 2).
Proof.
  do 6 eexists. split; [eexists; vm_compute; split; reflexivity|].
  split; [eexists; vm_compute; split; reflexivity|].
  split; [|vm_compute; split; reflexivity].
  intros p Hp. unfold ex_fs_log. cbn [lookup]. destruct (path_eqb [2;2] p) eqn:E; [|reflexivity].
  apply path_eqb_eq in E. congruence.
Qed.

(* ---- probing programs: c19_stale_independence_up_to_probes ---- *)
(* (i) run_mapping as a probing program, k = 1 (the real shape after the symbolic-link fix:
   two looks and the probe where the path is absent, one look where it exists).  The core: is
   tmp/ a directory?, cell_type_mapper_5, a FLAGGED look at the log path [2;2], then the body --
   in which the unflagged `Stat [2;1] _` looks at the other output.  The core never sees what is
   at an output.  (The real run_mapping looks at output_path in the same way before log_path:
   ex_real_probe_sequence has both.) *)
Definition body_core (body : list op) : pcore := fun eh =>
  match eh with
  | [] => (Stat [3] PExists, false)
  | [_] => (Mkdir [3;5], false)
  | [_; _] => (Stat [2;2] PExists, true)
  | _ :: _ :: _ :: r => (nth (length r) body (Return false), false)
  end.
Definition ex_core : pcore := body_core ex_body.

(* wrapped, it is ex_prog: the same run where the log is absent (ex_fs: the trace is ex_trace,
   with the probe) and where an earlier run left it (ex_fs_log: no probe; refused with code
   11 when it appends to that log first -- finding F9b) *)
Example ex_core_is_ex_prog :
  (exists g h, paccept ex_cfg (wrapP [[2;2]] 100 1 ex_core) 40 ex_fs g ex_trace h) /\
  prun ex_cfg (wrapP [[2;2]] 100 1 ex_core) 40 ex_fs bk0 [] = prun ex_cfg ex_prog 40 ex_fs bk0 [] /\
  prun ex_cfg (wrapP [[2;2]] 100 1 ex_core) 40 ex_fs_log bk0 [] = Err 11 /\
  prun ex_cfg ex_prog 40 ex_fs_log bk0 [] = Err 11 /\
  (forall n, (n <= 25)%nat ->
     prun ex_cfg (wrapP [[2;2]] 100 1 ex_core) n ex_fs_log bk0 [] = prun ex_cfg ex_prog n ex_fs_log bk0 []).
Proof.
  split; [do 2 eexists; eexists; vm_compute; split; reflexivity|].
  split; [vm_compute; reflexivity|]. split; [vm_compute; reflexivity|]. split; [vm_compute; reflexivity|].
  intros n Hn. do 26 (destruct n as [|n]; [vm_compute; reflexivity|]).
  exfalso. repeat (apply le_S_n in Hn). inversion Hn.
Qed.

(* the strace'd probe sequence of the real run_mapping, both paths (`for pth in (output_path,
   log_path)`), as the run of a wrapped core with k = 1: the first run in an empty output
   directory, and the second run in the same directory.  Recorded from /repo (first 9 / first 3
   operations of the two runs):
     first   mkdir tmp/cell_type_mapper_*; stat result.json ENOENT; lstat result.json ENOENT;
             open(result.json, O_CREAT|O_TRUNC); unlink result.json; the same four on log.txt
     second  mkdir tmp/cell_type_mapper_*; stat result.json (file); stat log.txt (file) *)
Definition ex_core_probes : pcore := fun eh =>
  match eh with
  | [] => (Mkdir [3;5], false)
  | [_] => (Stat [2;1] PExists, true)
  | [_; _] => (Stat [2;2] PExists, true)
  | [_; _; _] => (Rmdir [3;5], false)
  | _ => (Return true, false)
  end.
Example ex_real_probe_sequence :
  (exists g h, paccept ex_cfg (wrapP [[2;1]; [2;2]] 100 1 ex_core_probes) 12 (remove [2;1] ex_fs) g
     [ Mkdir [3;5];
       Stat [2;1] PAbsent; Stat [2;1] PAbsent; Create [2;1] true 100; Unlink [2;1];
       Stat [2;2] PAbsent; Stat [2;2] PAbsent; Create [2;2] true 100; Unlink [2;2];
       Rmdir [3;5]; Return true ] h) /\
  (exists g h, paccept ex_cfg (wrapP [[2;1]; [2;2]] 100 1 ex_core_probes) 12 (([2;2], (KFile, 15)) :: ex_fs) g
     [ Mkdir [3;5]; Stat [2;1] PFile; Stat [2;2] PFile; Rmdir [3;5]; Return true ] h) /\
  (* with k = 0 (the class before audit 4) the first run is NOT this sequence *)
  (exists g h, paccept ex_cfg (wrapP [[2;1]; [2;2]] 100 0 ex_core_probes) 12 (remove [2;1] ex_fs) g
     [ Mkdir [3;5];
       Stat [2;1] PAbsent; Create [2;1] true 100; Unlink [2;1];
       Stat [2;2] PAbsent; Create [2;2] true 100; Unlink [2;2];
       Rmdir [3;5]; Return true ] h).
Proof.
  split; [do 2 eexists; eexists; vm_compute; split; reflexivity|].
  split; do 2 eexists; eexists; vm_compute; split; reflexivity.
Qed.

(* (ii) first run versus run after an earlier success.  Because the REAL body appends to the
   log first (`Create [2;2] false 103`), its run where an earlier run left the log is refused
   (ex_core_is_ex_prog: code 11, finding F9b) and the theorem's hypothesis "accepted on the
   stale file system" fails for it.  The scenario therefore uses the body whose first write of
   the log TRUNCATES (what the suggested fix of F9b does); everything else is the real shape.
   O' = both outputs; fresh: neither exists; stale: an earlier run left both. *)
Definition ex_body_t : list op :=
  firstn 22 ex_body ++ [Create [2;2] true 103; Create [2;1] true 104; Return true].
Definition ex_core_t : pcore := body_core ex_body_t.
Definition ex_O : list path := [[2;1]; [2;2]].
Definition ex_fresh_fs : fs := remove [2;1] ex_fs.
Definition ex_stale_fs : fs := ([2;2], (KFile, 15)) :: ex_fs.
Definition ex_trace_stale : list op :=
  [ Stat [3] PDir; Mkdir [3;5]; Stat [2;2] PFile ] ++ ex_body_t.
Definition ex_trace_fresh : list op :=
  [ Stat [3] PDir; Mkdir [3;5]; Stat [2;2] PAbsent; Stat [2;2] PAbsent; Create [2;2] true 100; Unlink [2;2] ]
  ++ firstn 21 ex_body ++ [Stat [2;1] PAbsent; Create [2;2] true 103; Create [2;1] true 104; Return true].

(* all hypotheses of c19_stale_independence_up_to_probes hold ... *)
Example ex_probe_hypotheses :
  outside_scratch ex_cfg = true /\ mem (c_query ex_cfg) (c_outputs ex_cfg) = false /\
  incl ex_O (c_outputs ex_cfg) /\
  (forall p, In p (c_inputs ex_cfg) -> lookup ex_fresh_fs p = lookup ex_stale_fs p) /\
  (forall p, kregion ex_cfg p = true -> ~ In p ex_O ->
             kind_of (lookup ex_fresh_fs p) = kind_of (lookup ex_stale_fs p)) /\
  (forall p, In p ex_O -> lookup ex_fresh_fs p = None /\ kind_of (lookup ex_stale_fs p) = PFile) /\
  (exists g2 h2, paccept ex_cfg (wrapP ex_O 100 1 ex_core_t) 28 ex_stale_fs g2 ex_trace_stale h2) /\
  (forall p, in_cone ex_cfg (fresh_names ex_cfg ex_trace_stale) p = true ->
             lookup ex_fresh_fs p = None /\ lookup ex_stale_fs p = None).
Proof.
  split; [vm_compute; reflexivity|]. split; [vm_compute; reflexivity|].
  split; [intros p Hp; exact Hp|].
  split; [intros p [<-|[<-|[<-|[]]]]; reflexivity|].
  split; [apply kagree_except_b_spec; vm_compute; reflexivity|].
  split; [intros p [<-|[<-|[]]]; split; reflexivity|].
  split; [do 2 eexists; eexists; vm_compute; split; reflexivity|].
  intros p Hp; split; (eapply cone_free_b_spec; [|exact Hp]); vm_compute; reflexivity.
Qed.

(* ... so the theorem applies (here with the hypotheses in exactly its form) ... *)
Example ex_probe_theorem_applies : exists fuel1 g1 t1 h1,
  (fuel1 <= 112)%nat /\ paccept ex_cfg (wrapP ex_O 100 1 ex_core_t) fuel1 ex_fresh_fs g1 t1 h1 /\
  erase ex_O t1 = erase ex_O ex_trace_stale.
Proof.
  destruct ex_probe_hypotheses as [H1 [H2 [H3 [H4 [H5 [H6 [[g2 [h2 H7]] H8]]]]]]].
  destruct (c19_stale_independence_up_to_probes ex_cfg ex_O 100 1 ex_core_t 28 ex_fresh_fs ex_stale_fs g2
              ex_trace_stale h2 H1 H2 H3 H4 (fun A => False_ind _ (Bool.diff_false_true A)) H5 H6 H7 H8)
    as [fuel1 [g1 [t1 [h1 [L [P [E _]]]]]]].
  exists fuel1, g1, t1, h1. split; [exact L|]. split; [exact P | exact E].
Qed.

(* ... and this is what it concludes: both runs are accepted; the fresh run probes the log path
   (two looks: "absent", "absent"; creation; removal) and is told "absent" at the other output, the
   stale run is told "file" twice and does not probe: the raw traces differ (31 and 28 operations), the erased traces are equal; both end with the same
   outputs -- indeed the same file system: the stale output [2;1] was overwritten, the stale
   scratch entries are untouched *)
Example ex_probe_conclusion : exists g1 h1 g2 h2,
  paccept ex_cfg (wrapP ex_O 100 1 ex_core_t) 31 ex_fresh_fs g1 ex_trace_fresh h1 /\
  paccept ex_cfg (wrapP ex_O 100 1 ex_core_t) 28 ex_stale_fs g2 ex_trace_stale h2 /\
  ex_trace_fresh <> ex_trace_stale /\
  (length ex_trace_fresh = 31 /\ length ex_trace_stale = 28)%nat /\
  erase ex_O ex_trace_fresh = erase ex_O ex_trace_stale /\
  erase ex_O ex_trace_stale = [Stat [3] PDir; Mkdir [3;5]] ++ firstn 21 ex_body
                              ++ [Create [2;2] true 103; Create [2;1] true 104; Return true] /\
  fresh_names ex_cfg ex_trace_fresh = fresh_names ex_cfg ex_trace_stale /\
  lookup g1 [2;1] = Some (KFile, 104) /\ lookup g2 [2;1] = Some (KFile, 104) /\
  lookup g1 [2;2] = Some (KFile, 103) /\ lookup g2 [2;2] = Some (KFile, 103) /\
  g1 = g2 /\ lookup g1 [3;9;1] = Some (KFile, 7) /\
  nth 2 h1 ONone = OKind PAbsent /\ nth 2 h2 ONone = OKind PFile.
Proof.
  do 4 eexists.
  split; [eexists; vm_compute; split; reflexivity|].
  split; [eexists; vm_compute; split; reflexivity|].
  split; [vm_compute; discriminate|].
  vm_compute. repeat split; reflexivity.
Qed.

(* (iii) the direction matters.  A core that, after the flagged look at the log path, APPENDS
   to it first: where the log was absent the probe has made the path the run's own and the
   append is accepted; where an earlier run left the log it is refused (code 11) *)
Definition ex_core_append : pcore := fun eh =>
  match eh with
  | [] => (Stat [2;2] PExists, true)
  | [_] => (Create [2;2] false 103, false)
  | _ => (Return true, false)
  end.
Example ex_probe_direction_append :
  (exists g h, paccept ex_cfg (wrapP [[2;2]] 100 1 ex_core_append) 10 ex_fs g
     [Stat [2;2] PAbsent; Stat [2;2] PAbsent; Create [2;2] true 100; Unlink [2;2]; Create [2;2] false 103; Return true] h) /\
  prun ex_cfg (wrapP [[2;2]] 100 1 ex_core_append) 10 ex_fs_log bk0 [] = Err 11 /\
  (forall p, In p [[2;2]] -> lookup ex_fs p = None /\ kind_of (lookup ex_fs_log p) = PFile) /\
  (forall p, p <> [2;2] -> lookup ex_fs p = lookup ex_fs_log p).
Proof.
  split; [do 2 eexists; eexists; vm_compute; split; reflexivity|].
  split; [vm_compute; reflexivity|].
  split; [intros p [<-|[]]; split; reflexivity|].
  intros p Hp. unfold ex_fs_log. cbn [lookup]. destruct (path_eqb [2;2] p) eqn:E; [|reflexivity].
  apply path_eqb_eq in E. congruence.
Qed.

(* ... and a core that writes the result and removes it again: allowed where the result was
   absent (the run made it: `new`), refused where an earlier run left one (code 13: an output
   that was there is overwritten, never removed) *)
Definition ex_core_unlink : pcore := fun eh =>
  match eh with
  | [] => (Create [2;1] true 104, false)
  | [_] => (Unlink [2;1], false)
  | _ => (Return true, false)
  end.
Example ex_probe_direction_unlink :
  (exists g h, paccept ex_cfg (wrapP [[2;1]] 100 1 ex_core_unlink) 10 ex_fresh_fs g
     [Create [2;1] true 104; Unlink [2;1]; Return true] h) /\
  prun ex_cfg (wrapP [[2;1]] 100 1 ex_core_unlink) 10 ex_fs bk0 [] = Err 13 /\
  (forall p, In p [[2;1]] -> lookup ex_fresh_fs p = None /\ kind_of (lookup ex_fs p) = PFile) /\
  (forall p, p <> [2;1] -> lookup ex_fresh_fs p = lookup ex_fs p).
Proof.
  split; [do 2 eexists; eexists; vm_compute; split; reflexivity|].
  split; [vm_compute; reflexivity|].
  split; [intros p [<-|[]]; split; reflexivity|].
  intros p Hp. unfold ex_fresh_fs. rewrite lookup_remove. destruct (path_eqb [2;1] p) eqn:E; [|reflexivity].
  apply path_eqb_eq in E. congruence.
Qed.

(* the shape of a FAILED run_mapping (a worker died): the result buffer (6), the buffer of the
   assignment stage inside it (6/2) and the assignment file a surviving worker wrote there
   are removed in the `finally` block, then the tmp directory; log and JSON are written *)
Example ex_failed_run_accepted : exists g,
  accept ex_cfg ex_fs
    [ Mkdir [3;5]; Stat [2;2] PAbsent; Stat [2;2] PAbsent; Create [2;2] true 100; Unlink [2;2]; Mkdir [3;6]; OpenR [1;1];
      Mkdir [3;6;2]; Create [3;6;2;7] true 102;
      ListDir [3;6]; ListDir [3;6;2]; Unlink [3;6;2;7]; Rmdir [3;6;2]; Rmdir [3;6]; Stat [3;6] PAbsent;
      Rmdir [3;5]; Create [2;2] false 103; Create [2;1] true 104; Return false ] = Accepted g /\
  lookup g [3;6] = None /\ lookup g [3;5] = None /\ lookup g [3;9;1] = Some (KFile, 7).
Proof. eexists. vm_compute. repeat split; reflexivity. Qed.

(* what the acceptor refuses *)
(* a mapping run that fails and leaves its result buffer (6) behind: what run_mapping did
   before the repair of finding F9 (the buffer was removed on the success path only) *)
Example ex_f9_rejected :
  accept ex_cfg ex_fs [Mkdir [3;5]; Mkdir [3;6]; OpenR [1;1]; Rmdir [3;5]; Return false] = Rejected 4 7.
Proof. vm_compute. reflexivity. Qed.
(* listing the shared scratch directory; reading a file left there; appending to a log left by
   an earlier run; writing the query file although obsm_key is not set; a name that is taken *)
Example ex_list_shared : accept ex_cfg ex_fs [ListDir [3]; Return true] = Rejected 0 5.
Proof. vm_compute. reflexivity. Qed.
Example ex_read_stale : accept ex_cfg ex_fs [OpenR [3;9;1]; Return true] = Rejected 0 1.
Proof. vm_compute. reflexivity. Qed.
Example ex_append_stale : accept ex_cfg ex_fs [Create [2;1] false 100; Return true] = Rejected 0 11.
Proof. vm_compute. reflexivity. Qed.
Example ex_write_query : accept ex_cfg ex_fs [OpenW [1;1] 100; Return true] = Rejected 0 2.
Proof. vm_compute. reflexivity. Qed.
Example ex_name_taken : accept ex_cfg ex_fs [Mkdir [3;9]; Return true] = Rejected 0 3.
Proof. vm_compute. reflexivity. Qed.
(* LOOKING at what an earlier run left — or at whether it left something under a name —
   in the scratch directory (a stale results_buffer, a fixed name that is absent) or in the
   output directory (a file that is not a declared output): code 12, whatever the answer *)
Example ex_stat_stale : accept ex_cfg ex_fs [Stat [3;9] PDir; Return true] = Rejected 0 12.
Proof. vm_compute. reflexivity. Qed.
Example ex_stat_stale_absent : accept ex_cfg ex_fs [Stat [3;8] PAbsent; Return true] = Rejected 0 12.
Proof. vm_compute. reflexivity. Qed.
Example ex_stat_stale_in_outdir : accept ex_cfg ex_fs' [Stat [2;5] PFile; Return true] = Rejected 0 12.
Proof. vm_compute. reflexivity. Qed.
(* an answer that contradicts the file system (the snapshot or the parser is wrong): code 4 *)
Example ex_stat_wrong_answer : accept ex_cfg ex_fs [Stat [2;1] PAbsent; Return true] = Rejected 0 4.
Proof. vm_compute. reflexivity. Qed.
(* deleting, or renaming away, a declared output that existed before the run — what the acceptor
   accepted before the repair of audit defect 6(b): code 13 *)
Example ex_delete_preexisting_output_rejected :
  accept ex_cfg ex_fs_log [Create [2;2] true 100; Unlink [2;2]; Return true] = Rejected 1 13 /\
  accept ex_cfg ex_fs_log [Mkdir [3;5]; Create [2;2] true 100; Rename [2;2] [3;5;1]; Return true] = Rejected 2 13 /\
  exists g, accept ex_cfg ex_fs [Create [2;2] true 100; Unlink [2;2]; Return true] = Accepted g.
Proof. vm_compute. repeat split; try reflexivity. eexists. reflexivity. Qed.

(* a second, compatible run (other outputs, other fresh names) and one interleaving *)
Definition ex_cfg2 : config :=
  {| c_inputs := [[1;4]; [1;2]; [1;3]]; c_outputs := [[2;3]]; c_scratch := [3];
     c_query := [1;4]; c_obsm := true; c_strict := true |}.
Definition ex_fs2 : fs := ([1;4], (KFile, 4)) :: ex_fs.
Definition ex_trace2 : list op :=
  [ Mkdir [3;7]; OpenR [1;4]; Create [3;7;1] true 200; OpenR [1;2]; OpenR [3;7;1]; Stat [2] PDir;
    Stat [2;3] PAbsent; Unlink [3;7;1]; Rmdir [3;7]; OpenW [1;4] 201; Create [2;3] true 202; Return true ].
Fixpoint zip_il (a b : list op) : list (bool * op) :=
  match a, b with
  | x :: a', y :: b' => (true, x) :: (false, y) :: zip_il a' b'
  | _, [] => map (fun x => (true, x)) a
  | [], _ => map (fun y => (false, y)) b
  end.
Example ex_concurrent :
  let il := zip_il ex_trace ex_trace2 in
  proj true il = ex_trace /\ proj false il = ex_trace2 /\
  compatb ex_cfg (fresh_names ex_cfg ex_trace) ex_cfg2 (fresh_names ex_cfg2 ex_trace2) = true /\
  (exists g1, accept ex_cfg ex_fs2 ex_trace = Accepted g1) /\
  (exists g2, accept ex_cfg2 ex_fs2 ex_trace2 = Accepted g2) /\
  exists g, accept2 ex_cfg ex_cfg2 ex_fs2 il = Accepted2 g /\
            lookup g [2;1] = Some (KFile, 104) /\ lookup g [2;3] = Some (KFile, 202) /\
            lookup g [1;4] = Some (KFile, 201).
Proof. vm_compute. repeat split; try reflexivity; eexists; repeat split; reflexivity. Qed.

(* ====================================================================================
   FileTracker (file_tracker/file_tracker.py with utils.mkstemp_clean / utils._clean_up):
   Model/Tracker.v, proofs in Proofs/TrackerP.v.  One life of a tracker on an initial file
   system f0 is   FileTracker(tmp) ; mid ; del   where `mid` is an ARBITRARY sequence of
   add_file / real_location / file_exists calls and of writes of the environment
   (`forallb mid_op mid`: no second constructor call, no second del);
     alive f0 tmp n0 mid = the state before del,  life f0 tmp n0 mid = the state after del;
   n0 and the names in the AddFile steps are what tempfile drew (inputs of the steps).
   Hypotheses: f0 is well formed (what exists lies in a directory), the tmp_dir is a
   directory, the drawn name is new.

   THE ENVIRONMENT.  Earlier versions assumed `writes_ok` ("the environment writes only to
   locations real_location has returned") and called it the protocol of run_mapping.  The real
   _run_mapping does not keep to it (audit 3, defect 5): while its tracker lives it writes the
   query-marker cache — mkstemp_clean(dir=tmp_dir, prefix='query_marker_'), a SIBLING of the
   tracker's own directory in the scratch directory —, the result-buffer files and the CSV, none
   of which was handed out (ex_real_life: writes_ok = false on the life of the real caller).
   The theorems below assume NOTHING about where the environment writes: `written mid` (W) is the
   set of paths it writes, and the conclusions are relative to it —
     an input is untouched if the environment does not write THAT path,
     what is new after del lies in  requested ∪ W,
     every path the environment wrote holds its last write.
   In this model the environment can only write files (it cannot remove anything or make a
   directory: Model/Tracker.v `WriteTo`); under that alphabet no discipline of the environment is
   needed for the tracker's own guarantees.  What remains as hypothesis is collected in the boolean
   `life_premise` / `life_premise_ow` (c19_tracker_premise, c19_tracker_premise_ow), which the
   harness evaluates on the lives RECORDED FROM REAL run_mapping's on every run: a first run, a
   SECOND run into the same output paths, and a run with obsm_key set
   (harness/props/c19_tracker.py, class tracker-premise-false-on-real-run).
   (imported here: Model/Tracker.v reuses the names step / run / Create / del of FsModel)
   ==================================================================================== *)
From CTM Require Import Model.Tracker Proofs.TrackerP.

(* (1) With a tmp_dir: every file that existed before the tracker was made and that the
   environment does not write keeps its content while the tracker lives and after del —
   whatever was added, in whatever mode, wherever else the environment writes.  The tracker
   itself (the copies of add_file, the copy-out and the clean-up of del) never changes an
   existing file.  In particular add_file(p, input_only=False) of an EXISTING p treats p as an
   input: it is copied into the temp directory, recorded as pre-existing, NOT scheduled for
   copy-out; what the pipeline writes to its real_location is discarded by del
   (ex_tracker_life: content 101 is lost, the old result 21 stays).
   Without a tmp_dir the tracker never touches the file system: a path changes only if the
   environment writes to it; real_location(p) is p itself — the environment writing to the
   real_location of an input writes the input (c19_tracker_inputs_untouched_no_tmp_refuted). *)
Theorem c19_tracker_inputs_untouched :
  (forall f0 d n0 mid p c,
     wf f0 -> look f0 d = Dir -> look f0 (d ++ [n0]) = Absent -> forallb mid_op mid = true ->
     forallb (fun o => negb (writes_to p o)) mid = true ->
     look f0 p = File c ->
     look (s_fs (alive f0 (Some d) n0 mid)) p = File c /\
     look (s_fs (life f0 (Some d) n0 mid)) p = File c) /\
  (forall f0 n0 mid q,
     forallb mid_op mid = true ->
     forallb (fun o => negb (writes_to q o)) mid = true ->
     look (s_fs (alive f0 None n0 mid)) q = look f0 q /\
     look (s_fs (life f0 None n0 mid)) q = look f0 q /\
     snd (step (alive f0 None n0 mid) Del) = OOk /\
     (forall p l, snd (step (alive f0 None n0 mid) (RealLocation p)) = OLoc l -> l = p)).
Proof. exact tracker_inputs_untouched. Qed.
Print Assumptions c19_tracker_inputs_untouched.

(* (2) After del (which succeeds: output OOk, for EVERY call sequence, wherever the environment
   writes) the tracker is gone, its temp directory and everything below it is absent; and
   whatever is new anywhere — so in particular under the tmp_dir parent — was either given to
   add_file(.., input_only=False) or written by the environment itself (W). *)
Theorem c19_tracker_scratch_empty : forall f0 d n0 mid,
  wf f0 -> look f0 d = Dir -> look f0 (d ++ [n0]) = Absent -> forallb mid_op mid = true ->
  s_tr (life f0 (Some d) n0 mid) = None /\
  snd (step (alive f0 (Some d) n0 mid) Del) = OOk /\
  (forall q, is_prefix (d ++ [n0]) q = true -> look (s_fs (life f0 (Some d) n0 mid)) q = Absent) /\
  (forall q, look f0 q = Absent -> look (s_fs (life f0 (Some d) n0 mid)) q <> Absent ->
             In q (requested mid) \/ In q (written mid)).
Proof. exact tracker_scratch_empty. Qed.
Print Assumptions c19_tracker_scratch_empty.

(* (3) With a tmp_dir: what is new after del was requested by add_file(.., input_only=False) or
   written by the environment; what del copies out (_to_write_out) was requested and did not
   exist before; — when no requested path lies inside the tracker's own directory — each
   copied-out path holds exactly what its real_location (a file directly in the tracker's
   directory) held when del ran, which is the content last written there
   (c19_tracker_location_holds_last_write); and every other file outside the tracker's directory
   (the environment's own products: marker cache, buffers, CSV) goes through del unchanged.
   Without a tmp_dir the writes went to the paths themselves (second half of (1)). *)
Theorem c19_tracker_outputs_only_where_requested : forall f0 d n0 mid,
  wf f0 -> look f0 d = Dir -> look f0 (d ++ [n0]) = Absent -> forallb mid_op mid = true ->
  (forall q, look f0 q = Absent -> look (s_fs (life f0 (Some d) n0 mid)) q <> Absent ->
             In q (requested mid) \/ In q (written mid)) /\
  (forall dst, In dst (outs_of (alive f0 (Some d) n0 mid)) -> In dst (requested mid) /\ look f0 dst = Absent) /\
  ((forall p, In p (requested mid) -> is_prefix (d ++ [n0]) p = false) ->
   forall dst, In dst (outs_of (alive f0 (Some d) n0 mid)) ->
   exists src c, snd (step (alive f0 (Some d) n0 mid) (RealLocation dst)) = OLoc src /\
                 child_of (d ++ [n0]) src = true /\
                 look (s_fs (alive f0 (Some d) n0 mid)) src = File c /\
                 look (s_fs (life f0 (Some d) n0 mid)) dst = File c) /\
  (forall q c, is_prefix (d ++ [n0]) q = false -> ~ In q (outs_of (alive f0 (Some d) n0 mid)) ->
     look (s_fs (alive f0 (Some d) n0 mid)) q = File c -> look (s_fs (life f0 (Some d) n0 mid)) q = File c).
Proof. exact tracker_outputs_only_where_requested. Qed.
Print Assumptions c19_tracker_outputs_only_where_requested.

(* A write of the environment to a location real_location has handed out before (first
   alternative) — or any write that succeeded, wherever (second alternative: the marker cache,
   the CSV) — is what the path holds while the tracker lives, until the environment writes that
   path again: neither add_file nor another write disturbs it.  (A handed-out location can
   always be written: Proofs/TrackerP.v handed_writable.) *)
Theorem c19_tracker_location_holds_last_write : forall f0 d n0 m1 l c m2,
  wf f0 -> look f0 d = Dir -> look f0 (d ++ [n0]) = Absent ->
  forallb mid_op (m1 ++ WriteTo l c :: m2) = true ->
  In (OLoc l) (snd (run (start f0) (Create (Some d) n0 :: m1))) \/
    snd (step (alive f0 (Some d) n0 m1) (WriteTo l c)) = OOk ->
  forallb (fun o => negb (writes_to l o)) m2 = true ->
  look (s_fs (alive f0 (Some d) n0 (m1 ++ WriteTo l c :: m2))) l = File c.
Proof. exact tracker_location_holds_last_write. Qed.
Print Assumptions c19_tracker_location_holds_last_write.

(* (4) If, after any calls among which the environment wrote neither to l nor to p,
   real_location(p) is l and file_exists(p) is True, then l holds a file with the content
   p has now, and that is the content p had before the tracker was made (if it existed
   then). *)
Theorem c19_tracker_copy_faithful : forall f0 d n0 mid p l,
  wf f0 -> look f0 d = Dir -> look f0 (d ++ [n0]) = Absent -> forallb mid_op mid = true ->
  forallb (fun o => negb (writes_to l o) && negb (writes_to p o)) mid = true ->
  snd (step (alive f0 (Some d) n0 mid) (RealLocation p)) = OLoc l ->
  snd (step (alive f0 (Some d) n0 mid) (FileExists p)) = OBool true ->
  look (s_fs (alive f0 (Some d) n0 mid)) l = look (s_fs (alive f0 (Some d) n0 mid)) p /\
  (exists c, look (s_fs (alive f0 (Some d) n0 mid)) p = File c) /\
  (look f0 p <> Absent -> look (s_fs (alive f0 (Some d) n0 mid)) p = look f0 p).
Proof. exact tracker_copy_faithful. Qed.
Print Assumptions c19_tracker_copy_faithful.

(* (5) STALE = at or below an entry that the tmp_dir parent d had BEFORE the life began, in
   either file system (`entries f d`: the names present in d; stale_in d E q: q lies at or below
   d ++ [a], a in E).  What the run itself makes in d during the life — the tracker's directory,
   but also fresh siblings the environment writes there, like _run_mapping's query-marker cache —
   is NOT stale (the earlier definition "everything in d beside the tracker's directory" made the
   premise false for the real caller).
   Two initial file systems that differ ONLY in the stale part, and calls that name no stale
   path: every call returns the same, the final file systems agree outside the stale part, and
   the stale part of each is exactly as it was (neither read — the outputs do not depend on it
   — nor changed).  The drawn names are the same in both runs (they are inputs; the tracker's
   name is new in both).
   SCOPE (audit 4, A6).  For the real caller this theorem is EMPTY: run_mapping hands FileTracker
   the directory cell_type_mapper_* it has just made with mkdtemp (cli/from_specified_markers.py),
   so d is fresh, `entries f0 d = []`, nothing is stale, and the hypothesis forces f0 and f0' to
   agree everywhere (ex_real_life: entries real_fs [3;5] = []).  What an earlier run left in the
   user's scratch directory is the subject of the acceptor theorems above
   (the c19_stale_independence theorems), not of this one.  This theorem is about LIBRARY USERS who construct
   FileTracker(tmp_dir=...) on a directory they share between runs (tr_fs / tr_fs':
   ex_tracker_stale_hypotheses). *)
Theorem c19_tracker_independent_of_stale : forall d n0 f0 f0' mid,
  wf f0 -> wf f0' -> look f0 d = Dir -> look f0 (d ++ [n0]) = Absent -> look f0' (d ++ [n0]) = Absent ->
  forallb mid_op mid = true ->
  (forall q, stale_in d (entries f0 d ++ entries f0' d) q = false -> look f0 q = look f0' q) ->
  (forall o p, In o mid -> In p (op_paths o) -> stale_in d (entries f0 d ++ entries f0' d) p = false) ->
  snd (run (start f0) (Create (Some d) n0 :: mid ++ [Del])) =
  snd (run (start f0') (Create (Some d) n0 :: mid ++ [Del])) /\
  (forall q, stale_in d (entries f0 d ++ entries f0' d) q = false ->
     look (s_fs (life f0 (Some d) n0 mid)) q = look (s_fs (life f0' (Some d) n0 mid)) q) /\
  (forall q, stale_in d (entries f0 d ++ entries f0' d) q = true ->
     look (s_fs (life f0 (Some d) n0 mid)) q = look f0 q /\
     look (s_fs (life f0' (Some d) n0 mid)) q = look f0' q).
Proof. exact tracker_independent_of_stale. Qed.
Print Assumptions c19_tracker_independent_of_stale.

(* A life leaves a well-formed file system well formed (also without tmp_dir, wherever the
   environment writes): the theorems above apply again to the next tracker, on what
   this one left — histories of runs sharing a tmp_dir are covered by iterating them. *)
Theorem c19_tracker_life_keeps_wf : forall f0 tmp n0 mid,
  wf f0 -> forallb mid_op mid = true ->
  match tmp with Some d => look f0 d = Dir /\ look f0 (d ++ [n0]) = Absent | None => True end ->
  wf (s_fs (life f0 tmp n0 mid)).
Proof. exact tracker_life_keeps_wf. Qed.
Print Assumptions c19_tracker_life_keeps_wf.

(* The boolean `life_premise_ow ow f0 d n0 mid` (Model/Tracker.v) yields every hypothesis used
   above for a life with a tmp_dir: (1) for every path HANDED TO THE TRACKER (add_file) that is not
   in `ow`, (3) third part, (5) with f0' := f0's twin.  `ow` lists the added paths the caller
   overwrites by design: [] for a plain _run_mapping (life_premise), [query] when obsm_key is set
   (append_to_obsm writes config['query_path'], the ORIGINAL path, not the tracker's copy).
   The harness evaluates it (tag 1954) on the lives recorded from real run_mapping's.
   Audit 4, A1: the clause about the environment used to be "no FILE OF f0 is written", which is
   false on real lives these theorems quantify over - a second run with the same csv_result_path
   rewrites the CSV the first left (a file of f0 that was never handed to the tracker), and with
   obsm_key the query is written.  No theorem needs it: (1) and (4) ask "not written" of the one
   path they speak about; the environment may rewrite any file it was not told to leave alone,
   and (1) then says nothing about THAT file (c19_tracker_premise_inputs: everything else is
   untouched). *)
Theorem c19_tracker_premise_ow : forall ow f0 d n0 mid, life_premise_ow ow f0 d n0 mid = true ->
  wf f0 /\ look f0 d = Dir /\ look f0 (d ++ [n0]) = Absent /\ forallb mid_op mid = true /\
  (forall p, In p (added mid) -> ~ In p ow -> forallb (fun o => negb (writes_to p o)) mid = true) /\
  (forall p, In p (requested mid) -> is_prefix (d ++ [n0]) p = false) /\
  (forall o p, In o mid -> In p (op_paths o) -> stale_in d (entries f0 d) p = false).
Proof. exact life_premise_ow_spec. Qed.
Print Assumptions c19_tracker_premise_ow.

(* ow = []: obsm_key unset (first run or a later run into the same output paths) *)
Theorem c19_tracker_premise : forall f0 d n0 mid, life_premise f0 d n0 mid = true ->
  wf f0 /\ look f0 d = Dir /\ look f0 (d ++ [n0]) = Absent /\ forallb mid_op mid = true /\
  (forall p, In p (added mid) -> forallb (fun o => negb (writes_to p o)) mid = true) /\
  (forall p, In p (requested mid) -> is_prefix (d ++ [n0]) p = false) /\
  (forall o p, In o mid -> In p (op_paths o) -> stale_in d (entries f0 d) p = false).
Proof. exact life_premise_spec. Qed.
Print Assumptions c19_tracker_premise.

(* the premise composed with (1): on a life that meets it, a file of f0 keeps its content while
   the tracker lives and after del if it was handed to the tracker and is not overwritten by
   design, or if the environment did not write that very path *)
Theorem c19_tracker_premise_inputs : forall ow f0 d n0 mid, life_premise_ow ow f0 d n0 mid = true ->
  forall p c, look f0 p = File c ->
    (In p (added mid) /\ ~ In p ow) \/ ~ In p (written mid) ->
    look (s_fs (alive f0 (Some d) n0 mid)) p = File c /\
    look (s_fs (life f0 (Some d) n0 mid)) p = File c.
Proof. exact life_premise_inputs_untouched. Qed.
Print Assumptions c19_tracker_premise_inputs.

(* ------------------------------------------------------------------ examples (tracker) *)
(* names: 1 = in/, 2 = out/, 3 = tmp/; [1;1] query (11), [1;2] statistics (12); [2;1] the
   result of an earlier run (21); tmp/ holds a stale file_tracker_* directory 9 with a file *)
Definition tr_fs : fs :=
  [([], (KDir, 0)); ([1], (KDir, 0)); ([2], (KDir, 0)); ([3], (KDir, 0));
   ([1;1], (KFile, 11)); ([1;2], (KFile, 12)); ([2;1], (KFile, 21));
   ([3;9], (KDir, 0)); ([3;9;1], (KFile, 7))].
(* the query is added as input, [2;2] as a new output, [2;1] — which exists — as output;
   the pipeline asks for the locations and writes 100 to that of [2;2], 101 to that of [2;1] *)
Definition tr_mid : list op :=
  [ AddFile [1;1] true 51; AddFile [2;2] false 52; AddFile [2;1] false 53;
    RealLocation [1;1]; RealLocation [2;2]; WriteTo [3;5;52] 100;
    RealLocation [2;1]; WriteTo [3;5;53] 101; FileExists [2;1]; FileExists [2;2] ].

Example ex_tracker_hypotheses :
  wf tr_fs /\ look tr_fs [3] = Dir /\ look tr_fs ([3] ++ [5]) = Absent /\
  forallb mid_op tr_mid = true /\
  life_premise tr_fs [3] 5 tr_mid = true /\
  requested tr_mid = [[2;2]; [2;1]] /\ written tr_mid = [[3;5;52]; [3;5;53]] /\
  outs_of (alive tr_fs (Some [3]) 5 tr_mid) = [[2;2]] /\
  (forall p, In p (requested tr_mid) -> is_prefix ([3] ++ [5]) p = false).
Proof.
  split; [apply wfb_wf; vm_compute; reflexivity|].
  repeat (split; [vm_compute; reflexivity|]).
  intros p [<-|[<-|[]]]; vm_compute; reflexivity.
Qed.

(* the life: outputs of the calls, and the file system after del: the inputs and the stale
   file as before, the new output holds what was written to its location, the EXISTING
   output [2;1] still holds 21 (101 is lost), the tracker directory [3;5] is gone *)
Example ex_tracker_life :
  snd (run (start tr_fs) (Create (Some [3]) 5 :: tr_mid ++ [Del])) =
    [OOk; OOk; OOk; OOk; OLoc [3;5;51]; OLoc [3;5;52]; OOk; OLoc [3;5;53]; OOk;
     OBool true; OBool false; OOk] /\
  look (s_fs (alive tr_fs (Some [3]) 5 tr_mid)) [3;5;51] = File 11 /\
  look (s_fs (alive tr_fs (Some [3]) 5 tr_mid)) [3;5;53] = File 101 /\
  let g := s_fs (life tr_fs (Some [3]) 5 tr_mid) in
  look g [1;1] = File 11 /\ look g [2;2] = File 100 /\ look g [2;1] = File 21 /\
  look g [3;5] = Absent /\ look g [3;5;52] = Absent /\ look g [3;9;1] = File 7.
Proof. vm_compute. repeat split; reflexivity. Qed.

(* THE LIFE OF THE REAL CALLER (cli/from_specified_markers.py:_run_mapping; first: obsm_key
   unset and fresh output paths; the second run and the obsm run follow).
   run_mapping has made its own directory [3;5] (cell_type_mapper_NNN) and the result buffer
   [3;7] (result_buffer_NNN) in the scratch directory [3] before; [1;3] is the marker lookup.
     FileTracker(tmp_dir=[3;5])                      -> its directory [3;5;6] (file_tracker_NNN)
     add_file(query, input_only=True); add_file(statistics, input_only=True)
     real_location(query); real_location(statistics)
     the environment writes: the query-marker cache [3;5;60] (mkstemp_clean(dir=tmp_dir): a
       SIBLING of the tracker's directory), an assignment file in the result buffer [3;7;70]
       (in reality inside a directory the type-assignment stage makes there: the model's
       environment has no mkdir), the CSV [2;3]
     the tracker dies when _run_mapping returns.
   The strict protocol `writes_ok` is FALSE on this life; every hypothesis of the theorems
   (life_premise) holds on it: nothing requested, no path handed to the tracker is written,
   nothing stale named — the marker cache is a fresh sibling, not an entry [3;5] had before.
   This is the FIRST run with obsm_key unset.  The premise does NOT say "no file of f0 is
   written" (audit 4, A1: it did, and that is false for the two lives below):
     ex_real_life_second_run  the same run again, into the same output paths: f0 already holds
                              the CSV [2;3] the first run wrote, and it is rewritten while the
                              tracker lives; life_premise holds (the CSV was never handed to the
                              tracker), (1) is silent about [2;3] and speaks for every other file;
     ex_real_life_obsm        obsm_key set: append_to_obsm writes the query [1;1] itself (the
                              original path, not the tracker's copy [3;5;6;51], which only the
                              readers of real_location see); life_premise (ow = []) is FALSE,
                              life_premise_ow [[1;1]] holds; after del the query holds what was
                              written and the other input is untouched.  After del the tracker's directory is
   gone, the inputs are as before, and what is new is exactly W (run_mapping removes [3;5] and
   [3;7] afterwards: Props above, the acceptor). *)
Definition real_fs : fs :=
  [([], (KDir, 0)); ([1], (KDir, 0)); ([2], (KDir, 0)); ([3], (KDir, 0));
   ([1;1], (KFile, 11)); ([1;2], (KFile, 12)); ([1;3], (KFile, 13)); ([2;1], (KFile, 21));
   ([3;5], (KDir, 0)); ([3;7], (KDir, 0)); ([3;9], (KDir, 0)); ([3;9;1], (KFile, 7))].
Definition real_mid : list op :=
  [ AddFile [1;1] true 51; AddFile [1;2] true 52; RealLocation [1;1]; RealLocation [1;2];
    WriteTo [3;5;60] 100; WriteTo [3;7;70] 101; WriteTo [2;3] 102 ].

Example ex_real_life :
  writes_ok (start real_fs) [] (Tracker.Create (Some [3;5]) 6 :: real_mid) = false /\
  life_premise real_fs [3;5] 6 real_mid = true /\
  requested real_mid = [] /\ written real_mid = [[3;5;60]; [3;7;70]; [2;3]] /\
  entries real_fs [3;5] = [] /\
  snd (run (start real_fs) (Tracker.Create (Some [3;5]) 6 :: real_mid ++ [Del])) =
    [OOk; OOk; OOk; OLoc [3;5;6;51]; OLoc [3;5;6;52]; OOk; OOk; OOk; OOk] /\
  let g := s_fs (life real_fs (Some [3;5]) 6 real_mid) in
  look g [3;5;6] = Absent /\ look g [3;5;6;51] = Absent /\
  look g [1;1] = File 11 /\ look g [1;2] = File 12 /\ look g [1;3] = File 13 /\ look g [2;1] = File 21 /\
  look g [3;5;60] = File 100 /\ look g [3;7;70] = File 101 /\ look g [2;3] = File 102 /\
  look g [3;9;1] = File 7.
Proof. vm_compute. repeat split; reflexivity. Qed.

(* the second run: real_fs2 = what the first life left that matters (the CSV [2;3], content 23 to
   tell it from the new 102) — the file system is well formed, the old clause of the premise
   ("no file of f0 written") is false, the premise holds; the CSV is rewritten, every other file
   of f0 is as before *)
Definition real_fs2 : fs := real_fs ++ [([2;3], (KFile, 23))].
Example ex_real_life_second_run :
  wfb real_fs2 = true /\ look real_fs2 [2;3] = File 23 /\
  forallb (fun q => negb (n_is_file (look real_fs2 q))) (written real_mid) = false /\
  life_premise real_fs2 [3;5] 6 real_mid = true /\
  added real_mid = [[1;1]; [1;2]] /\ written real_mid = [[3;5;60]; [3;7;70]; [2;3]] /\
  snd (run (start real_fs2) (Tracker.Create (Some [3;5]) 6 :: real_mid ++ [Del])) =
    [OOk; OOk; OOk; OLoc [3;5;6;51]; OLoc [3;5;6;52]; OOk; OOk; OOk; OOk] /\
  let g := s_fs (life real_fs2 (Some [3;5]) 6 real_mid) in
  look g [2;3] = File 102 /\ look g [3;5;6] = Absent /\
  look g [1;1] = File 11 /\ look g [1;2] = File 12 /\ look g [1;3] = File 13 /\ look g [2;1] = File 21 /\
  look g [3;9;1] = File 7.
Proof. vm_compute. repeat split; reflexivity. Qed.

(* obsm_key set: after the CSV the caller writes the query itself *)
Definition real_mid_obsm : list op := real_mid ++ [WriteTo [1;1] 103].
Example ex_real_life_obsm :
  life_premise real_fs [3;5] 6 real_mid_obsm = false /\
  life_premise_ow [[1;1]] real_fs [3;5] 6 real_mid_obsm = true /\
  life_premise_ow [[1;1]] real_fs2 [3;5] 6 real_mid_obsm = true /\
  snd (run (start real_fs) (Tracker.Create (Some [3;5]) 6 :: real_mid_obsm ++ [Del])) =
    [OOk; OOk; OOk; OLoc [3;5;6;51]; OLoc [3;5;6;52]; OOk; OOk; OOk; OOk; OOk] /\
  look (s_fs (alive real_fs (Some [3;5]) 6 real_mid_obsm)) [3;5;6;51] = File 11 /\
  let g := s_fs (life real_fs (Some [3;5]) 6 real_mid_obsm) in
  look g [1;1] = File 103 /\ look g [1;2] = File 12 /\ look g [1;3] = File 13 /\
  look g [3;5;6] = Absent /\ look g [2;3] = File 102.
Proof. vm_compute. repeat split; reflexivity. Qed.

(* c19_tracker_premise_inputs on the obsm life: the statistics file [1;2] (handed to the tracker,
   not overwritten by design) and the marker lookup [1;3] (not written) are untouched; the
   theorem says nothing about the query [1;1] - which is indeed changed *)
Example ex_real_life_obsm_inputs :
  (forall p c, look real_fs p = File c -> p <> [1;1] -> ~ In p (written real_mid_obsm) ->
     look (s_fs (life real_fs (Some [3;5]) 6 real_mid_obsm)) p = File c) /\
  look (s_fs (life real_fs (Some [3;5]) 6 real_mid_obsm)) [1;2] = File 12.
Proof.
  assert (H : life_premise_ow [[1;1]] real_fs [3;5] 6 real_mid_obsm = true) by (vm_compute; reflexivity).
  split.
  - intros p c Hp _ Hw. exact (proj2 (c19_tracker_premise_inputs _ _ _ _ _ H p c Hp (or_intror Hw))).
  - refine (proj2 (c19_tracker_premise_inputs _ _ _ _ _ H [1;2] 12 eq_refl (or_introl (conj _ _)))).
    + vm_compute. auto.
    + intros [E|[]]. discriminate E.
Qed.

(* (1) fails without a tmp_dir when the environment writes to the real_location of an
   input: the location IS the input — even under the strict protocol writes_ok *)
Theorem c19_tracker_inputs_untouched_no_tmp_refuted :
  exists f0 n0 mid p c,
    wf f0 /\ forallb mid_op mid = true /\
    writes_ok (start f0) [] (Create None n0 :: mid) = true /\
    look f0 p = File c /\
    snd (run (start f0) (Create None n0 :: mid)) = [OOk; OOk; OLoc p; OOk] /\
    look (s_fs (life f0 None n0 mid)) p <> File c.
Proof.
  exists tr_fs, 0, [AddFile [1;1] true 0; RealLocation [1;1]; WriteTo [1;1] 100], [1;1], 11.
  split; [apply wfb_wf; vm_compute; reflexivity|].
  repeat (split; [vm_compute; reflexivity|]). vm_compute. discriminate.
Qed.
Print Assumptions c19_tracker_inputs_untouched_no_tmp_refuted.

(* add_file twice for the same new output: the second call draws a new location; what was
   written to the first is lost, the path is copied out twice from the second *)
Example ex_tracker_added_twice :
  let mid := [AddFile [2;2] false 52; RealLocation [2;2]; WriteTo [3;5;52] 100;
              AddFile [2;2] false 54; RealLocation [2;2]] in
  snd (run (start tr_fs) (Create (Some [3]) 5 :: mid)) = [OOk; OOk; OLoc [3;5;52]; OOk; OOk; OLoc [3;5;54]] /\
  outs_of (alive tr_fs (Some [3]) 5 mid) = [[2;2]; [2;2]] /\
  look (s_fs (life tr_fs (Some [3]) 5 mid)) [2;2] = File empty_content.
Proof. vm_compute. repeat split; reflexivity. Qed.

(* the error branches of add_file / real_location / file_exists and of the constructor *)
Example ex_tracker_errors :
  snd (run (start tr_fs)
         [Create (Some [3]) 5; AddFile [1] true 60; AddFile [1;7] true 60; AddFile [2;8;1] false 60;
          AddFile [1;1;4] false 60; RealLocation [1;2]; FileExists [1;2]; AddFile [1;2] true 9]) =
    [OOk; OErr 1; OErr 2; OErr 3; OErr 3; OErr 4; OErr 4; OOk] /\
  snd (step (start tr_fs) (Create (Some [1;1]) 5)) = OErr 9 /\
  snd (step (start tr_fs) (Create (Some [3]) 9)) = OErr 5.
Proof. vm_compute. repeat split; reflexivity. Qed.

(* (5): the same life on a file system with OTHER stale entries in tmp/; here the environment
   also writes a fresh sibling [3;60] of the tracker's directory — not stale *)
Definition tr_fs' : fs :=
  [([], (KDir, 0)); ([1], (KDir, 0)); ([2], (KDir, 0)); ([3], (KDir, 0));
   ([1;1], (KFile, 11)); ([1;2], (KFile, 12)); ([2;1], (KFile, 21));
   ([3;8], (KFile, 3)); ([3;4], (KDir, 0)); ([3;4;51], (KFile, 4))].
Definition tr_mid5 : list op := tr_mid ++ [WriteTo [3;60] 102].
Example ex_tracker_stale_hypotheses :
  let E := entries tr_fs [3] ++ entries tr_fs' [3] in
  E = [9; 8; 4] /\ wf tr_fs' /\ look tr_fs' ([3] ++ [5]) = Absent /\
  (forall q, stale_in [3] E q = false -> look tr_fs q = look tr_fs' q) /\
  (forall o p, In o tr_mid5 -> In p (op_paths o) -> stale_in [3] E p = false) /\
  stale_in [3] E [3;9;1] = true /\ look tr_fs [3;9;1] <> look tr_fs' [3;9;1] /\
  stale_in [3] E [3;60] = false /\
  look (s_fs (life tr_fs (Some [3]) 5 tr_mid5)) [3;60] = File 102.
Proof.
  split; [vm_compute; reflexivity|].
  split; [apply wfb_wf; vm_compute; reflexivity|].
  split; [vm_compute; reflexivity|].
  split; [apply agree_b_spec; vm_compute; reflexivity|].
  split; [apply ops_ns_b_spec; vm_compute; reflexivity|].
  split; [vm_compute; reflexivity|]. split; [vm_compute; discriminate|].
  split; vm_compute; reflexivity.
Qed.
