(* C19 — runs leave inputs untouched, scratch space empty, and do not interfere.
   Property theorems only: each is closed by `exact <lemma>` (Proofs/FsModelP.v).
   The acceptor `accept : config -> fs -> list op -> result` (Model/FsModel.v) is what the
   harness feeds the strace'd operation traces of the real stages to. *)
From Coq Require Import ZArith List Bool.
From CTM Require Import Base.Sx Model.FsModel Proofs.FsModelP.
Import ListNotations.
Open Scope Z_scope.

(* Every accepted trace, for ALL file systems, configurations and traces:
   1. leaves each input with its original content id (the query file is exempt exactly
      when obsm_key is set: wq);
   2. if it ended with `Return ok`, or with `Return err` of a stage that promises to clean
      up after errors (c_strict: the mapping stage): leaves every path under the scratch
      directory exactly as it was ...
   3. ... and has created nothing except at declared outputs;
   4. in any case, whatever is new lies at a declared output or under scratch. *)
Theorem c19_acceptor_sound : forall c f0 t g,
  accept c f0 t = Accepted g ->
  (forall i, In i (c_inputs c) -> lookup f0 i <> None -> ~ In i (c_outputs c) -> wq c i = false ->
             lookup g i = lookup f0 i) /\
  (must_be_clean c t = true -> outside_scratch c = true ->
     forall p, under (c_scratch c) p = true -> lookup g p = lookup f0 p) /\
  (must_be_clean c t = true ->
     forall p, lookup f0 p = None -> lookup g p <> None -> In p (c_outputs c)) /\
  (forall p, lookup f0 p = None -> lookup g p <> None ->
             In p (c_outputs c) \/ under (c_scratch c) p = true).
Proof. exact acceptor_sound. Qed.
Print Assumptions c19_acceptor_sound.

(* Files left by earlier runs do not matter: two initial file systems that agree on the
   inputs (and on the query file when it is writable) and contain nothing under the names
   the trace makes in the scratch root — but are otherwise ARBITRARY, in particular in the
   scratch and output directories and at the output paths themselves — accept the same
   traces, and every declared output ends up the same (or, if the run never wrote it, is
   what it was). *)
Theorem c19_stale_independence : forall c t f1 f2 g1,
  outside_scratch c = true -> mem (c_query c) (c_outputs c) = false ->
  (forall p, In p (c_inputs c) -> lookup f1 p = lookup f2 p) ->
  (c_obsm c = true -> lookup f1 (c_query c) = lookup f2 (c_query c)) ->
  (forall p, in_cone c (fresh_names c t) p = true -> lookup f1 p = None /\ lookup f2 p = None) ->
  accept c f1 t = Accepted g1 ->
  exists g2, accept c f2 t = Accepted g2 /\
    forall o, In o (c_outputs c) ->
      lookup g1 o = lookup g2 o \/ (lookup g1 o = lookup f1 o /\ lookup g2 o = lookup f2 o).
Proof. exact stale_independence_thm. Qed.
Print Assumptions c19_stale_independence.

(* Two runs sharing scratch and output directories: if each trace is accepted on its own
   and the runs are compatible (same scratch root, disjoint fresh names, neither writes a
   declared file the other reads or writes, nothing declared inside scratch), then EVERY
   interleaving `il` of the two traces is accepted by the two-run machine and every output
   of either run ends exactly as in its solo run. *)
Theorem c19_concurrent_noninterference : forall c1 c2 f t1 t2 il g1 g2,
  proj true il = t1 -> proj false il = t2 ->
  mem (c_query c1) (c_outputs c1) = false -> mem (c_query c2) (c_outputs c2) = false ->
  accept c1 f t1 = Accepted g1 ->
  accept c2 f t2 = Accepted g2 ->
  compatb c1 (fresh_names c1 t1) c2 (fresh_names c2 t2) = true ->
  exists g, accept2 c1 c2 f il = Accepted2 g /\
    (forall o, In o (c_outputs c1) -> lookup g o = lookup g1 o) /\
    (forall o, In o (c_outputs c2) -> lookup g o = lookup g2 o).
Proof.
  intros c1 c2 f t1 t2 il g1 g2 <- <-. exact (concurrent_noninterference_thm c1 c2 f il g1 g2).
Qed.
Print Assumptions c19_concurrent_noninterference.

(* ------------------------------------------------------------------ examples *)
(* names: 1 = in/, 2 = out/, 3 = tmp/ ; [1;1] query, [1;2] statistics, [1;3] marker lookup;
   outputs [2;1] result.json, [2;2] log.txt ; the scratch directory holds a stale
   directory 9 with a stale assignment file, the output directory a stale result.json *)
Definition ex_cfg : config :=
  {| c_inputs := [[1;1]; [1;2]; [1;3]]; c_outputs := [[2;1]; [2;2]]; c_scratch := [3];
     c_query := [1;1]; c_obsm := false; c_strict := true |}.
Definition ex_fs : fs :=
  [([1], (KDir, 0)); ([2], (KDir, 0)); ([3], (KDir, 0));
   ([1;1], (KFile, 1)); ([1;2], (KFile, 2)); ([1;3], (KFile, 3));
   ([3;9], (KDir, 0)); ([3;9;1], (KFile, 7)); ([2;1], (KFile, 8))].
(* the shape of a successful run_mapping: cell_type_mapper_* (5), probe of the log path,
   result_buffer_* (6), file_tracker_* copy of the query, results_buffer_* with one
   assignment file that is listed, read and removed, clean-up, outputs *)
Definition ex_trace : list op :=
  [ Mkdir [3;5]; Create [2;2] true 100; Unlink [2;2]; Mkdir [3;6];
    Mkdir [3;5;1]; OpenR [1;1]; Create [3;5;1;1] true 101; OpenR [1;2]; OpenR [3;5;1;1];
    OpenR [1;3]; Mkdir [3;6;2]; Create [3;6;2;7] true 102; ListDir [3;6;2]; OpenR [3;6;2;7];
    Unlink [3;6;2;7]; Rmdir [3;6;2]; Unlink [3;5;1;1]; Rmdir [3;5;1]; Rmdir [3;6]; Rmdir [3;5];
    Create [2;2] false 103; Create [2;1] true 104; Return true ].

Example ex_accepted : exists g, accept ex_cfg ex_fs ex_trace = Accepted g /\
  lookup g [2;1] = Some (KFile, 104) /\ lookup g [2;2] = Some (KFile, 103) /\
  lookup g [3;9;1] = Some (KFile, 7) /\ lookup g [3;5] = None /\
  must_be_clean ex_cfg ex_trace = true /\ outside_scratch ex_cfg = true /\
  fresh_names ex_cfg ex_trace = [5; 6].
Proof. eexists. vm_compute. repeat split; reflexivity. Qed.

(* the hypotheses of stale independence are satisfiable: the same trace on a file system
   with a different stale content of scratch and output directory *)
Definition ex_fs' : fs :=
  [([1], (KDir, 0)); ([2], (KDir, 0)); ([3], (KDir, 0));
   ([1;1], (KFile, 1)); ([1;2], (KFile, 2)); ([1;3], (KFile, 3));
   ([3;4], (KFile, 11)); ([2;2], (KFile, 12)); ([2;5], (KFile, 13))].
Example ex_stale : exists g, accept ex_cfg ex_fs' ex_trace = Accepted g /\
  lookup g [2;1] = Some (KFile, 104) /\ lookup g [2;2] = Some (KFile, 103) /\
  lookup g [3;4] = Some (KFile, 11) /\ lookup g [2;5] = Some (KFile, 13).
Proof. eexists. vm_compute. repeat split; reflexivity. Qed.

(* the shape of a FAILED run_mapping (a worker died): the result buffer (6), the buffer of the
   assignment stage inside it (6/2) and the assignment file a surviving worker wrote there
   are removed in the `finally` block, then the tmp directory; log and JSON are written *)
Example ex_failed_run_accepted : exists g,
  accept ex_cfg ex_fs
    [ Mkdir [3;5]; Create [2;2] true 100; Unlink [2;2]; Mkdir [3;6]; OpenR [1;1];
      Mkdir [3;6;2]; Create [3;6;2;7] true 102;
      ListDir [3;6]; ListDir [3;6;2]; Unlink [3;6;2;7]; Rmdir [3;6;2]; Rmdir [3;6]; Rmdir [3;5];
      Create [2;2] false 103; Create [2;1] true 104; Return false ] = Accepted g /\
  lookup g [3;6] = None /\ lookup g [3;5] = None /\ lookup g [3;9;1] = Some (KFile, 7).
Proof. eexists. vm_compute. repeat split; reflexivity. Qed.

(* what the acceptor refuses *)
(* a mapping run that fails and leaves its result buffer (6) behind: what run_mapping did
   before the repair of finding F9 (the buffer was removed on the success path only) *)
Example ex_f9_rejected :
  accept ex_cfg ex_fs [Mkdir [3;5]; Mkdir [3;6]; OpenR [1;1]; Rmdir [3;5]; Return false] = Rejected 4 7.
Proof. vm_compute. reflexivity. Qed.
(* listing the shared scratch directory; reading a file left there; appending to a log left by
   an earlier run; writing the query file although obsm_key is not set; a name that is taken *)
Example ex_list_shared : accept ex_cfg ex_fs [ListDir [3]; Return true] = Rejected 0 5.
Proof. vm_compute. reflexivity. Qed.
Example ex_read_stale : accept ex_cfg ex_fs [OpenR [3;9;1]; Return true] = Rejected 0 1.
Proof. vm_compute. reflexivity. Qed.
Example ex_append_stale : accept ex_cfg ex_fs [Create [2;1] false 100; Return true] = Rejected 0 11.
Proof. vm_compute. reflexivity. Qed.
Example ex_write_query : accept ex_cfg ex_fs [OpenW [1;1] 100; Return true] = Rejected 0 2.
Proof. vm_compute. reflexivity. Qed.
Example ex_name_taken : accept ex_cfg ex_fs [Mkdir [3;9]; Return true] = Rejected 0 3.
Proof. vm_compute. reflexivity. Qed.

(* a second, compatible run (other outputs, other fresh names) and one interleaving *)
Definition ex_cfg2 : config :=
  {| c_inputs := [[1;4]; [1;2]; [1;3]]; c_outputs := [[2;3]]; c_scratch := [3];
     c_query := [1;4]; c_obsm := true; c_strict := true |}.
Definition ex_fs2 : fs := ([1;4], (KFile, 4)) :: ex_fs.
Definition ex_trace2 : list op :=
  [ Mkdir [3;7]; OpenR [1;4]; Create [3;7;1] true 200; OpenR [1;2]; OpenR [3;7;1];
    Unlink [3;7;1]; Rmdir [3;7]; OpenW [1;4] 201; Create [2;3] true 202; Return true ].
Fixpoint zip_il (a b : list op) : list (bool * op) :=
  match a, b with
  | x :: a', y :: b' => (true, x) :: (false, y) :: zip_il a' b'
  | _, [] => map (fun x => (true, x)) a
  | [], _ => map (fun y => (false, y)) b
  end.
Example ex_concurrent :
  let il := zip_il ex_trace ex_trace2 in
  proj true il = ex_trace /\ proj false il = ex_trace2 /\
  compatb ex_cfg (fresh_names ex_cfg ex_trace) ex_cfg2 (fresh_names ex_cfg2 ex_trace2) = true /\
  (exists g1, accept ex_cfg ex_fs2 ex_trace = Accepted g1) /\
  (exists g2, accept ex_cfg2 ex_fs2 ex_trace2 = Accepted g2) /\
  exists g, accept2 ex_cfg ex_cfg2 ex_fs2 il = Accepted2 g /\
            lookup g [2;1] = Some (KFile, 104) /\ lookup g [2;3] = Some (KFile, 202) /\
            lookup g [1;4] = Some (KFile, 201).
Proof. vm_compute. repeat split; try reflexivity; eexists; repeat split; reflexivity. Qed.
