(* C20 -- placeholder until the proofs are in (stage 1: model + tie). *)
From Coq Require Import ZArith List Bool.
From CTM Require Import Base.Sx Model.Sanitize.
Import ListNotations.
Open Scope Z_scope.

Example c20_example_split : split [97; 32; 32; 98; 10] = [[97]; [98]].
Proof. vm_compute. reflexivity. Qed.
