(* C20 — cloud-safe outputs reveal no absolute path of the host.
   Property theorems only: each is closed by `exact <lemma>`.
   ex p = p.is_file() or p.is_dir() (the file system), resolve p = p.resolve().absolute(),
   mapper = the directory containing the package: all universally quantified. *)
From Coq Require Import ZArith List Bool.
From CTM Require Import Base.Sx Model.Sanitize Proofs.SanitizeP.
Import ListNotations.
Open Scope Z_scope.

(* FULL STATEMENT (refuted below):
     forall ex resolve mapper s out,
       sanitize_str ex resolve mapper s = SOk out -> ~ leaks ex out
   i.e. no sub-string of a sanitised text is the absolute path of something that exists. *)

(* What does hold, word by word: a blank-delimited word whose quote-stripped form is, or lies
   below, an existing path (q = a non-empty prefix of its components that exists) is recognised
   and -- as a text of its own -- replaced by a text that does not start with '/'; when the path
   is not inside the package it is replaced by its last component, which contains no '/' at all
   and therefore reveals nothing.  (Or the function raises: see c20_sibling_of_package_raises.)
   Missing for the full statement: words in which the path is glued to a leading prefix are not
   recognised, and the substitutions of different words of one text are applied by str.replace to
   the whole text, so they can interact. *)
Theorem c20_word_sound_partial : forall ex resolve mapper,
  (forall p, wf_path p -> wf_path (resolve p)) ->
  forall w q rest,
    w <> [] -> forallb (fun c => negb (is_space c)) w = true ->
    p_parts (word_to_path w) = q ++ rest -> q <> [] ->
    ex (mkPath (p_root (word_to_path w)) q) = true ->
    (exists t, sanitize_str ex resolve mapper w = SOk t /\
               hd_error t <> Some SLASH /\
               (prefix_b (path_str mapper) (path_str (resolve (word_to_path w))) = false ->
                t = path_name (word_to_path w) /\ ~ In SLASH t /\ ~ leaks ex t))
    \/ (exists e, sanitize_str ex resolve mapper w = SErr e).
Proof. exact word_sound_partial. Qed.
Print Assumptions c20_word_sound_partial.

(* the replacement of any recognised word, inside any text: no leading '/', and no '/' at all
   outside the package *)
Theorem c20_replacement_text : forall ex resolve mapper,
  (forall p, wf_path p -> wf_path (resolve p)) ->
  forall w t,
    safe_path ex resolve mapper w = Some (SOk t) ->
    hd_error t <> Some SLASH /\
    (prefix_b (path_str mapper) (path_str (resolve (word_to_path w))) = false -> ~ In SLASH t).
Proof. exact safe_path_sound. Qed.
Print Assumptions c20_replacement_text.

(* recognition is exact: a word is rewritten iff its path or one of its lexical ancestors (other
   than "." and "/") exists -- so nothing else in a message is destroyed *)
Theorem c20_exposed_iff : forall ex p,
  (p_root p < 2)%nat ->
  (is_exposed ex p = Exposed <->
   exists q rest, p_parts p = q ++ rest /\ q <> [] /\ ex (mkPath (p_root p) q) = true).
Proof. exact exposed_iff. Qed.
Print Assumptions c20_exposed_iff.

Theorem c20_unexposed_text_unchanged : forall ex resolve mapper s,
  Forall (fun w => safe_path ex resolve mapper w = None) (split s) ->
  sanitize_str ex resolve mapper s = SOk s.
Proof. exact unexposed_unchanged. Qed.
Print Assumptions c20_unexposed_text_unchanged.

(* Under cloud_safe everything that reaches the sinks has gone through the sanitiser: the recorded
   configuration is the sanitised image of the configuration without the keys tmp_dir and
   extended_result_dir, every string in it is the image of a string of the configuration, and
   the log of the output files and the lines of the log file are the images, line by line, of
   the raw log. *)
Theorem c20_sinks_sanitised : forall ex resolve mapper config log sk,
  NoDup (map fst config) ->
  run_sinks ex resolve mapper true config log = SOk sk ->
  exists kv,
    s_config sk = JDict kv /\
    ~ In K_TMP_DIR (map fst kv) /\ ~ In K_EXT_DIR (map fst kv) /\
    (forall k v', In (k, v') kv -> exists v, In (k, v) config /\ jv_image ex resolve mapper v v') /\
    (forall s', In s' (strings_of (s_config sk)) ->
                exists s, In s (strings_of (JDict config)) /\ image ex resolve mapper s s') /\
    Forall2 (image ex resolve mapper) log (s_log sk) /\ s_log_file sk = s_log sk.
Proof. exact sinks_sanitised. Qed.
Print Assumptions c20_sinks_sanitised.

(* The full statement is refuted by the faithful model (finding F10): with /data/x.h5 on the
   host, "(/data/x.h5)" is returned unchanged and contains the path, although "/data/x.h5" on its
   own is replaced by "x.h5". *)
Theorem c20_no_abs_path_refuted :
  exists ex resolve mapper s out,
    sanitize_str ex resolve mapper s = SOk out /\ leaks ex out /\
    exists bare name, s = [40] ++ bare ++ [41] /\ sanitize_str ex resolve mapper bare = SOk name /\ ~ In SLASH name.
Proof. exact no_abs_path_refuted. Qed.
Print Assumptions c20_no_abs_path_refuted.

(* the same for  path=/data/x.h5  and  ['/data/x.h5']  *)
Theorem c20_glued_prefixes_refuted :
  (san0 T_PAREN = SOk T_PAREN /\ leaks (ex_of HOST) T_PAREN) /\
  (san0 T_KEY = SOk T_KEY /\ leaks (ex_of HOST) T_KEY) /\
  (san0 T_LIST = SOk T_LIST /\ leaks (ex_of HOST) T_LIST).
Proof. exact glued_path_leaks. Qed.
Print Assumptions c20_glued_prefixes_refuted.

(* finding F14: "/data," -- an entry directly under the root with glued punctuation *)
Theorem c20_top_level_entry_refuted : san0 T_TOP = SOk T_TOP /\ leaks (ex_of HOST) T_TOP.
Proof. exact top_level_entry_leaks. Qed.
Print Assumptions c20_top_level_entry_refuted.

(* finding F13: "/repo/src," with the package in /repo/src raises ValueError *)
Theorem c20_sibling_of_package_raises : san0 T_SIB = SErr E_VALUE.
Proof. exact sibling_of_package_dir_raises. Qed.
Print Assumptions c20_sibling_of_package_raises.

(* non-vacuity of the hypotheses of c20_word_sound_partial and c20_sinks_sanitised *)
Example c20_example_word :
  let w := [39] ++ T_BARE ++ [39; 44] in                       (* '/data/x.h5', *)
  forallb (fun c => negb (is_space c)) w = true /\
  p_parts (word_to_path w) = [[100; 97; 116; 97]] ++ [[120; 46; 104; 53; 44]] /\
  ex_of HOST (mkPath (p_root (word_to_path w)) [[100; 97; 116; 97]]) = true /\
  san0 w = SOk [120; 46; 104; 53; 44].                          (* x.h5, *)
Proof. vm_compute. repeat split; reflexivity. Qed.
Example c20_example_sinks :
  exists sk,
    run_sinks (ex_of HOST) (resolve_of []) P_SRC true
      [(K_TMP_DIR, JStr [47; 100; 97; 116; 97]); (K_EXT_DIR, JOther 0); ([113], JDict [([112], JList [JStr T_BARE; JOther 1])])]
      [[114; 101; 97; 100; 32] ++ T_BARE] = SOk sk /\
    s_config sk = JDict [([113], JDict [([112], JList [JStr [120; 46; 104; 53]; JOther 1])])] /\
    s_log sk = [[114; 101; 97; 100; 32; 120; 46; 104; 53]].
Proof. eexists. vm_compute. repeat split; reflexivity. Qed.

(* F18: sanitising is word by word, but each replacement is a str.replace over the whole text.
   When an earlier word (a relative path that exists) also occurs inside a later word (the same
   file by its absolute path), the later word is rewritten in passing and is no longer found
   by its own replacement: its absolute directory stays in the output, although each of the
   two words on its own is sanitised *)
Theorem c20_cross_word_replacement_refuted :
  sanitize_str (ex_of HOST18) (resolve_of []) P_SRC T_BOTH = SOk T_OUT18 /\ leaks (ex_of HOST18) T_OUT18 /\
  sanitize_str (ex_of HOST18) (resolve_of []) P_SRC T_REL = SOk [120; 46; 104; 53] /\
  sanitize_str (ex_of HOST18) (resolve_of []) P_SRC T_ABS = SOk [120; 46; 104; 53].
Proof. exact cross_word_replacement_leaks. Qed.
Print Assumptions c20_cross_word_replacement_refuted.

(* the hypothesis asked of `resolve` in c20_word_sound_partial / c20_replacement_text is met by
   the resolver used in every example above (and by any table of well-formed targets) *)
Example c20_resolve_hypothesis_satisfiable : forall p, wf_path p -> wf_path (resolve_of [] p).
Proof. exact resolve_of_nil_wf. Qed.
