(* C09 — reference statistics equal direct computation and are additive.
   (theorems are added in stage 2) *)
From Coq Require Import ZArith List Bool.
From CTM Require Import Base.Sx Model.Stats.
Import ListNotations.
Open Scope Z_scope.

Example c09_example_stats :
  stats_of_rows 8 2 [[8; 4]; [0; 16]; [9; 7]] = mk_summary 3 [17; 27] [145; 321] [2; 3] [1; 1] [2; 1].
Proof. vm_compute. reflexivity. Qed.
