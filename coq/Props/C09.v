(* C09 — reference statistics equal direct computation and are additive.
   Property theorems only: each is closed by `exact <lemma>` (lemmas in Proofs/StatsP.v). *)
From Coq Require Import ZArith List Bool Arith Permutation.
From CTM Require Import Base.Sx Base.SortX Model.Tree Model.Stats Proofs.TreeP Proofs.StatsP Proofs.StatsTruncP Proofs.StatsMergeP Proofs.StatsGuardP.
Import ListNotations.
Open Scope Z_scope.

Example c09_example_stats :
  stats_of_rows 8 2 [[8; 4]; [0; 16]; [9; 7]] = mk_summary 3 [17; 27] [145; 321] [2; 3] [1; 1] [2; 1].
Proof. vm_compute. reflexivity. Qed.

(* ------------------------------------------------------------------ *)
(* the summary of a list of expression rows is additive under concatenation:
   this is what makes every chunking of the cells give the same table *)
Theorem c09_additive : forall D ng a b,
  Forall (fun r => length r = ng) a -> Forall (fun r => length r = ng) b ->
  stats_of_rows D ng (a ++ b) = sadd (stats_of_rows D ng a) (stats_of_rows D ng b).
Proof. exact stats_additive. Qed.
Print Assumptions c09_additive.

(* (summary, sadd, szero ng) is a commutative monoid on the well-formed summaries
   (all five vectors of length ng), closed under sadd, and contains every stats_of_rows *)
Theorem c09_commutative_monoid : forall ng,
  (forall a b, sadd a b = sadd b a) /\
  (forall a b c, sadd (sadd a b) c = sadd a (sadd b c)) /\
  (forall a, swf ng a -> sadd (szero ng) a = a /\ sadd a (szero ng) = a) /\
  (forall a b, swf ng a -> swf ng b -> swf ng (sadd a b)) /\
  swf ng (szero ng) /\
  (forall D rows, Forall (fun r => length r = ng) rows -> swf ng (stats_of_rows D ng rows)) /\
  (forall D, stats_of_rows D ng [] = szero ng).
Proof. exact monoid_laws. Qed.
Print Assumptions c09_commutative_monoid.

(* the order of the cells is irrelevant *)
Theorem c09_order_irrelevant : forall D ng a b,
  Forall (fun r => length r = ng) a -> Permutation a b ->
  stats_of_rows D ng a = stats_of_rows D ng b.
Proof. exact stats_perm. Qed.
Print Assumptions c09_order_irrelevant.

Example c09_additive_nonvacuous :
  Forall (fun r => length r = 2%nat) [[8; 4]; [0; 16]] /\ Forall (fun r => length r = 2%nat) [[9; 7]] /\
  stats_of_rows 8 2 ([[8; 4]; [0; 16]] ++ [[9; 7]]) =
  sadd (mk_summary 2 [8; 20] [64; 272] [1; 2] [0; 1] [1; 1]) (mk_summary 1 [9; 7] [81; 49] [1; 1] [1; 0] [1; 0]).
Proof. split; [repeat constructor|]. split; [repeat constructor|]. vm_compute. reflexivity. Qed.

(* ------------------------------------------------------------------ *)
(* For every split of the cells into files, every rows_at_a_time >= 1, every worker
   count >= 1: the run does not fail (unless no file holds a cell of the taxonomy: the
   code's "final_output is None" error) and row r of the written table is stats_of_rows
   of exactly the cells whose name the taxonomy sends to the cluster of row r; a cell the
   taxonomy does not name is in no `members` list.  The lookup is characterised by the
   taxonomy's leaf level (cluster -> cell names, a later entry wins as in the dict).
   (hypotheses = what the code enforces or the input guarantees: cluster names unique
   (keys of a dict), every file has ng genes in the same order (else Err E_GENES) and
   rows of ng numbers). *)
Theorem c09_partition_independent : forall D leaf files rows_at_a_time n_processors ng,
  NoDup (map fst leaf) -> (1 <= rows_at_a_time)%nat -> (1 <= n_processors)%nat ->
  files_wf ng files ->
  exists lookup,
    (forall cell,
      dict_get cell lookup =
      match dict_get cell (cell_to_cluster leaf) with
      | Some cl => option_map Z.of_nat (zassoc cl (cluster_to_row (map fst leaf)))
      | None => None
      end) /\
    precompute D leaf files rows_at_a_time n_processors =
      if existsb (named lookup) (all_cells files)
      then Ok (cluster_to_row (map fst leaf),
               map (fun r => stats_of_rows D ng (members lookup (Z.of_nat r) (all_cells files)))
                   (seq 0 (length leaf)))
      else Err E_NOWORK.
Proof. exact table_is_direct. Qed.
Print Assumptions c09_partition_independent.

(* hence two runs over the same multiset of cells — however spread over files, in whatever
   order, with whatever chunk size and worker count — write the same table *)
Theorem c09_partition_independent_pairwise : forall D leaf files files' rows rows' p p' ng,
  NoDup (map fst leaf) -> (1 <= rows)%nat -> (1 <= rows')%nat -> (1 <= p)%nat -> (1 <= p')%nat ->
  files_wf ng files -> files_wf ng files' ->
  Permutation (all_cells files) (all_cells files') ->
  precompute D leaf files rows p = precompute D leaf files' rows' p'.
Proof. exact partition_independent. Qed.
Print Assumptions c09_partition_independent_pairwise.

(* cells not named by the taxonomy contribute nothing (re-stated after the audit: the
   former statement was the idempotence of the filter inside `members`).
   in_taxonomy leaf c  := the name of cell c is listed under some leaf cluster;
   strip_unlabelled leaf f := the file f without the cells that are not in_taxonomy.
   The table written for a set of files is a function of the multiset of their LABELLED
   cells alone: two sets of files whose labelled cells agree - whatever unlabelled cells
   either contains, however the cells are spread over files, in whatever order, for
   every rows_at_a_time and worker count of either run - give the same result (the same
   table, or E_NOWORK for both when no cell is labelled). *)
Theorem c09_only_labelled_cells_matter : forall D leaf files files' rows rows' p p' ng,
  NoDup (map fst leaf) -> (1 <= rows)%nat -> (1 <= rows')%nat -> (1 <= p)%nat -> (1 <= p')%nat ->
  files_wf ng files -> files_wf ng files' ->
  Permutation (filter (in_taxonomy leaf) (all_cells files)) (filter (in_taxonomy leaf) (all_cells files')) ->
  precompute D leaf files rows p = precompute D leaf files' rows' p'.
Proof. exact only_labelled_cells_matter. Qed.
Print Assumptions c09_only_labelled_cells_matter.

(* in particular: a file containing cells whose label is not in the taxonomy gives the same
   table as the file without those cells, for every split into chunks and workers of
   either run (the stripped files are again well-formed input and hold exactly the
   labelled cells) *)
Theorem c09_unlabelled_contribute_nothing : forall D leaf files rows rows' p p' ng,
  NoDup (map fst leaf) -> (1 <= rows)%nat -> (1 <= rows')%nat -> (1 <= p)%nat -> (1 <= p')%nat ->
  files_wf ng files ->
  files_wf ng (map (strip_unlabelled leaf) files) /\
  all_cells (map (strip_unlabelled leaf) files) = filter (in_taxonomy leaf) (all_cells files) /\
  precompute D leaf files rows p = precompute D leaf (map (strip_unlabelled leaf) files) rows' p'.
Proof. exact unlabelled_contribute_nothing. Qed.
Print Assumptions c09_unlabelled_contribute_nothing.

Definition c09_leaf : level := [(20, [1; 2; 5]); (10, [3]); (30, [])].
Definition c09_files : list h5ad :=
  [ mk_h5ad [100; 101] [(1, [8; 4]); (9, [16; 16]); (3, [0; 16])];
    mk_h5ad [100; 101] [(5, [9; 7]); (2, [1; 1])] ].
Definition c09_files' : list h5ad :=
  [ mk_h5ad [100; 101] [(2, [1; 1])]; mk_h5ad [100; 101] [(3, [0; 16]); (5, [9; 7])];
    mk_h5ad [100; 101] [(9, [16; 16]); (1, [8; 4])] ].
(* c09_files holds the unlabelled cell 9 (and c09_leaf an empty cluster): stripping it
   changes the first file and not the table *)
Example c09_unlabelled_nonvacuous :
  map (strip_unlabelled c09_leaf) c09_files =
    [ mk_h5ad [100; 101] [(1, [8; 4]); (3, [0; 16])]; mk_h5ad [100; 101] [(5, [9; 7]); (2, [1; 1])] ] /\
  map (strip_unlabelled c09_leaf) c09_files <> c09_files /\
  precompute 8 c09_leaf c09_files 2 3 = precompute 8 c09_leaf (map (strip_unlabelled c09_leaf) c09_files) 1 2.
Proof. split; [vm_compute; reflexivity|]. split; [vm_compute; discriminate | vm_compute; reflexivity]. Qed.

Example c09_partition_nonvacuous :
  NoDup (map fst c09_leaf) /\ files_wf 2 c09_files /\ files_wf 2 c09_files' /\
  Permutation (all_cells c09_files) (all_cells c09_files') /\
  precompute 8 c09_leaf c09_files 2 3 = precompute 8 c09_leaf c09_files' 1 2 /\
  precompute 8 c09_leaf c09_files 2 3 =
    Ok ([(10, 0%nat); (20, 1%nat); (30, 2%nat)],
        [ mk_summary 1 [0; 16] [0; 256] [0; 1] [0; 1] [0; 1];
          mk_summary 3 [18; 12] [146; 66] [3; 3] [1; 0] [2; 0];
          szero 2 ]).
Proof.
  split; [repeat constructor; cbn; intuition discriminate|].
  split; [split; [repeat constructor | reflexivity]|].
  split; [split; [repeat constructor | reflexivity]|].
  split.
  - vm_compute.
    apply Permutation_trans with
      (l' := [(2, [1; 1]); (1, [8; 4]); (9, [16; 16]); (3, [0; 16]); (5, [9; 7])]).
    + apply Permutation_sym. apply (Permutation_middle [(1, [8; 4]); (9, [16; 16]); (3, [0; 16]); (5, [9; 7])] [] (2, [1; 1])).
    + constructor.
      apply Permutation_trans with (l' := [(3, [0; 16]); (1, [8; 4]); (9, [16; 16]); (5, [9; 7])]).
      * apply Permutation_sym. apply (Permutation_middle [(1, [8; 4]); (9, [16; 16])] [(5, [9; 7])] (3, [0; 16])).
      * constructor.
        apply Permutation_trans with (l' := [(5, [9; 7]); (1, [8; 4]); (9, [16; 16])]).
        -- apply Permutation_sym. apply (Permutation_middle [(1, [8; 4]); (9, [16; 16])] [] (5, [9; 7])).
        -- constructor. apply perm_swap.
  - split; vm_compute; reflexivity.
Qed.

(* ------------------------------------------------------------------ *)
(* the work split: with n_per = ceil(N / p), N = the total size of the chunk list and
   no empty chunk, `work_load[i_worker].append` never raises (i_worker < n_processors at
   every append), exactly p loads come out and, read in order, they are the chunk list *)
Theorem c09_work_split_safe : forall n_processors chunks,
  (1 <= n_processors)%nat -> Forall (fun c => (1 <= spec_size c)%nat) chunks ->
  exists wl, work_split (total_size chunks) n_processors chunks = Some wl /\
             length wl = n_processors /\ concat wl = chunks.
Proof. exact work_split_safe. Qed.
Print Assumptions c09_work_split_safe.

(* ... and the chunk list the code builds satisfies these hypotheses for every
   rows_at_a_time >= 1: the loads partition it, and the cells read by the non-empty
   loads are the cells of the files that overlap the taxonomy, each exactly once *)
Theorem c09_work_split_covers : forall lookup files rows_at_a_time n_processors,
  (1 <= rows_at_a_time)%nat -> (1 <= n_processors)%nat ->
  exists wl, work_split (n_total_cells lookup files) n_processors
                        (all_chunks lookup 0 files rows_at_a_time) = Some wl /\
             length wl = n_processors /\ concat wl = all_chunks lookup 0 files rows_at_a_time /\
             cells_of files (concat (drop_empty wl)) = concat (map f_cells (filter (overlaps lookup) files)).
Proof. exact work_split_real. Qed.
Print Assumptions c09_work_split_covers.

Example c09_work_split_nonvacuous :
  work_split 7 3 [(0, 0, 2); (0, 2, 4); (0, 4, 5); (1, 0, 2)]%nat
  = Some [[(0, 0, 2); (0, 2, 4)]; [(0, 4, 5); (1, 0, 2)]; []]%nat
  /\ (* the guard matters: with a wrong total the real loop raises IndexError *)
  work_split 2 2 [(0, 0, 2); (0, 2, 4); (0, 4, 6)]%nat = None.
Proof. split; vm_compute; reflexivity. Qed.

(* ------------------------------------------------------------------ *)
(* rows are addressed by name: cluster_to_row lists the clusters in sorted order against
   0..n-1, is injective, and the cell lookup sends a cell to the row of the cluster the
   taxonomy gives it, to a valid row (never the sentinel), and is undefined elsewhere *)
Theorem c09_rows_addressed_by_name : forall leaf, NoDup (map fst leaf) ->
  let clusters := map fst leaf in
  let c2r := cluster_to_row clusters in
  map fst c2r = zsort clusters /\ map snd c2r = seq 0 (length clusters) /\
  (forall c, In c clusters -> exists r, zassoc c c2r = Some r /\ (r < length clusters)%nat /\
                                        nth_error (zsort clusters) r = Some c) /\
  (forall c1 c2 r, zassoc c1 c2r = Some r -> zassoc c2 c2r = Some r -> c1 = c2) /\
  exists lookup, cell_to_row c2r (cell_to_cluster leaf) = Some lookup /\
     Forall (fun cr => 0 <= snd cr < Z.of_nat (length leaf) /\ snd cr <> bad_row_idx) lookup /\
     (forall cell cl, dict_get cell (cell_to_cluster leaf) = Some cl ->
        exists r, zassoc cl c2r = Some r /\ dict_get cell lookup = Some (Z.of_nat r)) /\
     (forall cell, dict_get cell (cell_to_cluster leaf) = None -> dict_get cell lookup = None).
Proof. exact rows_by_name. Qed.
Print Assumptions c09_rows_addressed_by_name.

(* ------------------------------------------------------------------ *)
(* merging per-dataset files: the base file is one with the most cells overall; every
   row of the result is a row of some input file, and no input file has more cells in
   that row *)
Theorem c09_merge_keeps_largest : forall files most T,
  NoDup (map p_path files) ->
  merge_precompute files = Ok (most, T) ->
  In most files /\
  (forall f, In f files -> total_cells f <= total_cells most) /\
  length T = length (p_tab most) /\
  forall r s, nth_error T r = Some s ->
     (exists f, In f files /\ nth_error (p_tab f) r = Some s) /\
     (forall f s', In f files -> nth_error (p_tab f) r = Some s' -> s_n s' <= s_n s).
Proof. exact merge_keeps_largest. Qed.
Print Assumptions c09_merge_keeps_largest.

(* ties: the row kept is that of the FIRST file, in the order (base file, then the others
   by sorted path), that attains the maximal count *)
Theorem c09_merge_tie_rule : forall files most T r s,
  NoDup (map p_path files) ->
  merge_precompute files = Ok (most, T) -> nth_error T r = Some s ->
  let visit := most :: filter (fun f => negb (p_path f =? p_path most)) (psort files) in
  exists i f, nth_error visit i = Some f /\ nth_error (p_tab f) r = Some s /\
    forall j g s', (j < i)%nat -> nth_error visit j = Some g -> nth_error (p_tab g) r = Some s' -> s_n s' < s_n s.
Proof. exact merge_tie_rule. Qed.
Print Assumptions c09_merge_tie_rule.

Definition c09_pf (path : Z) (rows : list Z) : pfile :=
  mk_pfile path [[(10, [0]); (20, [1])]] [(10, 0%nat); (20, 1%nat)] [100]
           (map (fun n => mk_summary n [n] [n] [n] [0] [n]) rows).
Example c09_merge_nonvacuous :
  NoDup (map p_path [c09_pf 3 [5; 1]; c09_pf 1 [2; 7]; c09_pf 2 [5; 7]]) /\
  exists most T,
    merge_precompute [c09_pf 3 [5; 1]; c09_pf 1 [2; 7]; c09_pf 2 [5; 7]] = Ok (most, T) /\
    p_path most = 2 /\ map s_n T = [5; 7].
Proof.
  split; [repeat constructor; cbn; intuition discriminate|].
  eexists. eexists. split; [vm_compute; reflexivity|]. split; reflexivity.
Qed.

(* ------------------------------------------------------------------ *)
(* truncation.
   FULL STATEMENT: c09_truncation below (table-level half composed with the taxonomy lemmas of C10).
   c09_truncation_partial: the table-level half, for every new_hier (dropping the
   leaf level, inner levels, several levels):  with lvl = the deepest old level kept,
     - lvl = old leaf level: row map and table unchanged;
     - otherwise: the new row map lists the new tree's leaves against 0..n-1, and the row of
       EVERY new leaf L is stats_of_rows of all cells sitting in the rows of those old leaves
       whose ancestor at level lvl IN THE OLD TREE is L (zero if none) - by additivity.
   In the partial theorem `NoDup (nodes (leaf_level nt))`, `NoDup` of the old leaves and of the
   old row map are hypotheses; c09_truncation discharges them from `validate old_tree`. *)
Theorem c09_truncation_partial : forall D nc0 ng lookup cells old_tree new_hier old_c2r nt nc T,
  Forall (fun c => length (snd c) = ng) cells ->
  NoDup (nodes (leaf_level old_tree)) -> NoDup (map fst old_c2r) -> NoDup (map snd old_c2r) ->
  NoDup (nodes (leaf_level nt)) ->
  truncate ng old_tree new_hier old_c2r (direct D nc0 ng lookup cells) = Ok (nt, nc, T) ->
  let lvl := last (filter (fun l => nat_mem l new_hier) (seq 0 (length old_tree))) 0%nat in
  (lvl = (length old_tree - 1)%nat /\ nc = old_c2r /\ T = direct D nc0 ng lookup cells) \/
  (lvl <> (length old_tree - 1)%nat /\
    nc = combine (nodes (leaf_level nt)) (seq 0 (length (nodes (leaf_level nt)))) /\
    length T = length (nodes (leaf_level nt)) /\
    forall L dst, dict_get L nc = Some dst ->
      exists src,
        opt_map (fun o => dict_get o old_c2r)
                (filter (anc_is (ancestor_at old_tree lvl) L) (nodes (leaf_level old_tree))) = Some src /\
        nth_error T dst = Some (stats_of_rows D ng (members_of lookup (map Z.of_nat src) cells))).
Proof. exact truncation_collapse. Qed.
Print Assumptions c09_truncation_partial.

(* new_leaf_to_old_leaves: distinct new leaves; the group of L = the old leaves with ancestor L *)
Theorem c09_truncation_groups : forall anc olds g, group_by anc olds [] = Some g ->
  NoDup (map fst g) /\
  forall L os, In (L, os) g <-> (os = filter (anc_is anc L) olds /\ os <> []).
Proof. exact group_by_spec. Qed.
Print Assumptions c09_truncation_groups.

(* summing rows that hold the statistics of disjoint sets of cells = statistics of the union *)
Theorem c09_collapse_is_additive : forall D ng lookup cells,
  Forall (fun c => length (snd c) = ng) cells -> forall rs, NoDup rs ->
  sum_rows ng (map (fun r => stats_of_rows D ng (members lookup r cells)) rs)
  = stats_of_rows D ng (members_of lookup rs cells).
Proof. exact sum_of_stats. Qed.
Print Assumptions c09_collapse_is_additive.

(* three levels; leaves 11,12 under 5 and 13 under 6; drop the leaf level *)
Definition c09_tree : tree :=
  [ [(1, [5; 6])]; [(5, [11; 12]); (6, [13])]; [(11, [0]); (12, [1; 2]); (13, [3])] ].
Definition c09_cells : list cell := [(0, [8; 4]); (1, [0; 16]); (2, [9; 7]); (3, [1; 1]); (4, [5; 5])].
Definition c09_lookup : list (Z * Z) := [(0, 0); (1, 1); (2, 1); (3, 2)].
Example c09_truncation_nonvacuous :
  let data := direct 8 3 2 c09_lookup c09_cells in
  let old_c2r := [(11, 0%nat); (12, 1%nat); (13, 2%nat)] in
  NoDup (nodes (leaf_level c09_tree)) /\
  exists nt nc T,
    truncate 2 c09_tree [0; 1]%nat old_c2r data = Ok (nt, nc, T) /\
    NoDup (nodes (leaf_level nt)) /\ nc = [(5, 0%nat); (6, 1%nat)] /\
    T = [ stats_of_rows 8 2 [[8; 4]; [0; 16]; [9; 7]]; stats_of_rows 8 2 [[1; 1]] ].
Proof.
  cbv zeta. split; [repeat constructor; cbn; intuition discriminate|].
  eexists. eexists. eexists. split; [vm_compute; reflexivity|].
  split; [repeat constructor; cbn; intuition discriminate|]. split; reflexivity.
Qed.

(* ------------------------------------------------------------------ *)
(* c09_truncation, full statement.  t = an accepted taxonomy (validate t = true; wf t = the
   keys of every level are pairwise different, true of any Python dict), (c2r, data) = the
   statistics file the writer produces for t over `files`.  If truncating it to the levels
   new_hier succeeds with (nt, nc, T), then, with kept = the old levels wanted (in order) and
   lvl = the deepest of them:
   (a) nt is t without the other levels: the result of Tree.drop_levels (drop_level applied
       repeatedly, positions relative to the current tree) followed, when the old leaf level
       goes, by one drop_leaf_level; nt is again accepted and well-formed, has one level per
       kept level with the nodes of that level of t, every node has the ancestors it had in t,
       and a new leaf L owns exactly the cells of the old leaves whose ancestor at level lvl is
       L (Tree.ancestor_at t (n-1) o lvl; o itself when lvl is the old leaf level);
   (b) the row map nc lists exactly the leaves of nt against the rows 0..length T - 1, and for
       every leaf L of nt its row of T is the row of L in the file the writer produces DIRECTLY
       for the coarser taxonomy nt over the same files - whatever the chunk size and worker
       count of that run, which does not fail.
   Covers dropping inner levels, the leaf level, several levels at once (c09_truncation_nonvacuous2). *)
Theorem c09_truncation : forall D ng t files rows p new_hier c2r data nt nc T,
  validate t = true -> wf t -> files_wf ng files -> (1 <= rows)%nat -> (1 <= p)%nat ->
  precompute D (leaf_level t) files rows p = Ok (c2r, data) ->
  truncate ng t new_hier c2r data = Ok (nt, nc, T) ->
  let n := length t in
  let kept := filter (fun l => nat_mem l new_hier) (seq 0 n) in
  let lvl := last kept 0%nat in
  (exists lis t1, drops_ok n lis /\ Tree.drop_levels t lis = TOk t1 /\
      ((lvl = (n - 1)%nat /\ nt = t1) \/ (lvl <> (n - 1)%nat /\ drop_leaf_level t1 = TOk nt))) /\
  validate nt = true /\ wf nt /\ length nt = length kept /\ (1 <= length kept)%nat /\
  (forall k, (k < length kept)%nat -> nodes (nth k nt []) = nodes (nth (nth k kept 0%nat) t [])) /\
  (forall j k x, (k <= j < length kept)%nat ->
     Tree.ancestor_at nt j x k = Tree.ancestor_at t (nth j kept 0%nat) x (nth k kept 0%nat)) /\
  (forall L c, lists (leaf_level nt) L c <->
     exists o, lists (leaf_level t) o c /\ Tree.ancestor_at t (n - 1) o lvl = Some L) /\
  Permutation (map fst nc) (nodes (leaf_level nt)) /\ map snd nc = seq 0 (length T) /\
  forall rows' p', (1 <= rows')%nat -> (1 <= p')%nat ->
    exists c2r' data', precompute D (leaf_level nt) files rows' p' = Ok (c2r', data') /\
      length data' = length T /\
      forall L, In L (nodes (leaf_level nt)) ->
        exists r r' s, dict_get L nc = Some r /\ dict_get L c2r' = Some r' /\
                       nth_error T r = Some s /\ nth_error data' r' = Some s.
Proof. exact truncation_full. Qed.
Print Assumptions c09_truncation.

(* the hypotheses hold on a concrete file: c09_tree (3 levels) over two h5ad files with an
   unlabelled cell; dropping the leaf level, and dropping the two lower levels at once *)
Definition c09_tfiles : list h5ad :=
  [ mk_h5ad [100; 101] [(0, [8; 4]); (1, [0; 16]); (4, [5; 5])];
    mk_h5ad [100; 101] [(2, [9; 7]); (3, [1; 1])] ].
Example c09_truncation_nonvacuous2 :
  validate c09_tree = true /\ wf c09_tree /\ files_wf 2 c09_tfiles /\
  exists c2r data,
    precompute 8 (leaf_level c09_tree) c09_tfiles 2 2 = Ok (c2r, data) /\
    truncate 2 c09_tree [0; 1]%nat c2r data =
      Ok ([ [(1, [5; 6])]; [(5, [0; 1; 2]); (6, [3])] ], [(5, 0%nat); (6, 1%nat)],
          [ stats_of_rows 8 2 [[8; 4]; [0; 16]; [9; 7]]; stats_of_rows 8 2 [[1; 1]] ]) /\
    truncate 2 c09_tree [0]%nat c2r data =
      Ok ([ [(1, [0; 1; 2; 3])] ], [(1, 0%nat)],
          [ stats_of_rows 8 2 [[8; 4]; [0; 16]; [9; 7]; [1; 1]] ]) /\
    truncate 2 c09_tree [2]%nat c2r data = Ok ([ nth 2 c09_tree [] ], c2r, data) /\
    precompute 8 [(5, [0; 1; 2]); (6, [3])] c09_tfiles 1 3 =
      Ok ([(5, 0%nat); (6, 1%nat)],
          [ stats_of_rows 8 2 [[8; 4]; [0; 16]; [9; 7]]; stats_of_rows 8 2 [[1; 1]] ]).
Proof.
  split; [vm_compute; reflexivity|]. split; [apply wf_small; reflexivity|].
  split; [split; [repeat constructor | reflexivity]|].
  eexists. eexists. split; [vm_compute; reflexivity|].
  split; [vm_compute; reflexivity|]. split; [vm_compute; reflexivity|].
  split; vm_compute; reflexivity.
Qed.

(* truncation never raises on a legitimate request: for an accepted taxonomy, a statistics
   file whose row map gives every leaf a row of the table (true of the writer's output:
   c09_truncation_total_writer, and of merged files), and a list of levels that is not empty,
   names levels of the taxonomy only, is in hierarchy order and leaves at least one level out
   (these are the four tests the code makes before it starts; repeated names are allowed) *)
Theorem c09_truncation_total : forall ng t new_hier c2r data,
  validate t = true -> wf t ->
  (forall o, In o (nodes (leaf_level t)) -> exists r, dict_get o c2r = Some r /\ (r < length data)%nat) ->
  new_hier <> [] -> Forall (fun l => (l < length t)%nat) new_hier -> nat_sorted_b new_hier = true ->
  (exists l, (l < length t)%nat /\ ~ In l new_hier) ->
  exists nt nc T, truncate ng t new_hier c2r data = Ok (nt, nc, T).
Proof. exact truncation_total. Qed.
Print Assumptions c09_truncation_total.

Theorem c09_truncation_total_writer : forall D ng t files rows p new_hier c2r data,
  validate t = true -> wf t -> files_wf ng files -> (1 <= rows)%nat -> (1 <= p)%nat ->
  precompute D (leaf_level t) files rows p = Ok (c2r, data) ->
  new_hier <> [] -> Forall (fun l => (l < length t)%nat) new_hier -> nat_sorted_b new_hier = true ->
  (exists l, (l < length t)%nat /\ ~ In l new_hier) ->
  exists nt nc T, truncate ng t new_hier c2r data = Ok (nt, nc, T).
Proof. exact truncation_total_writer. Qed.
Print Assumptions c09_truncation_total_writer.

(* the premises on new_hier are the ones of c09_truncation_nonvacuous2 ([0;1], [0], [2] on the
   3-level c09_tree); an empty request fails in the model (the last drop hits a flat tree) *)
Example c09_truncation_total_nonvacuous :
  ([0; 1]%nat <> [] /\ Forall (fun l => (l < length c09_tree)%nat) [0; 1]%nat /\ nat_sorted_b [0; 1]%nat = true /\
   exists l, (l < length c09_tree)%nat /\ ~ In l [0; 1]%nat) /\
  truncate 2 c09_tree [] [(11, 0%nat); (12, 1%nat); (13, 2%nat)] (direct 8 3 2 c09_lookup c09_cells) = Err (E_TREE + E_FLAT).
Proof.
  split; [|vm_compute; reflexivity].
  split; [discriminate|]. split; [repeat constructor|]. split; [reflexivity|].
  exists 2%nat. split; [cbn; repeat constructor|]. cbn. intuition discriminate.
Qed.

(* ------------------------------------------------------------------ *)
(* merge_precompute_files, further properties (Proofs/StatsMergeP.v).
     has_all_rows f := every leaf of f's taxonomy has a row in f's cluster_to_row (what the
                       writer produces: c09_rows_addressed_by_name; otherwise run_leaf_census raises)
     no_ties files  := two rows of the same cluster (in any two files) with the same number of
                       cells are the same row *)

(* idempotence: merging a file with itself (listed once or several times) returns it unchanged;
   merging it with a copy of itself stored under another path leaves the table unchanged *)
Theorem c09_merge_idempotent : forall f, has_all_rows f ->
  (forall n, merge_precompute (repeat f (S n)) = Ok (f, p_tab f)) /\
  (forall f', p_path f' <> p_path f -> p_tree f' = p_tree f -> p_c2r f' = p_c2r f ->
              p_cols f' = p_cols f -> p_tab f' = p_tab f ->
     exists most, (most = f \/ most = f') /\
       merge_precompute [f; f'] = Ok (most, p_tab f) /\ merge_precompute [f'; f] = Ok (most, p_tab f)).
Proof. exact merge_idempotent. Qed.
Print Assumptions c09_merge_idempotent.

(* the order of the input list is irrelevant, ties or not (the code sorts the paths first) *)
Theorem c09_merge_order_irrelevant : forall files files',
  NoDup (map p_path files) -> Permutation files files' ->
  merge_precompute files = merge_precompute files'.
Proof. exact merge_order_irrelevant. Qed.
Print Assumptions c09_merge_order_irrelevant.

(* without ties the visiting order - i.e. the file names, which fix it - is irrelevant too: the
   same tables stored under any other names, listed in any order, merge to the same table *)
Theorem c09_merge_order_irrelevant_without_ties : forall files files' most most' T T',
  NoDup (map p_path files) -> NoDup (map p_path files') ->
  Permutation (map p_tab files) (map p_tab files') ->
  no_ties files ->
  merge_precompute files = Ok (most, T) -> merge_precompute files' = Ok (most', T') ->
  T = T'.
Proof. exact merge_names_irrelevant_without_ties. Qed.
Print Assumptions c09_merge_order_irrelevant_without_ties.

(* ... and the hypothesis is needed: with a tie, swapping the names of two files changes the
   merged row (the tie rule, c09_merge_tie_rule) *)
Theorem c09_merge_names_matter_with_ties :
  merge_precompute [tie_f 1 7; tie_f 2 9] = Ok (tie_f 1 7, [mk_summary 5 [7] [7] [1] [1] [1]]) /\
  merge_precompute [tie_f 2 7; tie_f 1 9] = Ok (tie_f 1 9, [mk_summary 5 [9] [9] [1] [1] [1]]).
Proof. exact merge_names_matter_with_ties. Qed.
Print Assumptions c09_merge_names_matter_with_ties.

Example c09_merge_props_nonvacuous :
  has_all_rows (c09_pf 3 [5; 1]) /\
  no_ties [c09_pf 3 [5; 1]; c09_pf 1 [2; 7]; c09_pf 2 [4; 6]] /\
  Permutation (map p_tab [c09_pf 3 [5; 1]; c09_pf 1 [2; 7]; c09_pf 2 [4; 6]])
              (map p_tab [c09_pf 8 [2; 7]; c09_pf 9 [5; 1]; c09_pf 4 [4; 6]]) /\
  (exists most, merge_precompute [c09_pf 3 [5; 1]; c09_pf 1 [2; 7]; c09_pf 2 [4; 6]] = Ok (most, p_tab (c09_pf 0 [5; 7]))) /\
  (exists most, merge_precompute [c09_pf 8 [2; 7]; c09_pf 9 [5; 1]; c09_pf 4 [4; 6]] = Ok (most, p_tab (c09_pf 0 [5; 7]))).
Proof.
  split.
  { intros leaf Hl. cbn in Hl. destruct Hl as [<-|[<-|[]]]; eexists; vm_compute; reflexivity. }
  split.
  { intros f g r s s' Hf Hg Hs Hs' En.
    assert (G : forall h, In h [c09_pf 3 [5; 1]; c09_pf 1 [2; 7]; c09_pf 2 [4; 6]] -> forall u,
              nth_error (p_tab h) r = Some u -> u = mk_summary (s_n u) [s_n u] [s_n u] [s_n u] [0] [s_n u]).
    { intros h Hh u Hu. cbn in Hh. destruct Hh as [<-|[<-|[<-|[]]]]; destruct r as [|[|r]]; cbn in Hu;
        try (destruct r; discriminate Hu); inversion Hu; reflexivity. }
    rewrite (G f Hf s Hs), (G g Hg s' Hs'), En. reflexivity. }
  split.
  { cbn [map]. apply perm_swap. }
  split; eexists; vm_compute; reflexivity.
Qed.

(* ------------------------------------------------------------------ *)
(* 'ge1' ("at least 1 CPM") against the exact threshold (audit: ind_ge1 is "> 1 - 1e-6").
   The real code (utils/stats_utils.py:summary_stats_for_chunk) computes
       one_cutoff = 1.0; eps = 1.0e-6  # for float comparisons
       result['gt1'] = (data > one_cutoff).sum(axis=0)
       result['ge1'] = (data > one_cutoff-eps).sum(axis=0)
   on data = log2(CPM+1): ge1 is NOT a ">=" but a ">" against the binary64 number
   1.0 - 1.0e-6 = GE_NUM / GE_DEN, which is what ind_ge1 models exactly.  With
   exact_ge1 = the number of cells whose value v/D satisfies v/D >= 1 (i.e. CPM >= 1):
   - always  gt1 <= exact_ge1 <= ge1, gene by gene: every cell at or above 1 CPM is counted,
     and the surplus of ge1 consists of cells with 1 - 1e-6 < log2(CPM+1) < 1, i.e.
     0.99999861 < CPM < 1;
   - ge1 = exact_ge1 when the values lie on a grid of step 1/D with D <= 999 999, and when
     every value is an integer (a multiple of D);
   - in general it is not (c09_ge1_exact_refuted, D = 2^21, v = 2^21 - 1): a cell with
     log2(CPM+1) = 1 - 2^-21 < 1 is counted in ge1 and not in gt1.  The real code agrees
     with the model on it, and a raw-count instance exists: a cell with 1 000 001 counts
     in total and 1 count of the gene has CPM = 0.999999 and is counted as "at least 1".
   So "at least 1" in the property text holds of the code only up to that tolerance: the
   docs (precomputed_stats_file.md: "greater than or equal to 1 CPM") do not mention it,
   the source comment does ("eps for float comparisons"); reported to the lead as a
   low-severity finding candidate (class ge1-tolerance). *)
Theorem c09_ge1_against_exact : forall D ng rows, 0 < D ->
  let S := stats_of_rows D ng rows in
  Forall2 Z.le (s_gt1 S) (exact_ge1 D ng rows) /\ Forall2 Z.le (exact_ge1 D ng rows) (s_ge1 S) /\
  (D * (GE_DEN - GE_NUM) <= GE_DEN -> s_ge1 S = exact_ge1 D ng rows) /\
  (Forall (Forall (fun v => exists k, v = k * D)) rows -> s_ge1 S = exact_ge1 D ng rows).
Proof. exact ge1_against_exact. Qed.
Print Assumptions c09_ge1_against_exact.

Theorem c09_ge1_exact_refuted :
  exists D ng rows, 0 < D /\
    s_ge1 (stats_of_rows D ng rows) = [1] /\ exact_ge1 D ng rows = [0] /\
    s_gt1 (stats_of_rows D ng rows) = [0].
Proof. exact ge1_exact_refuted. Qed.
Print Assumptions c09_ge1_exact_refuted.

(* the boundary named by the audit, v = 2^21 - 1 < D = 2^21, next to the exact cases: the
   value 1 (v = D) and a grid small enough (D = 8 <= 999 999: the examples above) *)
Example c09_ge1_boundary :
  2097151 < 2097152 /\
  ind_ge1 2097152 2097151 = 1 /\ ind_ge1_exact 2097152 2097151 = 0 /\ ind_gt1 2097152 2097151 = 0 /\
  ind_ge1 2097152 2097152 = 1 /\ ind_ge1_exact 2097152 2097152 = 1 /\ ind_gt1 2097152 2097152 = 0 /\
  8 * (GE_DEN - GE_NUM) <= GE_DEN /\ 999999 * (GE_DEN - GE_NUM) <= GE_DEN /\
  ~ (1000000 * (GE_DEN - GE_NUM) <= GE_DEN) /\
  s_ge1 (stats_of_rows 8 2 [[8; 4]; [0; 16]; [9; 7]]) = exact_ge1 8 2 [[8; 4]; [0; 16]; [9; 7]].
Proof.
  split; [vm_compute; reflexivity|].
  do 6 (split; [vm_compute; reflexivity|]).
  split; [vm_compute; discriminate|]. split; [vm_compute; discriminate|].
  split; [vm_compute; intros H; apply H; reflexivity|].
  vm_compute. reflexivity.
Qed.
