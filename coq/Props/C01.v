(* C01 — every query cell gets one complete, ordered, tree-consistent assignment.
   Property theorems only. *)
From Coq Require Import ZArith List Bool.
From CTM Require Import Base.Sx Base.SortX Model.Tree Model.Election Proofs.ElectionP.
Import ListNotations.
Open Scope Z_scope.

(* For EVERY decision procedure that returns one record per cell, each naming a child
   of the parent it was asked about (that is all the routing needs of the bootstrapped
   vote), every taxonomy meeting tree_ok, every list of cells and every generator
   state: a successful run yields exactly one row per cell, in cell order, and each
   row is a root-to-leaf path: the assignment at every level is a node of that level
   and a child of the assignment one level up. *)
Theorem c01_path_consistent :
  forall (cell rng : Type)
         (decide : rng -> option (nat * node) -> list node -> list cell -> list rec * rng),
    (forall g p kids cs, (2 <= length kids)%nat -> Forall (fun r => In (asg r) kids) (fst (decide g p kids cs))) ->
    forall t cells g rows g',
      tree_ok t ->
      run_type_assignment cell rng decide t cells g = Ok (rows, g') ->
      spec_routing t (length cells) rows = true.
Proof. exact routing_sound. Qed.
Print Assumptions c01_path_consistent.

(* ... and the run does succeed: no cell is ever stranded, whatever the branching
   (single-child chains, single-node levels), provided every non-leaf node has a child *)
Theorem c01_total :
  forall (cell rng : Type)
         (decide : rng -> option (nat * node) -> list node -> list cell -> list rec * rng),
    (forall g p kids cs, (2 <= length kids)%nat -> length (fst (decide g p kids cs)) = length cs) ->
    (forall g p kids cs, (2 <= length kids)%nat -> Forall (fun r => In (asg r) kids) (fst (decide g p kids cs))) ->
    forall t cells g,
      tree_ok t ->
      exists rows g', run_type_assignment cell rng decide t cells g = Ok (rows, g').
Proof. exact routing_total. Qed.
Print Assumptions c01_total.

(* non-vacuity: a 3-level taxonomy with a single top node and a single-child chain *)
Definition ex_tree : tree :=
  [ [(1, [10; 11])]; [(10, [100]); (11, [110; 111])]; [(100, []); (110, []); (111, [])] ].
Definition ex_decide := ends_decide.
(* ... a decision procedure that meets both hypotheses (they are satisfiable) ... *)
Example c01_hypotheses_satisfiable :
  (forall g p kids cs, (2 <= length kids)%nat -> length (fst (ex_decide g p kids cs)) = length cs) /\
  (forall g p kids cs, (2 <= length kids)%nat -> Forall (fun r => In (asg r) kids) (fst (ex_decide g p kids cs))).
Proof. exact ends_decide_ok. Qed.
Example c01_example :
  match run_type_assignment Z nat ex_decide ex_tree [5; 6; 7] 0%nat with
  | Ok (rows, _) => spec_routing ex_tree 3 rows = true /\ map (map asg) rows = [[1; 11; 111]; [1; 10; 100]; [1; 11; 111]]
  | _ => False
  end.
Proof. vm_compute. split; reflexivity. Qed.
