(* C01 — every query cell gets one complete, ordered, tree-consistent assignment.
   Property theorems only. *)
From Coq Require Import ZArith List Bool.
From Coq Require Import Permutation.
From CTM Require Import Base.Sx Base.SortX Model.Tree Model.Election Model.Gather Model.Vote Model.VoteDecide Proofs.ElectionP Proofs.PipelineP Proofs.VoteDecideP.
Import ListNotations.
Open Scope Z_scope.

(* For EVERY decision procedure that returns one record per cell, each naming a child
   of the parent it was asked about (that is all the routing needs of the bootstrapped
   vote), every taxonomy meeting tree_ok, every list of cells and every generator
   state: a successful run yields exactly one row per cell, in cell order, and each
   row is a root-to-leaf path: the assignment at every level is a node of that level
   and a child of the assignment one level up. *)
Theorem c01_path_consistent :
  forall (cell rng : Type)
         (decide : rng -> option (nat * node) -> list node -> list cell -> list rec * rng),
    (forall g p kids cs, (2 <= length kids)%nat -> Forall (fun r => In (asg r) kids) (fst (decide g p kids cs))) ->
    forall t cells g rows g',
      tree_ok t ->
      run_type_assignment cell rng decide t cells g = Ok (rows, g') ->
      spec_routing t (length cells) rows = true.
Proof. exact routing_sound. Qed.
Print Assumptions c01_path_consistent.

(* ... and the run does succeed: no cell is ever stranded, whatever the branching
   (single-child chains, single-node levels), provided every non-leaf node has a child *)
Theorem c01_total :
  forall (cell rng : Type)
         (decide : rng -> option (nat * node) -> list node -> list cell -> list rec * rng),
    (forall g p kids cs, (2 <= length kids)%nat -> length (fst (decide g p kids cs)) = length cs) ->
    (forall g p kids cs, (2 <= length kids)%nat -> Forall (fun r => In (asg r) kids) (fst (decide g p kids cs))) ->
    forall t cells g,
      tree_ok t ->
      exists rows g', run_type_assignment cell rng decide t cells g = Ok (rows, g').
Proof. exact routing_total. Qed.
Print Assumptions c01_total.

(* The two hypotheses on `decide` are met by the vote itself: Model/VoteDecide.v builds the decision
   procedure from the vote model (one list of bootstrap subsets per call, every cell tallied
   against the leaves below the parent, children sorted by votes, choose_node) for ANY reference
   data, query rows, draws and number of runners-up — provided only that every parent has a leaf
   below it and at least the winner is reported.  So the election run WITH THE VOTE maps every
   cell onto a root-to-leaf path and never fails: *)
Theorem c01_election_with_the_vote :
  forall (cell rng : Type) (refs_at : option (nat * node) -> list vec) (owners_at : option (nat * node) -> list Z)
         (q_at : cell -> option (nat * node) -> vec) (draw : rng -> option (nat * node) -> list (list nat) * rng)
         (n_assign : nat) (corr_at : cell -> option (nat * node) -> Z -> frac),
    (forall p, refs_at p <> []) -> (1 <= n_assign)%nat ->
    forall t cells g, tree_ok t ->
    exists rows g',
      run_type_assignment cell rng (decide_vote cell rng refs_at owners_at q_at draw n_assign corr_at) t cells g = Ok (rows, g') /\
      spec_routing t (length cells) rows = true.
Proof. exact vote_election_total. Qed.
Print Assumptions c01_election_with_the_vote.

(* The mapping stage as a whole.  The query — cells with pairwise distinct ids — is cut into
   consecutive chunks `parts` (ANY split: every chunk size and worker count), chunk i is mapped
   by its own worker from the generator made of the seed it was handed, the per-chunk results
   are gathered in ANY completion order sigma and re-ordered by cell id (re_order_blob).  Then
   the stage returns exactly one record per query cell, in the query's order, and every record
   is a root-to-leaf path of the taxonomy.  (That consecutive chunks of every size tile the
   query is c05_chunks_cover; that seeds do not depend on the schedule is c04_seeds_fixed_at_dispatch;
   completing the path at dropped / flattened levels is c17_backfilled_path.) *)
Theorem c01_stage_one_record_per_cell :
  forall (cell rng : Type)
         (decide : rng -> option (nat * node) -> list node -> list cell -> list rec * rng),
    (forall g p kids cs, (2 <= length kids)%nat -> length (fst (decide g p kids cs)) = length cs) ->
    (forall g p kids cs, (2 <= length kids)%nat -> Forall (fun r => In (asg r) kids) (fst (decide g p kids cs))) ->
    forall (mk_rng : Z -> rng) t, tree_ok t ->
    forall (parts : list (list (Z * cell))) (seeds : list Z) (sigma : list nat),
      NoDup (map fst (concat parts)) ->
      Permutation sigma (seq 0 (length parts)) ->
      exists final,
        final_list (list rec) (chunk_records cell rng decide mk_rng t parts) (map fst (concat parts)) seeds sigma = Some final /\
        map fst final = map fst (concat parts) /\
        length final = length (concat parts) /\
        Forall (fun r => path_ok t (snd r) = true) final.
Proof. exact pipeline_one_record_per_cell. Qed.
Print Assumptions c01_stage_one_record_per_cell.

(* non-vacuity: a 3-level taxonomy with a single top node and a single-child chain *)
Definition ex_tree : tree :=
  [ [(1, [10; 11])]; [(10, [100]); (11, [110; 111])]; [(100, []); (110, []); (111, [])] ].
Definition ex_decide := ends_decide.
(* ... a decision procedure that meets both hypotheses (they are satisfiable) ... *)
Example c01_hypotheses_satisfiable :
  (forall g p kids cs, (2 <= length kids)%nat -> length (fst (ex_decide g p kids cs)) = length cs) /\
  (forall g p kids cs, (2 <= length kids)%nat -> Forall (fun r => In (asg r) kids) (fst (ex_decide g p kids cs))).
Proof. exact ends_decide_ok. Qed.
Example c01_example :
  match run_type_assignment Z nat ex_decide ex_tree [5; 6; 7] 0%nat with
  | Ok (rows, _) => spec_routing ex_tree 3 rows = true /\ map (map asg) rows = [[1; 11; 111]; [1; 10; 100]; [1; 11; 111]]
  | _ => False
  end.
Proof. vm_compute. split; reflexivity. Qed.

(* the stage on the example: five cells in chunks of 2, 2, 1, completed in the order 2, 0, 1 *)
Example c01_stage_example :
  final_list (list rec) (chunk_records Z nat ex_decide (fun z => Z.to_nat z) ex_tree
                           [[(50, 5); (60, 6)]; [(70, 7); (80, 8)]; [(90, 9)]])
             [50; 60; 70; 80; 90] [3; 1; 4] [2; 0; 1]%nat
  = Some (combine [50; 60; 70; 80; 90]
            (match run_type_assignment Z nat ex_decide ex_tree [5; 6; 7; 8; 9] 0%nat with Ok (rows, _) => rows | _ => [] end)).
Proof. vm_compute. reflexivity. Qed.

(* the election with the vote on the example taxonomy: cell 6 resembles leaf 110, cells 5 and 7 leaf 111 *)
Example c01_vote_example :
  (* parent (0,1): leaves 100 | 110 111 owned by its children 10 | 11 11;  parent (1,11): leaves 110 111 *)
  let refs_at := fun p : option (nat * node) =>
      match p with Some (0%nat, _) => [[2; 1; 4]; [1; 0; 2]; [0; 3; 1]] | _ => [[1; 0; 2]; [0; 3; 1]] end in
  let owners_at := fun p : option (nat * node) =>
      match p with Some (0%nat, _) => [10; 11; 11] | _ => [110; 111] end in
  let q_at := fun (c : Z) (_ : option (nat * node)) => if Z.even c then [2; 0; 4] else [0; 6; 2] in
  let draw := fun (g : nat) (_ : option (nat * node)) => ([[0; 1; 2]; [0; 2]; [1; 2]]%nat, S g) in
  match run_type_assignment Z nat (decide_vote Z nat refs_at owners_at q_at draw 2 (fun _ _ _ => (1, 2))) ex_tree [5; 6; 7] 0%nat with
  | Ok (rows, _) => map (map (fun r => (asg r, prob r))) rows =
      [ [(1, (1, 1)); (11, (2, 3)); (111, (2, 3))];
        [(1, (1, 1)); (10, (2, 3)); (100, (1, 1))];
        [(1, (1, 1)); (11, (2, 3)); (111, (2, 3))] ]
  | _ => False
  end.
Proof. vm_compute. reflexivity. Qed.
