(* C02 — assignments are the plurality of bootstrapped nearest-centroid votes. *)
From Coq Require Import ZArith List Bool.
From CTM Require Import Base.Sx Model.IntDtype Model.Vote Proofs.CorrP Proofs.ArgmaxP Proofs.VoteP Proofs.VoteMainP.
Import ListNotations.
Open Scope Z_scope.

(* each iteration votes for a reference row whose Pearson correlation with the cell over the
   drawn subset is maximal among the rows considered (the leaves below the node), and for
   the first such row (np.argmax); key_lt compares correlations exactly *)
Theorem c02_vote_is_argmax : forall q refs S i,
  nearest q refs S = Some i ->
  (i < length refs)%nat /\
  exists ki, nth_error (keys_of q refs S) i = Some ki /\
    (forall j kj, nth_error (keys_of q refs S) j = Some kj -> key_lt ki kj = false) /\
    (forall j kj, (j < i)%nat -> nth_error (keys_of q refs S) j = Some kj -> key_lt kj ki = true).
Proof. exact nearest_is_argmax. Qed.
Print Assumptions c02_vote_is_argmax.

(* key_lt really is "smaller correlation": a strict weak order on keys *)
Theorem c02_key_order : forall k1 k2 k3, kvalid k1 -> kvalid k2 -> kvalid k3 ->
  (klt k1 k2 -> klt k2 k3 -> klt k1 k3) /\ (~ klt k1 k2 -> klt k1 k3 -> klt k2 k3) /\ ~ klt k1 k1.
Proof.
  intros k1 k2 k3 V1 V2 V3. split; [exact (klt_trans k1 k2 k3 V1 V2 V3)|].
  split; [exact (klt_neg_trans k1 k2 k3 V1 V2 V3) | exact (klt_irrefl k1)].
Qed.
Print Assumptions c02_key_order.

(* every iteration casts exactly one vote, and it goes to a child that owns a leaf below the node *)
Theorem c02_one_vote_per_iteration : forall owners winners,
  Forall (fun w => (w < length owners)%nat) winners ->
  nsum (map (votes_for owners winners) (zdistinct owners)) = length winners.
Proof. exact votes_total. Qed.
Print Assumptions c02_one_vote_per_iteration.

(* whatever the tie order of the sort, a reported outcome accepted by check_choice names a
   child with the most votes, and the runners-up are the remaining vote getters in
   non-increasing order *)
Theorem c02_winner_plurality : forall kids vf n_assign w wv rs,
  check_choice kids vf n_assign w wv rs = true ->
  In w kids /\ vf w = wv /\ (forall c, In c kids -> (vf c <= wv)%nat) /\
  NoDup (w :: map fst rs) /\
  (forall r, In r rs -> In (fst r) kids /\ vf (fst r) = snd r /\ (0 < snd r)%nat) /\
  sorted_desc (wv :: map snd rs) = true /\
  length rs = Nat.min (n_assign - 1) (count (fun c => negb (c =? w) && Nat.ltb 0 (vf c)) kids) /\
  (forall c, In c kids -> In c (w :: map fst rs) \/ (vf c <= last (map snd rs) wv)%nat).
Proof. exact check_unpack. Qed.
Print Assumptions c02_winner_plurality.

Example c02_example :
  nearest [8; 0; 16; 24] [[0; 8; 0; 0]; [16; 0; 32; 50]; [8; 0; 16; 24]] [0%nat; 2%nat; 3%nat] = Some 2%nat /\
  n_bootstrap (1, 2) 5 = 2 /\ n_bootstrap (1, 10) 3 = 1 /\ n_bootstrap (1, 2) 0 = 0.
Proof. vm_compute. repeat split; reflexivity. Qed.
