(* C02 — assignments are the plurality of bootstrapped nearest-centroid votes. *)
From Coq Require Import ZArith List Bool.
From Coq Require Import Permutation Sorted.
From CTM Require Import Base.Sx Model.IntDtype Model.Vote Proofs.CorrP Proofs.ArgmaxP Proofs.VoteP Proofs.VoteMainP
     Proofs.SubsetP Proofs.ChooseP Model.AvgCorr Proofs.AvgCorrP.
Import ListNotations.
Open Scope Z_scope.

(* each iteration votes for a reference row whose Pearson correlation with the cell over the
   drawn subset is maximal among the rows considered (the leaves below the node), and for
   the first such row (np.argmax); key_lt compares correlations exactly *)
Theorem c02_vote_is_argmax : forall q refs S i,
  nearest q refs S = Some i ->
  (i < length refs)%nat /\
  exists ki, nth_error (keys_of q refs S) i = Some ki /\
    (forall j kj, nth_error (keys_of q refs S) j = Some kj -> key_lt ki kj = false) /\
    (forall j kj, (j < i)%nat -> nth_error (keys_of q refs S) j = Some kj -> key_lt kj ki = true).
Proof. exact nearest_is_argmax. Qed.
Print Assumptions c02_vote_is_argmax.

(* what key_lt decides: with v1, v2 > 0 the variances of two reference rows over the subset
   and c1, c2 their covariances with the cell, key_lt is c1/sqrt(v1) < c2/sqrt(v2) -- the
   comparison of the two Pearson correlations (the cell's own norm cancels), exactly *)
Theorem c02_key_lt_is_correlation_order : forall c1 v1 c2 v2, 0 < v1 -> 0 < v2 ->
  (key_lt (c1, v1) (c2, v2) = true <-> c1 * Z.abs c1 * v2 < c2 * Z.abs c2 * v1).
Proof. exact key_lt_meaning. Qed.
Print Assumptions c02_key_lt_is_correlation_order.

(* ... and a strict weak order, so "a maximal key" is well defined *)
Theorem c02_key_order : forall k1 k2 k3, kvalid k1 -> kvalid k2 -> kvalid k3 ->
  (klt k1 k2 -> klt k2 k3 -> klt k1 k3) /\ (~ klt k1 k2 -> klt k1 k3 -> klt k2 k3) /\ ~ klt k1 k1 /\
  (key_lt k1 k2 = true <-> klt k1 k2).
Proof.
  intros k1 k2 k3 V1 V2 V3. split; [exact (klt_trans k1 k2 k3 V1 V2 V3)|].
  split; [exact (klt_neg_trans k1 k2 k3 V1 V2 V3)|]. split; [exact (klt_irrefl k1) | exact (key_lt_spec k1 k2)].
Qed.
Print Assumptions c02_key_order.

(* the subset of an iteration: what the check accepts of a recorded draw is exactly
   "duplicate-free, within the n usable markers, of size n_bootstrap" ... *)
Theorem c02_subset_wellformed : forall f (n : nat) (S : list nat),
  subset_ok f n S = true <->
  Z.of_nat (length S) = n_bootstrap f n /\ Forall (fun j => (j < n)%nat) S /\ NoDup S.
Proof. exact subset_ok_spec. Qed.
Print Assumptions c02_subset_wellformed.

(* ... and that size is max(1, round(f n)), between 1 and n for every factor in (0,1]:
   a duplicate-free draw of that size always exists *)
Theorem c02_subset_size : forall f (n : nat), 0 < fst f <= snd f -> (0 < n)%nat ->
  n_bootstrap f n = Z.max (round_half_even (fst f * Z.of_nat n, snd f)) 1 /\
  1 <= n_bootstrap f n <= Z.of_nat n.
Proof.
  intros f n Hf Hn. split; [|exact (n_bootstrap_range f n Hf Hn)].
  unfold n_bootstrap. destruct (Nat.eqb_spec n 0) as [E | _]; [subst; inversion Hn | reflexivity].
Qed.
Print Assumptions c02_subset_size.

(* every iteration casts exactly one vote, and it goes to a child that owns a leaf below the node *)
Theorem c02_one_vote_per_iteration : forall owners winners,
  Forall (fun w => (w < length owners)%nat) winners ->
  nsum (map (votes_for owners winners) (zdistinct owners)) = length winners.
Proof. exact votes_total. Qed.
Print Assumptions c02_one_vote_per_iteration.

(* choose_node -- sort the children by votes, keep the first n_assign, drop runners-up
   without votes -- returns an outcome the acceptor check_choice accepts, for EVERY order
   that is a permutation of the children with non-increasing votes: whatever numpy's
   argsort does with ties.  (check_choice is what the correspondence check evaluates on
   every record the real code reports.) *)
Theorem c02_choose_node_meets_spec : forall (vf : Z -> nat) kids order (n_assign : nat) w wv rs,
  NoDup kids -> Permutation order kids -> StronglySorted (fun a b => (b <= a)%nat) (map vf order) ->
  (1 <= n_assign)%nat ->
  choose_with order vf n_assign = Some (w, wv, rs) ->
  check_choice kids vf n_assign w wv rs = true.
Proof. exact choose_meets_spec. Qed.
Print Assumptions c02_choose_node_meets_spec.

(* whatever the tie order of the sort, a reported outcome accepted by check_choice names a
   child with the most votes, and the runners-up are the remaining vote getters in
   non-increasing order *)
Theorem c02_winner_plurality : forall kids vf n_assign w wv rs,
  check_choice kids vf n_assign w wv rs = true ->
  In w kids /\ vf w = wv /\ (forall c, In c kids -> (vf c <= wv)%nat) /\
  NoDup (w :: map fst rs) /\
  (forall r, In r rs -> In (fst r) kids /\ vf (fst r) = snd r /\ (0 < snd r)%nat) /\
  sorted_desc (wv :: map snd rs) = true /\
  length rs = Nat.min (n_assign - 1) (count (fun c => negb (c =? w) && Nat.ltb 0 (vf c)) kids) /\
  (forall c, In c kids -> In c (w :: map fst rs) \/ (vf c <= last (map snd rs) wv)%nat).
Proof. exact check_unpack. Qed.
Print Assumptions c02_winner_plurality.

(* non-vacuity of c02_choose_node_meets_spec: four children, votes 5/3/3/0 with a tie,
   both tie orders, three assignments requested *)
Example c02_choose_example :
  let vf := fun c => if c =? 1 then 5%nat else if c =? 2 then 3%nat else if c =? 3 then 3%nat else 0%nat in
  choose_with [1; 2; 3; 4] vf 3 = Some (1, 5%nat, [(2, 3%nat); (3, 3%nat)]) /\
  choose_with [1; 3; 2; 4] vf 3 = Some (1, 5%nat, [(3, 3%nat); (2, 3%nat)]) /\
  check_choice [4; 3; 2; 1] vf 3 1 5 [(2, 3%nat); (3, 3%nat)] = true /\
  check_choice [4; 3; 2; 1] vf 3 1 5 [(3, 3%nat); (2, 3%nat)] = true /\
  check_choice [4; 3; 2; 1] vf 3 2 3 [(1, 5%nat); (3, 3%nat)] = false.
Proof. vm_compute. repeat split; reflexivity. Qed.

Example c02_example :
  nearest [8; 0; 16; 24] [[0; 8; 0; 0]; [16; 0; 32; 50]; [8; 0; 16; 24]] [0%nat; 2%nat; 3%nat] = Some 2%nat /\
  n_bootstrap (1, 2) 5 = 2 /\ n_bootstrap (1, 10) 3 = 1 /\ n_bootstrap (1, 2) 0 = 0.
Proof. vm_compute. repeat split; reflexivity. Qed.

(* "its average correlation is the mean winning correlation over the iterations that voted for it":
   what the loop of tally_votes, the column sums of aggregate_votes and the division of choose_node leave for a
   reference type t is (sum of the winning correlations of the iterations whose nearest leaf belongs to t) over
   (the number of those iterations, or 1 when there is none) -- for every number of iterations, leaves and
   types, every assignment of leaves to types and every sequence of winners; correlations are exact integers
   over the common denominator D *)
Theorem c02_avg_corr_is_mean_of_own_votes : forall D owners its t,
  avg_corr D owners (tally_corr (length owners) its) t =
  (own_corr_sum owners its t, D * (if 0 <? own_votes owners its t then own_votes owners its t else 1)).
Proof. exact avg_corr_is_mean. Qed.
Print Assumptions c02_avg_corr_is_mean_of_own_votes.

(* the aggregated vote count of a type is the number of iterations that voted for one of its leaves, and the
   aggregated correlation sum is the sum over exactly those iterations *)
Theorem c02_aggregated_votes_exact : forall owners its t,
  sum_where owners (fst (tally_corr (length owners) its)) t = own_votes owners its t.
Proof. exact agg_votes_exact. Qed.
Print Assumptions c02_aggregated_votes_exact.

Theorem c02_aggregated_corr_exact : forall owners its t,
  sum_where owners (snd (tally_corr (length owners) its)) t = own_corr_sum owners its t.
Proof. exact agg_corr_exact. Qed.
Print Assumptions c02_aggregated_corr_exact.

(* the order in which the iterations are tallied is irrelevant *)
Theorem c02_tally_order_irrelevant : forall owners its1 its2 t,
  sum_where owners (snd (tally_corr (length owners) (its1 ++ its2))) t =
  sum_where owners (snd (tally_corr (length owners) (its2 ++ its1))) t /\
  sum_where owners (fst (tally_corr (length owners) (its1 ++ its2))) t =
  sum_where owners (fst (tally_corr (length owners) (its2 ++ its1))) t.
Proof. exact tally_order_irrelevant. Qed.
Print Assumptions c02_tally_order_irrelevant.

(* refinement: the vote array built by the tally loop and aggregate_votes IS the abstract vote function votes_for
   (the vf of c02_choose_node_meets_spec / c02_winner_plurality and of the C03 contract), whenever every winner
   is a reference row -- so those theorems speak about the array choose_node sorts *)
Theorem c02_tally_array_refines_votes_for : forall owners its t,
  iters_in_range (length owners) its = true ->
  sum_where owners (fst (tally_corr (length owners) its)) t = Z.of_nat (votes_for owners (map fst its) t).
Proof. exact tally_refines_votes_for. Qed.
Print Assumptions c02_tally_array_refines_votes_for.

(* non-vacuity: 4 leaves owned by types 7,9,7,8; five iterations; type 7 wins through two different leaves *)
Example c02_avg_corr_example :
  let its := [(0%nat, 512); (2%nat, 256); (1%nat, -128); (0%nat, 1024); (3%nat, 64)] in
  let st := tally_corr 4 its in
  st = ([2; 1; 1; 1], [1536; -128; 256; 64]) /\
  avg_corr 1024 [7; 9; 7; 8] st 7 = (1792, 1024 * 3) /\
  avg_corr 1024 [7; 9; 7; 8] st 9 = (-128, 1024 * 1) /\
  avg_corr 1024 [7; 9; 7; 8] st 5 = (0, 1024 * 1).
Proof. vm_compute. repeat split; reflexivity. Qed.
