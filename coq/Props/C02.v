From Coq Require Import ZArith List Bool.
From CTM Require Import Model.Vote.
Theorem c02_placeholder : True. Proof. exact I. Qed.
Print Assumptions c02_placeholder.
