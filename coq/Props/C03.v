(* C03 — confidence fields obey the documented arithmetic contract. *)
From Coq Require Import ZArith List Bool.
From CTM Require Import Base.Sx Model.Vote Model.Election Proofs.VoteP Proofs.VoteMainP Proofs.ConfidenceP.
Import ListNotations.
Open Scope Z_scope.

(* the bootstrapping probability is a whole number of votes in (0, iterations] *)
Theorem c03_probability_range : forall kids vf n_assign w wv rs iters,
  check_choice kids vf n_assign w wv rs = true ->
  nsum (map vf kids) = iters -> (1 <= iters)%nat -> (1 <= wv <= iters)%nat.
Proof. intros kids vf na w wv rs iters H1 H2. exact (prob_range kids vf na w wv rs iters H1 H2). Qed.
Print Assumptions c03_probability_range.

(* runner-up lists: no longer than requested, distinct siblings other than the winner,
   strictly positive votes none larger than the winner's, non-increasing *)
Theorem c03_runner_up_shape : forall kids vf n_assign w wv rs,
  check_choice kids vf n_assign w wv rs = true ->
  (length rs <= n_assign - 1)%nat /\
  NoDup (map fst rs) /\ ~ In w (map fst rs) /\
  (forall r, In r rs -> In (fst r) kids /\ (0 < snd r <= wv)%nat /\ vf (fst r) = snd r) /\
  sorted_desc (map snd rs) = true.
Proof. exact runner_shape. Qed.
Print Assumptions c03_runner_up_shape.

(* winner plus runners-up sum to at most the iteration count (probabilities sum to <= 1) *)
Theorem c03_sum_at_most_one : forall kids vf n_assign w wv rs iters,
  check_choice kids vf n_assign w wv rs = true ->
  nsum (map vf kids) = iters -> (wv + nsum (map snd rs) <= iters)%nat.
Proof. intros kids vf na w wv rs iters H1 H2. exact (sum_at_most_one kids vf na w wv rs iters H1 H2). Qed.
Print Assumptions c03_sum_at_most_one.

(* correlations lie in [-1,1]: covariance squared is at most the product of the variances *)
Theorem c03_corr_range : forall q r, length q = length r ->
  ccov q r * ccov q r <= ccov q q * ccov r r.
Proof. exact corr_in_range. Qed.
Print Assumptions c03_corr_range.

(* the aggregate probability is the running product of the per-level probabilities, and the
   last pass changes nothing else *)
Theorem c03_aggregate_is_running_product : forall acc rs,
  map agg (running acc rs) = products acc (map prob rs).
Proof. exact running_is_product. Qed.
Print Assumptions c03_aggregate_is_running_product.

(* a level where no vote was held (single child) inherits the correlation of the nearest level
   above where one was held (1 at the top of the taxonomy); everything else is untouched *)
Theorem c03_single_child_correlation : forall above row rs,
  inherit above row = Ok rs ->
  exists recs, row = map Some recs /\
    map corr rs = map Some (inherited (match above with Some a => a | None => one end) (map corr recs)) /\
    map asg rs = map asg recs /\ map prob rs = map prob recs /\ map runners rs = map runners recs.
Proof. exact inherit_corr. Qed.
Print Assumptions c03_single_child_correlation.

Theorem c03_single_child_record : forall c, asg (trivial_rec c) = c /\ prob (trivial_rec c) = one /\
  corr (trivial_rec c) = None /\ runners (trivial_rec c) = [].
Proof. exact trivial_rec_spec. Qed.
Print Assumptions c03_single_child_record.

Example c03_example :
  check_choice [1; 2; 3] (fun c => if (c =? 1)%Z then 5%nat else if (c =? 2)%Z then 3%nat else 2%nat) 3 1 5 [(2, 3%nat); (3, 2%nat)] = true /\
  check_choice [1; 2; 3] (fun c => if (c =? 1)%Z then 5%nat else if (c =? 2)%Z then 3%nat else 2%nat) 2 1 5 [(3, 2%nat)] = false.
Proof. vm_compute. split; reflexivity. Qed.
