(* C03 — confidence fields obey the documented arithmetic contract. *)
From Coq Require Import ZArith List Bool.
From Coq Require Import Permutation Sorted.
From CTM Require Import Base.Sx Model.Tree Model.Vote Model.Election Proofs.VoteP Proofs.VoteMainP Proofs.ConfidenceP
     Proofs.ChooseP Proofs.ElectionP Proofs.RtaShapeP Model.VoteDecide Proofs.VoteDecideP Model.AvgCorr Proofs.AvgCorrP Proofs.CorrInheritP.
Import ListNotations.
Open Scope Z_scope.

(* The arithmetic contract of choose_node, for EVERY tie order of the sort (any permutation
   of the children with non-increasing votes), every vote function with `iters` votes in
   total and every requested number of assignments >= 1 (zero runners-up and more
   runners-up than siblings included): *)
Theorem c03_choose_node_contract :
  forall (vf : Z -> nat) kids order (n_assign iters : nat) w wv rs,
  NoDup kids -> Permutation order kids -> StronglySorted (fun a b => (b <= a)%nat) (map vf order) ->
  (1 <= n_assign)%nat -> nsum (map vf kids) = iters -> (1 <= iters)%nat ->
  choose_with order vf n_assign = Some (w, wv, rs) ->
  (* winner: a child with the most votes; its share wv/iters is a whole number of votes in (0,1] *)
  In w kids /\ vf w = wv /\ (forall c, In c kids -> (vf c <= wv)%nat) /\ (1 <= wv <= iters)%nat /\
  (* runners-up: at most n_assign-1, distinct siblings other than the winner, strictly
     positive votes none larger than the winner's, non-increasing, the top vote getters *)
  (length rs <= n_assign - 1)%nat /\ NoDup (map fst rs) /\ ~ In w (map fst rs) /\
  (forall r, In r rs -> In (fst r) kids /\ (0 < snd r <= wv)%nat /\ vf (fst r) = snd r) /\
  sorted_desc (map snd rs) = true /\
  (forall c, In c kids -> In c (w :: map fst rs) \/ (vf c <= last (map snd rs) wv)%nat) /\
  (* shares sum to at most 1 -- and to exactly 1 when every vote getter could be listed *)
  (wv + nsum (map snd rs) <= iters)%nat /\
  ((count (fun c => negb (c =? w)%Z && Nat.ltb 0 (vf c)) kids <= n_assign - 1)%nat ->
   (wv + nsum (map snd rs))%nat = iters).
Proof. exact choose_contract. Qed.
Print Assumptions c03_choose_node_contract.

(* ... and that is what every record of the modelled vote is: whatever the reference rows, the query
   row, the drawn subsets and the number of runners-up, the record built by the vote
   (Model/VoteDecide.v:vote_record = tally, aggregate, sort by votes, choose_node) names an outcome
   the acceptor accepts for the recomputed votes, with probability = votes / iterations *)
Theorem c03_vote_record_accepted :
  forall (cell : Type) (refs_at : option (nat * node) -> list vec) (owners_at : option (nat * node) -> list Z)
         (q_at : cell -> option (nat * node) -> vec) (n_assign : nat) (corr_at : cell -> option (nat * node) -> Z -> frac),
    (1 <= n_assign)%nat ->
    forall p kids subsets c r winners,
      NoDup kids ->
      vote_record cell refs_at owners_at q_at n_assign corr_at p kids subsets c = Some r ->
      tally (q_at c p) (refs_at p) subsets = Some winners ->
      exists wv rs, check_choice kids (votes_for (owners_at p) winners) n_assign (asg r) wv rs = true /\
                    prob r = (Z.of_nat wv, Z.of_nat (length subsets)) /\
                    map (fun x => fst (fst x)) (runners r) = map fst rs.
Proof. exact vote_record_accepted. Qed.
Print Assumptions c03_vote_record_accepted.

(* the same clauses for any outcome the acceptor accepts (this is what is evaluated on the
   records the real code reports) *)
(* the bootstrapping probability is a whole number of votes in (0, iterations] *)
Theorem c03_probability_range : forall kids vf n_assign w wv rs iters,
  check_choice kids vf n_assign w wv rs = true ->
  nsum (map vf kids) = iters -> (1 <= iters)%nat -> (1 <= wv <= iters)%nat.
Proof. intros kids vf na w wv rs iters H1 H2. exact (prob_range kids vf na w wv rs iters H1 H2). Qed.
Print Assumptions c03_probability_range.

(* runner-up lists: no longer than requested, distinct siblings other than the winner,
   strictly positive votes none larger than the winner's, non-increasing *)
Theorem c03_runner_up_shape : forall kids vf n_assign w wv rs,
  check_choice kids vf n_assign w wv rs = true ->
  (length rs <= n_assign - 1)%nat /\
  NoDup (map fst rs) /\ ~ In w (map fst rs) /\
  (forall r, In r rs -> In (fst r) kids /\ (0 < snd r <= wv)%nat /\ vf (fst r) = snd r) /\
  sorted_desc (map snd rs) = true.
Proof. exact runner_shape. Qed.
Print Assumptions c03_runner_up_shape.

(* winner plus runners-up sum to at most the iteration count (probabilities sum to <= 1) *)
Theorem c03_sum_at_most_one : forall kids vf n_assign w wv rs iters,
  check_choice kids vf n_assign w wv rs = true ->
  nsum (map vf kids) = iters -> (wv + nsum (map snd rs) <= iters)%nat.
Proof. intros kids vf na w wv rs iters H1 H2. exact (sum_at_most_one kids vf na w wv rs iters H1 H2). Qed.
Print Assumptions c03_sum_at_most_one.

Theorem c03_sum_exactly_one : forall kids vf n_assign w wv rs,
  check_choice kids vf n_assign w wv rs = true -> NoDup kids ->
  (count (fun c => negb (c =? w)%Z && Nat.ltb 0 (vf c)) kids <= n_assign - 1)%nat ->
  (wv + nsum (map snd rs))%nat = nsum (map vf kids).
Proof. exact sum_exactly. Qed.
Print Assumptions c03_sum_exactly_one.

(* correlations lie in [-1,1]: covariance squared is at most the product of the variances *)
Theorem c03_corr_range : forall q r, length q = length r ->
  ccov q r * ccov q r <= ccov q q * ccov r r.
Proof. exact corr_in_range. Qed.
Print Assumptions c03_corr_range.

(* the AVERAGE correlation reported for the winner and for every runner-up lies in [-1,1] as well: when each
   per-iteration correlation does (|c| <= D over the common denominator D), the fraction
   corr_sum / where(votes > 0, votes, 1) that choose_node reports has a positive denominator and
   |numerator| <= denominator -- for every number of iterations, leaves and types; a type without votes gets 0 *)
Theorem c03_avg_corr_range : forall D owners its t,
  0 < D -> (forall it, In it its -> - D <= snd it <= D) ->
  let a := avg_corr D owners (tally_corr (length owners) its) t in
  0 < snd a /\ - snd a <= fst a <= snd a.
Proof. exact avg_corr_in_range. Qed.
Print Assumptions c03_avg_corr_range.

Example c03_avg_corr_example :
  let its := [(0%nat, 1024); (2%nat, 1024); (1%nat, -1024)] in
  (forall it, In it its -> - 1024 <= snd it <= 1024) /\
  avg_corr 1024 [7; 9; 7] (tally_corr 3 its) 7 = (2048, 2048) /\
  avg_corr 1024 [7; 9; 7] (tally_corr 3 its) 9 = (-1024, 1024).
Proof. split; [|vm_compute; split; reflexivity].
  intros it [E|[E|[E|[]]]]; subst it; cbn [snd]; split; discriminate. Qed.

(* ... and so does the avg_correlation of EVERY level of every output row after the two trailing passes of
   run_type_assignment (inheritance from the level above, 1.0 at the top; running product): when each correlation
   that a vote computed is a fraction in [-1,1] (which c03_reported_avg_corr_ok shows for what choose_node reports),
   every level - voted, single-child or inherited over any number of levels - carries one *)
Theorem c03_reported_avg_corr_ok : forall D owners its t,
  0 < D -> (forall it, In it its -> - D <= snd it <= D) ->
  corr_ok (avg_corr D owners (tally_corr (length owners) its) t).
Proof. exact avg_corr_ok. Qed.
Print Assumptions c03_reported_avg_corr_ok.

Theorem c03_filled_corr_in_range : forall row rs,
  (forall r c, In (Some r) row -> corr r = Some c -> corr_ok c) ->
  inherit None row = Ok rs ->
  Forall (fun r => exists c, corr r = Some c /\ corr_ok c) (running one rs).
Proof. exact filled_corr_in_range. Qed.
Print Assumptions c03_filled_corr_in_range.

(* on the array tally_votes and aggregate_votes build, the votes of the distinct reference types add up to the
   iteration count: each iteration casts exactly one vote, so the probabilities of winner and runners-up sum to
   exactly 1 when every vote getter is listed, and to at most 1 otherwise *)
Theorem c03_tallied_votes_total : forall owners its,
  iters_in_range (length owners) its = true ->
  fold_right Z.add 0 (map (fun t => sum_where owners (fst (tally_corr (length owners) its)) t) (zdistinct owners))
  = Z.of_nat (length its).
Proof. exact tallied_votes_total. Qed.
Print Assumptions c03_tallied_votes_total.

(* non-vacuity: top level single-child (no correlation: 1.0), a voted level (-1/2), a single-child level below it *)
Example c03_filled_corr_example :
  let row := [Some (trivial_rec 1); Some {| asg := 2; prob := (3, 4); corr := Some (-1, 2); runners := []; agg := one |};
              Some (trivial_rec 3)] in
  (forall r c, In (Some r) row -> corr r = Some c -> corr_ok c) /\
  option_map (fun rs => map corr (running one rs)) (match inherit None row with Ok rs => Some rs | _ => None end) =
    Some [Some (1, 1); Some (-1, 2); Some (-1, 2)].
Proof.
  split; [|vm_compute; reflexivity].
  intros r c [E|[E|[E|[]]]] Hc; injection E as <-; cbn in Hc; try discriminate Hc.
  injection Hc as <-. unfold corr_ok; cbn. repeat split; discriminate.
Qed.

(* At the level of run_type_assignment, for every decision procedure and every valid taxonomy:
   the aggregate probability of every row is the running product, from the top, of the
   per-level bootstrapping probabilities *)
Theorem c03_aggregate_is_running_product :
  forall (cell rng : Type)
         (decide : rng -> option (nat * node) -> list node -> list cell -> list rec * rng)
         t cells g rows g',
    run_type_assignment cell rng decide t cells g = Ok (rows, g') ->
    Forall (fun row => map agg row = products one (map prob row)) rows.
Proof. exact rta_aggregate. Qed.
Print Assumptions c03_aggregate_is_running_product.

(* ... and a level below a parent with a single child (no vote is held there) carries that
   child, probability 1, no runners-up and the correlation of the level above -- hence, by
   induction up a single-child chain, of the nearest level where a real choice was made;
   a single node at the top of the taxonomy gets correlation 1 *)
Theorem c03_single_child :
  forall (cell rng : Type)
         (decide : rng -> option (nat * node) -> list node -> list cell -> list rec * rng),
    (forall g p kids cs, (2 <= length kids)%nat -> Forall (fun r => In (asg r) kids) (fst (decide g p kids cs))) ->
    forall t cells g rows g',
      tree_ok t ->
      run_type_assignment cell rng decide t cells g = Ok (rows, g') ->
      forall i row, nth_error rows i = Some row ->
        (forall only r, nodes (hd [] t) = [only] -> nth_error row 0 = Some r ->
           asg r = only /\ prob r = one /\ runners r = [] /\ corr r = Some one) /\
        (forall k a b only, nth_error row k = Some a -> nth_error row (S k) = Some b ->
           children_of (nth k t []) (asg a) = [only] ->
           asg b = only /\ prob b = one /\ runners b = [] /\ corr b = corr a).
Proof. exact rta_single_child. Qed.
Print Assumptions c03_single_child.

(* non-vacuity: the 3-level taxonomy of C01 with a single top node and a single-child chain *)
Example c03_single_child_example :
  match run_type_assignment Z nat ends_decide
          [ [(1, [10; 11])]; [(10, [100]); (11, [110; 111])]; [(100, []); (110, []); (111, [])] ] [5; 6] 0%nat with
  | Ok (rows, _) =>
      map (map (fun r => (asg r, prob r, corr r, agg r))) rows =
      [ [(1, (1, 1), Some (1, 1), (1, 1)); (11, (3, 4), Some (1, 2), (3, 4)); (111, (3, 4), Some (1, 2), (9, 16))];
        [(1, (1, 1), Some (1, 1), (1, 1)); (10, (3, 4), Some (1, 2), (3, 4)); (100, (1, 1), Some (1, 2), (3, 4))] ]
  | _ => False
  end.
Proof. vm_compute. reflexivity. Qed.

Example c03_example :
  check_choice [1; 2; 3] (fun c => if (c =? 1)%Z then 5%nat else if (c =? 2)%Z then 3%nat else 2%nat) 3 1 5 [(2, 3%nat); (3, 2%nat)] = true /\
  check_choice [1; 2; 3] (fun c => if (c =? 1)%Z then 5%nat else if (c =? 2)%Z then 3%nat else 2%nat) 2 1 5 [(3, 2%nat)] = false.
Proof. vm_compute. split; reflexivity. Qed.
