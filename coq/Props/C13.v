(* C13 — on-disk sparse transposition and reshaping preserve the matrix.
   Property theorems only: each is closed by `exact <lemma>`.
   Model: Model/Transpose.v (transpose_sparse_matrix_on_disk and its parallel
   version), Model/Sparse.v (reshaping). "CSC" = the input: ptr has one entry per
   column + 1, idx holds the row of each stored entry. *)
From Coq Require Import List Arith ZArith Bool Lia Permutation Sorted.
From CTM Require Import Base.Sx Model.Sparse Model.Transpose
  Proofs.SparseP Proofs.TransposeP Proofs.TransposeFillP Proofs.TransposeSpecP Proofs.TransposePatternP Proofs.TransposeParP Proofs.SparseReshapeP Proofs.SparseSelectP.
Import ListNotations.

(* ---- count pass (_calculate_csr_indptr): for every load chunk size >= 1 the pointer
   array is 0 followed by the prefix sums of the exact number of entries of each output
   row of the slice, and n_non_zero is the number of entries of the slice - in
   particular neither depends on the chunk size *)
Theorem c13_count_pass : forall es n sl Lc,
  1 <= Lc ->
  calc_indptr es n sl Lc =
  (0 :: cumsum_from 0 (map (fun r => length (out_row (apply_slice sl es) r)) (seq 0 n)),
   length (apply_slice sl es)).
Proof. exact calc_indptr_spec. Qed.
Print Assumptions c13_count_pass.

(* ---- transpose_sparse_matrix_on_disk.  For every well-formed CSC input (pointer
   array from 0, monotone, ending at the number of stored entries; row indices below
   indices_max), with or without a value array, every index sub-range, every
   elements_at_a_time E (even 0), every load chunk size L >= 1 and Lc >= 1 (the code
   enforces >= 100) - a slice or a whole matrix without any stored entry included
   (c13_transpose_empty_slice; the former finding F2) -
   the function returns (the fuel indices_max+1 of the `while True` block loop
   suffices) and
   - the blocks of output rows it processed tile [0, n_out) without gap or overlap;
   - the output pointer array starts at 0, is monotone, has n_out+1 entries and ends at
     the number of stored entries, which is the number of input entries in the slice;
   - inside every output row the column indices are sorted, strictly (hence unique)
     when no input column stores a row twice;
   - every stored value sits at its transposed position: cell (out, r, j) =
     cell (in, j, lo + r), i.e. the dense view of the output is the transpose of the
     dense view of the input (rows lo..hi of it). *)
Theorem c13_transpose_exact : forall m n_major use_data indices_max sl E L Lc,
  wf_comp m indices_max -> length (ptr m) = S n_major ->
  (use_data = true -> length (dat m) = length (idx m)) ->
  1 <= L -> 1 <= Lc ->
  exists t, transpose m use_data indices_max sl E L Lc = Ok t /\
    let out := t_out t in
    let n_out := n_out_of indices_max sl in
    let lo := match sl with Some s => fst s | None => 0 end in
    out = transpose_spec m use_data indices_max sl /\
    chained 0 (t_blocks t) n_out /\
    hd 1 (ptr out) = 0 /\ mono (ptr out) /\ length (ptr out) = S n_out /\
    last (ptr out) 0 = length (idx out) /\
    length (idx out) = length (apply_slice sl (all_entries m use_data)) /\
    (forall r, r < n_out ->
       let seg := slice (idx out) (nth r (ptr out) 0) (nth (S r) (ptr out) 0) in
       mono seg /\ (no_dup_minor m -> strictly_increasing seg = true)) /\
    (use_data = true ->
       length (dat out) = length (idx out) /\
       (forall r j, r < n_out -> j < n_major -> cell out r j = cell m j (lo + r)) /\
       dense_of out n_out n_major =
       map (fun r => map (fun j => cell m j (lo + r)) (seq 0 n_major)) (seq 0 n_out)).
Proof. exact transpose_full. Qed.
Print Assumptions c13_transpose_exact.

(* the stored pattern, with or without a value array: (r, j) is stored in the output
   iff (j, lo + r) is stored in the input *)
Theorem c13_transpose_pattern : forall m n_minor use_data indices_max sl r j,
  wf_comp m n_minor -> (sl = None -> Forall (fun x => x < indices_max) (idx m)) ->
  r < n_out_of indices_max sl -> S j < length (ptr m) ->
  stored (transpose_spec m use_data indices_max sl) r j =
  stored m j (match sl with Some s => fst s | None => 0 end + r).
Proof. exact spec_stored. Qed.
Print Assumptions c13_transpose_pattern.

(* the same equation without any well-formedness of the pointer array: the function
   computes transpose_spec whenever it is given chunk sizes >= 1, consistent array
   lengths and (without a slice) row indices below indices_max *)
Theorem c13_transpose_is_spec : forall m use_data indices_max sl E L Lc,
  1 <= L -> 1 <= Lc ->
  (use_data = true -> length (dat m) = length (idx m)) ->
  (sl = None -> Forall (fun r => r < indices_max) (idx m)) ->
  exists t, transpose m use_data indices_max sl E L Lc = Ok t /\
            t_out t = transpose_spec m use_data indices_max sl /\
            chained 0 (t_blocks t) (n_out_of indices_max sl).
Proof. exact transpose_exact. Qed.
Print Assumptions c13_transpose_is_spec.

(* the block loop on its own: from any block boundary r0 with the rows before r0
   written, n_out - r0 units of fuel suffice, whatever E is *)
Theorem c13_block_loop_terminates : forall chunks sl E n fuel r0 nxt,
  let Es := apply_slice sl (concat chunks) in
  esorted (concat chunks) ->
  r0 <= n -> n - r0 <= fuel -> length nxt = S n ->
  (forall r, r0 <= r < n -> nth r nxt 0 = off Es r) ->
  exists bl,
    fill_blocks fuel chunks sl E (0 :: cumsum_from 0 (cnts Es n)) nxt r0
                (map e_major (spec_entries Es r0) ++ repeat 0 (off Es n - off Es r0))
                (map e_val (spec_entries Es r0) ++ repeat 0%Z (off Es n - off Es r0))
    = Ok (map e_major (spec_entries Es n), map e_val (spec_entries Es n), bl) /\
    chained r0 bl n.
Proof. exact fill_blocks_spec. Qed.
Print Assumptions c13_block_loop_terminates.

(* the former finding F2 (a value array and no stored entry in the slice made h5py
   refuse chunks=(0,)), now the positive statement: with or without a value array, a
   slice - or a whole matrix - without any stored entry transposes to the empty matrix:
   no index, no value, a pointer array of n_out + 1 zeros *)
Theorem c13_transpose_empty_slice : forall m use_data indices_max sl E L Lc,
  1 <= L -> 1 <= Lc -> (use_data = true -> length (dat m) = length (idx m)) ->
  (sl = None -> Forall (fun r => r < indices_max) (idx m)) ->
  length (apply_slice sl (all_entries m use_data)) = 0 ->
  exists t, transpose m use_data indices_max sl E L Lc = Ok t /\
            t_out t = {| ptr := repeat 0 (S (n_out_of indices_max sl)); idx := []; dat := [] |} /\
            chained 0 (t_blocks t) (n_out_of indices_max sl).
Proof. exact transpose_empty_slice. Qed.
Print Assumptions c13_transpose_empty_slice.

(* ---- _transpose_sparse_matrix_on_disk_v2 (n_processors >= 1 workers, each transposing
   a slice of max(1, ceil(indices_max / n_processors)) rows, pieces joined in range
   order with pointer offsets): it returns, and returns exactly what the serial
   function computes on the whole range (c13_transpose_exact: out = transpose_spec ...
   None, so every clause proved there holds for it), for every worker count and every
   budget - more workers than rows, slices without entries, fewer stored values than
   rows, no stored value, no row at all included (the former findings F2w, F4, F4z,
   F4m). *)
Theorem c13_parallel_concat : forall m use_data indices_max n_proc E L Lc,
  1 <= n_proc -> 1 <= L -> 1 <= Lc -> (use_data = true -> length (dat m) = length (idx m)) ->
  Forall (fun r => r < indices_max) (idx m) ->
  transpose_v2 m use_data indices_max n_proc E L Lc = Ok (transpose_spec m use_data indices_max None).
Proof. exact transpose_v2_exact. Qed.
Print Assumptions c13_parallel_concat.

(* in particular without any stored value: the empty matrix *)
Theorem c13_parallel_empty : forall m use_data indices_max n_proc E L Lc,
  1 <= n_proc -> 1 <= L -> 1 <= Lc -> idx m = [] -> (use_data = true -> dat m = []) ->
  transpose_v2 m use_data indices_max n_proc E L Lc =
  Ok {| ptr := repeat 0 (S indices_max); idx := []; dat := [] |}.
Proof. exact transpose_v2_empty. Qed.
Print Assumptions c13_parallel_empty.

(* ---- _get_slices_for_copy: in every dimension the hyperslab bounds start at 0, are
   contiguous and non-empty, end at the extent, and cutting along them and gluing gives
   the data back: the hyperslabs tile the dataset exactly once *)
Theorem c13_slices_partition : forall shape per_dim,
  Forall2 (fun n chs =>
             chained 0 chs n /\
             forall (A : Type) (l : list A), length l = n ->
               concat (map (fun ch => slice l (fst ch) (snd ch)) chs) = l)
          shape (slices_for_copy shape per_dim).
Proof. exact slices_partition. Qed.
Print Assumptions c13_slices_partition.

(* copy_h5_excluding_data on 1-d and (rectangular) 2-d datasets copies the data *)
Theorem c13_copy_h5_1d : forall (l : list Z) max_elements, copy_h5_1d l max_elements = l.
Proof. exact (@copy_h5_1d_exact Z). Qed.
Print Assumptions c13_copy_h5_1d.

Theorem c13_copy_h5_2d : forall (d : dense) nr nc per_dim,
  length d = nr -> Forall (fun row => length row = nc) d -> copy_h5_2d d nr nc per_dim = d.
Proof. exact copy_h5_2d_exact. Qed.
Print Assumptions c13_copy_h5_2d.

(* ---- copy_layer_to_x, sparse layer: each of the three arrays - an empty one included
   (the former finding F-copy-layer-empty-sparse) - is copied as it is, whatever chunk
   shape HDF5 reports for it (a chunk dimension is at least 1; it may exceed the extent) *)
Theorem c13_copy_layer_sparse : forall (l : list Z) chunks,
  (forall c, chunks = Some c -> 1 <= c) -> copy_array l chunks = Ok l.
Proof. exact (@copy_array_total Z). Qed.
Print Assumptions c13_copy_layer_sparse.

(* dense layer: whenever the chunked copy is accepted it is the identity *)
Theorem c13_copy_layer_dense : forall (d : dense) nr nc chunks out,
  length d = nr -> Forall (fun row => length row = nc) d ->
  copy_dense d nr nc chunks = Ok out -> out = d.
Proof. exact copy_dense_exact. Qed.
Print Assumptions c13_copy_layer_dense.

(* ---- shuffle_csr_h5ad_rows (precompute_indptr + the row-by-row copy into datasets of
   the original size): for every well-formed CSR matrix - duplicate minor indices inside
   a row allowed - and EVERY permutation new_row_order of its rows the function returns
   a well-formed CSR matrix with the same number of stored entries in which
   - the stored entries of row i (indices and values, in storage order, explicit zeros
     included) are exactly those of input row new_row_order[i]   (row_entries);
   - hence every cell, and the dense view: row i of the output is row new_row_order[i]
     of the input;
   - no row stores a column twice if no input row does. *)
Theorem c13_shuffle_rows : forall m nr nc order,
  wf_csr m nr nc -> Permutation order (seq 0 nr) ->
  exists out, shuffle_rows m order = Ok out /\
    wf_csr out nr nc /\ length (idx out) = length (idx m) /\
    (forall i, i < nr -> row_entries out i = row_entries m (nth i order 0)) /\
    (forall i x, i < nr -> cell out i x = cell m (nth i order 0) x) /\
    dense_of out nr nc = map (fun r => nth r (dense_of m nr nc) []) order /\
    (no_dup_minor m -> no_dup_minor out).
Proof. exact shuffle_rows_exact. Qed.
Print Assumptions c13_shuffle_rows.

(* the hypothesis "permutation of ALL rows" cannot be weakened to "duplicate-free list of
   rows": shuffle_csr_h5ad_rows does not validate new_row_order; a list that leaves rows
   out is accepted and the file written is not a CSR matrix (indptr zero-padded, hence
   decreasing; X keeps the old shape while obs has fewer rows; anndata refuses to read it).
   Witness: the 4 x 3 matrix of c13_ex and new_row_order = [2; 0]. *)
Theorem c13_shuffle_rows_sublist_refuted :
  exists m order out,
    wf_csr m 4 3 /\ no_dup_minor m /\ NoDup order /\ Forall (fun r => r < 4) order /\
    shuffle_rows m order = Ok out /\ ptr out = [0; 1; 0; 0; 5] /\ ~ mono (ptr out).
Proof. exact shuffle_rows_sublist_refuted. Qed.
Print Assumptions c13_shuffle_rows_sublist_refuted.

(* ---- subset_csc_h5ad_columns.  The input is CSC: its major slices are the columns
   (wf_csr m n_cols n_rows: n_cols + 1 pointers, row indices below n_rows).  For EVERY
   list of columns below n_cols (the correspondence check drives non-empty
   duplicate-free lists; a repeated column is simply kept as often as it is listed) the
   function returns a well-formed CSC matrix with one column per chosen column, and
   with cs = the chosen columns in increasing order (np.sort: sorted, a permutation of
   the list)
   - the stored entries of output column i (row indices and values, in storage order)
     are exactly those of input column cs[i]: values intact;
   - hence cell (row r, new column i) = cell (row r, old column cs[i]) for every r, and
     the column-major dense view consists of exactly the chosen columns, in order. *)
Theorem c13_subset_columns : forall m n_cols n_rows chosen,
  wf_csr m n_cols n_rows -> Forall (fun c => c < n_cols) chosen ->
  let cs := sort_by (fun x => x) chosen in
  let k := length chosen in
  Sorted le cs /\ Permutation cs chosen /\
  exists out, subset_columns m chosen = Ok out /\
    wf_csr out k n_rows /\
    (forall i, i < k -> row_entries out i = row_entries m (nth i cs 0)) /\
    (forall i r, i < k -> cell out i r = cell m (nth i cs 0) r) /\
    dense_of out k n_rows = map (fun c => nth c (dense_of m n_cols n_rows) []) cs /\
    (no_dup_minor m -> no_dup_minor out).
Proof. exact subset_columns_exact. Qed.
Print Assumptions c13_subset_columns.

(* ---- amalgamate_h5ad.  A source is a CSR matrix (SrcSparse; a CSC source enters as the
   CSR arrays of the same matrix, its transposition being c13_transpose_exact) or a dense
   array (SrcDense) together with the list of rows taken from it; source_ok nc: the
   matrix is well formed with nc columns and stores no (row, column) pair twice, the row
   list is non-empty, duplicate-free and in range (other lists are refused:
   c05_get_batch_rejects).  amalgamate_to_dense / amalgamate_to_csr are the bodies of
   the entry points the correspondence check drives (c13_amalgamate_wire).
   For EVERY list of admissible sources, with D = the selected rows of source 1 in the
   requested order, then those of source 2, ... (source_rows reads them off the dense
   views):
   - the dense destination is exactly D;
   - the sparse destination, told the total number of rows, is a well-formed
     duplicate-free CSR matrix whose dense view is D: both destinations agree. *)
Theorem c13_amalgamate : forall srcs nc,
  Forall (source_ok nc) srcs ->
  let D := concat (map (source_rows nc) srcs) in
  amalgamate_to_dense srcs = Ok D /\
  exists out, amalgamate_to_csr srcs (length D) = Ok out /\
    wf_csr out (length D) nc /\ no_dup_minor out /\ dense_of out (length D) nc = D.
Proof. exact amalgamate_exact. Qed.
Print Assumptions c13_amalgamate.

(* the joining step on its own (amalgamate_csr_to_x = merge_csr + the row count): pieces
   of n_k rows are joined into a well-formed matrix of sum n_k rows whose dense view is
   the concatenation of theirs, which is what amalgamate_dense_to_x writes *)
Theorem c13_amalgamate_join : forall pieces ns nc,
  Forall2 (fun p n => wf_csr p n nc /\ no_dup_minor p) pieces ns ->
  exists out, amalgamate_csr pieces (sum_list ns) = Ok out /\
    wf_csr out (sum_list ns) nc /\ no_dup_minor out /\
    dense_of out (sum_list ns) nc =
    concat (map (fun pn => dense_of (fst pn) (snd pn) nc) (combine pieces ns)) /\
    dense_of out (sum_list ns) nc =
    amalgamate_dense (map (fun pn => dense_of (fst pn) (snd pn) nc) (combine pieces ns)).
Proof. exact amalgamate_csr_exact. Qed.
Print Assumptions c13_amalgamate_join.

(* entry points 1305 / 1306 = amalgamate_to_csr / amalgamate_to_dense on the decoded wire *)
Theorem c13_amalgamate_wire : forall srcs nr ss n,
  sx_list sx_source srcs = Some ss -> sx_nat nr = Some n ->
  run_amalgamate_sparse (L [srcs; nr]) = of_res of_comp (amalgamate_to_csr ss n) /\
  run_amalgamate_dense srcs = of_res of_dense (amalgamate_to_dense ss).
Proof. exact run_amalgamate_decoded. Qed.
Print Assumptions c13_amalgamate_wire.

(* ---- non-vacuity: a 3 x 4 matrix (indices_max = 3 rows, 4 columns) in CSC form with
   an empty column and an empty row satisfies the hypotheses, and the function run
   with E = 2, L = 2, Lc = 1 returns the transpose in two blocks *)
Definition c13_ex : comp :=
  {| ptr := [0; 2; 2; 3; 5]; idx := [0; 2; 2; 0; 2]; dat := [5; 6; 7; 8; 9]%Z |}.
Example c13_example_wf :
  wf_comp c13_ex 3 /\ length (ptr c13_ex) = 5 /\ length (dat c13_ex) = length (idx c13_ex) /\
  no_dup_minor c13_ex.
Proof.
  split; [|split; [reflexivity | split; [reflexivity|]]].
  - unfold wf_comp, c13_ex; cbn [ptr idx dat hd last length mono].
    split; [reflexivity | split; [reflexivity | split]].
    + lia.
    + repeat (apply Forall_cons; [lia|]). apply Forall_nil.
  - intros j Hj. unfold c13_ex in *; cbn [ptr idx dat length] in *.
    assert (D : j = 0 \/ j = 1 \/ j = 2 \/ j = 3) by lia.
    destruct D as [ -> | [ -> | [ -> | -> ] ] ]; vm_compute;
      repeat (apply NoDup_cons; [cbn [In]; lia|]); apply NoDup_nil.
Qed.
Example c13_example_run :
  match transpose c13_ex true 3 None 2 2 1 with
  | Ok t => t_out t = {| ptr := [0; 2; 2; 5]; idx := [0; 3; 0; 2; 3]; dat := [5; 8; 6; 7; 9]%Z |} /\
            t_blocks t = [(0, 1); (1, 3)]
  | Err _ => False
  end /\
  dense_of c13_ex 4 3 = [[5; 0; 6]; [0; 0; 0]; [0; 0; 7]; [8; 0; 9]]%Z.
Proof. vm_compute. repeat split; reflexivity. Qed.
Example c13_example_slice :
  match transpose c13_ex true 3 (Some (1, 3)) 100 100 100 with
  | Ok t => t_out t = {| ptr := [0; 0; 3]; idx := [0; 2; 3]; dat := [6; 7; 9]%Z |}
  | Err _ => False
  end.
Proof. vm_compute. reflexivity. Qed.
(* a slice without entries (row 1 of c13_ex), a matrix without any stored value, a
   matrix without rows: the empty matrix, serial and parallel, with a value array *)
Definition c13_zero : comp := {| ptr := [0; 0; 0; 0; 0]; idx := []; dat := [] |}.
Example c13_example_empty :
  match transpose c13_ex true 3 (Some (1, 2)) 2 2 1 with
  | Ok t => t_out t = {| ptr := [0; 0]; idx := []; dat := [] |} /\ t_blocks t = [(0, 1)]
  | Err _ => False
  end /\
  match transpose c13_zero true 3 None 2 2 1 with
  | Ok t => t_out t = {| ptr := [0; 0; 0; 0]; idx := []; dat := [] |} /\ t_blocks t = [(0, 3)]
  | Err _ => False
  end /\
  transpose_v2 c13_zero true 3 2 2 2 1 = Ok {| ptr := [0; 0; 0; 0]; idx := []; dat := [] |} /\
  transpose_v2 c13_zero true 0 2 2 2 1 = Ok {| ptr := [0]; idx := []; dat := [] |} /\
  (* more workers than rows; fewer stored values than rows + 1 (the former F4) *)
  transpose_v2 c13_ex true 3 5 2 2 1 =
  Ok {| ptr := [0; 2; 2; 5]; idx := [0; 3; 0; 2; 3]; dat := [5; 8; 6; 7; 9]%Z |} /\
  transpose_v2 {| ptr := [0; 1; 1]; idx := [2]; dat := [4]%Z |} true 3 1 2 2 1 =
  Ok {| ptr := [0; 0; 0; 1]; idx := [0]; dat := [4]%Z |} /\
  copy_array (@nil Z) (Some 1024) = Ok [] /\
  amalgamate_csr [{| ptr := [0; 0]; idx := []; dat := [] |};
                  {| ptr := [0; 1; 2]; idx := [3; 0]; dat := [7; 8]%Z |}] 3 =
  Ok {| ptr := [0; 0; 1; 2]; idx := [3; 0]; dat := [7; 8]%Z |}.
Proof. vm_compute. repeat split; reflexivity. Qed.
Example c13_example_slices : slices_for_copy [5; 3] 2 = [[(0, 2); (2, 4); (4, 5)]; [(0, 2); (2, 3)]].
Proof. vm_compute. reflexivity. Qed.
Example c13_example_parallel :
  transpose_v2 c13_ex true 3 2 2 2 1 =
  Ok {| ptr := [0; 2; 2; 5]; idx := [0; 3; 0; 2; 3]; dat := [5; 8; 6; 7; 9]%Z |}.
Proof. vm_compute. reflexivity. Qed.

(* shuffle_rows: the 4 x 3 CSR reading of c13_ex (rows = its major slices) and the
   permutation [2; 0; 3; 1] satisfy the hypotheses of c13_shuffle_rows *)
Example c13_example_shuffle :
  wf_csr c13_ex 4 3 /\ Permutation [2; 0; 3; 1] (seq 0 4) /\
  shuffle_rows c13_ex [2; 0; 3; 1] =
    Ok {| ptr := [0; 1; 3; 5; 5]; idx := [2; 0; 2; 0; 2]; dat := [7; 5; 6; 8; 9]%Z |} /\
  dense_of c13_ex 4 3 = [[5; 0; 6]; [0; 0; 0]; [0; 0; 7]; [8; 0; 9]]%Z.
Proof.
  destruct c13_example_wf as (W & HP & HD & _).
  split; [split; [exact W | split; [exact HP | exact HD]]|].
  split.
  - cbn [seq].
    apply (perm_trans (l' := [0; 2; 3; 1])); [apply perm_swap|]. apply perm_skip.
    apply (perm_trans (l' := [2; 1; 3])); [apply perm_skip, perm_swap|].
    apply (perm_trans (l' := [1; 2; 3])); [apply perm_swap | apply Permutation_refl].
  - vm_compute. split; reflexivity.
Qed.

(* subset_columns: c13_ex as the CSC matrix it is (4 columns, 3 rows) and the columns
   [3; 0] satisfy the hypotheses of c13_subset_columns; they are kept in increasing order *)
Example c13_example_subset :
  wf_csr c13_ex 4 3 /\ Forall (fun c => c < 4) [3; 0] /\
  sort_by (fun x => x) [3; 0] = [0; 3] /\
  subset_columns c13_ex [3; 0] =
    Ok {| ptr := [0; 2; 4]; idx := [0; 2; 0; 2]; dat := [5; 6; 8; 9]%Z |}.
Proof.
  destruct c13_example_wf as (W & HP & HD & _).
  split; [split; [exact W | split; [exact HP | exact HD]]|].
  split; [repeat (apply Forall_cons; [lia|]); apply Forall_nil|].
  vm_compute. split; reflexivity.
Qed.

(* amalgamate: rows [3; 0] of the 4 x 3 CSR reading of c13_ex and row [1] of a dense
   2 x 3 array are admissible sources; both destinations hold the same 3 rows *)
Definition c13_srcs : list source :=
  [SrcSparse c13_ex 3 [3; 0]; SrcDense [[1; 0; 2]; [0; 0; 4]]%Z 2 [1]].
Example c13_example_amalgamate :
  Forall (source_ok 3) c13_srcs /\
  concat (map (source_rows 3) c13_srcs) = [[8; 0; 9]; [5; 0; 6]; [0; 0; 4]]%Z /\
  amalgamate_to_dense c13_srcs = Ok [[8; 0; 9]; [5; 0; 6]; [0; 0; 4]]%Z /\
  amalgamate_to_csr c13_srcs 3 =
    Ok {| ptr := [0; 2; 4; 5]; idx := [0; 2; 0; 2; 2]; dat := [8; 9; 5; 6; 4]%Z |}.
Proof.
  destruct c13_example_wf as (W & HP & HD & ND).
  split.
  - constructor; [|constructor; [|constructor]].
    + cbn [source_ok]. split; [reflexivity|].
      split; [split; [exact W | split; [reflexivity | exact HD]]|]. split; [exact ND|].
      split; [discriminate|]. split; [repeat (apply NoDup_cons; [cbn [In]; lia|]); apply NoDup_nil|].
      cbn. repeat (apply Forall_cons; [lia|]). apply Forall_nil.
    + cbn [source_ok]. split; [reflexivity|].
      split; [repeat (apply Forall_cons; [reflexivity|]); apply Forall_nil|].
      split; [discriminate|]. split; [repeat (apply NoDup_cons; [cbn [In]; lia|]); apply NoDup_nil|].
      repeat (apply Forall_cons; [lia|]). apply Forall_nil.
  - vm_compute. repeat split; reflexivity.
Qed.
