(* C13 — on-disk sparse transposition and reshaping preserve the matrix.
   Property theorems only: each is closed by `exact <lemma>`.
   Model: Model/Transpose.v (transpose_sparse_matrix_on_disk and its parallel
   version), Model/Sparse.v (reshaping). "CSC" = the input: ptr has one entry per
   column + 1, idx holds the row of each stored entry.
   OUTSIDE THE MODEL (audit 4, A6): the WIDTH of the index arrays.  Indices are unbounded naturals here.  The
   real transpose_sparse_matrix_on_disk_v2 (csc_to_csr_parallel.py) re-bases a row chunk in place,
   `row_chunk -= indices_slice[0]`, in the dtype of the stored `indices` array: with int8 / uint8 indices and
   n_processors >= 2 (a slice starting at 128 resp. 200, say) numpy 2 raises OverflowError("Python integer 200
   out of bounds for int8") in the worker, which surfaces as RuntimeError("One of the processes exited with code
   1"); n_processors 0 and 1 succeed on the same file and the model answers Ok for all three.  Index arrays
   narrower than the values they must hold after the slice shift are therefore excluded from every theorem of
   this file.  Nothing in the package writes such arrays (audit 4): the one `indices` array the package itself
   hands to this function, sparse_by_pair/{up,down}_gene_idx of the reference-marker file (diff_exp/markers.py),
   is written with choose_int_dtype((0, n_genes)) - an UNSIGNED type that holds every gene index and hence every
   slice start, and the shifted values are non-negative - and h5ad files written by anndata / scipy carry int32
   or int64 indices.  The tie runs the parallel branch on such files only (n_processors in {1, 2, 3}). *)
From Coq Require Import List Arith ZArith Bool Lia Permutation Sorted.
From CTM Require Import Base.Sx Model.Sparse Model.Transpose
  Proofs.SparseP Proofs.TransposeP Proofs.TransposeFillP Proofs.TransposeSpecP Proofs.TransposePatternP Proofs.TransposeParP Proofs.SparseReshapeP Proofs.SparseSelectP
  Proofs.TransposeGuardP Proofs.SparseGuardP.
Import ListNotations.

(* ---- count pass (_calculate_csr_indptr): for every load chunk size >= 1 the pointer
   array is 0 followed by the prefix sums of the exact number of entries of each output
   row of the slice, and n_non_zero is the number of entries of the slice - in
   particular neither depends on the chunk size - and the pointer array ends at
   n_non_zero.
   Hypothesis (audit, defect 10): every minor index left by the slice is below the number n
   of output rows.  With a slice this always holds (n = hi - lo and the filter keeps
   lo <= x < hi); without a slice n = indices_max and an index >= indices_max makes the
   real function raise IndexError at `cumulative_count[unq_val] += unq_ct`, whereas
   calc_indptr silently drops it from the counts but not from n_non_zero
   (c13_example_count_pass_guard: the excluded input is exactly where Python raises; the
   entry point `transpose` of the model answers Err EIndex there). *)
Theorem c13_count_pass : forall es n sl Lc,
  1 <= Lc -> Forall (fun e => e_minor e < n) (apply_slice sl es) ->
  calc_indptr es n sl Lc =
  (0 :: cumsum_from 0 (map (fun r => length (out_row (apply_slice sl es) r)) (seq 0 n)),
   length (apply_slice sl es)) /\
  last (fst (calc_indptr es n sl Lc)) 0 = snd (calc_indptr es n sl Lc).
Proof. exact calc_indptr_guarded. Qed.
Print Assumptions c13_count_pass.

(* ---- transpose_sparse_matrix_on_disk.  For every well-formed CSC input (pointer
   array from 0, monotone, ending at the number of stored entries; row indices below
   indices_max), with or without a value array, every index sub-range, every
   elements_at_a_time E (even 0), every load chunk size L >= 1 and Lc >= 1 (the code
   enforces >= 100) - a slice or a whole matrix without any stored entry included
   (c13_transpose_empty_slice; the former finding F2) -
   the function returns (the fuel indices_max+1 of the `while True` block loop
   suffices) and
   - the blocks of output rows it processed tile [0, n_out) without gap or overlap;
   - the output pointer array starts at 0, is monotone, has n_out+1 entries and ends at
     the number of stored entries, which is the number of input entries in the slice;
   - inside every output row the column indices are sorted, strictly (hence unique)
     when no input column stores a row twice;
   - every stored value sits at its transposed position: cell (out, r, j) =
     cell (in, j, lo + r), i.e. the dense view of the output is the transpose of the
     dense view of the input (rows lo..hi of it).
   Hypothesis on the slice (audit, defect 10): lo <= hi.  On a reversed slice such as
   (3, 1) the real function raises ValueError (np.zeros(hi - lo): negative dimensions)
   while the model, whose subtraction is truncated, answers with the 0-row matrix
   (c13_example_reversed_slice); the only caller that passes a slice,
   _transpose_sparse_matrix_on_disk_v2, never produces one (c13_parallel_slices).
   Hypothesis on duplicates (audit 3, item 11): with a value array, no (row, column) pair
   is stored twice (use_data = true -> no_dup_minor m).  The entries of an output row are
   ordered by np.argsort of their column (csc_to_csr.py:229, 272), which is not stable
   above 16 elements: exact duplicates come out with their VALUES in an order that
   depends on the chunking (and, in the parallel version, on the worker count), whereas
   the model's sort is stable; pointer and index arrays are not affected
   (c13_example_duplicates_excluded).  The proof does not use the hypothesis, the
   FAITHFULNESS of the model does; the correspondence check generates duplicate-free
   inputs only (ctx.assumptions). *)
Theorem c13_transpose_exact : forall m n_major use_data indices_max sl E L Lc,
  wf_comp m indices_max -> length (ptr m) = S n_major ->
  (use_data = true -> length (dat m) = length (idx m)) ->
  (use_data = true -> no_dup_minor m) ->
  (forall s, sl = Some s -> fst s <= snd s) ->
  1 <= L -> 1 <= Lc ->
  exists t, transpose m use_data indices_max sl E L Lc = Ok t /\
    let out := t_out t in
    let n_out := n_out_of indices_max sl in
    let lo := match sl with Some s => fst s | None => 0 end in
    out = transpose_spec m use_data indices_max sl /\
    chained 0 (t_blocks t) n_out /\
    hd 1 (ptr out) = 0 /\ mono (ptr out) /\ length (ptr out) = S n_out /\
    last (ptr out) 0 = length (idx out) /\
    length (idx out) = length (apply_slice sl (all_entries m use_data)) /\
    (forall r, r < n_out ->
       let seg := slice (idx out) (nth r (ptr out) 0) (nth (S r) (ptr out) 0) in
       mono seg /\ (no_dup_minor m -> strictly_increasing seg = true)) /\
    (use_data = true ->
       length (dat out) = length (idx out) /\
       (forall r j, r < n_out -> j < n_major -> cell out r j = cell m j (lo + r)) /\
       dense_of out n_out n_major =
       map (fun r => map (fun j => cell m j (lo + r)) (seq 0 n_major)) (seq 0 n_out)).
Proof. exact transpose_full_guarded. Qed.
Print Assumptions c13_transpose_exact.

(* the stored pattern, with or without a value array: (r, j) is stored in the output
   iff (j, lo + r) is stored in the input *)
Theorem c13_transpose_pattern : forall m n_minor use_data indices_max sl r j,
  wf_comp m n_minor -> (sl = None -> Forall (fun x => x < indices_max) (idx m)) ->
  r < n_out_of indices_max sl -> S j < length (ptr m) ->
  stored (transpose_spec m use_data indices_max sl) r j =
  stored m j (match sl with Some s => fst s | None => 0 end + r).
Proof. exact spec_stored. Qed.
Print Assumptions c13_transpose_pattern.

(* the function computes transpose_spec: the loop nest (count pass, block loop, load
   chunks, next-free-slot table) against the one-line grouping of the entries by minor
   index.  transpose_spec reads the column of an entry off the pointer array with the same
   major_of (np.searchsorted(..., side='right') - 1) as the function, so this is a
   statement about the LOOPS, not about the column lookup: that major_of is the column is
   part of c13_transpose_exact / c13_transpose_pattern (col_spec, under wf_comp).
   Hypotheses: a well-formed pointer array (from 0, monotone, ending at the number of
   stored entries - on a non-monotone array np.searchsorted and major_of differ, e.g. on
   [2; 0; 3] numpy answers columns 1, 1, 1 and major_of 0, 0, 1:
   c13_example_nonmonotone_ptr; the proof does not use the hypothesis, the FAITHFULNESS
   of the model does), with a value array no (row, column) pair stored twice (see
   c13_transpose_exact; again a hypothesis of faithfulness, not of the proof), a slice with
   lo <= hi, chunk sizes >= 1, consistent array lengths and (without a slice) row indices
   below indices_max. *)
Theorem c13_transpose_is_spec : forall m use_data indices_max sl E L Lc,
  hd 1 (ptr m) = 0 /\ mono (ptr m) /\ last (ptr m) 0 = length (idx m) ->
  (use_data = true -> no_dup_minor m) ->
  (forall s, sl = Some s -> fst s <= snd s) ->
  1 <= L -> 1 <= Lc ->
  (use_data = true -> length (dat m) = length (idx m)) ->
  (sl = None -> Forall (fun r => r < indices_max) (idx m)) ->
  exists t, transpose m use_data indices_max sl E L Lc = Ok t /\
            t_out t = transpose_spec m use_data indices_max sl /\
            chained 0 (t_blocks t) (n_out_of indices_max sl).
Proof. exact transpose_exact_guarded. Qed.
Print Assumptions c13_transpose_is_spec.

(* the block loop on its own: from any block boundary r0 with the rows before r0
   written, n_out - r0 units of fuel suffice, whatever E is *)
Theorem c13_block_loop_terminates : forall chunks sl E n fuel r0 nxt,
  let Es := apply_slice sl (concat chunks) in
  esorted (concat chunks) ->
  r0 <= n -> n - r0 <= fuel -> length nxt = S n ->
  (forall r, r0 <= r < n -> nth r nxt 0 = off Es r) ->
  exists bl,
    fill_blocks fuel chunks sl E (0 :: cumsum_from 0 (cnts Es n)) nxt r0
                (map e_major (spec_entries Es r0) ++ repeat 0 (off Es n - off Es r0))
                (map e_val (spec_entries Es r0) ++ repeat 0%Z (off Es n - off Es r0))
    = Ok (map e_major (spec_entries Es n), map e_val (spec_entries Es n), bl) /\
    chained r0 bl n.
Proof. exact fill_blocks_spec. Qed.
Print Assumptions c13_block_loop_terminates.

(* the former finding F2 (a value array and no stored entry in the slice made h5py
   refuse chunks=(0,)), now the positive statement: with or without a value array, a
   slice - or a whole matrix - without any stored entry transposes to the empty matrix:
   no index, no value, a pointer array of n_out + 1 zeros *)
Theorem c13_transpose_empty_slice : forall m use_data indices_max sl E L Lc,
  (forall s, sl = Some s -> fst s <= snd s) ->
  1 <= L -> 1 <= Lc -> (use_data = true -> length (dat m) = length (idx m)) ->
  (sl = None -> Forall (fun r => r < indices_max) (idx m)) ->
  length (apply_slice sl (all_entries m use_data)) = 0 ->
  exists t, transpose m use_data indices_max sl E L Lc = Ok t /\
            t_out t = {| ptr := repeat 0 (S (n_out_of indices_max sl)); idx := []; dat := [] |} /\
            chained 0 (t_blocks t) (n_out_of indices_max sl).
Proof. exact transpose_empty_slice_guarded. Qed.
Print Assumptions c13_transpose_empty_slice.

(* ---- _transpose_sparse_matrix_on_disk_v2 (n_processors >= 1 workers, each transposing
   a slice of max(1, ceil(indices_max / n_processors)) rows, pieces joined in range
   order with pointer offsets): on an input that stores no (row, column) pair twice (or
   without a value array) it returns, and returns exactly what the serial
   function computes on the whole range (c13_transpose_exact: out = transpose_spec ...
   None, so every clause proved there holds for it), for every worker count and every
   budget - more workers than rows, slices without entries, fewer stored values than
   rows, no stored value, no row at all included (the former findings F2w, F4, F4z,
   F4m).
   Hypothesis (audit 3, item 11): with a value array, no (row, column) pair is stored
   twice.  On a column of 40 entries with rows i mod 3 and values 0..39 (the matrix of
   c13_example_duplicates_excluded) the real function, run here, returns in output row 1
     n_processors=1: data [13, 4, 31, 28, 25, 16, 19, 22, 7, 1, 34, 10, 37]
     n_processors=2: data [10, 7, 22, 19, 13, 16, 4, 1, 28, 25, 34, 31, 37]
     n_processors=3: data [1, 4, 7, 10, 13, 16, 19, 22, 25, 28, 31, 34, 37]
   (the auditor's run: n_proc 1 row 1 data [11.0, 14.0, 2.0, 5.0, ...], n_proc 2 row 1 data
   [2.0, 5.0, 8.0, 11.0, ...]): np.argsort is not stable above 16 elements, so the order of
   the values of exact duplicates depends on the worker count; indptr [0, 14, 27, 40] and
   the indices are the same in the three runs.  The model (stable sort) answers the
   n_processors=3 row for every worker count, so without the hypothesis the theorem would
   claim a worker-count independence the code does not have. *)
Theorem c13_parallel_concat : forall m use_data indices_max n_proc E L Lc,
  hd 1 (ptr m) = 0 /\ mono (ptr m) /\ last (ptr m) 0 = length (idx m) ->
  (use_data = true -> no_dup_minor m) ->
  1 <= n_proc -> 1 <= L -> 1 <= Lc -> (use_data = true -> length (dat m) = length (idx m)) ->
  Forall (fun r => r < indices_max) (idx m) ->
  transpose_v2 m use_data indices_max n_proc E L Lc = Ok (transpose_spec m use_data indices_max None).
Proof. exact transpose_v2_guarded. Qed.
Print Assumptions c13_parallel_concat.

(* the slices the parallel version hands to its workers (v2_slices indices_max n_proc =
   range(0, indices_max, max(1, ceil(indices_max / n_proc))) with i1 = min(indices_max,
   i0 + size); last conjunct: these ARE the slices transpose_v2 maps the serial function
   over - that conjunct is the definition of v2_slices unfolded in transpose_v2: by
   construction of the model; the content is in the tie, which compares transpose_v2 with
   the real _transpose_sparse_matrix_on_disk_v2 for 1..4 workers): they tile [0, indices_max) - the first starts at 0, each starts where the
   previous one ended, the last ends at indices_max -, each has lo < hi <= indices_max, so
   none is the reversed slice excluded in c13_transpose_exact, and there are at most
   n_proc of them. *)
Theorem c13_parallel_slices : forall m use_data indices_max n_proc E L Lc,
  1 <= n_proc ->
  let sls := v2_slices indices_max n_proc in
  chained 0 sls indices_max /\
  Forall (fun s => fst s < snd s /\ snd s <= indices_max /\
                   (forall s', Some s = Some s' -> fst s' <= snd s')) sls /\
  length sls <= n_proc /\
  transpose_v2 m use_data indices_max n_proc E L Lc =
  bind (res_map (fun s => match transpose m use_data indices_max (Some s) E L Lc with
                          | Ok t => Ok (t_out t)
                          | Err _ => Err EWorker
                          end) sls) (fun pieces =>
  let indices_size := sum_list (map (fun p => length (idx p)) pieces) in
  let r := merge_from 0 pieces in
  Ok {| ptr := fst r ++ [indices_size]; idx := fst (snd r); dat := snd (snd r) |}).
Proof. exact v2_slices_ok. Qed.
Print Assumptions c13_parallel_slices.

(* the direct value clause of the parallel version (c13_parallel_concat composed with
   c13_transpose_exact): for every well-formed CSC input, every worker count >= 1 and
   every budget the parallel function returns what the serial one returns on the whole
   range, a well-formed compressed matrix (pointer array from 0, monotone, indices_max + 1
   entries, ending at the number of stored entries = that of the input; column indices
   below the number of columns, sorted - strictly when the input stores no pair twice -
   inside every row) whose dense view is the transpose of the dense view of the input.
   Hypothesis (audit 3, item 11; see c13_parallel_concat for the real outputs): with a
   value array no (row, column) pair is stored twice - otherwise the values of the real
   result depend on the worker count. *)
Theorem c13_parallel_exact : forall m n_major use_data indices_max n_proc E L Lc,
  wf_comp m indices_max -> length (ptr m) = S n_major ->
  (use_data = true -> length (dat m) = length (idx m)) ->
  (use_data = true -> no_dup_minor m) ->
  1 <= n_proc -> 1 <= L -> 1 <= Lc ->
  exists out, transpose_v2 m use_data indices_max n_proc E L Lc = Ok out /\
    (exists t, transpose m use_data indices_max None E L Lc = Ok t /\ t_out t = out) /\
    hd 1 (ptr out) = 0 /\ mono (ptr out) /\ length (ptr out) = S indices_max /\
    last (ptr out) 0 = length (idx out) /\
    length (idx out) = length (idx m) /\
    Forall (fun c => c < n_major) (idx out) /\
    (forall r, r < indices_max ->
       let seg := slice (idx out) (nth r (ptr out) 0) (nth (S r) (ptr out) 0) in
       mono seg /\ (no_dup_minor m -> strictly_increasing seg = true)) /\
    (use_data = true ->
       length (dat out) = length (idx out) /\
       (forall r j, r < indices_max -> j < n_major -> cell out r j = cell m j r) /\
       dense_of out indices_max n_major =
       map (fun r => map (fun j => cell m j r) (seq 0 n_major)) (seq 0 indices_max)).
Proof. exact transpose_v2_full. Qed.
Print Assumptions c13_parallel_exact.

(* in particular without any stored value: the empty matrix *)
Theorem c13_parallel_empty : forall m use_data indices_max n_proc E L Lc,
  1 <= n_proc -> 1 <= L -> 1 <= Lc -> idx m = [] -> (use_data = true -> dat m = []) ->
  transpose_v2 m use_data indices_max n_proc E L Lc =
  Ok {| ptr := repeat 0 (S indices_max); idx := []; dat := [] |}.
Proof. exact transpose_v2_empty. Qed.
Print Assumptions c13_parallel_empty.

(* ---- _get_slices_for_copy: in every dimension the hyperslab bounds start at 0, are
   contiguous and non-empty, end at the extent, and cutting along them and gluing gives
   the data back: the hyperslabs tile the dataset exactly once *)
Theorem c13_slices_partition : forall shape per_dim,
  Forall2 (fun n chs =>
             chained 0 chs n /\
             forall (A : Type) (l : list A), length l = n ->
               concat (map (fun ch => slice l (fst ch) (snd ch)) chs) = l)
          shape (slices_for_copy shape per_dim).
Proof. exact slices_partition. Qed.
Print Assumptions c13_slices_partition.

(* copy_h5_excluding_data on 1-d and (rectangular) 2-d datasets copies the data *)
Theorem c13_copy_h5_1d : forall (l : list Z) max_elements, copy_h5_1d l max_elements = l.
Proof. exact (@copy_h5_1d_exact Z). Qed.
Print Assumptions c13_copy_h5_1d.

Theorem c13_copy_h5_2d : forall (d : dense) nr nc per_dim,
  length d = nr -> Forall (fun row => length row = nc) d -> copy_h5_2d d nr nc per_dim = d.
Proof. exact copy_h5_2d_exact. Qed.
Print Assumptions c13_copy_h5_2d.

(* ---- copy_layer_to_x, sparse layer: each of the three arrays - an empty one included
   (the former finding F-copy-layer-empty-sparse) - is copied as it is, whatever chunk
   shape HDF5 reports for it (a chunk dimension is at least 1; it may exceed the extent) *)
Theorem c13_copy_layer_sparse : forall (l : list Z) chunks,
  (forall c, chunks = Some c -> 1 <= c) -> copy_array l chunks = Ok l.
Proof. exact (@copy_array_total Z). Qed.
Print Assumptions c13_copy_layer_sparse.

(* dense layer: whenever the chunked copy is accepted it is the identity *)
Theorem c13_copy_layer_dense : forall (d : dense) nr nc chunks out,
  length d = nr -> Forall (fun row => length row = nc) d ->
  copy_dense d nr nc chunks = Ok out -> out = d.
Proof. exact copy_dense_exact. Qed.
Print Assumptions c13_copy_layer_dense.

(* total form: the copy is accepted - and is the identity - exactly on the chunk shapes
   h5py accepts for the destination: the chunk shape of a chunked source (1 <= chunk <=
   extent in both dimensions, which HDF5 guarantees for a fixed-size dataset) or, for a
   contiguous source (chunks = None: rows // 10 capped at 10000, or all rows, by all
   columns), an array with at least one row and one column; everywhere else create_dataset
   raises ValueError (a chunk dimension 0 or beyond the extent) *)
Theorem c13_copy_layer_dense_total : forall (d : dense) nr nc chunks,
  length d = nr -> Forall (fun row => length row = nc) d ->
  let accepted := match chunks with
                  | Some c => 1 <= fst c <= nr /\ 1 <= snd c <= nc
                  | None => 1 <= nr /\ 1 <= nc
                  end in
  (accepted -> copy_dense d nr nc chunks = Ok d) /\
  (~ accepted -> copy_dense d nr nc chunks = Err EValue).
Proof. exact copy_dense_total. Qed.
Print Assumptions c13_copy_layer_dense_total.

(* ---- shuffle_csr_h5ad_rows (precompute_indptr + the row-by-row copy into datasets of
   the original size): for every well-formed CSR matrix - duplicate minor indices inside
   a row allowed - and EVERY permutation new_row_order of its rows the function returns
   a well-formed CSR matrix with the same number of stored entries in which
   - the stored entries of row i (indices and values, in storage order, explicit zeros
     included) are exactly those of input row new_row_order[i]   (row_entries);
   - hence every cell, and the dense view: row i of the output is row new_row_order[i]
     of the input;
   - no row stores a column twice if no input row does. *)
Theorem c13_shuffle_rows : forall m nr nc order,
  wf_csr m nr nc -> Permutation order (seq 0 nr) ->
  exists out, shuffle_rows m order = Ok out /\
    wf_csr out nr nc /\ length (idx out) = length (idx m) /\
    (forall i, i < nr -> row_entries out i = row_entries m (nth i order 0)) /\
    (forall i x, i < nr -> cell out i x = cell m (nth i order 0) x) /\
    dense_of out nr nc = map (fun r => nth r (dense_of m nr nc) []) order /\
    (no_dup_minor m -> no_dup_minor out).
Proof. exact shuffle_rows_exact. Qed.
Print Assumptions c13_shuffle_rows.

(* the hypothesis "permutation of ALL rows" cannot be weakened to "duplicate-free list of
   rows": shuffle_csr_h5ad_rows does not validate new_row_order; a list that leaves rows
   out is accepted and the file written is not a CSR matrix (indptr zero-padded, hence
   decreasing; X keeps the old shape while obs has fewer rows; anndata refuses to read it).
   Witness: the 4 x 3 matrix of c13_ex and new_row_order = [2; 0]. *)
Theorem c13_shuffle_rows_sublist_refuted :
  exists m order out,
    wf_csr m 4 3 /\ no_dup_minor m /\ NoDup order /\ Forall (fun r => r < 4) order /\
    shuffle_rows m order = Ok out /\ ptr out = [0; 1; 0; 0; 5] /\ ~ mono (ptr out).
Proof. exact shuffle_rows_sublist_refuted. Qed.
Print Assumptions c13_shuffle_rows_sublist_refuted.

(* ---- subset_csc_h5ad_columns.  The input is CSC: its major slices are the columns
   (wf_csr m n_cols n_rows: n_cols + 1 pointers, row indices below n_rows).  For EVERY
   list of columns below n_cols (the correspondence check drives non-empty
   duplicate-free lists; a repeated column is simply kept as often as it is listed) the
   function returns a well-formed CSC matrix with one column per chosen column, and
   with cs = the chosen columns in increasing order (np.sort: sorted, a permutation of
   the list)
   - the stored entries of output column i (row indices and values, in storage order)
     are exactly those of input column cs[i]: values intact;
   - hence cell (row r, new column i) = cell (row r, old column cs[i]) for every r, and
     the column-major dense view consists of exactly the chosen columns, in order. *)
Theorem c13_subset_columns : forall m n_cols n_rows chosen,
  wf_csr m n_cols n_rows -> Forall (fun c => c < n_cols) chosen ->
  let cs := sort_by (fun x => x) chosen in
  let k := length chosen in
  Sorted le cs /\ Permutation cs chosen /\
  exists out, subset_columns m chosen = Ok out /\
    wf_csr out k n_rows /\
    (forall i, i < k -> row_entries out i = row_entries m (nth i cs 0)) /\
    (forall i r, i < k -> cell out i r = cell m (nth i cs 0) r) /\
    dense_of out k n_rows = map (fun c => nth c (dense_of m n_cols n_rows) []) cs /\
    (no_dup_minor m -> no_dup_minor out).
Proof. exact subset_columns_exact. Qed.
Print Assumptions c13_subset_columns.

(* ---- amalgamate_h5ad.  A source is a CSR matrix (SrcSparse; a CSC source enters as the
   CSR arrays of the same matrix, its transposition being c13_transpose_exact) or a dense
   array (SrcDense) together with the list of rows taken from it; source_ok nc: the
   matrix is well formed with nc columns and stores no (row, column) pair twice, the row
   list is non-empty, duplicate-free and in range (other lists are refused:
   c05_get_batch_rejects).  amalgamate_to_dense / amalgamate_to_csr are the bodies of
   the entry points the correspondence check drives (c13_amalgamate_wire).
   For EVERY list of admissible sources, with D = the selected rows of source 1 in the
   requested order, then those of source 2, ... (source_rows reads them off the dense
   views):
   - the dense destination is exactly D, a rectangular array with at least one row -
     provided there is at least one source and at least one column: the real
     amalgamate_dense_to_x creates the dataset with chunks=(min(n_rows,1000),
     min(n_cols,1000)) and h5py raises ValueError on a zero chunk dimension (zero
     columns), and without any source its shape test raises RuntimeError, whereas the
     model's concat answers Ok [] (c13_example_amalgamate_guard); checked against the real
     amalgamate_h5ad: both excluded inputs raise for dst_sparse=False and succeed for
     dst_sparse=True;
   - the sparse destination (no such guard), told the total number of rows, is a
     well-formed duplicate-free CSR matrix whose dense view is D: both destinations agree. *)
Theorem c13_amalgamate : forall srcs nc,
  Forall (source_ok nc) srcs ->
  let D := concat (map (source_rows nc) srcs) in
  (srcs <> [] -> 1 <= nc ->
     amalgamate_to_dense srcs = Ok D /\ 1 <= length D /\ Forall (fun row => length row = nc) D) /\
  exists out, amalgamate_to_csr srcs (length D) = Ok out /\
    wf_csr out (length D) nc /\ no_dup_minor out /\ dense_of out (length D) nc = D.
Proof. exact amalgamate_exact_guarded. Qed.
Print Assumptions c13_amalgamate.

(* the joining step on its own (amalgamate_csr_to_x = merge_csr + the row count): pieces
   of n_k rows are joined into a well-formed matrix of sum n_k rows whose dense view is
   the concatenation of theirs, which is what amalgamate_dense_to_x writes
   (amalgamate_dense := concat, by definition of the model; the former last conjunct, which
   repeated the equation with amalgamate_dense on the right, was convertible to this one and
   has been dropped).
   Scope: the row count passed is the total number of rows of the pieces (what
   _amalgamate_h5ad passes when len(dst_obs) is the number of selected rows); for any other
   row count see c13_amalgamate_rowcount_unchecked. *)
Theorem c13_amalgamate_join : forall pieces ns nc,
  Forall2 (fun p n => wf_csr p n nc /\ no_dup_minor p) pieces ns ->
  exists out, amalgamate_csr pieces (sum_list ns) = Ok out /\
    wf_csr out (sum_list ns) nc /\ no_dup_minor out /\
    dense_of out (sum_list ns) nc =
    concat (map (fun pn => dense_of (fst pn) (snd pn) nc) (combine pieces ns)).
Proof. exact amalgamate_csr_join. Qed.
Print Assumptions c13_amalgamate_join.

(* the row count is NOT validated by the sparse destination (model changed after the audit
   to what amalgamate_csr_to_x does: n_rows + 1 zeros, pieces written at the running row
   position, last entry = n_valid; the former model answered Err EReject for every row
   count other than the number of rows, which Python does not): well-formed pieces of
   1 + 2 rows joined under the row count 3 give the CSR matrix; under 4 the function
   returns normally with the pointer array [0; 0; 1; 0; 2], which is not monotone; under 2
   it returns normally with a row boundary overwritten; under 1 h5py refuses (TypeError:
   the clipped slice cannot take the 2-row piece; a clipped 1-row piece is broadcast away).  Reached
   through amalgamate_h5ad(dst_sparse=True) whenever len(dst_obs) is not the number of
   selected rows (the dense destination raises RuntimeError there): reported to the lead
   as a finding candidate (class amalgamate-sparse-rowcount-unchecked), like
   c13_shuffle_rows_sublist_refuted. *)
Theorem c13_amalgamate_rowcount_unchecked :
  Forall2 (fun p n => wf_csr p n 4 /\ no_dup_minor p) rc_pieces [1; 2] /\
  amalgamate_csr rc_pieces 3 = Ok {| ptr := [0; 0; 1; 2]; idx := [3; 0]; dat := [7; 8]%Z |} /\
  (exists out, amalgamate_csr rc_pieces 4 = Ok out /\ ptr out = [0; 0; 1; 0; 2] /\ ~ mono (ptr out)) /\
  amalgamate_csr rc_pieces 2 = Ok {| ptr := [0; 0; 2]; idx := [3; 0]; dat := [7; 8]%Z |} /\
  amalgamate_csr rc_pieces 1 = Err EReject.
Proof. exact amalgamate_rowcount_unchecked. Qed.
Print Assumptions c13_amalgamate_rowcount_unchecked.

(* entry points 1305 / 1306 = amalgamate_to_csr / amalgamate_to_dense on the decoded wire *)
Theorem c13_amalgamate_wire : forall srcs nr ss n,
  sx_list sx_source srcs = Some ss -> sx_nat nr = Some n ->
  run_amalgamate_sparse (L [srcs; nr]) = of_res of_comp (amalgamate_to_csr ss n) /\
  run_amalgamate_dense srcs = of_res of_dense (amalgamate_to_dense ss).
Proof. exact run_amalgamate_decoded. Qed.
Print Assumptions c13_amalgamate_wire.

(* ---- non-vacuity: a 3 x 4 matrix (indices_max = 3 rows, 4 columns) in CSC form with
   an empty column and an empty row satisfies the hypotheses, and the function run
   with E = 2, L = 2, Lc = 1 returns the transpose in two blocks *)
Definition c13_ex : comp :=
  {| ptr := [0; 2; 2; 3; 5]; idx := [0; 2; 2; 0; 2]; dat := [5; 6; 7; 8; 9]%Z |}.
Example c13_example_wf :
  wf_comp c13_ex 3 /\ length (ptr c13_ex) = 5 /\ length (dat c13_ex) = length (idx c13_ex) /\
  no_dup_minor c13_ex.
Proof.
  split; [|split; [reflexivity | split; [reflexivity|]]].
  - unfold wf_comp, c13_ex; cbn [ptr idx dat hd last length mono].
    split; [reflexivity | split; [reflexivity | split]].
    + lia.
    + repeat (apply Forall_cons; [lia|]). apply Forall_nil.
  - intros j Hj. unfold c13_ex in *; cbn [ptr idx dat length] in *.
    assert (D : j = 0 \/ j = 1 \/ j = 2 \/ j = 3) by lia.
    destruct D as [ -> | [ -> | [ -> | -> ] ] ]; vm_compute;
      repeat (apply NoDup_cons; [cbn [In]; lia|]); apply NoDup_nil.
Qed.
Example c13_example_run :
  match transpose c13_ex true 3 None 2 2 1 with
  | Ok t => t_out t = {| ptr := [0; 2; 2; 5]; idx := [0; 3; 0; 2; 3]; dat := [5; 8; 6; 7; 9]%Z |} /\
            t_blocks t = [(0, 1); (1, 3)]
  | Err _ => False
  end /\
  dense_of c13_ex 4 3 = [[5; 0; 6]; [0; 0; 0]; [0; 0; 7]; [8; 0; 9]]%Z.
Proof. vm_compute. repeat split; reflexivity. Qed.
Example c13_example_slice :
  match transpose c13_ex true 3 (Some (1, 3)) 100 100 100 with
  | Ok t => t_out t = {| ptr := [0; 0; 3]; idx := [0; 2; 3]; dat := [6; 7; 9]%Z |}
  | Err _ => False
  end.
Proof. vm_compute. reflexivity. Qed.
(* a slice without entries (row 1 of c13_ex), a matrix without any stored value, a
   matrix without rows: the empty matrix, serial and parallel, with a value array *)
Definition c13_zero : comp := {| ptr := [0; 0; 0; 0; 0]; idx := []; dat := [] |}.
Example c13_example_empty :
  match transpose c13_ex true 3 (Some (1, 2)) 2 2 1 with
  | Ok t => t_out t = {| ptr := [0; 0]; idx := []; dat := [] |} /\ t_blocks t = [(0, 1)]
  | Err _ => False
  end /\
  match transpose c13_zero true 3 None 2 2 1 with
  | Ok t => t_out t = {| ptr := [0; 0; 0; 0]; idx := []; dat := [] |} /\ t_blocks t = [(0, 3)]
  | Err _ => False
  end /\
  transpose_v2 c13_zero true 3 2 2 2 1 = Ok {| ptr := [0; 0; 0; 0]; idx := []; dat := [] |} /\
  transpose_v2 c13_zero true 0 2 2 2 1 = Ok {| ptr := [0]; idx := []; dat := [] |} /\
  (* more workers than rows; fewer stored values than rows + 1 (the former F4) *)
  transpose_v2 c13_ex true 3 5 2 2 1 =
  Ok {| ptr := [0; 2; 2; 5]; idx := [0; 3; 0; 2; 3]; dat := [5; 8; 6; 7; 9]%Z |} /\
  transpose_v2 {| ptr := [0; 1; 1]; idx := [2]; dat := [4]%Z |} true 3 1 2 2 1 =
  Ok {| ptr := [0; 0; 0; 1]; idx := [0]; dat := [4]%Z |} /\
  copy_array (@nil Z) (Some 1024) = Ok [] /\
  amalgamate_csr [{| ptr := [0; 0]; idx := []; dat := [] |};
                  {| ptr := [0; 1; 2]; idx := [3; 0]; dat := [7; 8]%Z |}] 3 =
  Ok {| ptr := [0; 0; 1; 2]; idx := [3; 0]; dat := [7; 8]%Z |}.
Proof. vm_compute. repeat split; reflexivity. Qed.
Example c13_example_slices : slices_for_copy [5; 3] 2 = [[(0, 2); (2, 4); (4, 5)]; [(0, 2); (2, 3)]].
Proof. vm_compute. reflexivity. Qed.
Example c13_example_parallel :
  transpose_v2 c13_ex true 3 2 2 2 1 =
  Ok {| ptr := [0; 2; 2; 5]; idx := [0; 3; 0; 2; 3]; dat := [5; 8; 6; 7; 9]%Z |}.
Proof. vm_compute. reflexivity. Qed.

(* shuffle_rows: the 4 x 3 CSR reading of c13_ex (rows = its major slices) and the
   permutation [2; 0; 3; 1] satisfy the hypotheses of c13_shuffle_rows *)
Example c13_example_shuffle :
  wf_csr c13_ex 4 3 /\ Permutation [2; 0; 3; 1] (seq 0 4) /\
  shuffle_rows c13_ex [2; 0; 3; 1] =
    Ok {| ptr := [0; 1; 3; 5; 5]; idx := [2; 0; 2; 0; 2]; dat := [7; 5; 6; 8; 9]%Z |} /\
  dense_of c13_ex 4 3 = [[5; 0; 6]; [0; 0; 0]; [0; 0; 7]; [8; 0; 9]]%Z.
Proof.
  destruct c13_example_wf as (W & HP & HD & _).
  split; [split; [exact W | split; [exact HP | exact HD]]|].
  split.
  - cbn [seq].
    apply (perm_trans (l' := [0; 2; 3; 1])); [apply perm_swap|]. apply perm_skip.
    apply (perm_trans (l' := [2; 1; 3])); [apply perm_skip, perm_swap|].
    apply (perm_trans (l' := [1; 2; 3])); [apply perm_swap | apply Permutation_refl].
  - vm_compute. split; reflexivity.
Qed.

(* subset_columns: c13_ex as the CSC matrix it is (4 columns, 3 rows) and the columns
   [3; 0] satisfy the hypotheses of c13_subset_columns; they are kept in increasing order *)
Example c13_example_subset :
  wf_csr c13_ex 4 3 /\ Forall (fun c => c < 4) [3; 0] /\
  sort_by (fun x => x) [3; 0] = [0; 3] /\
  subset_columns c13_ex [3; 0] =
    Ok {| ptr := [0; 2; 4]; idx := [0; 2; 0; 2]; dat := [5; 6; 8; 9]%Z |}.
Proof.
  destruct c13_example_wf as (W & HP & HD & _).
  split; [split; [exact W | split; [exact HP | exact HD]]|].
  split; [repeat (apply Forall_cons; [lia|]); apply Forall_nil|].
  vm_compute. split; reflexivity.
Qed.

(* amalgamate: rows [3; 0] of the 4 x 3 CSR reading of c13_ex and row [1] of a dense
   2 x 3 array are admissible sources; both destinations hold the same 3 rows *)
Definition c13_srcs : list source :=
  [SrcSparse c13_ex 3 [3; 0]; SrcDense [[1; 0; 2]; [0; 0; 4]]%Z 2 [1]].
Example c13_example_amalgamate :
  Forall (source_ok 3) c13_srcs /\
  concat (map (source_rows 3) c13_srcs) = [[8; 0; 9]; [5; 0; 6]; [0; 0; 4]]%Z /\
  amalgamate_to_dense c13_srcs = Ok [[8; 0; 9]; [5; 0; 6]; [0; 0; 4]]%Z /\
  amalgamate_to_csr c13_srcs 3 =
    Ok {| ptr := [0; 2; 4; 5]; idx := [0; 2; 0; 2; 2]; dat := [8; 9; 5; 6; 4]%Z |}.
Proof.
  destruct c13_example_wf as (W & HP & HD & ND).
  split.
  - constructor; [|constructor; [|constructor]].
    + cbn [source_ok]. split; [reflexivity|].
      split; [split; [exact W | split; [reflexivity | exact HD]]|]. split; [exact ND|].
      split; [discriminate|]. split; [repeat (apply NoDup_cons; [cbn [In]; lia|]); apply NoDup_nil|].
      cbn. repeat (apply Forall_cons; [lia|]). apply Forall_nil.
    + cbn [source_ok]. split; [reflexivity|].
      split; [repeat (apply Forall_cons; [reflexivity|]); apply Forall_nil|].
      split; [discriminate|]. split; [repeat (apply NoDup_cons; [cbn [In]; lia|]); apply NoDup_nil|].
      repeat (apply Forall_cons; [lia|]). apply Forall_nil.
  - vm_compute. repeat split; reflexivity.
Qed.

(* ---- the guards added after the audit: each excluded input is exactly where the real
   function raises while the (total) model answers *)
(* a reversed slice: Python raises ValueError (np.zeros(1 - 3)); the model's truncated
   subtraction gives the matrix with no row *)
Example c13_example_reversed_slice :
  ~ (fst (3, 1) <= snd (3, 1)) /\
  match transpose c13_ex true 3 (Some (3, 1)) 2 2 1 with
  | Ok t => t_out t = {| ptr := [0]; idx := []; dat := [] |} /\ t_blocks t = []
  | Err _ => False
  end.
Proof. split; [cbn; lia|]. vm_compute. split; reflexivity. Qed.
(* the count pass: c13_ex (minor indices 0..2, n = 3; and its slice (1, 3), n = 2) meets
   the hypothesis of c13_count_pass; a minor index 5 >= n = 3 without a slice does not:
   Python raises IndexError (cumulative_count[5]), calc_indptr alone drops the entry from
   the counts but not from n_non_zero (pointer array ending at 2, n_non_zero = 3), and the
   model's entry point answers Err EIndex as Python does *)
Example c13_example_count_pass_guard :
  Forall (fun e => e_minor e < 3) (apply_slice None (all_entries c13_ex false)) /\
  calc_indptr (all_entries c13_ex false) 3 None 2 = ([0; 2; 2; 5], 5) /\
  Forall (fun e => e_minor e < 2) (apply_slice (Some (1, 3)) (all_entries c13_ex false)) /\
  calc_indptr (all_entries c13_ex false) 2 (Some (1, 3)) 2 = ([0; 0; 3], 3) /\
  let bad := {| ptr := [0; 3]; idx := [0; 1; 5]; dat := [] |} in
  ~ Forall (fun e => e_minor e < 3) (apply_slice None (all_entries bad false)) /\
  calc_indptr (all_entries bad false) 3 None 1 = ([0; 1; 2; 2], 3) /\
  transpose bad false 3 None 2 2 1 = Err EIndex.
Proof.
  split; [vm_compute; repeat (apply Forall_cons; [cbn; lia|]); apply Forall_nil|].
  split; [vm_compute; reflexivity|].
  split; [vm_compute; repeat (apply Forall_cons; [cbn; lia|]); apply Forall_nil|].
  split; [vm_compute; reflexivity|]. cbv zeta.
  split; [|split; vm_compute; reflexivity].
  vm_compute. intros H. inversion H as [|? ? _ H1]; subst. inversion H1 as [|? ? _ H2]; subst.
  inversion H2 as [|? ? H3 _]; subst. cbn in H3. lia.
Qed.
(* a pointer array that is not monotone: the model's column lookup and numpy's
   np.searchsorted([2, 0, 3], [0, 1, 2], side='right') - 1 = [1, 1, 1] differ, which is why
   c13_transpose_is_spec / c13_parallel_concat carry the well-formedness hypothesis *)
Example c13_example_nonmonotone_ptr :
  ~ mono [2; 0; 3] /\
  map e_major (all_entries {| ptr := [2; 0; 3]; idx := [0; 0; 0]; dat := [] |} false) = [0; 0; 1].
Proof. split; [cbn; lia | vm_compute; reflexivity]. Qed.
(* the stored pattern: c13_ex, its slice (1, 3), output row 1 = input row 2; column 2
   stores row 2, column 0 does not store row 1 *)
Example c13_example_pattern :
  wf_comp c13_ex 3 /\ 1 < n_out_of 3 (Some (1, 3)) /\ 3 < length (ptr c13_ex) /\
  stored (transpose_spec c13_ex false 3 (Some (1, 3))) 1 2 = true /\ stored c13_ex 2 (1 + 1) = true /\
  stored (transpose_spec c13_ex false 3 (Some (1, 3))) 0 0 = false /\ stored c13_ex 0 (1 + 0) = false.
Proof.
  destruct c13_example_wf as (W & _). split; [exact W|].
  split; [cbn; lia|]. split; [cbn; lia|]. vm_compute. repeat split; reflexivity.
Qed.
(* the slices of the parallel version: 7 rows over 3 workers, more workers than rows,
   no row at all *)
Example c13_example_parallel_slices :
  v2_slices 7 3 = [(0, 3); (3, 6); (6, 7)] /\ v2_slices 3 5 = [(0, 1); (1, 2); (2, 3)] /\
  v2_slices 0 2 = [] /\ v2_slices 10 4 = [(0, 3); (3, 6); (6, 9); (9, 10)].
Proof. vm_compute. repeat split; reflexivity. Qed.
(* the parallel value clause on c13_ex (hypotheses: c13_example_wf): the dense view of the
   result is the transpose of the column-major dense view of c13_example_run *)
Example c13_example_parallel_exact :
  match transpose_v2 c13_ex true 3 2 2 2 1 with
  | Ok out => dense_of out 3 4 = [[5; 0; 0; 8]; [0; 0; 0; 0]; [6; 0; 7; 9]]%Z
  | Err _ => False
  end /\
  map (fun r => map (fun j => cell c13_ex j r) (seq 0 4)) (seq 0 3) =
  [[5; 0; 0; 8]; [0; 0; 0; 0]; [6; 0; 7; 9]]%Z.
Proof. vm_compute. split; reflexivity. Qed.
(* audit 3, item 11: one column of 40 stored entries, rows i mod 3, values 0..39 - well
   formed, but every (row, column) pair is stored 13 or 14 times, so it violates
   no_dup_minor and is EXCLUDED from c13_transpose_exact / c13_transpose_is_spec /
   c13_parallel_concat / c13_parallel_exact with a value array.  That is exactly where the
   real result depends on the worker count (outputs quoted at c13_parallel_concat); the
   model's answer for output row 1, whatever the worker count, is the stable order
   1, 4, ..., 37.  c13_ex (c13_example_wf) satisfies no_dup_minor: the hypothesis is
   satisfiable. *)
Definition c13_dup : comp :=
  {| ptr := [0; 40]; idx := map (fun i => i mod 3) (seq 0 40); dat := map Z.of_nat (seq 0 40) |}.
Example c13_example_duplicates_excluded :
  wf_comp c13_dup 3 /\ length (ptr c13_dup) = 2 /\ length (dat c13_dup) = length (idx c13_dup) /\
  ~ no_dup_minor c13_dup /\
  (forall n_proc, In n_proc [1; 2; 3] ->
     match transpose_v2 c13_dup true 3 n_proc 2 7 5 with
     | Ok out => ptr out = [0; 14; 27; 40] /\
                 slice (dat out) 14 27 = [1; 4; 7; 10; 13; 16; 19; 22; 25; 28; 31; 34; 37]%Z
     | Err _ => False
     end).
Proof.
  split.
  { split; [reflexivity|]. split; [reflexivity|]. split.
    - cbn. lia.
    - apply Forall_forall. intros x Hx. vm_compute in Hx.
      repeat (destruct Hx as [Hx|Hx]; [subst x; lia|]). destruct Hx. }
  split; [reflexivity|]. split; [reflexivity|]. split.
  - intros ND. specialize (ND 0 ltac:(cbn; lia)). vm_compute in ND.
    apply NoDup_cons_iff in ND. destruct ND as [NI _]. apply NI. cbn. tauto.
  - intros n_proc Hn. cbn [In] in Hn.
    destruct Hn as [Hn|[Hn|[Hn|[]]]]; subst n_proc; vm_compute; split; reflexivity.
Qed.
(* copy_layer_to_x, dense layer: a 3 x 3 array with the chunk shape (2, 2) and as a
   contiguous dataset meets the hypotheses of c13_copy_layer_dense(_total) and is copied
   as it is; an array without rows (contiguous) and a chunk shape beyond the extent are
   where h5py raises ValueError; copy_h5_excluding_data on the same array with hyperslabs
   of 2 per dimension (hypotheses of c13_copy_h5_2d) *)
Definition c13_arr : dense := [[1; 2; 3]; [4; 5; 6]; [7; 8; 9]]%Z.
Example c13_example_copy_dense :
  length c13_arr = 3 /\ Forall (fun row => length row = 3) c13_arr /\
  copy_dense c13_arr 3 3 (Some (2, 2)) = Ok c13_arr /\ copy_dense c13_arr 3 3 None = Ok c13_arr /\
  copy_dense [] 0 3 None = Err EValue /\ copy_dense [[1; 2; 3]]%Z 1 3 (Some (2, 3)) = Err EValue /\
  copy_h5_2d c13_arr 3 3 2 = c13_arr.
Proof.
  split; [reflexivity|]. split; [repeat (apply Forall_cons; [reflexivity|]); apply Forall_nil|].
  vm_compute. repeat split; reflexivity.
Qed.
(* amalgamate, dense destination: without a source, and with sources of zero columns, the
   model answers Ok while the real amalgamate_h5ad(dst_sparse=False) raises (RuntimeError
   "Expected shape ..." / ValueError "All chunk dimensions must be positive"); the sparse
   destination writes the empty matrix in both cases, in the model and in Python *)
Example c13_example_amalgamate_guard :
  amalgamate_to_dense [] = Ok [] /\
  amalgamate_to_csr [] 0 = Ok {| ptr := [0]; idx := []; dat := [] |} /\
  Forall (source_ok 0) [SrcDense [[]; []] 2 [1; 0]] /\
  amalgamate_to_dense [SrcDense [[]; []] 2 [1; 0]] = Ok [[]; []] /\
  amalgamate_to_csr [SrcDense [[]; []] 2 [1; 0]] 2 = Ok {| ptr := [0; 0; 0]; idx := []; dat := [] |}.
Proof.
  split; [reflexivity|]. split; [reflexivity|]. split; [|split; vm_compute; reflexivity].
  constructor; [|constructor]. cbn [source_ok]. split; [reflexivity|].
  split; [repeat (apply Forall_cons; [reflexivity|]); apply Forall_nil|].
  split; [discriminate|]. split; [repeat (apply NoDup_cons; [cbn [In]; lia|]); apply NoDup_nil|].
  repeat (apply Forall_cons; [lia|]). apply Forall_nil.
Qed.
