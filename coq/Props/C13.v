(* C13 — on-disk sparse transposition and reshaping preserve the matrix. (theorems follow) *)
From Coq Require Import List.
