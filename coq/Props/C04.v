(* C04 — results depend only on inputs and seed, never on scheduling.
   Property theorems only: each is closed by `exact <lemma>`.

   PARTIAL BY NATURE (DESIGN §11): the theorems cover the gather / merge logic for EVERY
   completion order (a permutation of the chunk indices, or a `world` of Model/Pool.v) and
   every worker count.  That the runtime produces ONLY completion-order nondeterminism (no
   state shared between forked workers, files written whole before exit, no set/dict
   iteration order leaking into an output) is established by the controlled-schedule and
   hash-seed runs of harness/props/c04.py (bitwise comparison of the outputs), not proved. *)
From Coq Require Import ZArith List Bool Permutation.
From CTM Require Import Base.Sx Base.SortX Model.Pool Model.Gather Model.Tree Model.Markers
  Proofs.PoolP Proofs.GatherP Proofs.SelPoolP Proofs.MarkersP Proofs.CacheOrderP.
Import ListNotations.

(* mapping, shared-list path: for every per-chunk worker `work` (any function of the chunk
   index and its seed), every seed list and any two completion orders s1 s2 that are
   permutations of each other, the final list (after re_order_blob) is the same — provided
   the gathered records have distinct cell ids (re_order_blob builds a dict) and every worker of
   the completion order has a seed (gather_list reads `nth i seeds 0`: in the code a worker
   without a generator does not exist, so the default 0 must not carry the statement) *)
Theorem c04_mapping_schedule_independent :
  forall (A : Type) (work : nat -> Z -> list (record A)) (cell_order seeds : list Z) (s1 s2 : list nat),
  (forall i, In i s1 -> (i < length seeds)%nat) ->
  Permutation s1 s2 -> NoDup (map fst (gather_list A work seeds s1)) ->
  final_list A work cell_order seeds s1 = final_list A work cell_order seeds s2.
Proof. exact final_list_schedule_independent. Qed.
Print Assumptions c04_mapping_schedule_independent.

(* mapping, buffer-directory path (the one run_mapping uses): the directory listing is
   sorted by name, so already the gathered list is independent of the order (every listed file
   belongs to a worker that has a seed: again the default of `nth _ seeds 0` is excluded) *)
Theorem c04_mapping_buffer_files_independent :
  forall (A : Type) (work : nat -> Z -> list (record A)) (name : nat -> Z) (chunk_of_name : Z -> nat)
         (cell_order seeds : list Z) (s1 s2 : list nat),
  (forall i, In i s1 -> (chunk_of_name (name i) < length seeds)%nat) ->
  Permutation s1 s2 ->
  gather_files A work name chunk_of_name seeds s1 = gather_files A work name chunk_of_name seeds s2 /\
  final_files A work name chunk_of_name cell_order seeds s1 = final_files A work name chunk_of_name cell_order seeds s2.
Proof. exact final_files_schedule_independent. Qed.
Print Assumptions c04_mapping_buffer_files_independent.

(* what the final list is: the query order, each entry one of the gathered records *)
Theorem c04_final_is_query_order :
  forall (A : Type) (co : list Z) (b r : list (record A)),
  re_order A co b = Some r -> map fst r = co /\ forall x, In x r -> In x b.
Proof. exact re_order_spec. Qed.
Print Assumptions c04_final_is_query_order.

(* the guard of the first theorem is needed: with a duplicated cell id the shared-list
   path depends on the completion order (the model says so) *)
Theorem c04_duplicate_ids_refuted :
  let work := fun (i : nat) (_ : Z) => [(7%Z, Z.of_nat i)] in
  final_list Z work [7%Z] [50; 51]%Z [0; 1]%nat = Some [(7, 1)]%Z /\
  final_list Z work [7%Z] [50; 51]%Z [1; 0]%nat = Some [(7, 0)]%Z.
Proof. exact duplicate_ids_order_dependent. Qed.
Print Assumptions c04_duplicate_ids_refuted.

(* seeds: for every parent stream (S, draw), every world (schedule) and every bound n, the
   (worker, seed) pairs handed out by the dispatch loop are a prefix of
   (0,draw_0), (1,draw_1), ...; all k of them when the pool drained cleanly *)
Theorem c04_seeds_fixed_at_dispatch :
  forall (S : Type) (draw : S -> Z * S) (W : world) (n k : nat) (s : S),
  exists m, (m <= k)%nat /\
    snd (run_seeds S draw W n k s) = firstn m (combine (seq 0 k) (draws S draw k s)) /\
    (fst (run_seeds S draw W n k s) = POk ->
     snd (run_seeds S draw W n k s) = combine (seq 0 k) (draws S draw k s)).
Proof. exact seeds_fixed_at_dispatch. Qed.
Print Assumptions c04_seeds_fixed_at_dispatch.

(* ... so the seed of a worker is the same under any two schedules and worker counts *)
Theorem c04_seed_of_worker_schedule_independent :
  forall (S : Type) (draw : S -> Z * S) (W1 W2 : world) (n1 n2 k : nat) (s : S) w z1 z2,
  In (w, z1) (snd (run_seeds S draw W1 n1 k s)) -> In (w, z2) (snd (run_seeds S draw W2 n2 k s)) -> z1 = z2.
Proof. exact seed_of_worker. Qed.
Print Assumptions c04_seed_of_worker_schedule_independent.

(* the mapping stage as a whole (Model/Gather.v mapping_result: chunks derived from n_rows,
   n_processors and chunk_size as run_type_assignment_on_h5ad_cpu derives them; the dispatch loop
   run with n_processors as its bound on the world W, drawing one seed per chunk; gather in the
   order sigma; re_order_blob).  n_processors enters twice -- through the effective chunk size and
   through the bound of the dispatch loop -- and only the former matters: for worker counts
   p1 p2 >= 1 that induce the same effective chunk size, ANY two worlds in which the k workers
   exit with code 0 (any two schedules) and ANY two orders s1 s2 in which the k workers appended
   their records, the mapping is the same, and it is the one of a sequential run (seed of chunk i
   = i-th draw, records gathered in chunk order) -- provided the gathered records have distinct
   cell ids.  (Proof: the verdict of the loop does not depend on the seed stream or the log, clean
   workers give a clean drain for every bound, the seeds are fixed at dispatch, re_order_blob of a
   permutation.)
   Hypothesis 1 <= c (audit 3, item 13): chunk_size 0 is excluded.  There `chunks n 0 = []` and
   the former statement held as None = None, whereas the real row iterator never terminates -
   run here on a 5 x 3 h5ad: `for chunk in AnnDataRowIterator(h5ad_path=p, row_chunk_size=0,
   layer='X', tmp_dir=...)` was stopped after 50 chunks, every one of them
   (array of shape (0, 3), r0 = 0, r1 = 0); with row_chunk_size=2 the chunks are (0,2) (2,4)
   (4,5) as in `chunks 5 2`.  The proof does not use the hypothesis, the FAITHFULNESS of `chunks`
   does; the correspondence checks (harness/props/c04.py, c14.py) only pass chunk sizes >= 1
   (ctx.assumptions).  c04_example_mapping_result: c = 2 satisfies it. *)
Theorem c04_same_chunks_same_result :
  forall (A S : Type) (draw : S -> Z * S) (work_rows : nat -> nat -> Z -> list (record A))
         (cell_order : list Z) (s : S) (n p1 p2 c : nat) (W1 W2 : world) (s1 s2 : list nat),
  (1 <= p1)%nat -> (1 <= p2)%nat -> (1 <= c)%nat ->
  eff_chunk n p1 c = eff_chunk n p2 c ->
  let cs := eff_chunk n p1 c in
  let k := length (chunks n cs) in
  (forall w, (w < k)%nat -> code W1 w = 0%Z) -> (forall w, (w < k)%nat -> code W2 w = 0%Z) ->
  Permutation s1 (seq 0 k) -> Permutation s2 (seq 0 k) ->
  NoDup (map fst (gather_list A (chunk_work A work_rows n cs) (draws S draw k s) s1)) ->
  mapping_result A S draw work_rows cell_order s n p1 c W1 s1 =
  mapping_result A S draw work_rows cell_order s n p2 c W2 s2 /\
  mapping_result A S draw work_rows cell_order s n p1 c W1 s1 =
  final_list A (chunk_work A work_rows n cs) cell_order (draws S draw k s) (seq 0 k).
Proof. exact same_chunks_same_result. Qed.
Print Assumptions c04_same_chunks_same_result.

(* when the two effective chunk sizes are equal: e.g. whenever chunk_size * n_processors <= n_rows
   the requested chunk size is used as given, so every such worker count gives the same chunks *)
Theorem c04_small_chunk_size_used_as_given : forall n p c : nat,
  (1 <= p)%nat -> (1 <= c)%nat -> (c * p <= n)%nat -> eff_chunk n p c = c.
Proof. exact eff_chunk_small. Qed.
Print Assumptions c04_small_chunk_size_used_as_given.

(* a failing worker: no mapping at all (the inspector raises), whatever sigma *)
Theorem c04_mapping_result_failed :
  forall (A S : Type) (draw : S -> Z * S) (work_rows : nat -> nat -> Z -> list (record A))
         (cell_order : list Z) (s : S) (n p c : nat) (W : world) (sigma : list nat),
  (1 <= p)%nat ->
  (exists w, (w < length (chunks n (eff_chunk n p c)))%nat /\ code W w <> 0%Z) ->
  mapping_result A S draw work_rows cell_order s n p c W sigma = None.
Proof. exact mapping_result_failed. Qed.
Print Assumptions c04_mapping_result_failed.

(* statistics.  stats_result folds the partial sums in the order of buffer_path_list, which the
   model reads off the parent's event log (`starts`: the EStart events -- the path is appended
   right before p.start(), at dispatch, before any worker finishes).  For EVERY world, bound and
   inspector that order is 0, 1, ..., m-1 for some m <= k, and 0..k-1 after a clean drain *)
Theorem c04_stats_buffer_order_is_dispatch_order : forall (variant : bool) (W : world) (n k : nat),
  let r := if variant then run_pool_dict W n k else run_pool_list W n k in
  exists m, (m <= k)%nat /\ starts (snd r) = seq 0 m /\ (fst r = POk -> starts (snd r) = seq 0 k).
Proof. exact starts_are_dispatch_order. Qed.
Print Assumptions c04_stats_buffer_order_is_dispatch_order.

(* ... hence, for a FIXED work split - ONE worker count n, the k work units it induces and their
   partial sums `partial` - the merged result does not depend on the schedule: after a clean
   drain the partial sums are added in dispatch order (`add` is any operation: float addition is
   not associative) in any two worlds W1 W2, i.e. under any two completion orders and timings.
   Audit 3, item 13: the former statement quantified two worker counts n1 n2 with k and partial
   shared.  In the real _precompute_summary_stats_from_h5ad_and_lookup n_processors determines
   the split (n_per = ceil(n_cells / n_processors), one work unit per worker), hence k AND the
   partial sums: a different n_processors gives a different split, and the auditor observed the
   real sums for 2, 3 and 4 workers to be bitwise different.  That is NOT a violation of C04
   ("results depend only on inputs and seed, never on scheduling": the worker count is
   configuration, not scheduling; C04's worker-count clause speaks of the mappings) nor of C09,
   whose text is "the values (counts exactly, sums to rounding) do not depend on how cells are
   spread over ... chunks or workers": across worker counts the sums are equal to rounding only,
   and that is C09's statement (checked there), not this theorem's.  What C04 requires of the
   statistics - same n_processors, any schedule, bitwise the same file - is this statement plus
   the bitwise runs of harness/props/c04.py. *)
Theorem c04_stats_merge_order_fixed :
  forall (A : Type) (add : A -> A -> A) (zero : A) (partial : nat -> A) (W1 W2 : world) (n k : nat),
  (1 <= n)%nat ->
  (forall w, (w < k)%nat -> code W1 w = 0%Z) -> (forall w, (w < k)%nat -> code W2 w = 0%Z) ->
  stats_result A add zero partial W1 n k = Some (merge_stats A add zero partial k) /\
  stats_result A add zero partial W2 n k = stats_result A add zero partial W1 n k.
Proof. exact stats_merge_order_fixed. Qed.
Print Assumptions c04_stats_merge_order_fixed.

(* reference markers: per-chunk files merged in sorted key order, whatever the order in
   which the dict lists its keys *)
Theorem c04_marker_merge_sorted : forall (A : Type) (chunk : Z -> list A) (k1 k2 : list Z),
  Permutation k1 k2 -> merge_markers chunk k1 = merge_markers chunk k2.
Proof. exact marker_merge_sorted. Qed.
Print Assumptions c04_marker_merge_sorted.

(* selection: per-parent results read by key; the order in which the workers filled the
   dict does not matter (distinct parents) *)
Theorem c04_selection_keyed_by_parent : forall (A : Type) (parents : list Z) (f1 f2 : list (Z * A)),
  Permutation f1 f2 -> NoDup (map fst f1) -> read_keyed parents f1 = read_keyed parents f2.
Proof. exact selection_keyed_by_parent. Qed.
Print Assumptions c04_selection_keyed_by_parent.

(* selection, the dict select_all_markers RETURNS (built over parent_list after the last worker
   exited): the same ordered list of (parent, markers) under any two orders f1 f2 in which the
   workers filled output_dict -- so the order of the entries of the query-marker JSON file does
   not follow the completion order (distinct parents) *)
Theorem c04_selection_result_order_independent : forall (A : Type) (parents : list Z) (f1 f2 : list (Z * A)),
  Permutation f1 f2 -> NoDup (map fst f1) -> selection_result parents f1 = selection_result parents f2.
Proof. exact selection_result_order_independent. Qed.
Print Assumptions c04_selection_result_order_independent.

(* ... its keys are parent_list in the order of parent_list, its values are the filled ones *)
Theorem c04_selection_result_keys : forall (A : Type) (parents : list Z) (f : list (Z * A)) (l : list (Z * A)),
  selection_result parents f = Some l ->
  map fst l = parents /\ (forall p v, In (p, v) l -> In (p, v) f).
Proof. exact selection_result_keys. Qed.
Print Assumptions c04_selection_result_keys.

(* ... and there is a result as soon as every parent of parent_list was filled *)
Theorem c04_selection_result_total : forall (A : Type) (parents : list Z) (f : list (Z * A)),
  (forall p, In p parents -> In p (map fst f)) -> exists l, selection_result parents f = Some l.
Proof. exact selection_result_total. Qed.
Print Assumptions c04_selection_result_total.

(* selection, the scheduler of select_all_markers: the POOL INVARIANT  started \ completed =
   keys of process_dict.  At every state of the outer loop -- stop the outer loop after
   any number `outer` of iterations (the state at that loop head comes back), starve the inner
   poll loops with any `fuel` (the state right after the start comes back), give the final drain
   no fuel (the state at the exit of the outer loop comes back) -- for every world
   (schedule), bound and split of the parents: started, completed and the keys of process_dict
   are duplicate-free; a parent is a key of process_dict iff it is started and not completed;
   completed is part of started; no process carries a start time in the future; and only
   parents of parent_list are ever started.  (c14_selection_scheduler uses it to show that the
   `while ... or not have_chosen_parent` poll cannot spin with nothing running.) *)
Theorem c04_pool_invariant :
  forall (W : world) (n : nat) (behemoths smaller leafless : list nat) (outer fuel : nat),
  let s := snd (sel_loop outer fuel 0 W n (length behemoths + length smaller) behemoths smaller leafless sel_init) in
  (NoDup (ss_started s) /\ NoDup (ss_completed s) /\ NoDup (map fst (ss_running s)) /\
   (forall p, In p (map fst (ss_running s)) <-> In p (ss_started s) /\ ~ In p (ss_completed s)) /\
   (forall p, In p (ss_completed s) -> In p (ss_started s)) /\
   (forall j, In j (ss_running s) -> (snd j <= ss_clock s)%nat)) /\
  (forall p, In p (ss_started s) -> In p (behemoths ++ smaller)).
Proof. exact pool_invariant. Qed.
Print Assumptions c04_pool_invariant.

(* the final `while len(process_dict) > 0` loop pops workers WITHOUT adding them to
   completed_parents (selection_pipeline.py; the model follows the code), so once it has run
   (any fuel `dfuel`) only one direction of the invariant is left: a key of process_dict is started
   and not completed; the rest stands *)
Theorem c04_pool_invariant_after_final_drain :
  forall (W : world) (n : nat) (behemoths smaller leafless : list nat) (outer fuel dfuel : nat),
  let s := snd (sel_loop outer fuel dfuel W n (length behemoths + length smaller) behemoths smaller leafless sel_init) in
  (NoDup (ss_started s) /\ NoDup (ss_completed s) /\ NoDup (map fst (ss_running s)) /\
   (forall p, In p (map fst (ss_running s)) -> In p (ss_started s) /\ ~ In p (ss_completed s)) /\
   (forall p, In p (ss_completed s) -> In p (ss_started s)) /\
   (forall j, In j (ss_running s) -> (snd j <= ss_clock s)%nat)) /\
  (forall p, In p (ss_started s) -> In p (behemoths ++ smaller)).
Proof. exact pool_invariant_after_drain. Qed.
Print Assumptions c04_pool_invariant_after_final_drain.

(* ... hence: when no worker fails, any two schedules (worlds W1 W2: durations, hence completion
   orders; bounds n1 n2) end cleanly with the same set of STARTED parents, namely all of
   parent_list, and an empty process_dict (every process was popped, i.e. found with exit code 0
   -- c14_no_unchecked_pop --, so it had set output_dict[parent]): output_dict has an entry for
   exactly these, in whatever order.  Stated with started_parents and process_dict because
   completed_parents is NOT all of parent_list at the end: the final drain does not update it
   (c04_example_final_drain) *)
Theorem c04_selection_schedule_independent :
  forall (W1 W2 : world) (n1 n2 : nat) (behemoths smaller leafless : list nat),
  (1 <= n1)%nat -> (1 <= n2)%nat -> NoDup (behemoths ++ smaller) ->
  (forall p, In p (behemoths ++ smaller) -> mem p leafless = false -> code W1 p = 0%Z) ->
  (forall p, In p (behemoths ++ smaller) -> mem p leafless = false -> code W2 p = 0%Z) ->
  let r1 := run_selection_pool W1 n1 behemoths smaller leafless in
  let r2 := run_selection_pool W2 n2 behemoths smaller leafless in
  fst r1 = POk /\ fst r2 = POk /\
  Permutation (ss_started (snd r1)) (behemoths ++ smaller) /\
  Permutation (ss_started (snd r1)) (ss_started (snd r2)) /\
  ss_running (snd r1) = [] /\ ss_running (snd r2) = [].
Proof. exact selection_schedule_independent. Qed.
Print Assumptions c04_selection_schedule_independent.

(* marker cache (write_query_markers_to_h5): each group lists (reference index, query index)
   pairs sorted by reference index, so the cache -- parent_node_list, all_query_markers,
   all_reference_markers and the reference / query arrays of every group, or the KeyError --
   is the same for any two tables with the same keys whose entries list the same distinct
   genes in different orders.  That is how the hash seed would enter:
   create_marker_cache_from_specified_markers builds each entry as
   list(query_gene_set.intersection(set(...))), a list in set-iteration order. *)
Theorem c04_cache_sorted_by_reference_index : forall (tb1 tb2 : table) (refg qg : list gene),
  Forall2 (fun e1 e2 => fst e1 = fst e2 /\ Permutation (snd e1) (snd e2)) tb1 tb2 ->
  (forall k l, In (k, l) tb1 -> NoDup l) ->
  write_query_markers tb1 refg qg = write_query_markers tb2 refg qg.
Proof. exact cache_order_independent. Qed.
Print Assumptions c04_cache_sorted_by_reference_index.

(* ... and the order of a group is that of strictly increasing reference index *)
Theorem c04_cache_groups_strictly_sorted : forall (tb : table) (refg qg : list gene) (c : cache) k ri qi,
  (forall k l, In (k, l) tb -> NoDup l) ->
  write_query_markers tb refg qg = MOk c -> In (k, (ri, qi)) (c_groups c) ->
  strictly_ascending ri /\ length qi = length ri.
Proof. exact cache_groups_sorted. Qed.
Print Assumptions c04_cache_groups_strictly_sorted.

(* one level up, the whole of create_marker_cache_from_specified_markers (validation and
   patching against the taxonomy tree when one is given, restriction to the query genes,
   reference check, writing): the cache -- or the error -- is a function of the SET of genes
   listed under each key; neither the order nor the multiplicity of a listing matters *)
Theorem c04_cache_independent_of_listing :
  forall (tb1 tb2 : table) (refg qg : list gene) (topt : option tree) (minm : nat),
  Forall2 (fun e1 e2 => fst e1 = fst e2 /\ forall g, In g (snd e1) <-> In g (snd e2)) tb1 tb2 ->
  create_cache tb1 refg qg topt minm = create_cache tb2 refg qg topt minm.
Proof. exact create_cache_listing_independent. Qed.
Print Assumptions c04_cache_independent_of_listing.

(* ---- hypotheses satisfiable, conclusions not vacuous *)
Example c04_example_gather :
  let work := fun (i : nat) (seed : Z) => map (fun j => (Z.of_nat (3 * i + j), seed + Z.of_nat j)%Z) (seq 0 3) in
  let seeds := [100; 200; 300]%Z in
  let co := [4; 0; 8; 1; 2; 3; 5; 6; 7]%Z in
  NoDup (map fst (gather_list Z work seeds [2; 0; 1]%nat)) /\
  final_list Z work co seeds [2; 0; 1]%nat = final_list Z work co seeds [0; 1; 2]%nat /\
  final_list Z work co seeds [0; 1; 2]%nat =
    Some [(4, 201); (0, 100); (8, 302); (1, 101); (2, 102); (3, 200); (5, 202); (6, 300); (7, 301)]%Z.
Proof.
  cbv zeta. split; [|split; vm_compute; reflexivity].
  apply (proj1 (znodup_b_spec _)). vm_compute. reflexivity.
Qed.

Example c04_example_chunks :
  eff_chunk 12 2 3 = 3%nat /\ eff_chunk 12 4 3 = 3%nat /\ eff_chunk 12 6 3 = 2%nat /\
  chunks 10 4 = [(0, 4); (4, 8); (8, 10)]%nat.
Proof. vm_compute. repeat split; reflexivity. Qed.

(* the mapping as a whole on 7 rows, chunk_size 2: 2 and 3 workers induce the same effective
   chunk size 2 (4 chunks); two worlds with different durations, two different append orders;
   one and the same mapping, each cell with the seed of its chunk (rows 0-1: 11, 2-3: 22, ...);
   with 4 workers the effective chunk size is still 2, with 7 it is 1 *)
Example c04_example_mapping_result :
  let work_rows := fun (r0 r1 : nat) (seed : Z) => map (fun r => (Z.of_nat r, seed)) (seq r0 (r1 - r0)) in
  let co := [3; 0; 6; 1; 2; 4; 5]%Z in
  let W1 := {| code := fun _ => 0%Z; dur := fun w => (4 - w)%nat |} in
  let W2 := {| code := fun _ => 0%Z; dur := fun w => (2 * w)%nat |} in
  eff_chunk 7 2 2 = 2%nat /\ eff_chunk 7 3 2 = 2%nat /\ eff_chunk 7 7 2 = 1%nat /\
  length (chunks 7 2) = 4%nat /\
  Permutation [3; 1; 0; 2]%nat (seq 0 4) /\
  NoDup (map fst (gather_list Z (chunk_work Z work_rows 7 2) (draws (list Z) list_draw 4 [11; 22; 33; 44; 55]%Z)
                              [3; 1; 0; 2]%nat)) /\
  mapping_result Z (list Z) list_draw work_rows co [11; 22; 33; 44; 55]%Z 7 2 2 W1 [3; 1; 0; 2]%nat =
    Some [(3, 22); (0, 11); (6, 44); (1, 11); (2, 22); (4, 33); (5, 33)]%Z /\
  mapping_result Z (list Z) list_draw work_rows co [11; 22; 33; 44; 55]%Z 7 3 2 W2 [0; 1; 2; 3]%nat =
    Some [(3, 22); (0, 11); (6, 44); (1, 11); (2, 22); (4, 33); (5, 33)]%Z /\
  (* a worker that exits with code 3: no mapping *)
  mapping_result Z (list Z) list_draw work_rows co [11; 22; 33; 44; 55]%Z 7 3 2
                 {| code := fun w => if Nat.eqb w 2 then 3%Z else 0%Z; dur := fun _ => 1%nat |} [0; 1; 2; 3]%nat = None.
Proof.
  cbv zeta. repeat split; try (vm_compute; reflexivity).
  - cbn [seq]. apply (Permutation_cons_app [0; 1; 2]%nat [] 3%nat). cbn [app].
    apply (perm_swap 0%nat 1%nat [2]%nat).
  - apply (proj1 (znodup_b_spec _)). vm_compute. reflexivity.
Qed.

(* the merge order of the statistics buffers, read off the log: two slots, three workers, worker
   1 finishes before worker 0 -- buffer_path_list is 0 1 2 all the same; the fold with a
   non-commutative operation shows the order *)
Example c04_example_stats_order :
  let W := {| code := fun _ => 0%Z; dur := fun w => (5 - 2 * w)%nat |} in
  snd (run_pool_list W 2 3) = [EStart 0; EStart 1; EPop 1; EStart 2; EPop 0; EPop 2]%nat /\
  starts (snd (run_pool_list W 2 3)) = [0; 1; 2]%nat /\
  stats_result (list Z) (@app Z) [] (fun i => [Z.of_nat i]) W 2 3 = Some [0; 1; 2]%Z /\
  (* a second schedule of the same split (worker 0 finishes first): the same merge *)
  stats_result (list Z) (@app Z) [] (fun i => [Z.of_nat i])
               {| code := fun _ => 0%Z; dur := fun w => (1 + 2 * w)%nat |} 2 3 = Some [0; 1; 2]%Z.
Proof. vm_compute. repeat split; reflexivity. Qed.

Example c04_example_seeds :
  let W := {| code := fun _ => 0%Z; dur := fun w => (3 - w)%nat |} in
  run_seeds (list Z) list_draw W 2 3 [11; 22; 33; 44]%Z = (POk, [(0%nat, 11%Z); (1%nat, 22%Z); (2%nat, 33%Z)]).
Proof. vm_compute. reflexivity. Qed.

(* four parents filled in two opposite completion orders: one and the same returned dict,
   keys in the order of parent_list *)
Example c04_example_selection_result :
  let parents := [0; 1; 2; 3]%Z in
  let f1 := [(0, 70); (1, 71); (2, 72); (3, 73)]%Z in
  let f2 := [(3, 73); (2, 72); (1, 71); (0, 70)]%Z in
  Permutation f1 f2 /\ NoDup (map fst f1) /\
  selection_result parents f1 = Some [(0, 70); (1, 71); (2, 72); (3, 73)]%Z /\
  selection_result parents f2 = Some [(0, 70); (1, 71); (2, 72); (3, 73)]%Z.
Proof.
  cbv zeta. split; [|split; [|split; vm_compute; reflexivity]].
  - change [(3, 73); (2, 72); (1, 71); (0, 70)]%Z with (rev [(0, 70); (1, 71); (2, 72); (3, 73)]%Z).
    apply Permutation_rev.
  - apply (proj1 (znodup_b_spec _)). vm_compute. reflexivity.
Qed.

(* the pool invariant on a state in the middle of a run: five parents, 0 and 3 behemoths, 4
   without leaf pairs, two processes at a time; after 3 iterations of the outer loop parents
   0 1 2 are started, 1 and 0 completed, 2 is in process_dict (started at poll 8) *)
Example c04_example_pool_state :
  let W := {| code := fun _ => 0%Z; dur := fun w => (9 - 2 * w)%nat |} in
  let s := snd (sel_loop 3 20 20 W 2 5 [0; 3] [1; 2; 4] [4] sel_init)%nat in
  ss_started s = [0; 1; 2]%nat /\ ss_completed s = [1; 0]%nat /\ ss_running s = [(2, 8)]%nat.
Proof. vm_compute. repeat split; reflexivity. Qed.

(* the final drain does not record what it pops: one parent, one slot beyond it; the worker is
   still running when the outer loop ends; after the run it is started and popped, and
   completed_parents is still empty (as in the code) *)
Example c04_example_final_drain :
  let W := {| code := fun _ => 0%Z; dur := fun _ => 3%nat |} in
  let r := run_selection_pool W 2 [] [0%nat] [] in
  fst r = POk /\ ss_started (snd r) = [0%nat] /\ ss_completed (snd r) = [] /\ ss_running (snd r) = [].
Proof. exact final_drain_does_not_complete. Qed.

(* one parent whose three markers are listed in two different orders; reference genes
   10 11 12 13, query genes 13 12 11 10: one and the same cache, reference indices 0 1 3 *)
Example c04_example_cache_order :
  let refg := [10; 11; 12; 13]%Z in
  let qg := [13; 12; 11; 10]%Z in
  let tb1 := [(None, [13; 10; 11]%Z)] in
  let tb2 := [(None, [11; 13; 10]%Z)] in
  Forall2 (fun e1 e2 => fst e1 = fst e2 /\ Permutation (snd e1) (snd e2)) tb1 tb2 /\
  (forall k l, In (k, l) tb1 -> NoDup l) /\
  write_query_markers tb1 refg qg = write_query_markers tb2 refg qg /\
  write_query_markers tb1 refg qg =
    MOk {| c_parents := [None]; c_allq := [0; 2; 3]%nat; c_allr := [0; 1; 3]%nat;
           c_groups := [(None, ([0; 1; 3], [3; 2; 0])%nat)] |}.
Proof.
  cbv zeta. split; [|split; [|split; vm_compute; reflexivity]].
  - constructor; [|constructor]. split; [reflexivity|]. cbn.
    apply (Permutation_cons_app [11]%Z [10]%Z 13%Z). apply (Permutation_cons_app [11]%Z nil 10%Z). reflexivity.
  - intros k l [E|[]]. inversion E; subst. apply (proj1 (znodup_b_spec _)). vm_compute. reflexivity.
Qed.

(* the same parent listed with a repeated gene and in another order; a two-level tree (root
   with children 1 and 2) so that the validation against the tree runs too *)
Example c04_example_cache_listing :
  let refg := [10; 11; 12; 13]%Z in
  let qg := [13; 12; 11; 10]%Z in
  let t : tree := [[(1, [5]); (2, [6])]; [(5, [50]); (6, [60])]]%Z in
  let tb1 := [(None, [13; 10; 11; 10]%Z)] in
  let tb2 := [(None, [11; 13; 10]%Z)] in
  Forall2 (fun e1 e2 => fst e1 = fst e2 /\ forall g, In g (snd e1) <-> In g (snd e2)) tb1 tb2 /\
  create_cache tb1 refg qg (Some t) 1 = create_cache tb2 refg qg (Some t) 1 /\
  create_cache tb1 refg qg (Some t) 1 =
    MOk {| c_parents := [None]; c_allq := [0; 2; 3]%nat; c_allr := [0; 1; 3]%nat;
           c_groups := [(None, ([0; 1; 3], [3; 2; 0])%nat)] |}.
Proof.
  cbv zeta. split; [|split; vm_compute; reflexivity].
  constructor; [|constructor]. split; [reflexivity|]. intros g. cbn. intuition.
Qed.
