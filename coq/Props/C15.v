(* C15 — JSON, CSV and HDF5 outputs tell the same story and round-trip.
   Property theorems only: each is closed by `exact <lemma>`. *)
From Coq Require Import ZArith List Bool Permutation.
From CTM Require Import Base.Sx Base.SortX Model.Tree Model.Output Proofs.OutputP.
Import ListNotations.
Open Scope Z_scope.

(* Writing the result to HDF5 and reading it back reproduces every record: cell id, assignment,
   probability, correlation, aggregate probability, runner-up lists and directly-assigned flag.
   blob_ok (Model/Output.v) = at least one record; every record has exactly the levels of the
   hierarchy; every assignment and runner-up is a node of its level; the three runner-up lists
   have the same length, at most n_runners_up; the runner-up keys are present exactly on the
   directly assigned levels; and the directly_assigned flag is the same, level by level, in all
   records (the writer takes it from the first record). *)
Theorem c15_hdf5_roundtrip : forall npl w b,
  blob_ok w npl b = true ->
  exists f, blob_to_hdf5 npl w b = Ok f /\ hdf5_to_blob f = Ok b.
Proof. exact hdf5_roundtrip. Qed.
Print Assumptions c15_hdf5_roundtrip.

(* The uniformity hypothesis is necessary: two individually well-formed records whose flags differ
   on a level do not survive the round trip (the first-record shortcut loses the flag and the
   runner-up lists of the second).  Real mapping output cannot be of this kind: every record of a
   run passes through the same reduced taxonomy (election_runner marks all its levels True,
   backfill_assignments adds all the others with False). *)
Theorem c15_roundtrip_without_uniform_flags_refuted :
  exists npl w b b',
    b <> [] /\ forallb (cell_ok w npl) b = true /\ flags_uniform b = false /\
    bind (blob_to_hdf5 npl w b) hdf5_to_blob = Ok b' /\ b' <> b.
Proof. exact roundtrip_needs_uniform_flags. Qed.
Print Assumptions c15_roundtrip_without_uniform_flags_refuted.

(* The CSV: the comment lines (JSON file name, hierarchy, readable hierarchy when it differs,
   version line); one row per record, in order; under the columns cell_id, <level>_label,
   <level>_name, <leaf>_alias and the confidence column stand the record's id, its assignment,
   the assignment through the name / alias tables (identity when there is no entry) and the
   confidence (conf = 0: bootstrapping_probability, 1: avg_correlation) rounded to four decimals --
   unless the level's readable name contains 'label', 'name', 'alias' or 'assignment' (categ):
   then the value is written unrounded (finding F12).
   A column is named after the READABLE level name rl = level_to_name(level) (blob_to_df builds the
   column names from it), so the statement needs the readable names of the hierarchy to be pairwise
   distinct.  Every TaxonomyTree satisfies that SINCE /repo 9eca1ef (repair of F31): validate_taxonomy_tree
   raises RuntimeError "tree['hierarchy_mapper'] gives two levels the same name" - before it, TaxonomyTree
   accepted such a hierarchy_mapper and the later level overwrote the columns of the earlier.  blob_to_df
   itself still behaves so on a tree object that did not pass the validation
   (c15_csv_duplicate_readable_level_refuted: a statement about blob_to_df, no longer reachable through
   TaxonomyTree).
   The numbers of the model are exact fractions: a NaN confidence is outside it.  A probability is a
   ratio of vote counts, never NaN; avg_correlation is NaN only when the expression data hold a NaN
   (the constant-row convention of distance_utils gives 0, not NaN); the real writer prints an empty
   field for it (harness: c15 nan stream). *)
Theorem c15_csv_rows : forall nm hier meta algo conf sticky categ b c,
  (conf < 2)%nat ->
  NoDup (map (level_to_name nm) hier) ->
  blob_to_csv nm hier meta algo conf sticky categ b = Ok c ->
  v_comments c = csv_header nm hier meta algo /\
  length (v_rows c) = length b /\
  forall i cl row,
    nth_error b i = Some cl -> nth_error (v_rows c) i = Some row ->
    csv_get c row KId = Some (CName (c_id cl)) /\
    forall j level l,
      nth_error hier j = Some level -> nth_error (c_levels cl) j = Some l ->
      let rl := level_to_name nm level in
      csv_get c row (KLabel rl) = Some (CName (l_assign l)) /\
      csv_get c row (KName rl) = Some (CName (label_to_name nm level (l_assign l) false)) /\
      (S j = length hier ->
         csv_get c row (KAlias rl) = Some (CName (label_to_name nm level (l_assign l) true))) /\
      csv_get c row (KField rl conf) =
        Some (if zmem rl categ then CNumFull (conf_value conf l) else CNum4 (fmt4 (conf_value conf l))).
Proof. exact csv_rows. Qed.
Print Assumptions c15_csv_rows.

(* F31 (REPAIRED in /repo 9eca1ef: TaxonomyTree now REFUSES such a hierarchy_mapper - RuntimeError "gives two
   levels the same name" -, so the input below can no longer reach blob_to_csv through a TaxonomyTree; what
   remains is a fact about blob_to_df / blob_to_csv given such a tree object, and the reason why the NoDup
   hypothesis cannot be dropped from c15_csv_rows).  Hierarchy [7; 8],
   hierarchy_mapper {7: 70, 8: 70}; one cell assigned to node 1 (p = 0.37)
   at level 7 and node 11 (p = 0.25) at level 8.  The CSV has the five columns cell_id, 70_label,
   70_name, 70_bootstrapping_probability, 70_alias (the alias column AFTER the confidence: the keys of a
   Python dict keep the position of their first insertion) and the single row 100, 11, 11, 0.2500, 11:
   level 7 (node 1, 0.37) is gone. *)
Theorem c15_csv_duplicate_readable_level_refuted :
  exists c row,
    map (level_to_name dup_nm) [7; 8] = [70; 70] /\
    blob_to_csv dup_nm [7; 8] None 0 0 [] [] dup_blob = Ok c /\
    v_cols c = [KId; KLabel 70; KName 70; KField 70 0; KAlias 70] /\
    v_rows c = [row] /\ row = [CName 100; CName 11; CName 11; CNum4 2500; CName 11] /\
    nth_error [7; 8] 0 = Some 7 /\
    csv_get c row (KLabel (level_to_name dup_nm 7)) <> Some (CName 1) /\
    csv_get c row (KField (level_to_name dup_nm 7) 0) <> Some (CNum4 (fmt4 (37, 100))).
Proof. exact csv_duplicate_readable_level. Qed.
Print Assumptions c15_csv_duplicate_readable_level_refuted.

(* "to four decimals": the printed number is within half a unit of the fourth decimal of the
   JSON value n/d *)
Theorem c15_four_decimals : forall x,
  0 < snd x -> 2 * Z.abs (fmt4 x * snd x - 10000 * fst x) <= snd x.
Proof. exact fmt4_half. Qed.
Print Assumptions c15_four_decimals.

(* full statement for the confidence column -- for EVERY level the CSV shows fmt4 of the JSON
   value -- is refuted by the faithful model on a level whose name contains 'label' (F12) *)
Theorem c15_csv_confidence_four_decimals_refuted :
  exists nm hier conf sticky categ b c row,
    blob_to_csv nm hier None 0 conf sticky categ b = Ok c /\ nth_error (v_rows c) 0 = Some row /\
    csv_get c row (KField 7 conf) = Some (CNumFull (1, 3)).
Proof. exact csv_confidence_not_rounded_on_categorical_level. Qed.
Print Assumptions c15_csv_confidence_four_decimals_refuted.

(* one record per cell in query order: re_order_blob returns the records permuted into the order
   of the query's obs index *)
Theorem c15_query_order : forall b order,
  NoDup (map c_id b) -> Permutation order (map c_id b) ->
  exists b', re_order_blob b order = Ok b' /\ map c_id b' = order /\ Permutation b' b.
Proof. exact re_order_permutation. Qed.
Print Assumptions c15_query_order.

(* the taxonomy embedded in the output (to_str(drop_cells=True) -> from_str) is the input
   taxonomy without its cell lists *)
Theorem c15_tree_reconstructs : forall t : tree,
  t <> [] ->
  is_equal_to (drop_cells t) t = true /\
  length (drop_cells t) = length t /\
  map nodes (drop_cells t) = map nodes t /\
  removelast (drop_cells t) = removelast t /\
  Forall (fun nc => snd nc = []) (leaf_level (drop_cells t)).
Proof. exact tree_reconstructs. Qed.
Print Assumptions c15_tree_reconstructs.

(* non-vacuity: a two-level blob with an inferred (backfilled) top level, runner-up lists of
   different lengths (one shorter than the width 2, one empty), meets the hypotheses *)
Definition ex_blob : blob :=
  [ mkCell 100 [ mkLvl 1 (37, 100) (5, 8) (37, 100) false None;
                 mkLvl 11 (37, 100) (5, 8) (37, 100) true (Some (mkRun [12] [(1, 4)] [(1, 2)])) ];
    mkCell 101 [ mkLvl 2 (1, 1) (-1, 4) (1, 1) false None;
                 mkLvl 13 (1, 1) (-1, 4) (1, 1) true (Some (mkRun [] [] [])) ] ].
Example c15_example_blob_ok : blob_ok 2 [[1; 2]; [11; 12; 13]] ex_blob = true.
Proof. vm_compute. reflexivity. Qed.
Example c15_example_roundtrip :
  bind (blob_to_hdf5 [[1; 2]; [11; 12; 13]] 2 ex_blob) hdf5_to_blob = Ok ex_blob.
Proof. vm_compute. reflexivity. Qed.
Example c15_example_csv :
  exists c, blob_to_csv (mkNaming (Some [(7, 70)]) (Some [(8, [(11, (Some 110, None))])])) [7; 8] (Some 5) 2 0
                        [] [] ex_blob = Ok c /\
            NoDup (map (level_to_name (mkNaming (Some [(7, 70)]) None)) [7; 8]) /\
            v_cols c = [KId; KLabel 70; KName 70; KField 70 0; KLabel 8; KName 8; KAlias 8; KField 8 0] /\
            nth_error (v_rows c) 0 =
              Some [CName 100; CName 1; CName 1; CNum4 3700; CName 11; CName 110; CName 11; CNum4 3700].
Proof.
  eexists. split; [vm_compute; reflexivity|]. split; [|split; vm_compute; reflexivity].
  vm_compute. repeat constructor; cbn; intuition discriminate.
Qed.
Example c15_example_fmt4 : fmt4 (3, 32) = 938 /\ fmt4 (1, 32) = 312 /\ fmt4 (-1, 10000000) = 0.
Proof. vm_compute. repeat split; reflexivity. Qed.
Example c15_example_tree :
  drop_cells [[(1, [11; 12]); (2, [13])]; [(11, [0; 1]); (12, [2]); (13, [3; 4])]]
  = [[(1, [11; 12]); (2, [13])]; [(11, []); (12, []); (13, [])]].
Proof. vm_compute. reflexivity. Qed.

(* ------------------------------------------------------------------------------------------------
   The TEXT of the CSV file (Model/CsvText.v): what `DataFrame.to_csv(index=False,
   float_format='%.4f')` writes for a table of string fields (Python 3.12 csv.writer, QUOTE_MINIMAL)
   and how the TOKENIZER of pandas' C parser splits it back into fields (state by state) -- i.e. what
   `pandas.read_csv(path, comment='#', dtype=str, keep_default_na=False)` returns.  The example notebooks
   (explore_mapping_results.ipynb, full_mapping_pipeline.ipynb) read the file with
   `pd.read_csv(path, comment='#')`; docs/output.md describes the file and names no reader.  With those
   pandas DEFAULTS every column is afterwards type-inferred: the labels 'NA', 'None', '007', '1e5' come
   back as nan, nan, 7.0, 100000.0 (observed).  That inference is the choice of whoever calls the reader
   and is no statement about what the CSV holds (the text of C15); it is not modelled and not judged
   (ctx.assumptions).  A string is a list of code points; a table a list of rows (the header line is
   the first row). *)
From CTM Require Import Model.CsvText Proofs.CsvTextP.

(* The reader undoes the writer, for every table of strings except (well_shaped false):
   - a field that contains a carriage return (13) but none of comma, double quote, line feed: the
     writer leaves it unquoted and every reader takes the carriage return for a line end
     (c15_csv_carriage_return_refuted);
   - a row without any field (a DataFrame without columns), and a ONE-column row whose field
     consists of blanks / tabs only (a blank line to the reader; the mapper's CSV has >= 3 columns);
   - a row whose FIRST field (the cell id) starts with a blank / tab and is not quoted: the real tokenizer
     re-reads such a line from its buffer and loses the blanks that lie before a 262144-byte chunk
     boundary (finding F32, shown by the harness on a file > 256 KiB); on the tables admitted here the
     tokenizer never looks back, so the statement holds wherever the chunk boundaries fall
     (c15_csv_row_text_starts_nonblank);
   - a code point that is not a Unicode scalar value (a surrogate: the writer raises
     UnicodeEncodeError) or is NUL (the C reader cuts the field: 'a\x00b' reads as 'a');
   - a text that STARTS with U+FEFF (audit 4, A6: the first field of the first row starts with it and needs
     no quoting): read_csv strips a leading byte order mark, the table [['\ufeffid','n'],['c','a']] reads
     as [['id','n'],['c','a']] (c15_example_leading_bom_excluded).  The files blob_to_csv writes start with
     '#' and are not concerned.
   LOCALE: "the file" is the UTF-8 encoding of the modelled code points only when the locale's encoding is
   UTF-8 - blob_to_csv opens the file without an encoding argument; under LC_ALL=C with UTF-8 mode and
   locale coercion switched off a non-ASCII name makes the writer raise UnicodeEncodeError (header of
   Model/CsvText.v; assumption of the tie).
   Empty fields, trailing blanks, leading blanks of later fields, commas, quotes, line feeds, '#', every
   other code point are covered. *)
Theorem c15_csv_text_roundtrip : forall rows,
  well_shaped false rows = true -> csv_parse false (csv_text rows) = Some rows.
Proof. exact csv_roundtrip. Qed.
Print Assumptions c15_csv_text_roundtrip.

Example c15_example_leading_bom_excluded :
  let rows := [[[65279; 105; 100]; [110]]; [[99]; [97]]] in
  well_shaped false rows = false /\ bom_ok rows = false /\ forallb (row_ok false) rows = true /\
  csv_parse false (csv_text rows) = Some rows /\
  well_shaped false [[[65279; 44; 105]; [110]]] = true /\ well_shaped false [[[105]; [65279]]; [[65279]; [97]]] = true.
Proof. exact leading_bom_excluded. Qed.

(* the text of an admitted row does not start with a blank: the WHITESPACE_LINE state of the tokenizer --
   the only one that looks back into the buffer -- is not entered at the start of a row *)
Theorem c15_csv_row_text_starts_nonblank : forall cm r,
  row_ok cm r = true -> match csv_row r with c :: _ => is_blank c = false | [] => False end.
Proof. exact row_text_starts_nonblank. Qed.
Print Assumptions c15_csv_row_text_starts_nonblank.

(* hence the file determines the table: two different well-shaped tables never give the same text *)
Theorem c15_csv_text_injective : forall r1 r2,
  well_shaped false r1 = true -> well_shaped false r2 = true -> csv_text r1 = csv_text r2 -> r1 = r2.
Proof. exact csv_text_injective. Qed.
Print Assumptions c15_csv_text_injective.

(* The comment lines written before the header ('#' + body + line feed; the bodies hold the name of
   the JSON file, json.dumps of the hierarchy, the version line: no line feed / carriage return)
   are skipped by a reader told comment='#' and the table comes back -- provided no UNQUOTED field
   contains '#' (well_shaped true = well_shaped false + that). *)
Theorem c15_csv_comment_lines_safe : forall bodies rows,
  forallb comment_ok bodies = true -> well_shaped true rows = true ->
  csv_parse true (csv_file bodies rows) = Some rows.
Proof. exact csv_comments_safe. Qed.
Print Assumptions c15_csv_comment_lines_safe.

(* ... and that proviso is necessary: the writer does not quote '#'.  A cell whose id starts with
   '#' disappears from the table a user reads with comment='#' (finding) ... *)
Theorem c15_csv_hash_cell_id_row_vanishes_refuted :
  exists rows rows',
    well_shaped false rows = true /\
    csv_parse true (csv_text rows) = Some rows' /\ (length rows' < length rows)%nat.
Proof. exact hash_row_vanishes. Qed.
Print Assumptions c15_csv_hash_cell_id_row_vanishes_refuted.

(* ... and a node name / alias containing '#' (97 35 98 = a#b) is cut at the '#' and the remaining
   columns of that row are lost *)
Theorem c15_csv_hash_in_name_truncates_row_refuted :
  exists rows,
    well_shaped false rows = true /\
    csv_parse true (csv_text rows) = Some [[[105; 100]; [110]; [122]]; [[99]; [97]]].
Proof. exact hash_field_truncated. Qed.
Print Assumptions c15_csv_hash_in_name_truncates_row_refuted.

(* a name containing a carriage return and nothing that triggers quoting (97 13 98) is written
   unquoted; the reader (with or without comment handling) splits the row in two (finding) *)
Theorem c15_csv_carriage_return_refuted :
  exists rows,
    row_ok false [[99]; [97; 13; 98]; [119]] = false /\
    rows = [[[105; 100]; [110]; [122]]; [[99]; [97; 13; 98]; [119]]] /\
    csv_parse false (csv_text rows) = Some [[[105; 100]; [110]; [122]]; [[99]; [97]]; [[98]; [119]]].
Proof. exact cr_field_splits_row. Qed.
Print Assumptions c15_csv_carriage_return_refuted.

(* '%.4f' % x for the double x = m * 2^e given exactly (dyadic m e is that value as a fraction:
   c15_dyadic_is_the_value).  fmt4k m e = the printed number in units of 1/10000. *)
Theorem c15_dyadic_is_the_value : forall m e s,
  0 <= s -> 0 <= e + s ->
  0 < snd (dyadic m e) /\ fst (dyadic m e) * 2 ^ s = snd (dyadic m e) * (m * 2 ^ (e + s)).
Proof. exact dyadic_value. Qed.
Print Assumptions c15_dyadic_is_the_value.

(* nearest: exact when x is a multiple of 1 (e >= 0); otherwise |x * 10^4 - k| <= 1/2, over Z *)
Theorem c15_fmt4_nearest : forall m e,
  (0 <= e -> fmt4k m e = m * 2 ^ e * 10000) /\
  (e < 0 -> 2 * Z.abs (fmt4k m e * 2 ^ (- e) - 10000 * m) <= 2 ^ (- e)).
Proof. exact fmt4k_nearest_both. Qed.
Print Assumptions c15_fmt4_nearest.

(* a tie of the EXACT value goes to the even neighbour *)
Theorem c15_fmt4_ties_even : forall m e,
  e < 0 -> 2 * Z.abs (fmt4k m e * 2 ^ (- e) - 10000 * m) = 2 ^ (- e) -> Z.even (fmt4k m e) = true.
Proof. exact fmt4k_ties_even. Qed.
Print Assumptions c15_fmt4_ties_even.

(* x1 <= x2 (cross-multiplied) -> the printed numbers are in the same order *)
Theorem c15_fmt4_monotone : forall m1 e1 m2 e2,
  fst (dyadic m1 e1) * snd (dyadic m2 e2) <= fst (dyadic m2 e2) * snd (dyadic m1 e1) ->
  fmt4k m1 e1 <= fmt4k m2 e2.
Proof. exact fmt4k_mono. Qed.
Print Assumptions c15_fmt4_monotone.

(* 0 <= x <= 1 -> 0.0000 ... 1.0000: a probability never prints as more than 1 *)
Theorem c15_fmt4_unit_interval : forall m e,
  0 <= fst (dyadic m e) <= snd (dyadic m e) -> 0 <= fmt4k m e <= 10000.
Proof. exact fmt4k_unit. Qed.
Print Assumptions c15_fmt4_unit_interval.

(* the printed text (optional '-', digits, '.', exactly four digits) reads back as the number, for both
   signs: x = (-1)^neg * m * 2^e.  avg_correlation can be negative; '-0.0000' (printed for -0.0 and for
   negative values above -0.00005) reads as 0 *)
Theorem c15_fmt4_digits_roundtrip : forall neg m e,
  0 <= m -> parse_fixed4 (fmt4_text neg m e) = Some (if neg then - fmt4k m e else fmt4k m e).
Proof. exact fmt4_text_roundtrip_signed. Qed.
Print Assumptions c15_fmt4_digits_roundtrip.

(* ------------------------------------------------------------------------------------------------
   The two halves joined: the FILE of a blob.  blob_to_csv_text = the comment lines with their content
   (' metadata = <file name>', ' taxonomy hierarchy = <json.dumps(hierarchy)>', the readable hierarchy when
   it differs, the version line "[ algorithm: '...';] codebase: <repo>; version: <version>") followed by
   csv_text of the table of strings whose header holds the column names '<readable level>_label' ... and
   whose cells are the names behind the integers, 'True' / 'False', '' for a missing value and fmt4_rat_text
   (the '%.4f' text) of the confidence.  Tied byte for byte to the file the real blob_to_csv writes
   (harness tag 1555). *)

(* fmt4_rat_text on a double that is not the negative zero is what '%.4f' prints (fmt4_text) ... *)
Theorem c15_fmt4_rat_text_is_percent_4f : forall (neg : bool) (m e : Z),
  (if neg then 0 < m else 0 <= m) ->
  fmt4_rat_text (dyadic (if neg then - m else m) e) = fmt4_text neg m e.
Proof. exact fmt4_rat_text_dyadic. Qed.
Print Assumptions c15_fmt4_rat_text_is_percent_4f.

(* ... and reads back as the JSON value to four decimals (fmt4 x is the number c15_four_decimals bounds) *)
Theorem c15_csv_confidence_text_reads_four_decimals : forall x : rat,
  0 < snd x -> parse_fixed4 (fmt4_rat_text x) = Some (fmt4 x).
Proof. exact fmt4_rat_text_parse. Qed.
Print Assumptions c15_csv_confidence_text_reads_four_decimals.

(* Parsing the file of a blob (reader with comment='#') gives back the table of strings, and in that table
   the cells under the id / label / name / alias / confidence columns of every record are the strings of the
   JSON assignments through the name tables and the '%.4f' text of the JSON confidence.
   Hypotheses beyond c15_csv_rows: the comment bodies contain no line feed / carriage return (json.dumps
   escapes them in level names; the metadata FILE NAME could hold one) and the table is well_shaped for a
   reader with comment='#' (computable; c15_example_file).
   Audit 4, A4.  (i) `names : list (Z * str)` is the table of the STRINGS behind the integer names and is
   arbitrary: two integers may stand for one string, an integer outside it stands for ''.  The hypotheses
   are therefore on the strings: the readable level names are pairwise distinct AS STRINGS (what
   validate_taxonomy_tree enforces; NoDup on the integers allowed 70 -> 'cls', 80 -> 'cls' and a file with
   the columns cls_label ... twice) and every integer the file shows is defined in `names` (names_defined:
   with names = [] the former statement certified a file of empty column names; the hypothesis is not used by
   the proof - it confines the statement to where it means something).  (ii) which levels keep all their
   columns (sticky) and which confidence columns are categorical (categ, F12) is no longer an argument: the
   model DERIVES both from the strings by the substring tests of blob_to_csv / blob_to_df
   (CsvText.sticky_of / categ_of; blob_to_csv_text_auto; tied byte for byte to the real file, tag 1556).
   The statement for GIVEN lists remains as Proofs/CsvTextP.v csv_text_of_blob. *)
Theorem c15_csv_text_of_blob_roundtrip :
  forall names reprs repo version nm hier meta algo conf b text,
  (conf < 2)%nat ->
  NoDup (map (fun l => name_str names (level_to_name nm l)) hier) ->
  names_defined names (used_names nm hier meta b) = true ->
  blob_to_csv_text_auto names reprs repo version nm hier meta algo conf b = Ok text ->
  exists cols rows,
    let bodies := csv_comment_bodies names repo version nm hier meta algo in
    let table := map (col_name names conf) cols :: rows in
    text = csv_file bodies table /\
    (forallb comment_ok bodies = true -> well_shaped true table = true -> csv_parse true text = Some table) /\
    length rows = length b /\
    forall i cl row,
      nth_error b i = Some cl -> nth_error rows i = Some row ->
      tget cols row KId = Some (name_str names (c_id cl)) /\
      forall j level l,
        nth_error hier j = Some level -> nth_error (c_levels cl) j = Some l ->
        let rl := level_to_name nm level in
        tget cols row (KLabel rl) = Some (name_str names (l_assign l)) /\
        tget cols row (KName rl) = Some (name_str names (label_to_name nm level (l_assign l) false)) /\
        (S j = length hier ->
           tget cols row (KAlias rl) = Some (name_str names (label_to_name nm level (l_assign l) true))) /\
        tget cols row (KField rl conf) =
          Some (if categ_word (name_str names rl)
                then match rassoc (conf_value conf l) reprs with Some s => s | None => [] end
                else fmt4_rat_text (conf_value conf l)).
Proof. exact csv_text_of_blob_auto. Qed.
Print Assumptions c15_csv_text_of_blob_roundtrip.

(* non-vacuity: the file of ex_blob.  names: 7 'L7', 8 'L8', 70 'cls', 100 'c0', 101 ' c,1' (leading blank
   AND a comma: quoted, so admitted), 1 'A', 2 'B', 11 'a1', 110 'a one', 13 'b' DQUOTE '3', 5 'o.json' *)
Definition ex_names : list (Z * str) :=
  [(7, [76; 55]); (8, [76; 56]); (70, [99; 108; 115]); (100, [99; 48]); (101, [32; 99; 44; 49]);
   (1, [65]); (2, [66]); (11, [97; 49]); (110, [97; 32; 111; 110; 101]); (13, [98; 34; 51]);
   (5, [111; 46; 106; 115; 111; 110])].
Definition ex_nm : naming := mkNaming (Some [(7, 70)]) (Some [(8, [(11, (Some 110, None))])]).
Definition ex_file_table : list (list str) :=
  Eval vm_compute in match blob_to_csv_table ex_names [] ex_nm [7; 8] 1 [] [] ex_blob with Ok t => t | Err _ => [] end.
Definition ex_file_text : str :=
  Eval vm_compute in
    match blob_to_csv_text ex_names [] [114] [49; 46; 51] ex_nm [7; 8] (Some 5) 2 1 [] [] ex_blob with
    | Ok t => t | Err _ => [] end.
Example c15_example_file :
  blob_to_csv_text ex_names [] [114] [49; 46; 51] ex_nm [7; 8] (Some 5) 2 1 [] [] ex_blob = Ok ex_file_text /\
  blob_to_csv_table ex_names [] ex_nm [7; 8] 1 [] [] ex_blob = Ok ex_file_table /\
  forallb comment_ok (csv_comment_bodies ex_names [114] [49; 46; 51] ex_nm [7; 8] (Some 5) 2) = true /\
  well_shaped true ex_file_table = true /\
  csv_parse true ex_file_text = Some ex_file_table /\
  nth_error ex_file_table 2 =
    Some [[32; 99; 44; 49]; [66]; [66]; [45; 48; 46; 50; 53; 48; 48]; [98; 34; 51]; [98; 34; 51];
          [98; 34; 51]; [45; 48; 46; 50; 53; 48; 48]].
Proof. repeat split; vm_compute; reflexivity. Qed.
(* the hypotheses of c15_csv_text_of_blob_roundtrip on that blob: the readable level names 'cls', 'L8' are
   distinct strings, every integer shown is in ex_names, and the derived lists are the ones given above (no
   level name holds a word).  And where the derivation matters: a level called 'my_label' (code points 109 121 95 108 97 98 101 108) is sticky and
   categorical, 'subclass' is neither, 'x_bootstrapping_probability' is sticky for conf = 0 only. *)
Example c15_example_file_hypotheses :
  NoDup (map (fun l => name_str ex_names (level_to_name ex_nm l)) [7; 8]) /\
  map (fun l => name_str ex_names (level_to_name ex_nm l)) [7; 8] = [[99; 108; 115]; [76; 56]] /\
  names_defined ex_names (used_names ex_nm [7; 8] (Some 5) ex_blob) = true /\
  blob_to_csv_text_auto ex_names [] [114] [49; 46; 51] ex_nm [7; 8] (Some 5) 2 1 ex_blob = Ok ex_file_text /\
  names_defined [] (used_names ex_nm [7; 8] (Some 5) ex_blob) = false /\
  (let nms := [(1, [109; 121; 95; 108; 97; 98; 101; 108]); (2, [115; 117; 98; 99; 108; 97; 115; 115]);
               (3, 120 :: 95 :: CsvText.Lit.bootstrapping_probability)] in
   sticky_of nms 0 [1; 2; 3] = [1; 3] /\ sticky_of nms 1 [1; 2; 3] = [1] /\ categ_of nms [1; 2; 3] = [1]).
Proof.
  split; [|vm_compute; repeat split; reflexivity].
  vm_compute. repeat constructor; cbn; intuition discriminate.
Qed.
(* the comment lines of that file: '# metadata = o.json', '# taxonomy hierarchy = ["L7", "L8"]',
   '# readable taxonomy hierarchy = ["cls", "L8"]', "# algorithm: 'hierarchical'; codebase: r; version: 1.3" *)
Example c15_example_comment_bodies :
  csv_comment_bodies ex_names [114] [49; 46; 51] ex_nm [7; 8] (Some 5) 2 =
    [ [32; 109; 101; 116; 97; 100; 97; 116; 97; 32; 61; 32; 111; 46; 106; 115; 111; 110];
      [32; 116; 97; 120; 111; 110; 111; 109; 121; 32; 104; 105; 101; 114; 97; 114; 99; 104; 121; 32; 61; 32;
       91; 34; 76; 55; 34; 44; 32; 34; 76; 56; 34; 93];
      [32; 114; 101; 97; 100; 97; 98; 108; 101; 32; 116; 97; 120; 111; 110; 111; 109; 121; 32; 104; 105; 101; 114;
       97; 114; 99; 104; 121; 32; 61; 32; 91; 34; 99; 108; 115; 34; 44; 32; 34; 76; 56; 34; 93];
      [32; 97; 108; 103; 111; 114; 105; 116; 104; 109; 58; 32; 39; 104; 105; 101; 114; 97; 114; 99; 104; 105; 99;
       97; 108; 39; 59; 32; 99; 111; 100; 101; 98; 97; 115; 101; 58; 32; 114; 59; 32; 118; 101; 114; 115; 105;
       111; 110; 58; 32; 49; 46; 51] ].
Proof. vm_compute. reflexivity. Qed.
(* json.dumps escapes: DQUOTE, backslash, line feed, e-acute (233 -> \u00e9), U+1D4B3 (-> \ud835\udcb3) *)
Example c15_example_json_str :
  json_str [34; 92; 10; 233; 119987] =
    [34; 92; 34; 92; 92; 92; 110; 92; 117; 48; 48; 101; 57; 92; 117; 100; 56; 51; 53; 92; 117; 100; 99; 98; 51; 34].
Proof. vm_compute. reflexivity. Qed.
(* the excluded code points and the excluded first field *)
Example c15_example_excluded :
  row_ok false [[97; 0; 98]; [120]] = false /\ row_ok false [[97; 55296; 98]; [120]] = false /\
  row_ok false [[32; 99]; [120]] = false /\ row_ok false [[120]; [32; 99]] = true /\
  row_tok false [[32; 99]; [120]] = true /\
  parse_fixed4 (fmt4_text true 1 (-5)) = Some (-312) /\ parse_fixed4 (fmt4_text true 0 0) = Some 0 /\
  fmt4_text true 0 0 = [45; 48; 46; 48; 48; 48; 48] /\ fmt4_rat_text (-1, 10000000) = [45; 48; 46; 48; 48; 48; 48].
Proof. vm_compute. repeat split; reflexivity. Qed.

(* non-vacuity: a header and two rows with a comma, doubled quotes, a line feed, an empty field,
   leading / trailing blanks, a carriage return inside a quoted field, non-ASCII, and (for the
   reader with comment='#') a '#' inside a quoted field; three comment lines *)
Definition ex_table : list (list str) :=
  [ [[99; 101; 108; 108; 95; 105; 100]; [76; 95; 108; 97; 98; 101; 108]; [76; 95; 110; 97; 109; 101]];
    [[99; 48]; [65; 44; 49]; [32; 115; 97; 105; 100; 32; 34; 113; 34; 10; 35; 120; 13; 32]];
    [[233; 8364]; []; [32; 32]] ].
Example c15_example_table_well_shaped : well_shaped true ex_table = true /\ well_shaped false ex_table = true.
Proof. vm_compute. split; reflexivity. Qed.
Example c15_example_table_text :
  csv_text ex_table =
    [99; 101; 108; 108; 95; 105; 100; 44; 76; 95; 108; 97; 98; 101; 108; 44; 76; 95; 110; 97; 109; 101; 10;
     99; 48; 44; 34; 65; 44; 49; 34; 44; 34; 32; 115; 97; 105; 100; 32; 34; 34; 113; 34; 34; 10; 35; 120; 13; 32; 34; 10;
     233; 8364; 44; 44; 32; 32; 10].
Proof. vm_compute. reflexivity. Qed.
Example c15_example_comments :
  forallb comment_ok [[32; 109; 61; 120]; [32; 104; 61; 91; 93]] = true /\
  csv_parse true (csv_file [[32; 109; 61; 120]; [32; 104; 61; 91; 93]] ex_table) = Some ex_table.
Proof. vm_compute. split; reflexivity. Qed.
(* 0.03125 = 1 * 2^-5 is an exact tie (312.5 -> 312, even); 0.09375 = 3 * 2^-5 (937.5 -> 938);
   1 - 2^-53 prints as 1.0000; float32(0.1) = 13421773 * 2^-27 prints as 0.1000 *)
Example c15_example_fmt4k :
  fmt4k 1 (-5) = 312 /\ fmt4k 3 (-5) = 938 /\ fmt4k (2 ^ 53 - 1) (-53) = 10000 /\
  fmt4k 13421773 (-27) = 1000 /\ fmt4k 3 1 = 60000 /\
  fmt4_text false 1 (-5) = [48; 46; 48; 51; 49; 50] /\
  fmt4_text true 3 2 = [45; 49; 50; 46; 48; 48; 48; 48] /\
  (0 <= fst (dyadic (2 ^ 53 - 1) (-53)) <= snd (dyadic (2 ^ 53 - 1) (-53))).
Proof. vm_compute. repeat split; try reflexivity; discriminate. Qed.
