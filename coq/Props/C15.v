(* C15 — JSON, CSV and HDF5 outputs tell the same story and round-trip.
   Property theorems only: each is closed by `exact <lemma>`. *)
From Coq Require Import ZArith List Bool Permutation.
From CTM Require Import Base.Sx Base.SortX Model.Tree Model.Output Proofs.OutputP.
Import ListNotations.
Open Scope Z_scope.

(* Writing the result to HDF5 and reading it back reproduces every record: cell id, assignment,
   probability, correlation, aggregate probability, runner-up lists and directly-assigned flag.
   blob_ok (Model/Output.v) = at least one record; every record has exactly the levels of the
   hierarchy; every assignment and runner-up is a node of its level; the three runner-up lists
   have the same length, at most n_runners_up; the runner-up keys are present exactly on the
   directly assigned levels; and the directly_assigned flag is the same, level by level, in all
   records (the writer takes it from the first record). *)
Theorem c15_hdf5_roundtrip : forall npl w b,
  blob_ok w npl b = true ->
  exists f, blob_to_hdf5 npl w b = Ok f /\ hdf5_to_blob f = Ok b.
Proof. exact hdf5_roundtrip. Qed.
Print Assumptions c15_hdf5_roundtrip.

(* The uniformity hypothesis is necessary: two individually well-formed records whose flags differ
   on a level do not survive the round trip (the first-record shortcut loses the flag and the
   runner-up lists of the second).  Real mapping output cannot be of this kind: every record of a
   run passes through the same reduced taxonomy (election_runner marks all its levels True,
   backfill_assignments adds all the others with False). *)
Theorem c15_roundtrip_without_uniform_flags_refuted :
  exists npl w b b',
    b <> [] /\ forallb (cell_ok w npl) b = true /\ flags_uniform b = false /\
    bind (blob_to_hdf5 npl w b) hdf5_to_blob = Ok b' /\ b' <> b.
Proof. exact roundtrip_needs_uniform_flags. Qed.
Print Assumptions c15_roundtrip_without_uniform_flags_refuted.

(* The CSV: the comment lines (JSON file name, hierarchy, readable hierarchy when it differs,
   version line); one row per record, in order; under the columns cell_id, <level>_label,
   <level>_name, <leaf>_alias and the confidence column stand the record's id, its assignment,
   the assignment through the name / alias tables (identity when there is no entry) and the
   confidence (conf = 0: bootstrapping_probability, 1: avg_correlation) rounded to four decimals --
   unless the level's readable name contains 'label', 'name', 'alias' or 'assignment' (categ):
   then the value is written unrounded (finding F12). *)
Theorem c15_csv_rows : forall nm hier meta algo conf sticky categ b c,
  (conf < 2)%nat ->
  blob_to_csv nm hier meta algo conf sticky categ b = Ok c ->
  v_comments c = csv_header nm hier meta algo /\
  length (v_rows c) = length b /\
  forall i cl row,
    nth_error b i = Some cl -> nth_error (v_rows c) i = Some row ->
    csv_get c row KId = Some (CName (c_id cl)) /\
    forall j level l,
      nth_error hier j = Some level -> nth_error (c_levels cl) j = Some l ->
      csv_get c row (KLabel j) = Some (CName (l_assign l)) /\
      csv_get c row (KName j) = Some (CName (label_to_name nm level (l_assign l) false)) /\
      (S j = length hier ->
         csv_get c row (KAlias j) = Some (CName (label_to_name nm level (l_assign l) true))) /\
      csv_get c row (KField j conf) =
        Some (if nth j categ false then CNumFull (conf_value conf l) else CNum4 (fmt4 (conf_value conf l))).
Proof. exact csv_rows. Qed.
Print Assumptions c15_csv_rows.

(* "to four decimals": the printed number is within half a unit of the fourth decimal of the
   JSON value n/d *)
Theorem c15_four_decimals : forall x,
  0 < snd x -> 2 * Z.abs (fmt4 x * snd x - 10000 * fst x) <= snd x.
Proof. exact fmt4_half. Qed.
Print Assumptions c15_four_decimals.

(* full statement for the confidence column -- for EVERY level the CSV shows fmt4 of the JSON
   value -- is refuted by the faithful model on a level whose name contains 'label' (F12) *)
Theorem c15_csv_confidence_four_decimals_refuted :
  exists nm hier conf sticky categ b c row,
    blob_to_csv nm hier None 0 conf sticky categ b = Ok c /\ nth_error (v_rows c) 0 = Some row /\
    csv_get c row (KField 0 conf) = Some (CNumFull (1, 3)).
Proof. exact csv_confidence_not_rounded_on_categorical_level. Qed.
Print Assumptions c15_csv_confidence_four_decimals_refuted.

(* one record per cell in query order: re_order_blob returns the records permuted into the order
   of the query's obs index *)
Theorem c15_query_order : forall b order,
  NoDup (map c_id b) -> Permutation order (map c_id b) ->
  exists b', re_order_blob b order = Ok b' /\ map c_id b' = order /\ Permutation b' b.
Proof. exact re_order_permutation. Qed.
Print Assumptions c15_query_order.

(* the taxonomy embedded in the output (to_str(drop_cells=True) -> from_str) is the input
   taxonomy without its cell lists *)
Theorem c15_tree_reconstructs : forall t : tree,
  t <> [] ->
  is_equal_to (drop_cells t) t = true /\
  length (drop_cells t) = length t /\
  map nodes (drop_cells t) = map nodes t /\
  removelast (drop_cells t) = removelast t /\
  Forall (fun nc => snd nc = []) (leaf_level (drop_cells t)).
Proof. exact tree_reconstructs. Qed.
Print Assumptions c15_tree_reconstructs.

(* non-vacuity: a two-level blob with an inferred (backfilled) top level, runner-up lists of
   different lengths (one shorter than the width 2, one empty), meets the hypotheses *)
Definition ex_blob : blob :=
  [ mkCell 100 [ mkLvl 1 (37, 100) (5, 8) (37, 100) false None;
                 mkLvl 11 (37, 100) (5, 8) (37, 100) true (Some (mkRun [12] [(1, 4)] [(1, 2)])) ];
    mkCell 101 [ mkLvl 2 (1, 1) (-1, 4) (1, 1) false None;
                 mkLvl 13 (1, 1) (-1, 4) (1, 1) true (Some (mkRun [] [] [])) ] ].
Example c15_example_blob_ok : blob_ok 2 [[1; 2]; [11; 12; 13]] ex_blob = true.
Proof. vm_compute. reflexivity. Qed.
Example c15_example_roundtrip :
  bind (blob_to_hdf5 [[1; 2]; [11; 12; 13]] 2 ex_blob) hdf5_to_blob = Ok ex_blob.
Proof. vm_compute. reflexivity. Qed.
Example c15_example_csv :
  exists c, blob_to_csv (mkNaming (Some [(7, 70)]) (Some [(8, [(11, (Some 110, None))])])) [7; 8] (Some 5) 2 0
                        [false; false] [false; false] ex_blob = Ok c /\
            v_cols c = [KId; KLabel 0; KName 0; KField 0 0; KLabel 1; KName 1; KAlias 1; KField 1 0] /\
            nth_error (v_rows c) 0 =
              Some [CName 100; CName 1; CName 1; CNum4 3700; CName 11; CName 110; CName 11; CNum4 3700].
Proof. eexists. vm_compute. repeat split; reflexivity. Qed.
Example c15_example_fmt4 : fmt4 (3, 32) = 938 /\ fmt4 (1, 32) = 312 /\ fmt4 (-1, 10000000) = 0.
Proof. vm_compute. repeat split; reflexivity. Qed.
Example c15_example_tree :
  drop_cells [[(1, [11; 12]); (2, [13])]; [(11, [0; 1]); (12, [2]); (13, [3; 4])]]
  = [[(1, [11; 12]); (2, [13])]; [(11, []); (12, []); (13, [])]].
Proof. vm_compute. reflexivity. Qed.
