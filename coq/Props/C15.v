(* C15 -- placeholder until the proofs are in (stage 1: model + tie). *)
From Coq Require Import ZArith List Bool.
From CTM Require Import Base.Sx Model.Output.
Import ListNotations.
Open Scope Z_scope.

Example c15_example_fmt4 : fmt4 (3, 32) = 938 /\ fmt4 (1, 32) = 312.
Proof. vm_compute. split; reflexivity. Qed.
