(* C14 — a failed worker fails the run; no partial result passes as success.
   Property theorems only: each is closed by `exact <lemma>`.

   PARTIAL BY NATURE (DESIGN §11): the theorems cover the bookkeeping — the dispatch /
   drain loop with either exit-code inspector for EVERY schedule in which every started
   worker terminates (`world` = exit code and termination time of every worker), the
   try/except/finally structure of run_mapping, the order "drain, then complete the
   output" of the six stages.  That the operating system, multiprocessing.Process and the
   real stages have this shape (exit codes of killed / exiting / raising workers, what is
   on disk after the call) is established by the fault-injection runs of
   harness/props/c14.py on the real code, not proved. *)
From Coq Require Import ZArith List Bool Permutation.
From CTM Require Import Base.Sx Model.Pool Model.RunEffects Model.ExitCode Proofs.PoolP Proofs.RunEffectsP Proofs.RunEffectsFinP Proofs.SelPoolP
  Proofs.ExitCodeP.
Import ListNotations.

(* For both inspectors (variant = true: winnow_process_dict, false: winnow_process_list),
   every world W (exit code and termination time of each worker), every bound n >= 1 on
   simultaneously running workers and every number k of workers: the loop terminates with
   a verdict; Ok implies that every worker's exit code is 0; a raise names a dispatched
   worker and its non-zero code; if some worker's code is non-zero the verdict is a raise. *)
Theorem c14_pool_raises : forall (variant : bool) (W : world) (n k : nat), (1 <= n)%nat ->
  stage_result variant W n k <> PHang /\
  (stage_result variant W n k = POk -> forall w, (w < k)%nat -> code W w = 0%Z) /\
  (forall w c, stage_result variant W n k = PRaised w c -> (w < k)%nat /\ c = code W w /\ c <> 0%Z) /\
  ((exists w, (w < k)%nat /\ code W w <> 0%Z) -> exists w c, stage_result variant W n k = PRaised w c).
Proof. exact pool_raises. Qed.
Print Assumptions c14_pool_raises.

(* no worker is dropped from the parent's list unchecked: every pop in the parent's event
   log is of a worker whose exit code was read and found to be 0 — whatever the verdict *)
Theorem c14_no_unchecked_pop : forall (variant : bool) (W : world) (n k : nat),
  forall w, In (EPop w) (snd (if variant then run_pool_dict W n k else run_pool_list W n k)) ->
            code W w = 0%Z.
Proof. exact pool_pops_checked. Qed.
Print Assumptions c14_no_unchecked_pop.

(* exactly one abnormal worker: the error carries that worker's code on every schedule *)
Theorem c14_single_failure_reported : forall variant W n k w0, (1 <= n)%nat -> (w0 < k)%nat ->
  code W w0 <> 0%Z -> (forall w, (w < k)%nat -> w <> w0 -> code W w = 0%Z) ->
  stage_result variant W n k = PRaised w0 (code W w0).
Proof. exact pool_single_failure. Qed.
Print Assumptions c14_single_failure_reported.

(* the exit code multiprocessing.Process.exitcode reports for each failure mode (Model/Pool.v
   exit_code_of; the tie forks real workers and compares): a raising worker 1, a killed worker
   minus the signal number, a worker that calls os._exit(k) the low 8 bits of k.  So killed and
   raising workers always have a non-zero code; an exiting worker has one iff k is not a multiple
   of 256 -- in particular for every k in 1..255, where the code is k itself.
   Domain (audit 3, item 13; Model/ExitCode.v, every figure observed on real forked workers):
   - Exits k: k is a C int, -2^31 <= k < 2^31 (exit_arg_ok).  Outside, os._exit raises
     OverflowError inside the worker and the exit code is 1 (as Raises), whereas
     exit_code_of (Exits (2^31)) = 0: c14_example_exit_overflow_excluded;
   - Killed s: s is a signal that TERMINATES a Python worker (terminating_signal: 1..64 without
     SIGINT 2 -> KeyboardInterrupt, exit code 1; SIGPIPE 13, SIGXFSZ 25, SIGCHLD 17, SIGCONT 18,
     SIGURG 23, SIGWINCH 28 -> ignored, the worker goes on and exits 0; SIGSTOP 19, SIGTSTP 20,
     SIGTTIN 21, SIGTTOU 22 -> the worker is stopped and does not terminate).  For the others
     the exit code is -s, negative.  (The former clause `0 < s -> exit_code_of m < 0` held for
     every positive s, the ignored and stopping signals included.) *)
Theorem c14_abnormal_codes : forall m,
  match m with
  | NoFail => exit_code_of m = 0%Z
  | Raises => exit_code_of m <> 0%Z
  | Exits k => exit_arg_ok k ->
               (0 <= exit_code_of m < 256)%Z /\
               (k mod 256 <> 0 -> exit_code_of m <> 0)%Z /\
               (0 < k < 256 -> exit_code_of m = k /\ exit_code_of m <> 0)%Z
  | Killed s => terminating_signal s = true -> (exit_code_of m = - s /\ exit_code_of m < 0)%Z
  end.
Proof. exact exit_code_nonzero_guarded. Qed.
Print Assumptions c14_abnormal_codes.

(* WHAT `Raises` MEANS (audit 4, A6).  HYPOTHESIS of every statement about a worker that "raises" (mode
   Raises, exit code 1) and about a step of run_mapping that "raises" (Fail p: caught by `except Exception`,
   traceback logged, tag 13): the exception is an instance of a subclass of Exception (is_exception).  For the
   exit code the hypothesis can be weakened to: not a SystemExit whose code is None or a multiple of 256 -
   exactly those leave the worker with exit code 0 (a forked worker that raises SystemExit(0) is, to every
   parent, a worker that returned).  Observed on real forked workers (harness tag 1407). *)
Theorem c14_raises_means_exception : forall r,
  (is_exception r = true -> raise_exit_code r = exit_code_of Raises) /\
  (raise_exit_code r = 0%Z <-> r = RSystemExitNone \/ exists k, r = RSystemExitInt k /\ (k mod 256 = 0)%Z).
Proof. exact raises_means_exception. Qed.
Print Assumptions c14_raises_means_exception.
(* the hypothesis is met by what the harness and real failures raise (RuntimeError: RException -> 1) and the
   excluded input is exactly where a raising worker is not seen: SystemExit() and SystemExit(0) -> 0 *)
Example c14_example_system_exit_excluded :
  raise_exit_code RException = 1%Z /\ exit_code_of Raises = 1%Z /\
  raise_exit_code RSystemExitNone = 0%Z /\ raise_exit_code (RSystemExitInt 0) = 0%Z /\
  raise_exit_code (RSystemExitInt 3) = 3%Z /\ raise_exit_code (RSystemExitInt 256) = 0%Z /\
  raise_exit_code RSystemExitOther = 1%Z /\ raise_exit_code RBaseException = 1%Z /\
  is_exception RBaseException = false /\ is_exception RSystemExitNone = false /\ is_exception RException = true.
Proof. exact system_exit_examples. Qed.

(* os._exit(256) cannot be told from a normal exit by ANY parent: the kernel hands out the low 8
   bits of the status.  "Exiting non-zero" in the property means a non-zero exit STATUS *)
Theorem c14_exit_256_refuted :
  exit_code_of (Exits 256) = 0%Z /\ exit_code_of (Exits (-1)) = 255%Z /\
  exit_code_of (Exits 3) = 3%Z /\ exit_code_of (Killed 9) = (-9)%Z /\ exit_code_of Raises = 1%Z.
Proof. exact exit_256_is_zero. Qed.
Print Assumptions c14_exit_256_refuted.

(* mapping: a failing worker of the assignment pool (list inspector), on every schedule and
   for every configuration of run_mapping, makes the assignment step raise; then the effect
   trace satisfies failed_trace_ok — the call re-raises, no success message, the traceback is
   added to the log BEFORE the log file is written, the log file is written when a log path
   was given, the JSON (when requested) has exactly the keys the finally block adds
   (config, log, metadata [, gene_identifier_mapping]) and no `results`, the HDF5 (when
   requested) holds the metadata only, the result buffer directory made at the top of `try`
   is removed in the `finally` block (buffer_cleaned_trace: after the failing step and the
   traceback, before the tmp directory is removed and before the log file / JSON / HDF5 are
   written) — and no CSV is written; the exception the caller sees is the inspector's
   (propagated = ExBody PAssign).
   HYPOTHESIS fin_quiet c ff (audit 4, A2): no step of the `finally` block raises (ff is None or
   names a step that is not executed under c).  It is what a real run satisfies whose log path,
   output path and HDF5 path can be written and whose query file can be opened
   (c14_example_mapping: ff = None); WITHOUT it the conclusion is false - the log write, the
   read of the query's uns, the JSON dump or the HDF5 write raise, the rest of `finally` is
   skipped and the caller sees THAT exception: c14_worker_failure_and_finally_failure,
   c14_log_written_after_worker_failure_refuted. *)
Theorem c14_mapping_effects : forall (c : cfg) (W : world) (n k : nat) (ff : option fpoint),
  (1 <= n)%nat -> (exists w, (w < k)%nat /\ code W w <> 0%Z) ->
  fin_quiet c ff = true ->
  let fail := assign_fail (stage_result false W n k) in
  fail = Some PAssign /\
  snd (inner c fail) = None /\
  failed_run_ok c fail ff = true /\ no_csv c fail ff = true /\
  propagated c fail ff = ExBody PAssign.
Proof. exact mapping_effects. Qed.
Print Assumptions c14_mapping_effects.

(* the same in readable form, wherever _run_mapping raised *)
Theorem c14_failed_run_effects : forall c fail ff, failed_run_ok c fail ff = true ->
  let tr := fst (run_mapping c fail ff) in
  snd (run_mapping c fail ff) = true /\ has_eff 19 tr = true /\ has_eff 11 tr = false /\
  has_eff 13 tr = true /\ (has_log_path c = true -> has_eff 16 tr = true) /\
  (forall ks, json_keys tr = Some ks -> has_key KResults ks = false /\
      forall k, has_key k ks = true <-> has_key k (finally_keys c) = true) /\
  (has_json c = true -> exists ks, json_keys tr = Some ks) /\
  (forall ks b, hdf5_obs tr = Some (ks, b) -> b = false /\ has_key KResults ks = false /\
      forall k, has_key k ks = true <-> has_key k (finally_keys c) = true) /\
  (has_hdf5 c = true -> exists ks, hdf5_obs tr = Some (ks, false)).
Proof. exact failed_run_unfold. Qed.
Print Assumptions c14_failed_run_effects.

(* wherever _run_mapping raises, PROVIDED no step of `finally` raises (fin_quiet; audit 4, A2:
   with a query file that is absent or a directory the copy step raises, bf = Some PCopy, AND
   read_uns_from_h5ad in `finally` raises, ff = Some PReadUns - the real run then writes the log
   file only, no JSON, no HDF5; without the hypothesis the statement was false of that run).
   A finite check of the transcription (256 configurations x 7 x 5). *)
Theorem c14_any_inner_failure : forall c fail ff,
  snd (inner c fail) = None -> fin_quiet c ff = true -> failed_run_ok c fail ff = true.
Proof. exact inner_raised_checked. Qed.
Print Assumptions c14_any_inner_failure.

(* "no result records" includes the query file: a failing worker of the assignment pool (every
   schedule, every configuration) means run_mapping never reaches the step that appends the
   mapping to the query file's obsm (AppendObsm, tag 8), nor the summary (9), the CSV (7) or
   the success message (11).
   GIVEN THE STEP ORDER OF RunEffects (Assign -> CSV -> obsm -> summary -> success message,
   transcribed from from_specified_markers.py:365-435; the content is in the tie): once
   fail = Some PAssign this is a read-off of the step list of the model (audit 3, item 13: it
   re-proves by `intros [[] [] [] [] [] [] [] []]; vm_compute; repeat split; reflexivity`).
   What the theorem adds to the transcription is the composition with Model/Pool.v: EVERY
   world with a failing worker, under every schedule and bound, makes the assignment step the
   failing one.  That the real run_mapping executes its steps in this order is what the
   fault-injection runs of harness/props/c14.py compare (effects observed on the real
   run_mapping against run_mapping_sx, tag 1404).
   Whatever happens inside `finally` (ff arbitrary: no hypothesis on it is needed here). *)
Theorem c14_failed_run_leaves_query_untouched : forall (c : cfg) (W : world) (n k : nat) (ff : option fpoint),
  (1 <= n)%nat -> (exists w, (w < k)%nat /\ code W w <> 0%Z) ->
  let tr := fst (run_mapping c (assign_fail (stage_result false W n k)) ff) in
  has_eff 8 tr = false /\ has_eff 9 tr = false /\ has_eff 7 tr = false /\ has_eff 11 tr = false.
Proof. exact failed_run_leaves_query_untouched. Qed.
Print Assumptions c14_failed_run_leaves_query_untouched.

(* the same for a failure at any point up to and including the assignment *)
Theorem c14_early_failure_no_obsm : forall c fail ff,
  (fail = Some PCopy \/ fail = Some PMarkerCache \/ fail = Some PAssign) ->
  has_eff 8 (fst (run_mapping c fail ff)) = false /\ has_eff 9 (fst (run_mapping c fail ff)) = false.
Proof. exact early_failure_no_obsm. Qed.
Print Assumptions c14_early_failure_no_obsm.

(* the result buffer directory (named result_buffer_XXXXXXXX) is removed on EVERY path of run_mapping:
   for every configuration and wherever the run fails (or does not) - inside `finally`
   included - the trace holds MkResultBuf and, later, CleanResultBuf; after a failure in the
   body of `try` the removal comes after the failing step and after the traceback was added
   to the log and before the re-raise; it comes before the removal of the tmp directory,
   before each of the log file, the JSON and the HDF5 output that is written, and before a
   failure inside `finally` (tag 20); and unless a step of `finally` fails (fin_quiet) every
   requested output is written and a body exception is re-raised (19) - when a step of `finally`
   fails after the body did, there is no re-raise (audit 4, A2b).  (Before the repair of finding F9 the removal was the last step of
   the success path only.) *)
Theorem c14_result_buffer_removed_on_every_path : forall c fail ff,
  let tr := fst (run_mapping c fail ff) in
  has_eff 3 tr = true /\ has_eff 10 tr = true /\ before 3 10 tr = true /\
  (body_raised c fail = true -> before 12 10 tr = true /\ before 13 10 tr = true /\
                                (has_eff 19 tr = true -> before 10 19 tr = true) /\
                                (fin_quiet c ff = true -> has_eff 19 tr = true)) /\
  (has_tmp c = true -> before 10 14 tr = true) /\
  (has_eff 16 tr = true -> before 10 16 tr = true) /\
  (has_eff 17 tr = true -> before 10 17 tr = true) /\
  (has_eff 18 tr = true -> before 10 18 tr = true) /\
  (has_eff 20 tr = true -> before 10 20 tr = true) /\
  (fin_quiet c ff = true ->
   (has_log_path c = true -> has_eff 16 tr = true) /\
   (has_json c = true -> has_eff 17 tr = true) /\
   (has_hdf5 c = true -> has_eff 18 tr = true)).
Proof. exact buffer_cleaned_unfold. Qed.
Print Assumptions c14_result_buffer_removed_on_every_path.

Theorem c14_result_buffer_cleaned : forall c fail ff, buffer_cleaned c fail ff = true.
Proof. exact buffer_cleaned_checked. Qed.
Print Assumptions c14_result_buffer_cleaned.

(* a failure INSIDE `finally` after the body of `try` SUCCEEDED (audit 3, item 13; fail points
   PLogFile, PJson, PHdf5; PReadUns added by audit 4).  A FINITE CHECK OF THE TRANSCRIPTION in
   Model/RunEffects.v (it re-proves by `intros [[] [] [] [] [] [] [] []] [[]|] []; vm_compute`):
   the content is in the tie, which drives PLogFile (log_path an existing directory), PJson
   (output_path an existing directory), PHdf5 (missing directory) and PReadUns (only together
   with PCopy: a query file that the body accepts and `finally` cannot open does not exist).
   Whenever one of the four steps of the `finally` block is enabled and raises and the body did
   not raise, the call raises AFTER the success message was logged (11 before 20), after the CSV, the
   obsm of the query file and the summary were written (when requested) and after the result
   buffer and the tmp directory were removed; no traceback is added to the log and nothing
   is re-raised (finally_failed_trace).  Such a trace does NOT satisfy prop_trace_ok (a success
   message in the log of a call that raises).
   Observed on the real run_mapping (run here; output_path and log_path are probed before
   `try`, hdf5_output_path is not): with hdf5_output_path = <dir that does not exist>/result.h5
   and obsm_key='cdm' the call raises FileNotFoundError "Unable to synchronously create file",
   the query file's obsm went from [] to ['cdm'], log.txt holds "MAPPING FROM SPECIFIED
   MARKERS RAN SUCCESSFULLY" and no "an ERROR occurred", result.csv and result.json (keys
   results, marker_genes, taxonomy_tree, n_unmapped_genes, config, log, metadata; all 6 cells)
   are complete, tmp is empty.  The correspondence check drives this case as fail point 9
   (harness/props/c14.py other_fail_points).
   IS THIS A VIOLATION OF C14?  No.  C14: "If any worker process of any parallel stage
   terminates abnormally ... the call that started it raises an error.  A mapping run IN THAT
   SITUATION writes no result records, no CSV and no success message, though it still writes
   its log"; its quantifier is every worker of every parallel stage x failure mode x crash
   point.  Here no worker failed: every worker exited 0, the mapping is complete and correct,
   and what fails is the caller's HDF5 destination.  The call does raise (nothing "passes as
   success" to the caller), and the records on disk are not partial.  So the statement is kept
   as a description of what the code does, not as a `_refuted` theorem; it is reported to the
   lead as an observation (hdf5_output_path is not probed like the two other paths, so a run
   of hours can end in a raise after everything else was written), outside C14. *)
Theorem c14_failure_in_finally_after_success : forall c bf p,
  body_raised c bf = false -> fin_enabled c p = true ->
  finally_failed_trace c (fst (run_mapping c bf (Some p))) (snd (run_mapping c bf (Some p))) = true /\
  prop_trace_ok c (fst (run_mapping c bf (Some p))) (snd (run_mapping c bf (Some p))) = false /\
  propagated c bf (Some p) = ExFin p None.
Proof. exact finally_failure_after_success. Qed.
Print Assumptions c14_failure_in_finally_after_success.

(* the HDF5 write in readable form: the call raises, the success message is logged, no
   traceback, no re-raise, no HDF5 file; obsm appended, CSV, log file and the JSON with the
   complete results written.  A FINITE CHECK OF THE TRANSCRIPTION (re-proves by
   `intros [[] [] [] [] [] [] [] []]; vm_compute`); matched by the real runs of the tie (point 9). *)
Theorem c14_hdf5_failure_effects : forall c, has_hdf5 c = true ->
  let tr := fst (run_mapping c None (Some PHdf5)) in
  snd (run_mapping c None (Some PHdf5)) = true /\
  has_eff 11 tr = true /\ has_eff 13 tr = false /\ has_eff 19 tr = false /\ has_eff 18 tr = false /\
  (has_obsm c = true -> has_eff 8 tr = true) /\ (has_csv c = true -> has_eff 7 tr = true) /\
  (has_log_path c = true -> has_eff 16 tr = true) /\
  (has_json c = true -> exists ks, json_keys tr = Some ks /\ has_key KResults ks = true).
Proof. exact hdf5_failure_unfold. Qed.
Print Assumptions c14_hdf5_failure_effects.

(* ---- a failure of the body AND a failure inside `finally` (audit 4, A2b).
   For every configuration, every fail point bf at which the body raises and every enabled step
   p of `finally` that raises: double_failed_trace - the call raises; the `except` clause ran
   (12 then 13 then the buffer removal) but nothing is re-raised (no 19), the trace ends at the
   failing step (20); no success message; the log FILE is written iff a log path was given and
   p is not the log write; the JSON iff requested and p is the HDF5 write; never an HDF5 -; the
   caller sees the exception of `finally`, the body's survives only as its __context__
   (ExFin p (Some q)); failed_trace_ok does not hold.  A finite check of the transcription;
   the tie drives bf = PAssign (a real worker made to raise) with p = PLogFile / PJson / PHdf5
   and bf = PCopy with p = PReadUns, and reads the chain of __context__ and the line of
   run_mapping at which each exception of the chain was raised. *)
Theorem c14_body_and_finally_failure : forall c bf p,
  body_raised c bf = true -> fin_enabled c p = true ->
  let r := run_mapping c bf (Some p) in
  double_failed_trace c p (fst r) (snd r) = true /\
  (exists q, propagated c bf (Some p) = ExFin p (Some q) /\ failed_body (fst r) = Some q) /\
  failed_trace_ok c (fst r) (snd r) = false.
Proof. exact double_failure_checked. Qed.
Print Assumptions c14_body_and_finally_failure.

(* which exception the caller sees, in all cases *)
Theorem c14_propagated_exception : forall c bf ff,
  let r := run_mapping c bf ff in
  (propagated c bf ff = ExNone <-> snd r = false) /\
  (body_raised c bf = true -> fin_quiet c ff = true -> exists q, propagated c bf ff = ExBody q) /\
  (forall p, ff = Some p -> fin_enabled c p = true ->
     propagated c bf ff = ExFin p (failed_body (fst r)) /\ has_eff 19 (fst r) = false).
Proof. exact propagated_cases. Qed.
Print Assumptions c14_propagated_exception.

(* composed with Model/Pool.v: a failing worker of the assignment pool (every world, schedule,
   bound) and a failing step of `finally`.  The call raises - the exception of `finally`, the
   inspector's RuntimeError only as __context__ -; still no success message, no CSV, no obsm, no
   summary, no HDF5, no `results` in a JSON; but the log file is written ONLY IF the failing
   step is not the log write. *)
Theorem c14_worker_failure_and_finally_failure : forall (c : cfg) (W : world) (n k : nat) (p : fpoint),
  (1 <= n)%nat -> (exists w, (w < k)%nat /\ code W w <> 0%Z) ->
  fin_enabled c p = true ->
  let fail := assign_fail (stage_result false W n k) in
  let r := run_mapping c fail (Some p) in
  snd r = true /\ propagated c fail (Some p) = ExFin p (Some PAssign) /\
  has_eff 13 (fst r) = true /\ has_eff 19 (fst r) = false /\ has_eff 11 (fst r) = false /\
  has_eff 7 (fst r) = false /\ has_eff 8 (fst r) = false /\ has_eff 9 (fst r) = false /\
  has_eff 18 (fst r) = false /\
  has_eff 16 (fst r) = (has_log_path c && negb (fpoint_eqb p PLogFile)) /\
  has_eff 17 (fst r) = (has_json c && fpoint_eqb p PHdf5) /\
  (forall ks, json_keys (fst r) = Some ks -> has_key KResults ks = false).
Proof. exact mapping_double_failure. Qed.
Print Assumptions c14_worker_failure_and_finally_failure.

(* REFUTED, finding F34: "A mapping run in that situation [a worker terminated abnormally] ...
   still writes its log".  With log_path an existing DIRECTORY (it passes the probe before `try`,
   which only probes paths that do not exist) and a worker that raises, the real run_mapping
   raises IsADirectoryError from log.write_log, the worker's RuntimeError only as __context__,
   and writes NOTHING: no log file, no JSON (which would hold the log too), no HDF5 - observed,
   out listing ['log.txt/'].  The antecedent of C14 holds (a worker terminated abnormally); the
   clause is false.  (An unwritable log path is an invalid configuration: no implementation can
   write a log there.  What the code could do, and does not: reject it before `try` like a path
   in a missing directory, or still write the JSON - whose "log" key holds the traceback - when
   the log file cannot be written.) *)
Theorem c14_log_written_after_worker_failure_refuted :
  exists c bf ff, bf = Some PAssign /\ has_log_path c = true /\
    let r := run_mapping c bf ff in
    snd r = true /\ has_eff 16 (fst r) = false /\ has_eff 17 (fst r) = false /\ has_eff 18 (fst r) = false /\
    prop_trace_ok c (fst r) (snd r) = false /\
    propagated c bf ff = ExFin PLogFile (Some PAssign).
Proof. exact log_written_after_worker_failure_refuted. Qed.
Print Assumptions c14_log_written_after_worker_failure_refuted.

(* the other stages (and the assignment stage itself).  GIVEN THE TRANSCRIPTION of the six stages
   in Model/Pool.v (stats_stage ... mapping_stage: which effects come before each pool, after the
   last clean drain, in the `finally`, after it -- written by hand from the six functions, tied to
   the real stages only by the fault-injection runs of the harness, which compare the effects
   observed on disk with run_stage_desc_c): SComplete occurs in none of the pre-pool or `finally`
   lists, so this theorem is, as far as the stage descriptions go, a check of that transcription;
   what is PROVED is the pool part -- a failing worker in any phase, under any schedule, bound and
   inspector, makes that pool's verdict a raise, and a completed stage means every pool drained
   with all codes 0.  For each of the six stage
   descriptions, whatever the worlds of its pools, a failing worker in ANY phase means the
   stage does not complete and the completing effect (taxonomy_tree dataset / move into
   place / data-indices-indptr / return of the result) does not happen; a completed stage
   means every worker of every phase exited with code 0.  `clean_ok` = whether the removal
   of the scratch directory in the `finally` block succeeds while sibling workers still write
   into it: when it does not, the caller sees the clean-up's exception instead of the
   inspector's RuntimeError (snd r = ECleanup) — an exception all the same (snd r <> ENone) *)
Theorem c14_no_complete_output : forall s specs clean_ok,
  In s all_stages -> length specs = length (sd_phases s) ->
  Forall (fun p => (1 <= spec_bound p)%nat) specs ->
  let r := run_stage_desc_c s (map pool_result specs) clean_ok in
  ((exists p, In p specs /\ spec_fails p) ->
     snd (fst r) = false /\ ~ In SComplete (fst (fst r)) /\ snd r <> ENone) /\
  (snd (fst r) = true -> snd r = ENone /\ forall p, In p specs -> spec_all_zero p).
Proof. exact no_complete_output. Qed.
Print Assumptions c14_no_complete_output.

(* the scheduler of select_all_markers has its own loop (behemoth parents one at a time,
   parents without leaf pairs completed inline): for every world, bound and partition of
   the parents, a clean verdict means every parent that was given a process exited with
   code 0; a raise names a started parent and its non-zero code.  (Safety only; kept next
   to the full statement c14_selection_scheduler below.) *)
Theorem c14_selection_scheduler_partial : forall (W : world) (n : nat) (behemoths smaller leafless : list nat),
  let r := run_selection_pool W n behemoths smaller leafless in
  (fst r = POk -> forall p, In p (ss_started (snd r)) -> mem p leafless = false -> code W p = 0%Z) /\
  (forall w c, fst r = PRaised w c -> In w (ss_started (snd r)) /\ c = code W w /\ c <> 0%Z).
Proof. exact selection_pool_verdict. Qed.
Print Assumptions c14_selection_scheduler_partial.

(* the full statement.  For every world W (every worker has an exit code and a finite
   duration), every n >= 1, every duplicate-free list of parents split in any way into
   behemoths and smaller, and any set of leafless parents:
   - the verdict is never PHang: the fuels chosen in run_selection_pool suffice, because each
     iteration of `while len(started_parents) < len(parent_list)` either starts a parent or --
     when no parent can be chosen -- finds a behemoth in process_dict (pool invariant) and
     polls until a worker is popped, and every inner poll loop ends within max(dur)+1 polls;
   - on Ok EVERY parent was started (started is a permutation of the parent list), process_dict
     is empty and every parent with leaf pairs exited with 0; completed_parents is duplicate-free
     and within the parent list -- but NOT all of it in general: the final
     `while len(process_dict) > 0` loop pops workers without recording them (c14_example_final_drain);
   - a raise names a parent of the list that has leaf pairs, with its non-zero code;
   - if some parent with leaf pairs has a non-zero code the verdict is a raise. *)
Theorem c14_selection_scheduler : forall (W : world) (n : nat) (behemoths smaller leafless : list nat),
  (1 <= n)%nat -> NoDup (behemoths ++ smaller) ->
  let parents := behemoths ++ smaller in
  let r := run_selection_pool W n behemoths smaller leafless in
  fst r <> PHang /\
  (fst r = POk ->
     Permutation (ss_started (snd r)) parents /\
     (NoDup (ss_completed (snd r)) /\ forall p, In p (ss_completed (snd r)) -> In p parents) /\
     ss_running (snd r) = [] /\
     forall p, In p parents -> mem p leafless = false -> code W p = 0%Z) /\
  (forall w c, fst r = PRaised w c ->
     In w parents /\ mem w leafless = false /\ c = code W w /\ c <> 0%Z) /\
  ((exists p, In p parents /\ mem p leafless = false /\ code W p <> 0%Z) ->
     exists w c, fst r = PRaised w c).
Proof. exact selection_scheduler. Qed.
Print Assumptions c14_selection_scheduler.

(* the same with the parents numbered 0..k-1 and partitioned into behemoths / smaller *)
Theorem c14_selection_scheduler_partition : forall (W : world) (n k : nat) (behemoths smaller leafless : list nat),
  (1 <= n)%nat -> Permutation (behemoths ++ smaller) (seq 0 k) ->
  let r := run_selection_pool W n behemoths smaller leafless in
  fst r <> PHang /\
  (fst r = POk ->
     Permutation (ss_started (snd r)) (seq 0 k) /\
     (NoDup (ss_completed (snd r)) /\ forall p, In p (ss_completed (snd r)) -> (p < k)%nat) /\
     ss_running (snd r) = [] /\
     forall p, (p < k)%nat -> mem p leafless = false -> code W p = 0%Z) /\
  (forall w c, fst r = PRaised w c ->
     (w < k)%nat /\ mem w leafless = false /\ c = code W w /\ c <> 0%Z) /\
  ((exists p, (p < k)%nat /\ mem p leafless = false /\ code W p <> 0%Z) ->
     exists w c, fst r = PRaised w c).
Proof. exact selection_scheduler_partition. Qed.
Print Assumptions c14_selection_scheduler_partition.

(* what the scheduler is there to enforce, at every state the loop can hand back (stop the
   outer loop after any number `outer` of iterations, starve the inner loops with any
   `fuel` and the final drain with any `dfuel`): at most n processes, and at most one behemoth
   among them *)
Theorem c14_selection_limits : forall (W : world) (n : nat) (behemoths smaller leafless : list nat) (outer fuel dfuel : nat),
  (1 <= n)%nat -> NoDup (behemoths ++ smaller) ->
  let s := snd (sel_loop outer fuel dfuel W n (length behemoths + length smaller) behemoths smaller leafless sel_init) in
  (length (ss_running s) <= n)%nat /\
  (forall b1 b2, In b1 behemoths -> In b2 behemoths ->
     In b1 (map fst (ss_running s)) -> In b2 (map fst (ss_running s)) -> b1 = b2).
Proof. exact scheduler_limits. Qed.
Print Assumptions c14_selection_limits.

(* the hypothesis NoDup is needed: with a parent listed twice in parent_list the loop spins
   for ever (a set of started parents never reaches the length of the list).  No caller inside
   the package builds such a list (taxonomy_tree.all_parents is duplicate-free). *)
Theorem c14_selection_duplicate_parent_refuted :
  fst (run_selection_pool {| code := fun _ => 0%Z; dur := fun _ => 1%nat |} 2 [] [0; 0]%nat []) = PHang.
Proof. exact duplicate_parent_hangs. Qed.
Print Assumptions c14_selection_duplicate_parent_refuted.

(* wherever _run_mapping raises, the effect trace of the MODEL satisfies prop_trace_ok -- the
   executable statement of the property's own clauses (raises; no success message; log file written
   after the traceback was added; JSON / HDF5 hold only what the finally block adds), the predicate
   the harness evaluates on the effects OBSERVED on the real run_mapping.  A finite check of the
   transcription in Model/RunEffects.v (256 configurations x 6 fail points of the body x the
   choices of ff that are quiet).  HYPOTHESIS fin_quiet c ff: no step of `finally` raises
   (audit 4, A2: without it the statement is false - c14_body_and_finally_failure,
   c14_log_written_after_worker_failure_refuted; with a missing query file bf = PCopy comes
   with ff = PReadUns and the real run writes its log file and nothing else, which does
   satisfy prop_trace_ok but not failed_trace_ok).
   (Until the audit this name stood for `failed_trace_ok c tr r = true -> prop_trace_ok c tr r = true`,
   which is a projection: failed_trace_ok is DEFINED as prop_trace_ok && ...; that remains as
   Proofs/RunEffectsP.v failed_implies_prop, labelled as what it is.) *)
Theorem c14_failed_trace_has_property : forall c fail ff,
  snd (inner c fail) = None -> fin_quiet c ff = true ->
  prop_trace_ok c (fst (run_mapping c fail ff)) (snd (run_mapping c fail ff)) = true.
Proof. exact failed_run_has_property. Qed.
Print Assumptions c14_failed_trace_has_property.

(* ---- the hypotheses are satisfiable, the conclusions are not vacuous *)
(* three workers, two at a time; worker 1 is killed (code -9) and terminates last *)
Example c14_example_world :
  let W := {| code := fun w => if Nat.eqb w 1 then (-9)%Z else 0%Z; dur := fun w => if Nat.eqb w 1 then 3%nat else 1%nat |} in
  run_pool_list W 2 3 = (PRaised 1 (-9), [EStart 0; EStart 1; EPop 0; EStart 2])%nat /\
  run_pool_dict W 2 3 = (PRaised 1 (-9), [EStart 0; EStart 1; EPop 0; EStart 2])%nat.
Proof. vm_compute. split; reflexivity. Qed.

Example c14_example_clean :
  let W := {| code := fun _ => 0%Z; dur := fun w => (3 - w)%nat |} in
  run_pool_list W 2 3 = (POk, [EStart 0; EStart 1; EPop 1; EStart 2; EPop 0; EPop 2])%nat.
Proof. vm_compute. reflexivity. Qed.

Example c14_example_mapping :
  let c := {| has_tmp := true; has_csv := true; has_obsm := false; has_summary := false; has_log_path := true;
              has_json := true; has_hdf5 := true; has_gene_map := false |} in
  fin_quiet c None = true /\
  map eff_tag (fst (run_mapping c (Some PAssign) None)) = [1; 2; 3; 4; 5; 12; 13; 10; 14; 15; 16; 21; 17; 18; 19]%Z /\
  json_keys (fst (run_mapping c (Some PAssign) None)) = Some [KConfig; KLog; KMetadata] /\
  map eff_tag (fst (run_mapping c None None)) = [1; 2; 3; 4; 5; 6; 7; 11; 10; 14; 15; 16; 21; 17; 18]%Z /\
  clean_run_ok c = true.
Proof. vm_compute. repeat split; reflexivity. Qed.

(* the excluded inputs of c14_any_inner_failure / c14_failed_trace_has_property are exactly where the
   real run differs (all four observed on the real run_mapping, harness/props/c14.py other_fail_points):
   - query file absent or a directory: copy step (1) and read_uns (10) raise; log file only;
   - a worker raises and log_path is a directory: nothing written (F34);
   - a worker raises and output_path is a directory: log file only;
   - a worker raises and the HDF5 directory is missing: log file and JSON (config, log, metadata) *)
Example c14_example_double_failures :
  let c := {| has_tmp := true; has_csv := true; has_obsm := false; has_summary := false; has_log_path := true;
              has_json := true; has_hdf5 := true; has_gene_map := false |} in
  fin_quiet c (Some PReadUns) = false /\ body_raised c (Some PCopy) = true /\ fin_enabled c PReadUns = true /\
  map eff_tag (fst (run_mapping c (Some PCopy) (Some PReadUns))) = [1; 2; 3; 12; 13; 10; 14; 15; 16; 20]%Z /\
  failed_run_ok c (Some PCopy) (Some PReadUns) = false /\
  propagated c (Some PCopy) (Some PReadUns) = ExFin PReadUns (Some PCopy) /\
  map eff_tag (fst (run_mapping c (Some PAssign) (Some PLogFile))) = [1; 2; 3; 4; 5; 12; 13; 10; 14; 15; 20]%Z /\
  map eff_tag (fst (run_mapping c (Some PAssign) (Some PJson))) = [1; 2; 3; 4; 5; 12; 13; 10; 14; 15; 16; 21; 20]%Z /\
  map eff_tag (fst (run_mapping c (Some PAssign) (Some PHdf5))) = [1; 2; 3; 4; 5; 12; 13; 10; 14; 15; 16; 21; 17; 20]%Z /\
  json_keys (fst (run_mapping c (Some PAssign) (Some PHdf5))) = Some [KConfig; KLog; KMetadata] /\
  propagated c (Some PAssign) (Some PHdf5) = ExFin PHdf5 (Some PAssign).
Proof. vm_compute. repeat split; reflexivity. Qed.

(* the configuration of the real run quoted at c14_failure_in_finally_after_success (tmp, CSV,
   obsm, log, JSON, HDF5): the hypothesis fin_enabled holds and the trace is
   ... Assign, CSV, obsm, success message, buffer and tmp removed, log file, JSON, then the
   failing HDF5 write (20) - no 12, 13, 18, 19 *)
Example c14_example_hdf5_failure :
  let c := {| has_tmp := true; has_csv := true; has_obsm := true; has_summary := false; has_log_path := true;
              has_json := true; has_hdf5 := true; has_gene_map := false |} in
  fin_enabled c PHdf5 = true /\
  map eff_tag (fst (run_mapping c None (Some PHdf5))) = [1; 2; 3; 4; 5; 6; 7; 8; 11; 10; 14; 15; 16; 21; 17; 20]%Z /\
  snd (run_mapping c None (Some PHdf5)) = true /\
  json_keys (fst (run_mapping c None (Some PHdf5))) =
    Some [KResults; KMarkerGenes; KTaxonomyTree; KNUnmapped; KConfig; KLog; KMetadata] /\
  (* a log file that cannot be written: nothing at all is written at the outputs *)
  map eff_tag (fst (run_mapping c None (Some PLogFile))) = [1; 2; 3; 4; 5; 6; 7; 8; 11; 10; 14; 15; 20]%Z.
Proof. vm_compute. repeat split; reflexivity. Qed.

Example c14_example_stage :
  let W := {| code := fun w => if Nat.eqb w 0 then 3%Z else 0%Z; dur := fun _ => 1%nat |} in
  run_stage_desc stats_stage [pool_result (false, W, 2, 2)%nat] = ([SScratch; SCleanScratch], false) /\
  run_stage_desc pmask_stage [pool_result (true, W, 2, 2)%nat] = ([SScratch; SSkeleton; SCleanScratch], false) /\
  run_stage_desc markers_stage [POk; pool_result (false, W, 2, 2)%nat; POk] = ([SScratch; SScratch], false) /\
  run_stage_desc stats_stage [POk] = ([SScratch; SPayload; SCleanScratch; SComplete], true) /\
  run_stage_desc_c transpose_stage [pool_result (false, W, 2, 2)%nat] false = ([SScratch], false, ECleanup).
Proof. vm_compute. repeat split; reflexivity. Qed.

(* parents 0 and 1 are behemoths (one at a time), 2 is small, 3 has no leaf pair; parent 1 is
   killed: the scheduler reports it *)
Example c14_example_selection :
  let W := {| code := fun w => if Nat.eqb w 1 then (-9)%Z else 0%Z; dur := fun _ => 1%nat |} in
  fst (run_selection_pool W 2 [0; 1] [2; 3] [3])%nat = PRaised 1 (-9) /\
  fst (run_selection_pool {| code := fun _ => 0%Z; dur := fun _ => 1%nat |} 2 [0; 1] [2; 3] [3])%nat = POk.
Proof. vm_compute. split; reflexivity. Qed.

(* the hypotheses of c14_selection_scheduler on a non-trivial instance: five parents, 0 and 3
   behemoths, 4 without leaf pairs, two processes at a time, unequal durations; every parent
   is started, the behemoths never together *)
Example c14_example_scheduler :
  let W := {| code := fun _ => 0%Z; dur := fun w => (9 - 2 * w)%nat |} in
  let r := run_selection_pool W 2 [0; 3] [1; 2; 4] [4]%nat in
  NoDup ([0; 3] ++ [1; 2; 4])%nat /\ Permutation ([0; 3] ++ [1; 2; 4])%nat (seq 0 5) /\
  fst r = POk /\ ss_started (snd r) = [0; 1; 2; 3; 4]%nat /\ ss_completed (snd r) = [1; 0; 2; 3; 4]%nat /\
  ss_running (snd r) = [] /\
  fst (run_selection_pool {| code := fun w => if Nat.eqb w 3 then 1%Z else 0%Z; dur := fun w => (9 - 2 * w)%nat |}
                          2 [0; 3] [1; 2; 4] [4])%nat = PRaised 3 1.
Proof.
  cbv zeta. split; [|split].
  - repeat constructor; cbn; intuition discriminate.
  - cbn. apply perm_skip. apply (Permutation_cons_app [1; 2]%nat [4]%nat 3%nat). reflexivity.
  - vm_compute. repeat split; reflexivity.
Qed.

(* the final drain pops without recording: one parent, still running when the outer loop ends *)
Example c14_example_final_drain :
  let W := {| code := fun _ => 0%Z; dur := fun _ => 3%nat |} in
  let r := run_selection_pool W 2 [] [0%nat] [] in
  fst r = POk /\ ss_started (snd r) = [0%nat] /\ ss_completed (snd r) = [] /\ ss_running (snd r) = [].
Proof. exact final_drain_does_not_complete. Qed.

(* the domain of c14_abnormal_codes.  os._exit: 2^31 and -2^31-1 are excluded - there the real
   worker dies of OverflowError with exit code 1 while the model says 0 -, 2^31-1 (-> 255) and
   -2^31 (-> 0) are inside, as observed.  Signals: KILL 9, TERM 15, USR1 10 (the ones the tie
   sends), SEGV 11 and the real-time signal 64 terminate; CHLD 17, CONT 18, STOP 19, URG 23,
   WINCH 28, INT 2 do not, although exit_code_of (Killed 17) = -17 *)
Example c14_example_exit_overflow_excluded :
  ~ exit_arg_ok (2 ^ 31) /\ exit_code_of (Exits (2 ^ 31)) = 0%Z /\
  exit_arg_ok (2 ^ 31 - 1) /\ exit_code_of (Exits (2 ^ 31 - 1)) = 255%Z /\
  exit_arg_ok (- 2 ^ 31) /\ exit_code_of (Exits (- 2 ^ 31)) = 0%Z /\
  ~ exit_arg_ok (- 2 ^ 31 - 1).
Proof. exact exit_overflow_excluded. Qed.
Example c14_example_signals :
  terminating_signal 9 = true /\ terminating_signal 15 = true /\ terminating_signal 10 = true /\
  terminating_signal 11 = true /\ terminating_signal 64 = true /\
  terminating_signal 17 = false /\ terminating_signal 18 = false /\ terminating_signal 19 = false /\
  terminating_signal 23 = false /\ terminating_signal 28 = false /\ terminating_signal 2 = false /\
  terminating_signal 0 = false /\ terminating_signal 65 = false /\
  exit_code_of (Killed 17) = (-17)%Z.
Proof. exact signal_examples. Qed.

(* the excluded input of c14_abnormal_codes is exactly where the parent sees nothing: a pool whose
   only worker calls os._exit(256) drains cleanly; with os._exit(255) it raises *)
Example c14_example_exit_256 :
  fst (run_pool_list {| code := fun _ => exit_code_of (Exits 256); dur := fun _ => 1%nat |} 1 1) = POk /\
  fst (run_pool_list {| code := fun _ => exit_code_of (Exits 255); dur := fun _ => 1%nat |} 1 1) = PRaised 0 255.
Proof. vm_compute. split; reflexivity. Qed.
