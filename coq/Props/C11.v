(* C11 — reference markers are sound and complete for the stated criteria.
   Property theorems only: each is closed by `exact <lemma>` (lemmas in Proofs/HolmP.v,
   Proofs/PenetranceP.v). *)
From Coq Require Import ZArith List Bool Arith Lia Permutation Sorted.
From CTM Require Import Base.Sx Model.Holm Model.Penetrance Proofs.HolmP.
Import ListNotations.
Open Scope Z_scope.

Example c11_example_holm :
  correct_ttest 1000 0 [10; 500; 3; 10; 900; 4] = [40; 1000; 18; 40; 1000; 20] /\
  approx_correct_ttest 1000 100 [10; 500; 3; 10; 900; 4] = [40; 500; 18; 40; 900; 20].
Proof. vm_compute. split; reflexivity. Qed.

(* ------------------------------------------------------------------ *)
(* Holm-Bonferroni.  p-values are P/S, the threshold is T/S (S > 0 a common denominator).

   Tie invariance: np.argsort leaves the order of equal p-values unspecified.  For EVERY
   arrangement l' of enumerate(p) that is sorted by value (every possible argsort result),
   multiplying by m, m-1, ..., taking the running maximum, clipping at 1 and scattering
   back by position gives the same array as the model's (stable) order.  Needs p >= 0. *)
Theorem c11_holm_tie_invariant : forall S padding p l',
  Forall (fun x => 0 <= x) p ->
  Permutation l' (index p) -> StronglySorted (fun a b : ipair => snd a <= snd b) l' ->
  by_index (map (fun x : ipair => (fst x, clip S (snd x)))
                (runmax (Z.of_nat (length p + padding)) l'))
  = correct_ttest S padding p.
Proof. exact holm_tie_invariant. Qed.
Print Assumptions c11_holm_tie_invariant.

Example c11_holm_tie_nonvacuous :
  (* two different sorted arrangements of the tie 10 = 10 (positions 0 and 3) *)
  let p := [10; 500; 3; 10; 900; 4] in
  let l1 : list ipair := [(2%nat, 3); (5%nat, 4); (0%nat, 10); (3%nat, 10); (1%nat, 500); (4%nat, 900)] in
  let l2 : list ipair := [(2%nat, 3); (5%nat, 4); (3%nat, 10); (0%nat, 10); (1%nat, 500); (4%nat, 900)] in
  Forall (fun x => 0 <= x) p /\
  Permutation l1 (index p) /\ Permutation l2 (index p) /\ l1 <> l2 /\
  StronglySorted (fun a b : ipair => snd a <= snd b) l1 /\
  StronglySorted (fun a b : ipair => snd a <= snd b) l2 /\
  by_index (map (fun x : ipair => (fst x, clip 1000 (snd x))) (runmax 6 l2)) = [40; 1000; 18; 40; 1000; 20].
Proof.
  cbv zeta. split; [repeat constructor; lia|].
  assert (P1 : Permutation [(2%nat, 3); (5%nat, 4); (0%nat, 10); (3%nat, 10); (1%nat, 500); (4%nat, 900)]
                           (index [10; 500; 3; 10; 900; 4])).
  { rewrite <- (sortp_perm (index [10; 500; 3; 10; 900; 4])). vm_compute. apply Permutation_refl. }
  split; [exact P1|]. split.
  { eapply Permutation_trans; [|exact P1].
    do 2 constructor. apply perm_swap. }
  split; [discriminate|].
  split; [repeat constructor; cbn; lia|].
  split; [repeat constructor; cbn; lia|].
  vm_compute. reflexivity.
Qed.

(* Restricted Holm (DESIGN Appendix A.4): for 0 <= p <= 1 and p_th <= 1,
   - every p_i < p_th receives exactly its full Holm value,
   - every other p_i is left unchanged (so stays >= p_th) and its full Holm value is >= p_th too,
   - hence approx[i] < p_th  <->  holm[i] < p_th at every position. *)
Theorem c11_restricted_holm_equiv : forall S T p,
  Forall (fun x => 0 <= x <= S) p -> T <= S ->
  length (approx_correct_ttest S T p) = length p /\ length (correct_ttest S 0 p) = length p /\
  forall i v, nth_error p i = Some v ->
    (v < T -> nth_error (approx_correct_ttest S T p) i = nth_error (correct_ttest S 0 p) i) /\
    (T <= v -> nth_error (approx_correct_ttest S T p) i = Some v /\
               exists w, nth_error (correct_ttest S 0 p) i = Some w /\ T <= w) /\
    (exists a h, nth_error (approx_correct_ttest S T p) i = Some a /\
                 nth_error (correct_ttest S 0 p) i = Some h /\ (a < T <-> h < T)).
Proof. exact restricted_holm_equiv. Qed.
Print Assumptions c11_restricted_holm_equiv.

(* the same as an equation between the decision vectors *)
Theorem c11_restricted_holm_decisions : forall S T p,
  Forall (fun x => 0 <= x <= S) p -> T <= S ->
  map (fun v => v <? T) (approx_correct_ttest S T p) = map (fun v => v <? T) (correct_ttest S 0 p).
Proof. exact restricted_holm_decisions. Qed.
Print Assumptions c11_restricted_holm_decisions.

Example c11_restricted_nonvacuous :
  Forall (fun x => 0 <= x <= 1000) [10; 500; 3; 10; 900; 4] /\ 100 <= 1000 /\
  map (fun v => v <? 100) (approx_correct_ttest 1000 100 [10; 500; 3; 10; 900; 4]) = [true; false; true; true; false; true].
Proof.
  split; [repeat constructor; lia|]. split; [lia|]. vm_compute; reflexivity.
Qed.
