(* C11 — reference markers are sound and complete for the stated criteria.
   Property theorems only: each is closed by `exact <lemma>` (lemmas in Proofs/HolmP.v,
   Proofs/PenetranceP.v). *)
From Coq Require Import ZArith List Bool Arith Lia Permutation Sorted.
From CTM Require Import Base.Sx Model.Holm Model.Penetrance Model.Stats Model.Welch Model.Sparse Model.Transpose Proofs.HolmP Proofs.PenetranceP Proofs.BoringP Proofs.WelchP Proofs.MarkerTablesP.
Import ListNotations.
Open Scope Z_scope.

Example c11_example_holm :
  correct_ttest 1000 0 [10; 500; 3; 10; 900; 4] = [40; 1000; 18; 40; 1000; 20] /\
  approx_correct_ttest 1000 100 [10; 500; 3; 10; 900; 4] = [40; 500; 18; 40; 900; 20].
Proof. vm_compute. split; reflexivity. Qed.

(* ------------------------------------------------------------------ *)
(* Holm-Bonferroni.  p-values are P/S, the threshold is T/S (S > 0 a common denominator).

   Tie invariance: np.argsort leaves the order of equal p-values unspecified.  For EVERY
   arrangement l' of enumerate(p) that is sorted by value (every possible argsort result),
   multiplying by m, m-1, ..., taking the running maximum, clipping at 1 and scattering
   back by position gives the same array as the model's (stable) order.  Needs p >= 0. *)
Theorem c11_holm_tie_invariant : forall S padding p l',
  Forall (fun x => 0 <= x) p ->
  Permutation l' (index p) -> StronglySorted (fun a b : ipair => snd a <= snd b) l' ->
  by_index (map (fun x : ipair => (fst x, clip S (snd x)))
                (runmax (Z.of_nat (length p + padding)) l'))
  = correct_ttest S padding p.
Proof. exact holm_tie_invariant. Qed.
Print Assumptions c11_holm_tie_invariant.

Example c11_holm_tie_nonvacuous :
  (* two different sorted arrangements of the tie 10 = 10 (positions 0 and 3) *)
  let p := [10; 500; 3; 10; 900; 4] in
  let l1 : list ipair := [(2%nat, 3); (5%nat, 4); (0%nat, 10); (3%nat, 10); (1%nat, 500); (4%nat, 900)] in
  let l2 : list ipair := [(2%nat, 3); (5%nat, 4); (3%nat, 10); (0%nat, 10); (1%nat, 500); (4%nat, 900)] in
  Forall (fun x => 0 <= x) p /\
  Permutation l1 (index p) /\ Permutation l2 (index p) /\ l1 <> l2 /\
  StronglySorted (fun a b : ipair => snd a <= snd b) l1 /\
  StronglySorted (fun a b : ipair => snd a <= snd b) l2 /\
  by_index (map (fun x : ipair => (fst x, clip 1000 (snd x))) (runmax 6 l2)) = [40; 1000; 18; 40; 1000; 20].
Proof.
  cbv zeta. split; [repeat constructor; lia|].
  assert (P1 : Permutation [(2%nat, 3); (5%nat, 4); (0%nat, 10); (3%nat, 10); (1%nat, 500); (4%nat, 900)]
                           (index [10; 500; 3; 10; 900; 4])).
  { rewrite <- (sortp_perm (index [10; 500; 3; 10; 900; 4])). vm_compute. apply Permutation_refl. }
  split; [exact P1|]. split.
  { eapply Permutation_trans; [|exact P1].
    do 2 constructor. apply perm_swap. }
  split; [discriminate|].
  split; [repeat constructor; cbn; lia|].
  split; [repeat constructor; cbn; lia|].
  vm_compute. reflexivity.
Qed.

(* Restricted Holm (DESIGN Appendix A.4): for 0 <= p <= 1 and p_th <= 1,
   - every p_i < p_th receives exactly its full Holm value,
   - every other p_i is left unchanged (so stays >= p_th) and its full Holm value is >= p_th too,
   - hence approx[i] < p_th  <->  holm[i] < p_th at every position. *)
Theorem c11_restricted_holm_equiv : forall S T p,
  Forall (fun x => 0 <= x <= S) p -> T <= S ->
  length (approx_correct_ttest S T p) = length p /\ length (correct_ttest S 0 p) = length p /\
  forall i v, nth_error p i = Some v ->
    (v < T -> nth_error (approx_correct_ttest S T p) i = nth_error (correct_ttest S 0 p) i) /\
    (T <= v -> nth_error (approx_correct_ttest S T p) i = Some v /\
               exists w, nth_error (correct_ttest S 0 p) i = Some w /\ T <= w) /\
    (exists a h, nth_error (approx_correct_ttest S T p) i = Some a /\
                 nth_error (correct_ttest S 0 p) i = Some h /\ (a < T <-> h < T)).
Proof. exact restricted_holm_equiv. Qed.
Print Assumptions c11_restricted_holm_equiv.

(* the same as an equation between the decision vectors *)
Theorem c11_restricted_holm_decisions : forall S T p,
  Forall (fun x => 0 <= x <= S) p -> T <= S ->
  map (fun v => v <? T) (approx_correct_ttest S T p) = map (fun v => v <? T) (correct_ttest S 0 p).
Proof. exact restricted_holm_decisions. Qed.
Print Assumptions c11_restricted_holm_decisions.

Example c11_restricted_nonvacuous :
  Forall (fun x => 0 <= x <= 1000) [10; 500; 3; 10; 900; 4] /\ 100 <= 1000 /\
  map (fun v => v <? 100) (approx_correct_ttest 1000 100 [10; 500; 3; 10; 900; 4]) = [true; false; true; true; false; true].
Proof.
  split; [repeat constructor; lia|]. split; [lia|]. vm_compute; reflexivity.
Qed.

(* Skipping uninteresting t-values.
   FULL STATEMENT: c11_boring_t_sound below (CDF half c11_boring_exact_p_ge composed with this one).
   c11_boring_t_sound_partial is the Holm half - whenever the exact p-values p and the p-values p'
   actually used agree except at positions where BOTH are >= p_th, the decision vectors of the
   restricted and of the full correction coincide. *)
Theorem c11_boring_t_sound_partial : forall S T p p',
  Forall (fun x => 0 <= x <= S) p -> Forall (fun x => 0 <= x <= S) p' -> T <= S ->
  Forall2 (fun v v' => v = v' \/ (T <= v /\ T <= v')) p p' ->
  map (fun v => v <? T) (correct_ttest S 0 p) = map (fun v => v <? T) (correct_ttest S 0 p') /\
  map (fun v => v <? T) (approx_correct_ttest S T p') = map (fun v => v <? T) (correct_ttest S 0 p).
Proof. exact boring_sound_full. Qed.
Print Assumptions c11_boring_t_sound_partial.

Example c11_boring_nonvacuous :
  Forall2 (fun v v' => v = v' \/ (100 <= v /\ 100 <= v')) [10; 500; 3; 10; 900; 4] [10; 1000; 3; 10; 1000; 4] /\
  map (fun v => v <? 100) (approx_correct_ttest 1000 100 [10; 1000; 3; 10; 1000; 4]) = [true; false; true; true; false; true].
Proof.
  split; [|vm_compute; reflexivity].
  repeat (constructor; [first [left; reflexivity | right; lia]|]). constructor.
Qed.

(* The CDF half and the full statement.
   Vocabulary (Model/Welch.v, Proofs/BoringP.v; S = 2*H is the common denominator of CDF values,
   p-values and p_th = T/S, so H/S = 0.5; a gene is (nu, t), t an integer over any common denominator):
     p_of_cdf H lo hi c  := the code's p-value from a CDF value: NaN (None) -> 0.5, np.clip to
                            [lo, hi] = [eps, ceil], then 2*cdf if cdf < 0.5 else 2*(1 - cdf)
                            (i.e. the two-sided p = 2*min(cdf, 1 - cdf))
     exact_p t_cdf H lo hi (nu, t) := p_of_cdf H lo hi (t_cdf nu t)       (exact_welch_t_test)
     boring b (nu, t)    := not (t < -b or t > b)                          (|t| <= boring_t)
     skip_p ... b g      := p_of_cdf of 0.5 if boring b g else exact_p g   (approximate_welch_t_test)
   t_cdf : nu -> t -> option Z stands for scipy.stats.t.cdf (big_nu = None in both marker routes, so
   the normal CDF never enters).
   PREMISES - none of them is proved; each is about the real boring_t / scipy's values and each is
   evaluated NUMERICALLY BY THE HARNESS on every run (harness/props/c11.py: boring_premises, called
   for every (t, nu) that occurs in welch_cases, and boring_premise_cases over p_th in
   [1e-11, 0.0455] x nu in [0.1, 1e6]; a false premise is reported as a violation of class
   c11-boring-premise-false-on-occurring-value carrying the values):
     (end_lo)  t_cdf nu (-b) = Some c -> T <= 2*c            2*t.cdf(-boring_t, nu) >= p_th
     (end_hi)  t_cdf nu b = Some c -> T <= 2*(2H - c)        2*(1 - t.cdf(boring_t, nu)) >= p_th
     (mono)    t.cdf(., nu) is monotone ON [-boring_t, boring_t]
     (nan)     whether t.cdf is NaN depends on nu only, on [-boring_t, boring_t]
   The earlier premise `T <= 2*norm_cdf(-b)` was false of the real function (the audit's table:
   np.interp overshoots, 2*norm.cdf(-boring_t) = p_th*(1 - 1.4e-6..2.2e-5)) and symmetry of the CDF
   for every t is false of a saturating binary64 CDF; neither is used any more.  (end_lo)/(end_hi)
   hold for the real functions exactly as long as nu is below a limit that depends on p_th (measured
   on every run, evidence key boring_premise_end_lo_holds_up_to_nu: 8.6e6 for p_th = 0.01, 3.2e6
   for 0.02): beyond it the Student tail is within the interpolation error of the normal one, the
   premise is false and SO IS THE CONCLUSION - c11_boring_needs_end_lo below and finding F22 (C11-boring-huge-nu)
   (reproduced with the real score_differential_genes on two clusters of 1e7 cells).  The others
   describe the setting (eps <= 0.5 <= ceil <= 1, p_th <= 1, boring_t >= 0). *)

(* |t| <= boring_t => the exact two-sided p-value of the gene is >= p_th *)
Theorem c11_boring_exact_p_ge : forall (H lo hi T b : Z) (t_cdf : Z -> Z -> option Z),
  0 < H -> 0 <= lo <= H -> H <= hi <= 2 * H -> T <= 2 * H -> 0 <= b ->
  (* end_lo *) (forall nu c, t_cdf nu (- b) = Some c -> T <= 2 * c) ->
  (* end_hi *) (forall nu c, t_cdf nu b = Some c -> T <= 2 * (2 * H - c)) ->
  (* scipy *) (forall nu a a' c c', - b <= a -> a <= a' -> a' <= b ->
                 t_cdf nu a = Some c -> t_cdf nu a' = Some c' -> c <= c') ->
  (* scipy *) (forall nu a a', - b <= a <= b -> - b <= a' <= b -> t_cdf nu a = None -> t_cdf nu a' = None) ->
  forall nu t, - b <= t <= b -> T <= exact_p t_cdf H lo hi (nu, t).
Proof. exact boring_exact_ge. Qed.
Print Assumptions c11_boring_exact_p_ge.

(* c11_boring_t_sound: give every gene with |t| <= boring_t ANY p-value >= p_th (in [0, 1]) and keep
   the exact p-value of the others: the exact p-values are in [0, 1] and those of the skipped
   genes are >= p_th; no decision `corrected p < p_th` of the full Holm correction changes, and
   the restricted correction run on the replaced values decides exactly like the full
   correction on the exact values *)
Theorem c11_boring_t_sound : forall (H lo hi T b : Z) (t_cdf : Z -> Z -> option Z),
  0 < H -> 0 <= lo <= H -> H <= hi <= 2 * H -> T <= 2 * H -> 0 <= b ->
  (* end_lo *) (forall nu c, t_cdf nu (- b) = Some c -> T <= 2 * c) ->
  (* end_hi *) (forall nu c, t_cdf nu b = Some c -> T <= 2 * (2 * H - c)) ->
  (* scipy *) (forall nu a a' c c', - b <= a -> a <= a' -> a' <= b ->
                 t_cdf nu a = Some c -> t_cdf nu a' = Some c' -> c <= c') ->
  (* scipy *) (forall nu a a', - b <= a <= b -> - b <= a' <= b -> t_cdf nu a = None -> t_cdf nu a' = None) ->
  forall (genes : list gene) (p' : list Z),
  Forall (fun x => 0 <= x <= 2 * H) p' ->
  Forall2 (fun g v' => if boring b g then T <= v' else v' = exact_p t_cdf H lo hi g) genes p' ->
  let p := map (exact_p t_cdf H lo hi) genes in
  Forall (fun x => 0 <= x <= 2 * H) p /\
  Forall2 (fun g v => boring b g = true -> T <= v) genes p /\
  map (fun v => v <? T) (correct_ttest (2 * H) 0 p) = map (fun v => v <? T) (correct_ttest (2 * H) 0 p') /\
  map (fun v => v <? T) (approx_correct_ttest (2 * H) T p') = map (fun v => v <? T) (correct_ttest (2 * H) 0 p).
Proof. exact boring_t_sound. Qed.
Print Assumptions c11_boring_t_sound.

(* ... in particular for the values the code uses (cdf = 0.5, hence p = 1, for the skipped genes) *)
Theorem c11_boring_t_sound_code : forall (H lo hi T b : Z) (t_cdf : Z -> Z -> option Z),
  0 < H -> 0 <= lo <= H -> H <= hi <= 2 * H -> T <= 2 * H -> 0 <= b ->
  (* end_lo *) (forall nu c, t_cdf nu (- b) = Some c -> T <= 2 * c) ->
  (* end_hi *) (forall nu c, t_cdf nu b = Some c -> T <= 2 * (2 * H - c)) ->
  (* scipy *) (forall nu a a' c c', - b <= a -> a <= a' -> a' <= b ->
                 t_cdf nu a = Some c -> t_cdf nu a' = Some c' -> c <= c') ->
  (* scipy *) (forall nu a a', - b <= a <= b -> - b <= a' <= b -> t_cdf nu a = None -> t_cdf nu a' = None) ->
  forall genes : list gene,
  let p := map (exact_p t_cdf H lo hi) genes in
  let p' := map (skip_p t_cdf H lo hi b) genes in
  (forall g, boring b g = true -> skip_p t_cdf H lo hi b g = 2 * H) /\
  map (fun v => v <? T) (correct_ttest (2 * H) 0 p) = map (fun v => v <? T) (correct_ttest (2 * H) 0 p') /\
  map (fun v => v <? T) (approx_correct_ttest (2 * H) T p') = map (fun v => v <? T) (correct_ttest (2 * H) 0 p).
Proof. exact boring_t_sound_code. Qed.
Print Assumptions c11_boring_t_sound_code.

(* end_lo cannot be dropped: with a CDF that is monotone everywhere and boring_t a little too large
   (2*cdf(-boring_t) < p_th, the situation of the real code against the normal limit at huge nu) the
   exact route records the single gene at t = -boring_t and the skipping route does not *)
Theorem c11_boring_needs_end_lo :
  exists (H lo hi T b : Z) (t_cdf : Z -> Z -> option Z) (genes : list gene),
    0 < H /\ 0 <= lo <= H /\ H <= hi <= 2 * H /\ T <= 2 * H /\ 0 <= b /\
    (forall nu a a' c c', a <= a' -> t_cdf nu a = Some c -> t_cdf nu a' = Some c' -> c <= c') /\
    (forall nu a a', t_cdf nu a = None -> t_cdf nu a' = None) /\
    ~ (forall nu c, t_cdf nu (- b) = Some c -> T <= 2 * c) /\
    map (fun v => v <? T) (correct_ttest (2 * H) 0 (map (exact_p t_cdf H lo hi) genes)) = [true] /\
    map (fun v => v <? T) (approx_correct_ttest (2 * H) T (map (skip_p t_cdf H lo hi b) genes)) = [false].
Proof. exact boring_unsound_without_end_lo. Qed.
Print Assumptions c11_boring_needs_end_lo.

(* the premises are satisfiable together: a toy saturating CDF over S = 64 (0.5 = 32/64),
     t_cdf(t, nu) = clamp(32 + 8t, 1, 63)/64, NaN for nu <= 0,
   clip to [1/64, 63/64], p_th = 20/64, boring_t = 1; five genes: two skipped (t = 0, t = -1:
   exact p = 1 and 48/64, both >= p_th), t = 3 (p = 16/64, not significant after correction),
   one NaN (p = 1), t = -4 (p = 2/64, significant).  The premises on REAL values (binary64 numbers
   of scipy at the real boring_t) are evaluated by the harness, not here. *)
Example c11_boring_nonvacuous_cdf :
  0 < 32 /\ 0 <= 1 <= 32 /\ 32 <= 63 <= 2 * 32 /\ 20 <= 2 * 32 /\ 0 <= 1 /\
  (forall nu c, toy_t_cdf nu (- 1) = Some c -> 20 <= 2 * c) /\
  (forall nu c, toy_t_cdf nu 1 = Some c -> 20 <= 2 * (2 * 32 - c)) /\
  (forall nu a a' c c', - 1 <= a -> a <= a' -> a' <= 1 ->
      toy_t_cdf nu a = Some c -> toy_t_cdf nu a' = Some c' -> c <= c') /\
  (forall nu a a', - 1 <= a <= 1 -> - 1 <= a' <= 1 -> toy_t_cdf nu a = None -> toy_t_cdf nu a' = None).
Proof.
  destruct toy_hyps as (H1 & H2 & H3 & H4).
  repeat split; try lia; assumption.
Qed.
Example c11_boring_nonvacuous_values :
  let genes : list gene := [(5, 0); (5, -1); (5, 3); (0, 2); (5, -4)] in
  map (boring 1) genes = [true; true; false; false; false] /\
  map (exact_p toy_t_cdf 32 1 63) genes = [64; 48; 16; 64; 2] /\
  map (skip_p toy_t_cdf 32 1 63 1) genes = [64; 64; 16; 64; 2] /\
  map (fun v => v <? 20) (correct_ttest 64 0 [64; 48; 16; 64; 2]) = [false; false; false; false; true] /\
  map (fun v => v <? 20) (approx_correct_ttest 64 20 [64; 64; 16; 64; 2]) = [false; false; false; false; true].
Proof. cbv zeta. repeat split; vm_compute; reflexivity. Qed.

(* ------------------------------------------------------------------ *)
(* The penetrance mask.  Scores are x/S.  Vocabulary (Proofs/PenetranceP.v):
     above_floors th (q1, qd, f)    :=  q1_min <= q1 /\ qdiff_min <= qd /\ fold_min <= f
     strictly_passes th (q1, qd, f) :=  q1_th < q1 /\ qdiff_th < qd /\ fold_th < f
     crit th exact sc               :=  if exact then strictly_passes th sc else above_floors th sc
     in_list mask g                 :=  no gene list, or gene g belongs to it *)

(* (Since the repair of F8 the floors are applied directly, so this soundness statement is BY
   CONSTRUCTION OF THE MODEL - is_invalid is the negation of above_floors; its content is in the tie
   of penetrance_parameter_distance / approx_penetrance_test to the code, tags 1103/1104.)
   soundness of approx_penetrance_test: an accepted gene is on or above every floor, for
   EVERY setting the code accepts (each strict threshold above its floor), however close the
   floors are to the thresholds, and whichever branch (enough absolutely valid genes or not)
   is taken.  (Before the repair of F8 this needed each threshold >= 1e-5 above its floor.) *)
Theorem c11_penetrance_sound : forall S th n_valid scores m g,
  approx_penetrance_test S th n_valid scores = POk m -> nth_error m g = Some true ->
  exists sc, nth_error scores g = Some sc /\ above_floors th sc.
Proof. exact approx_sound. Qed.
Print Assumptions c11_penetrance_sound.

(* the former F8 counterexample (floor 2^-20 below the threshold, gene 2^-20 below the floor,
   n_valid = 1): still within 1e-10 of the strict corner, below the floor, now rejected *)
Example c11_f8_witness_rejected :
  let th := mk_th 114688 114687 524288 104858 1048576 838861 in
  let sc : score := (114686, 943718, 2097152) in
  ~ above_floors th sc /\
  within_eps 1048576 (gd_of th 0 sc) = true /\
  approx_penetrance_test 1048576 th 1 [sc] = POk [false].
Proof. exact f8_witness_rejected. Qed.

(* a tight setting on which the theorem is not vacuous: floor 2^-20 below the threshold, one gene
   between floor and threshold (accepted by the relaxation), one below the floor (rejected) *)
Example c11_penetrance_sound_tight_nonvacuous :
  let th := mk_th 114688 114687 524288 104858 1048576 838861 in
  approx_penetrance_test 1048576 th 2 [(114687, 943718, 2097152); (114686, 943718, 2097152)] = POk [true; false] /\
  above_floors th (114687, 943718, 2097152) /\ ~ strictly_passes th (114687, 943718, 2097152).
Proof.
  cbv zeta. split; [vm_compute; reflexivity|].
  unfold above_floors, strictly_passes; cbn. split; lia.
Qed.

(* completeness of approx_penetrance_test: every gene strictly above the three strict
   thresholds is accepted, whichever branch (enough absolutely valid genes or not) is taken *)
Theorem c11_penetrance_complete : forall S th n_valid scores m g sc,
  0 < S ->
  approx_penetrance_test S th n_valid scores = POk m ->
  nth_error scores g = Some sc -> strictly_passes th sc -> nth_error m g = Some true.
Proof. exact approx_complete. Qed.
Print Assumptions c11_penetrance_complete.

(* ------------------------------------------------------------------ *)
(* score_differential_genes (both passes, gene list, n_cells_min).
   Soundness: a gene recorded as valid for a pair =>
     both clusters have at least n_cells_min cells, its (restricted) Holm-corrected p-value
     is below p_th, it belongs to the gene list, and it is on or above every floor
     (strictly above every strict threshold when exact penetrance is requested).
   The hypotheses: q1_min_th > -1 (genes outside the list get q1 = -1),
   q1_th > q1_min_th (enforced by the code in the approximate mode) and pair_wf x: the per-gene
   arrays of the pair have one length (numpy raises ValueError otherwise, the model is total:
   c11_ragged_pair_is_totalised; pairs computed from a statistics file satisfy it:
   c11_stats_pair_wf).  Here the raw p-values, scores and means are INPUTS of the pair; they are
   computed from the statistics in c11_sound_from_stats below. *)
Theorem c11_sound : forall st mask x v up g, pair_wf x ->
  - st_S st < q1_min (st_th st) -> q1_min (st_th st) < q1_th (st_th st) ->
  score_differential_genes st mask x = POk (v, up) -> nth_error v g = Some true ->
  st_n_min st <= pi_n1 x /\ st_n_min st <= pi_n2 x /\
  (exists a, nth_error (approx_correct_ttest (pi_SP x) (pi_T x) (pi_p x)) g = Some a /\ a < pi_T x) /\
  in_list mask g /\
  exists sc, nth_error (pi_scores x) g = Some sc /\ crit (st_th st) (st_exact st) sc.
Proof. exact sdg_sound_wf. Qed.
Print Assumptions c11_sound.

(* Completeness: a gene of the list whose corrected p-value is below p_th and which passes
   the three strict thresholds is recorded — in the first pass and in the relaxed second one *)
Theorem c11_complete : forall st mask x v up g sc, pair_wf x ->
  0 < st_S st ->
  score_differential_genes st mask x = POk (v, up) ->
  st_n_min st <= pi_n1 x -> st_n_min st <= pi_n2 x ->
  (exists a, nth_error (approx_correct_ttest (pi_SP x) (pi_T x) (pi_p x)) g = Some a /\ a < pi_T x) ->
  in_list mask g ->
  nth_error (pi_scores x) g = Some sc -> strictly_passes (st_th st) sc ->
  nth_error v g = Some true.
Proof. exact sdg_complete_wf. Qed.
Print Assumptions c11_complete.

(* with exact penetrance requested nothing else is recorded.  (In exact mode the model's validity
   IS the conjunction on the right - the equivalence is by construction of the model; its content is
   in the tie of score_differential_genes with exact_penetrance=True, tag 1105 / 1152.) *)
Theorem c11_exact_iff : forall st mask x v up g, pair_wf x ->
  st_exact st = true ->
  - st_S st < q1_min (st_th st) -> q1_min (st_th st) < q1_th (st_th st) -> 0 < st_S st ->
  score_differential_genes st mask x = POk (v, up) ->
  (nth_error v g = Some true <->
   st_n_min st <= pi_n1 x /\ st_n_min st <= pi_n2 x /\
   (exists a, nth_error (approx_correct_ttest (pi_SP x) (pi_T x) (pi_p x)) g = Some a /\ a < pi_T x) /\
   in_list mask g /\
   exists sc, nth_error (pi_scores x) g = Some sc /\ strictly_passes (st_th st) sc).
Proof. exact sdg_exact_iff_wf. Qed.
Print Assumptions c11_exact_iff.

Definition c11_st : settings :=
  mk_settings 1024 (mk_th 512 102 717 102 1024 819) 2 false 3 1.
Definition c11_x : pair_in :=
  mk_pair_in 3 2 1024 10 [1; 600; 2; 1]
             [(900, 800, 2048); (900, 800, 2048); (300, 200, 900); (50, 800, 2048)]
             [0; 0; 900; 2048] [2048; 2048; 0; 0].
Example c11_sound_complete_nonvacuous :
  pair_wf c11_x /\
  - st_S c11_st < q1_min (st_th c11_st) /\
  q1_min (st_th c11_st) < q1_th (st_th c11_st) /\
  score_differential_genes c11_st None c11_x = POk ([true; false; true; false], [true; true; false; false]) /\
  (* gene 0 strictly passes, gene 2 is only above the floors (recorded by the relaxation),
     gene 1 fails the p-value, gene 3 is below the q1 floor *)
  strictly_passes (st_th c11_st) (900, 800, 2048) /\ above_floors (st_th c11_st) (300, 200, 900) /\
  ~ strictly_passes (st_th c11_st) (300, 200, 900) /\ ~ above_floors (st_th c11_st) (50, 800, 2048).
Proof.
  split; [repeat split|]. split; [cbn; lia|]. split; [cbn; lia|].
  split; [vm_compute; reflexivity|].
  unfold strictly_passes, above_floors; cbn. repeat split; lia.
Qed.

(* the inputs the two hypotheses exclude are totalised by the model, not accepted by the code:
   arrays of different lengths (numpy: ValueError) and zero workers (ZeroDivisionError); the harness
   (totalisation_cases) checks on every run that the real functions raise there *)
Example c11_ragged_pair_is_totalised :
  let x := mk_pair_in 3 2 1024 10 [1] [(900, 800, 2048); (900, 800, 2048)] [0] [2048; 2048; 7] in
  ~ pair_wf x /\ score_differential_genes c11_st None x = POk ([true], [true]).
Proof. cbv zeta. split; [intros (A & _); discriminate A | vm_compute; reflexivity]. Qed.
Example c11_zero_workers_is_totalised : n_per_of 100 0 = 8%nat.
Proof. exact n_per_of_zero_workers. Qed.

(* exact penetrance with a gene list: gene 0 strictly passes and is listed; gene 1 fails the p-value;
   gene 2 is only above the floors; gene 3 strictly passes but is NOT in the list *)
Example c11_exact_mode_gene_list_nonvacuous :
  let st := mk_settings 1024 (mk_th 512 102 717 102 1024 819) 2 true 3 1 in
  let x := mk_pair_in 3 2 1024 10 [1; 600; 2; 1]
             [(900, 800, 2048); (900, 800, 2048); (300, 200, 900); (900, 800, 2048)]
             [0; 0; 900; 2048] [2048; 2048; 0; 0] in
  pair_wf x /\ st_exact st = true /\
  score_differential_genes st (Some [true; true; true; false]) x
  = POk ([true; false; false; false], [true; true; false; false]) /\
  score_differential_genes st None x = POk ([true; false; false; true], [true; true; false; false]).
Proof. cbv zeta. split; [repeat split|]. split; [reflexivity|]. split; vm_compute; reflexivity. Qed.

(* the second, relaxed pass: n_valid = 2, n_valid_min = 2.  First pass: genes 0 and 1 are absolutely
   valid (2 >= n_valid, no relaxation) but gene 1 fails the p-value: 1 valid gene < n_valid_min.
   Second pass with the p-value failures masked out: only gene 0 is absolutely valid (1 < n_valid),
   the relaxation admits gene 2 (above the floors).  With n_valid_min = 1 the first pass is final. *)
Example c11_second_pass_nonvacuous :
  let x := mk_pair_in 3 2 1024 10 [1; 600; 2] [(900, 800, 2048); (900, 800, 2048); (300, 200, 900)]
                      [0; 0; 900] [2048; 2048; 0] in
  let th := mk_th 512 102 717 102 1024 819 in
  score_differential_genes (mk_settings 1024 th 2 false 2 2) None x = POk ([true; false; true], [true; true; false]) /\
  score_differential_genes (mk_settings 1024 th 2 false 2 1) None x = POk ([true; false; false], [true; true; false]).
Proof. cbv zeta. split; vm_compute; reflexivity. Qed.

(* ------------------------------------------------------------------ *)
(* direction = sign of the difference of the mean log2(CPM+1).  The first conjunct is by
   construction of the model (up_mask is defined so); the content is in the tie (tags 1105, 1152: the
   means are sum / max(1, n) computed from the statistics) and in the second conjunct + c11_pair_swap. *)
Theorem c11_direction : forall st mask x v up,
  score_differential_genes st mask x = POk (v, up) ->
  (pi_n1 x <? st_n_min st) || (pi_n2 x <? st_n_min st) = false ->
  up = map (fun ab => snd ab >? fst ab) (combine (pi_mean1 x) (pi_mean2 x)) /\
  forall g m1 m2, nth_error (pi_mean1 x) g = Some m1 -> nth_error (pi_mean2 x) g = Some m2 ->
     nth_error up g = Some (m2 >? m1).
Proof. exact sdg_direction. Qed.
Print Assumptions c11_direction.

(* the up and down lists of a pair: membership, and no gene in both *)
Theorem c11_up_down_exact : forall v u g,
  (In g (fst (up_down (v, u))) <-> nth_error v g = Some true /\ nth_error u g = Some true) /\
  (In g (snd (up_down (v, u))) <-> nth_error v g = Some true /\ nth_error u g = Some false).
Proof. exact up_down_spec. Qed.
Print Assumptions c11_up_down_exact.

Theorem c11_no_gene_both_ways : forall v u g,
  ~ (In g (fst (up_down (v, u))) /\ In g (snd (up_down (v, u)))).
Proof. exact no_gene_both_ways. Qed.
Print Assumptions c11_no_gene_both_ways.

(* every valid gene is in exactly one of the two lists *)
Theorem c11_up_down_cover : forall v u g, length u = length v ->
  (nth_error v g = Some true <-> In g (fst (up_down (v, u))) \/ In g (snd (up_down (v, u)))).
Proof. exact up_down_cover. Qed.
Print Assumptions c11_up_down_cover.

(* swapping the two clusters of a pair.  swap_pair exchanges cell counts and means and KEEPS the raw
   p-values and the scores: that these are symmetric is no longer assumed but proved from the
   statistics - c11_welch_swap_statistic (t -> -t, same t^2 and nu), c11_welch_swap_scores (q1, qdiff,
   |fold| equal as numbers), c11_welch_swap_p (same p-value when t.cdf(-t) = 1 - t.cdf(t) and no clipping;
   with clipping the two p-values differ, c11_welch_swap_p_clip_caveat, both being <= 2*(1 - ceil)).
   Given that, the swap leaves the validity mask unchanged and flips the direction of
   every recorded gene, given log2_fold_min_th > 0 and log2_fold = |mean1 - mean2| *)
Theorem c11_pair_swap : forall st mask x v up g, pair_wf x ->
  - st_S st < q1_min (st_th st) -> q1_min (st_th st) < q1_th (st_th st) ->
  0 < fold_min (st_th st) -> fold_min (st_th st) < fold_th (st_th st) ->
  (forall g q1 qd f m1 m2, nth_error (pi_scores x) g = Some (q1, qd, f) ->
       nth_error (pi_mean1 x) g = Some m1 -> nth_error (pi_mean2 x) g = Some m2 -> f = Z.abs (m1 - m2)) ->
  score_differential_genes st mask x = POk (v, up) ->
  exists up', score_differential_genes st mask (swap_pair x) = POk (v, up') /\
    (nth_error v g = Some true ->
     forall b, nth_error up g = Some b -> nth_error up' g = Some (negb b)).
Proof. exact sdg_pair_swap_wf. Qed.
Print Assumptions c11_pair_swap.

Example c11_pair_swap_nonvacuous :
  let x := mk_pair_in 3 2 1024 10 [1; 600; 2] [(900, 800, 2048); (900, 800, 2048); (300, 200, 900)]
                      [0; 0; 900] [2048; 2048; 0] in
  score_differential_genes c11_st None x = POk ([true; false; true], [true; true; false]) /\
  score_differential_genes c11_st None (swap_pair x) = POk ([true; false; true], [false; false; true]).
Proof. cbv zeta. split; vm_compute; reflexivity. Qed.

(* ------------------------------------------------------------------ *)
(* chunks: cutting the list of pairs into chunks of ANY size n_per >= 1, writing one sparse
   table per chunk and concatenating them in order equals the table of all pairs *)
Theorem c11_chunk_merge : forall n_per (rows : list (list nat)), (1 <= n_per)%nat ->
  merge_sparse (map lookup_to_sparse (chunk_list (length rows) n_per rows)) 0 = lookup_to_sparse rows.
Proof. exact chunk_merge. Qed.
Print Assumptions c11_chunk_merge.

(* hence the pair-major tables do not depend on the worker count *)
(* 1 <= n_processors: with 0 the code raises ZeroDivisionError (n_pairs // (2*n_processors)) where
   the model's Z division gives n_per = 8 (c11_zero_workers_is_totalised) *)
Theorem c11_worker_independent : forall st gn gl np np' pairs, (1 <= np)%nat -> (1 <= np')%nat ->
  find_markers st gn gl np pairs = find_markers st gn gl np' pairs.
Proof. exact find_markers_workers_pos. Qed.
Print Assumptions c11_worker_independent.

(* the tables are written for EVERY outcome of the per-pair scoring (F17 repaired: a direction
   in which no pair has a marker no longer aborts the run): when the gene list overlaps the
   genes and every pair is scored, the result is the pair-major table of the up lists and of
   the down lists *)
Theorem c11_tables_total : forall st gn gl np pairs mask uds,
  gene_mask_of gn gl = POk mask ->
  pmap (fun x => pbind (score_differential_genes st mask x) (fun vu => POk (up_down vu))) pairs = POk uds ->
  find_markers st gn gl np pairs = POk (lookup_to_sparse (map fst uds), lookup_to_sparse (map snd uds)).
Proof. exact find_markers_tables. Qed.
Print Assumptions c11_tables_total.

(* ... and the table of a direction without any marker is: no gene index, every pointer 0 *)
Theorem c11_empty_direction_table : forall (rows : list (list nat)),
  Forall (fun r => r = []) rows ->
  lookup_to_sparse rows = (repeat 0%nat (S (length rows)), []).
Proof. exact empty_direction_table. Qed.
Print Assumptions c11_empty_direction_table.

(* two clusters, every marker higher in the first: no up-regulated gene in the whole table *)
Example c11_no_up_direction_nonvacuous :
  let x := mk_pair_in 3 2 1024 10 [1; 600; 2] [(900, 800, 2048); (900, 800, 2048); (300, 200, 900)]
                      [2048; 2048; 900] [0; 0; 0] in
  find_markers c11_st [0; 1; 2] None 1 [x] = POk (([0; 0]%nat, []), ([0; 2]%nat, [0; 2]%nat)).
Proof. cbv zeta. vm_compute. reflexivity. Qed.

(* more than one chunk: 9 pairs, one worker => n_per = 8, two chunks (8 + 1 pairs), merged *)
Example c11_two_chunks_nonvacuous :
  let pairs := repeat c11_x 9 in
  length (chunk_list 9 (n_per_of 9 1) pairs) = 2%nat /\
  find_markers c11_st [0; 1; 2; 3] None 1 pairs
  = POk (([0; 1; 2; 3; 4; 5; 6; 7; 8; 9]%nat, [0; 0; 0; 0; 0; 0; 0; 0; 0]%nat),
         ([0; 1; 2; 3; 4; 5; 6; 7; 8; 9]%nat, [2; 2; 2; 2; 2; 2; 2; 2; 2]%nat)).
Proof. cbv zeta. split; vm_compute; reflexivity. Qed.

Example c11_chunk_merge_nonvacuous :
  merge_sparse (map lookup_to_sparse (chunk_list 5 2 [[1; 4]; []; [0]; [2; 3; 5]; [7]]%nat)) 0
  = ([0; 2; 2; 3; 6; 7]%nat, [1; 4; 0; 2; 3; 5; 7]%nat).
Proof. vm_compute. reflexivity. Qed.

(* ------------------------------------------------------------------ *)
(* the p-value-mask route.
   Stage 1 (create_p_value_mask_file, one pair): a gene has an entry iff its restricted-Holm
   p-value is below p_th and it is on or above every floor (the floors are applied
   directly); the entry of a strictly passing gene is the distance 0,
   stored as "strictly valid".  NOTE: no n_cells_min test at this stage, as coded (finding F16). *)
Theorem c11_mask_file_exact : forall st x es,
  p_mask_row st x = POk es ->
  forall g, (exists w, In (g, w) es) <->
    exists a sc, nth_error (approx_correct_ttest (pi_SP x) (pi_T x) (pi_p x)) g = Some a /\ a < pi_T x /\
                 nth_error (pi_scores x) g = Some sc /\ above_floors (st_th st) sc.
Proof. exact p_mask_row_spec. Qed.
Print Assumptions c11_mask_file_exact.

Theorem c11_mask_file_strict_is_zero : forall st x es g w sc,
  p_mask_row st x = POk es -> In (g, w) es ->
  nth_error (pi_scores x) g = Some sc -> strictly_passes (st_th st) sc -> w = 0.
Proof. exact p_mask_row_strict. Qed.
Print Assumptions c11_mask_file_strict_is_zero.

(* Stage 2 (_get_validity_mask): soundness — a gene kept for a pair has an entry in the mask
   file (hence, by c11_mask_file_exact, corrected p < p_th and above the floors) and belongs
   to the gene list; completeness — a gene of the list whose entry is "strictly valid"
   (stored value <= 0) is kept, whether or not n_valid genes are reached *)
Theorem c11_mask_route_sound : forall SD n_valid n_genes entries mask,
  0 < SD -> match mask with Some m => length m = n_genes | None => True end ->
  forall m g,
  get_validity_mask SD n_valid n_genes entries mask = POk m -> nth_error m g = Some true ->
  (exists v, entry_of entries g = Some v) /\ in_list mask g.
Proof. exact validity_mask_sound. Qed.
Print Assumptions c11_mask_route_sound.

Theorem c11_mask_route_complete : forall SD n_valid n_genes entries mask,
  0 < SD -> match mask with Some m => length m = n_genes | None => True end ->
  forall m g v,
  get_validity_mask SD n_valid n_genes entries mask = POk m ->
  (g < n_genes)%nat -> entry_of entries g = Some v -> v <= 0 -> in_list mask g ->
  nth_error m g = Some true.
Proof. exact validity_mask_complete. Qed.
Print Assumptions c11_mask_route_complete.

Example c11_mask_route_nonvacuous :
  get_validity_mask 1024 2 4 [(0%nat, -1024); (2%nat, 300); (3%nat, -1024)] (Some [true; true; true; false])
  = POk [true; false; true; false] /\
  p_mask_row c11_st c11_x = POk [(0%nat, 0); (2%nat, 670594)].
Proof. split; vm_compute; reflexivity. Qed.

(* c11_sound with the FULL Holm-Bonferroni value (restricted-Holm equivalence composed in):
   recorded => the full Holm-corrected p-value is below p_th, for raw p-values in [0, 1] and p_th <= 1 *)
Theorem c11_sound_full_holm : forall st mask x v up g, pair_wf x ->
  Forall (fun q => 0 <= q <= pi_SP x) (pi_p x) -> pi_T x <= pi_SP x ->
  - st_S st < q1_min (st_th st) -> q1_min (st_th st) < q1_th (st_th st) ->
  score_differential_genes st mask x = POk (v, up) -> nth_error v g = Some true ->
  st_n_min st <= pi_n1 x /\ st_n_min st <= pi_n2 x /\
  (exists h, nth_error (correct_ttest (pi_SP x) 0 (pi_p x)) g = Some h /\ h < pi_T x) /\
  in_list mask g /\
  exists sc, nth_error (pi_scores x) g = Some sc /\ crit (st_th st) (st_exact st) sc.
Proof. exact sdg_sound_full_holm_wf. Qed.
Print Assumptions c11_sound_full_holm.

(* ------------------------------------------------------------------ *)
(* FROM THE SUMMARY STATISTICS (audit defect 4).  Model/Welch.v computes, from the two rows
   (n, sum, sumsq, ge1) of the statistics file (Model/Stats.v `summary`; sums over D, sums of squares
   over D*D), what the code computes before score_differential_genes' tests:
     mean = sum/max(1,n), var = (sumsq - sum^2/max(1,n))/max(1,n-1)              (aggregate_stats)
     t^2, sign(t), nu exactly, with the IEEE cases explicit (tnu)                  (_calculate_tt_nu)
     pij = ge1/max(1,n), q1 = max, qdiff = |pij1-pij2|/max (or /1), fold = |mean1-mean2|
     p = p_of_cdf of the ORACLE value t.cdf(t, nu) (t_cdf : tnu -> option Z, a function of the modelled
       statistic; on the wire a finite table, Model/Welch.v table_cdf), 0.5 if skipped or NaN
   var, the means and mean1 - mean2 (hence log2_fold and the direction) are the BINARY64 values (var_f, mean_f,
   mdiff_f: every operation rounded to 53 bits), because their sign / zero-ness is decided by cancellation
   residues when a gene is constant at a non-dyadic value; pij, q1, qdiff, t^2 and nu are exact rationals of those
   tied to the real functions by tags 1150-1154 (harness: welch_cases: exact-grid inputs and non-dyadic
   constant genes whose stored statistics are read as exact dyadics).
   sdg_stats st mask D H lo hi T b t_cdf s1 s2 = score_differential_genes on that pair.
   CLUSTER-SIZE HYPOTHESIS OF EVERY THEOREM "FROM THE STATISTICS" BELOW (audit 4, A6; not a hypothesis of the
   Coq statements, which are about the model; a hypothesis of reading them as statements about the code):
   s_n s1 <= 2^21 and s_n s2 <= 2^21 (cells_in_int64_range).  The real n_cells is np.int64 and
   _calculate_tt_nu computes n**3 - n**2 in int64, which wraps above 2^21 = 2,097,152 cells
   (c11_cells_in_int64_range_no_wrap: no wrap up to there; c11_int64_wrap_outside_model: what the real code
   gives beyond, where the model's nu is the un-wrapped one). *)

(* soundness in terms of the statistics: a recorded gene g has both clusters >= n_cells_min, the
   restricted-Holm value of the Welch p-values below p_th, is in the list, and - PROVIDED NO RATIONAL SCORE
   OF THE GENE EQUALS A THRESHOLD OR A FLOOR (off_threshold; audit 3, defect A1) - its penetrance / fold
   numbers, which ARE (stat_crit: exact equations) max(pij), |dpij|/max, |dmean| of rows g, are on or above
   the floors and in fact STRICTLY above them (strictly above the thresholds in exact mode).
   Why the hypothesis: the model's scores are exact rationals, the code's are binary64 results of 2-4
   rounded operations.  The two agree on every comparison unless the rational score is within ~2^-50
   (relative) of the threshold, which for cell counts below 2^24 means: equal to the threshold the user wrote
   (7/10, 1/10, 4/5).  THERE the float lands on either side and the real code does the opposite of the exact
   computation - both directions are exhibited below (c11_threshold_hit_records_what_exact_excludes,
   c11_floor_hit_rejects_what_exact_admits; the auditor's inputs, re-run against the real code on every run by
   harness threshold_hit_cases, evidence key c11_threshold_hit_exactly).  This is float rounding AT an
   exactly-hit threshold, outside the property's "up to rounding"; it is excluded here explicitly, and the
   conclusion under the hypothesis uses only strict inequalities. *)
Theorem c11_sound_from_stats : forall st mask D H lo hi T b t_cdf s1 s2 v up g,
  0 < D ->
  - st_S st < q1_min (st_th st) -> q1_min (st_th st) < q1_th (st_th st) ->
  sdg_stats st mask D H lo hi T b t_cdf s1 s2 = POk (v, up) -> nth_error v g = Some true ->
  st_n_min st <= s_n s1 /\ st_n_min st <= s_n s2 /\
  exists l1 l2 c1 c2,
    cstats_of s1 = POk l1 /\ cstats_of s2 = POk l2 /\ nth_error l1 g = Some c1 /\ nth_error l2 g = Some c2 /\
    (exists a, nth_error (approx_correct_ttest (2 * H) T (welch_pvalues H lo hi b t_cdf (welch_genes D l1 l2))) g = Some a /\ a < T) /\
    in_list mask g /\
    (0 <= c_ge1 c1 -> 0 <= c_ge1 c2 -> off_threshold (st_th st) D (st_S st) c1 c2 ->
     stat_crit (st_th st) (st_exact st) D (st_S st) c1 c2).
Proof. exact sdg_stats_sound. Qed.
Print Assumptions c11_sound_from_stats.

(* the vocabulary of the last conjunct, spelled out (definitions in Proofs/WelchP.v) *)
Example c11_off_threshold_unfold : forall th D S c1 c2,
  off_threshold th D S c1 c2 <->
  (fst (q1_r c1 c2) * S <> q1_th th * snd (q1_r c1 c2) /\ fst (q1_r c1 c2) * S <> q1_min th * snd (q1_r c1 c2) /\
   fst (qdiff_r c1 c2) * S <> qdiff_th th * snd (qdiff_r c1 c2) /\ fst (qdiff_r c1 c2) * S <> qdiff_min th * snd (qdiff_r c1 c2) /\
   fst (fold_f D c1 c2) * S <> fold_th th * snd (fold_f D c1 c2) /\ fst (fold_f D c1 c2) * S <> fold_min th * snd (fold_f D c1 c2)).
Proof. intros. reflexivity. Qed.
Example c11_stat_crit_unfold : forall th exact D S c1 c2,
  stat_crit th exact D S c1 c2 <->
  exists q1 qd f,
    q1 * snd (q1_r c1 c2) = fst (q1_r c1 c2) * S /\ qd * snd (qdiff_r c1 c2) = fst (qdiff_r c1 c2) * S /\
    f * snd (fold_f D c1 c2) = fst (fold_f D c1 c2) * S /\
    (if exact then q1_th th < q1 /\ qdiff_th th < qd /\ fold_th th < f
     else q1_min th <= q1 /\ qdiff_min th <= qd /\ fold_min th <= f) /\
    (if exact then q1_th th < q1 /\ qdiff_th th < qd /\ fold_th th < f
     else q1_min th < q1 /\ qdiff_min th < qd /\ fold_min th < f).
Proof. intros. unfold stat_crit, crit, crit_strict, strictly_passes, above_floors, strictly_above_floors. destruct exact; reflexivity. Qed.

(* A1, direction 1 (the auditor's input): n1 = 4, ge1 = 1; n2 = 6, ge1 = 5: pij = 1/4 and 5/6, qdiff = 7/10 EXACTLY
   = qdiff_th (thresholds over S = 1200: 0.5, 0.1, 0.7, 0.1, 1.0, 0.8).  off_threshold fails; the exact model in
   exact-penetrance mode does NOT record the gene; the real score_differential_genes on cells [0,0,0,2] against
   [0,8,8,9,9,8] computes qdiff = 0.7000000000000001 > 0.7 and RECORDS it. *)
Definition c11_hit_st (exact : bool) := mk_settings 1200 (mk_th 600 120 840 120 1200 960) 2 exact 1 0.
Example c11_threshold_hit_records_what_exact_excludes :
  let c1 := mk_cstat 4 2 4 1 in let c2 := mk_cstat 6 42 354 5 in
  fst (qdiff_r c1 c2) * 1200 = 840 * snd (qdiff_r c1 c2) /\
  ~ off_threshold (st_th (c11_hit_st true)) 1 1200 c1 c2 /\
  sdg_stats (c11_hit_st true) None 1 500000 1 999999 10000 None (fun _ => Some 2303)
            (mk_summary 4 [2] [4] [1] [1] [1]) (mk_summary 6 [42] [354] [5] [5] [5]) = POk ([false], [true]).
Proof.
  cbv zeta. split; [vm_compute; reflexivity|]. split; [|vm_compute; reflexivity].
  intros (_ & _ & O3 & _). apply O3. vm_compute. reflexivity.
Qed.
(* A1, direction 2: n1 = 10, ge1 = 9; n2 = 2, ge1 = 2: pij = 9/10 and 1, qdiff = 1/10 EXACTLY = qdiff_min_th.  The
   exact model keeps the gene above the floor and the relaxation (n_valid = 1) records it; the real code computes
   |0.9 - 1.0|/1.0 = 0.09999999999999998 < 0.1, marks the gene invalid and records NOTHING (cells: eight 2.0, one
   4.0 and one 0.0 against 8.0, 9.0 - all means dyadic; p_th = 0.5, raw p = 0.0111). *)
Example c11_floor_hit_rejects_what_exact_admits :
  let c1 := mk_cstat 10 20 48 9 in let c2 := mk_cstat 2 17 145 2 in
  fst (qdiff_r c1 c2) * 1200 = 120 * snd (qdiff_r c1 c2) /\
  ~ off_threshold (st_th (c11_hit_st false)) 1 1200 c1 c2 /\
  sdg_stats (c11_hit_st false) None 1 500000 1 999999 500000 None (fun _ => Some 5561)
            (mk_summary 10 [20] [48] [9] [9] [9]) (mk_summary 2 [17] [145] [2] [2] [2]) = POk ([true], [true]).
Proof.
  cbv zeta. split; [vm_compute; reflexivity|]. split; [|vm_compute; reflexivity].
  intros (_ & _ & _ & O4 & _). apply O4. vm_compute. reflexivity.
Qed.
(* ... and a gene off every threshold meets the hypothesis (c11_from_stats_nonvacuous below uses it) *)
Example c11_off_threshold_nonvacuous :
  off_threshold (mk_th 512 102 717 102 1024 819) 4 1024 (mk_cstat 4 128 4104 4) (mk_cstat 4 4 8 0).
Proof. unfold off_threshold, rne. vm_compute. repeat split; discriminate. Qed.

(* ... against the INDEPENDENT computation the property asks for: exact two-sided Welch p-values
   (no gene skipped: b = None) and the FULL Holm-Bonferroni correction.  t_cdf : tnu -> option Z is the
   oracle scipy.stats.t.cdf AS A FUNCTION OF THE MODELLED STATISTIC (sign, t^2, nu) - audit 3, defect A6: two
   genes with the same statistic get the same p-value (c11_equal_statistic_equal_p), nu is an argument.
   Premise here: per skipped gene, the CDF value c has 2c >= p_th and 2(1-c) >= p_th.
   c11_sound_exact_welch_composed below DERIVES it from the premises of c11_boring_exact_p_ge. *)
Theorem c11_sound_exact_welch : forall st mask D H lo hi T b t_cdf s1 s2 v up g,
  0 < D -> 0 < H -> 0 <= lo <= H -> H <= hi <= 2 * H -> T <= 2 * H ->
  - st_S st < q1_min (st_th st) -> q1_min (st_th st) < q1_th (st_th st) ->
  (forall l1 l2 gc c, cstats_of s1 = POk l1 -> cstats_of s2 = POk l2 ->
       In gc (welch_genes D l1 l2) -> gbrg b gc = true -> gcdf t_cdf gc = Some c ->
       T <= 2 * c /\ T <= 2 * (2 * H - c)) ->
  sdg_stats st mask D H lo hi T b t_cdf s1 s2 = POk (v, up) -> nth_error v g = Some true ->
  exists l1 l2, cstats_of s1 = POk l1 /\ cstats_of s2 = POk l2 /\
    exists h, nth_error (correct_ttest (2 * H) 0 (welch_pvalues H lo hi None t_cdf (welch_genes D l1 l2))) g = Some h /\ h < T.
Proof. exact sdg_stats_sound_exact_welch. Qed.
Print Assumptions c11_sound_exact_welch.

(* THE COMPOSITION (audit 3, defect A6).  The skipped-gene premise is no longer assumed per gene: it follows
   from the premises of c11_boring_exact_p_ge, transported to the statistics the model derives:
     end_lo / end_hi : the oracle at t = -+boring_t = -+bn/bd (statistic TN -+1 bn^2 bd^2 at nu = n/m) has
                       two-sided p >= p_th, for every nu;
     mono / nan      : the oracle is monotone in t, and NaN or not, on [-boring_t, boring_t] at one nu
                       (band_le bn bd g g': both statistics well formed, not NaN, inside the band, same nu,
                        t(g) <= t(g') - t = ts*sqrt(ta/td), compared through x |-> sgn(x) x^2).
   Both proofs go through the same lemma (BoringP.skipped_ge_ord).  The premises are about scipy and the real
   boring_t; the harness evaluates them on every (t, nu) that occurs (boring_premises). *)
Theorem c11_sound_exact_welch_composed : forall st mask D H lo hi T bn bd t_cdf s1 s2 v up g,
  0 < D -> 0 < H -> 0 <= lo <= H -> H <= hi <= 2 * H -> T <= 2 * H ->
  - st_S st < q1_min (st_th st) -> q1_min (st_th st) < q1_th (st_th st) ->
  0 <= bn -> 0 < bd ->
  (* end_lo *) (forall n m c, t_cdf (TN (-1) (bn * bn) (bd * bd) n m) = Some c -> T <= 2 * c) ->
  (* end_hi *) (forall n m c, t_cdf (TN 1 (bn * bn) (bd * bd) n m) = Some c -> T <= 2 * (2 * H - c)) ->
  (* scipy *) (forall g g' c c', band_le bn bd g g' -> t_cdf g = Some c -> t_cdf g' = Some c' -> c <= c') ->
  (* scipy *) (forall g g', band_le bn bd g g' \/ band_le bn bd g' g -> t_cdf g = None -> t_cdf g' = None) ->
  sdg_stats st mask D H lo hi T (Some (bn, bd)) t_cdf s1 s2 = POk (v, up) -> nth_error v g = Some true ->
  exists l1 l2, cstats_of s1 = POk l1 /\ cstats_of s2 = POk l2 /\
    exists h, nth_error (correct_ttest (2 * H) 0 (welch_pvalues H lo hi None t_cdf (welch_genes D l1 l2))) g = Some h /\ h < T.
Proof. exact sdg_stats_sound_exact_welch_composed. Qed.
Print Assumptions c11_sound_exact_welch_composed.

(* band_le spelled out *)
Example c11_band_le_unfold : forall bn bd g g',
  band_le bn bd g g' <->
  (in_band bn bd g = true /\ in_band bn bd g' = true /\ tnu_nu g = tnu_nu g' /\
   match tnu_sq g, tnu_sq g' with Some (s, a, d), Some (s', a', d') => s * a * d' <= s' * a' * d | _, _ => False end).
Proof. intros. reflexivity. Qed.

(* the premises are satisfiable together: a step CDF on the statistics (0.5 + sign(t)/8, NaN for nu <= 0),
   boring_t = 1, p_th = 20/64 *)
Definition c11_toy_tnu_cdf (g : tnu) : option Z :=
  match tnu_sq g, tnu_nu g with
  | Some (s, a, d), Some (n, m) => if n <=? 0 then None else Some (32 + 8 * Z.sgn (s * a))
  | _, _ => None
  end.
Example c11_composed_premises_nonvacuous :
  (forall n m c, c11_toy_tnu_cdf (TN (-1) (1 * 1) (1 * 1) n m) = Some c -> 20 <= 2 * c) /\
  (forall n m c, c11_toy_tnu_cdf (TN 1 (1 * 1) (1 * 1) n m) = Some c -> 20 <= 2 * (2 * 32 - c)) /\
  (forall g g' c c', band_le 1 1 g g' -> c11_toy_tnu_cdf g = Some c -> c11_toy_tnu_cdf g' = Some c' -> c <= c') /\
  (forall g g', band_le 1 1 g g' \/ band_le 1 1 g' g -> c11_toy_tnu_cdf g = None -> c11_toy_tnu_cdf g' = None) /\
  (* a statistic computed from rows, inside the band, with a non-NaN value *)
  (let g := welch_gene 4 (mk_cstat 4 5 9 0) (mk_cstat 4 4 8 0) in
   in_band 1 1 g = true /\ c11_toy_tnu_cdf g = Some 40).
Proof.
  split; [|split; [|split; [|split]]].
  - intros n m c. unfold c11_toy_tnu_cdf. cbn [tnu_sq tnu_nu]. destruct (n <=? 0); [discriminate|].
    intros E. inversion E. vm_compute. discriminate.
  - intros n m c. unfold c11_toy_tnu_cdf. cbn [tnu_sq tnu_nu]. destruct (n <=? 0); [discriminate|].
    intros E. inversion E. vm_compute. discriminate.
  - intros g g' c c' (B1 & B2 & En & Hle).
    destruct (in_band_inv _ _ _ B1) as (s & a & d & n & m & Es & Enu & Hs & Ha & Hd & _).
    destruct (in_band_inv _ _ _ B2) as (s' & a' & d' & n' & m' & Es' & Enu' & Hs' & Ha' & Hd' & _).
    unfold t_le in Hle. unfold c11_toy_tnu_cdf. rewrite Es, Es' in *. rewrite Enu, Enu' in *. inversion En; subst n' m'.
    destruct (n <=? 0); [discriminate|]. intros E E'. assert (Ec : c = 32 + 8 * Z.sgn (s * a)) by congruence.
    assert (Ec' : c' = 32 + 8 * Z.sgn (s' * a')) by congruence. subst c c'. clear E E'.
    assert (Z.sgn (s * a) <= Z.sgn (s' * a')); [|lia].
    destruct (Z.sgn_spec (s * a)) as [[A ->]|[[A ->]|[A ->]]]; destruct (Z.sgn_spec (s' * a')) as [[A' ->]|[[A' ->]|[A' ->]]]; try lia; nia.
  - intros g g' Hb. assert (En : tnu_nu g = tnu_nu g' /\ tnu_sq g <> None /\ tnu_sq g' <> None).
    { destruct Hb as [(B1 & B2 & En & _)|(B2 & B1 & En & _)];
      destruct (in_band_inv _ _ _ B1) as (s & a & d & n & m & Es & _);
      destruct (in_band_inv _ _ _ B2) as (s' & a' & d' & n' & m' & Es' & _);
      rewrite Es, Es'; repeat split; congruence. }
    destruct En as (En & S1 & S2). unfold c11_toy_tnu_cdf. rewrite <- En.
    destruct (tnu_sq g) as [[[s a] d]|]; [|congruence]. destruct (tnu_sq g') as [[[s' a'] d']|]; [|congruence].
    destruct (tnu_nu g) as [[n m]|]; [|reflexivity]. destruct (n <=? 0); [reflexivity|discriminate].
  - cbv zeta. split; vm_compute; reflexivity.
Qed.

(* (an oracle that meets the four premises AND records a gene: c11_composed_premises_and_recorded_gene, after
   c11_from_stats_nonvacuous below) *)
(* the decision vectors of the two routes coincide (every gene, not only the recorded ones) *)
Theorem c11_welch_route_decisions : forall H lo hi T b t_cdf tn,
  0 < H -> 0 <= lo <= H -> H <= hi <= 2 * H -> T <= 2 * H ->
  (forall g c, In g tn -> gbrg b g = true -> gcdf t_cdf g = Some c ->
               T <= 2 * c /\ T <= 2 * (2 * H - c)) ->
  map (fun v => v <? T) (approx_correct_ttest (2 * H) T (welch_pvalues H lo hi b t_cdf tn))
  = map (fun v => v <? T) (correct_ttest (2 * H) 0 (welch_pvalues H lo hi None t_cdf tn)).
Proof. exact welch_route_decisions. Qed.
Print Assumptions c11_welch_route_decisions.

(* (BY CONSTRUCTION OF THE MODEL since the oracle is a function of the statistic: recorded here so that the
   earlier defect - two genes with identical statistics given different p-values - is visibly impossible) *)
Theorem c11_equal_statistic_equal_p : forall H lo hi b t_cdf tn i j g,
  nth_error tn i = Some g -> nth_error tn j = Some g ->
  nth_error (welch_pvalues H lo hi b t_cdf tn) i = nth_error (welch_pvalues H lo hi b t_cdf tn) j.
Proof. intros H lo hi b t_cdf tn i j g Ei Ej. unfold welch_pvalues. rewrite !nth_error_map, Ei, Ej. reflexivity. Qed.
Print Assumptions c11_equal_statistic_equal_p.
(* nu is not dead: the same t at two different nu may get two different p-values (a table oracle as on the wire) *)
Example c11_nu_matters :
  let tbl := [(TN 1 9 1 5 1, Some 60); (TN 1 9 1 50 1, Some 63)] in
  welch_pvalues 32 1 63 None (table_cdf tbl) [TN 1 9 1 5 1; TN 1 9 1 50 1] = [8; 2].
Proof. vm_compute. reflexivity. Qed.

(* completeness in terms of the statistics.  Under off_threshold a gene ON OR ABOVE the three strict
   thresholds is strictly above them, so the hypothesis is the non-strict one *)
Theorem c11_complete_from_stats : forall st mask D H lo hi T b t_cdf s1 s2 v up g l1 l2 c1 c2 q1 qd f,
  0 < st_S st -> 0 < D ->
  sdg_stats st mask D H lo hi T b t_cdf s1 s2 = POk (v, up) ->
  st_n_min st <= s_n s1 -> st_n_min st <= s_n s2 ->
  cstats_of s1 = POk l1 -> cstats_of s2 = POk l2 -> nth_error l1 g = Some c1 -> nth_error l2 g = Some c2 ->
  (exists a, nth_error (approx_correct_ttest (2 * H) T (welch_pvalues H lo hi b t_cdf (welch_genes D l1 l2))) g = Some a /\ a < T) ->
  in_list mask g ->
  0 <= c_ge1 c1 -> 0 <= c_ge1 c2 -> off_threshold (st_th st) D (st_S st) c1 c2 ->
  to_S (st_S st) (q1_r c1 c2) = Some q1 -> to_S (st_S st) (qdiff_r c1 c2) = Some qd ->
  to_S (st_S st) (fold_f D c1 c2) = Some f ->
  on_or_above_thresholds (st_th st) (q1, qd, f) ->
  nth_error v g = Some true.
Proof. exact sdg_stats_complete. Qed.
Print Assumptions c11_complete_from_stats.

Theorem c11_stats_pair_wf : forall D S H lo hi T b t_cdf s1 s2 x,
  stats_pair D S H lo hi T b t_cdf s1 s2 = POk x -> pair_wf x.
Proof. exact stats_pair_wf. Qed.
Print Assumptions c11_stats_pair_wf.

(* CONSTANT ("zero-variance") GENES (the quantifier names them; audit 3, defect A2).  The model's inputs are
   the statistics AS STORED (float sum and sumsq read as exact dyadics) and its variance is the binary64
   variance var_f (Model/Welch.v): (sumsq - sum^2/n)/(n-1) with every operation rounded.
   - c11_welch_zero_variance / c11_welch_constant_gene: when that float variance is EXACTLY 0.0 in both
     clusters (any sizes >= 1) - which is what happens for a constant that is dyadic with few bits: 0, 2.0, 0.25 -
     the code's denominator sqrt(0) is replaced by 1.0e-10 (t = dmean/1e-10), nu_denom = 0 by 1.0, so nu = 0;
     scipy's t.cdf(., df=0) is NaN (hypothesis nan_at_nu_zero, an observed fact about scipy), the p-value is 1
     and THE GENE IS NOT RECORDED however far apart the means are (all cells 2.0 against all cells 0.0: finding
     F33, c11-constant-gene-not-recorded).
   - otherwise (c11_welch_constant_gene_noise): a constant 0.7 in 9 cells has float variance -1.1e-16 (negative:
     sqrt gives NaN, NaN > 0 is false, denom = 1e-10 again, t = 7e9, but now nu_denom > 0 and nu = 8); a constant
     3.3 in 11 cells has +1.4e-15 (t = 2.9e8, nu = 10).  Such genes ARE recorded by the real code when their
     penetrance passes (observed on every run, harness welch_cases 'constant-nondyadic'): whether a constant
     gene is a marker is decided by the rounding residue, then by the oracle.
   The earlier comment here ("never recorded ... observed on every run") was true of dyadic constants only. *)
Theorem c11_welch_zero_variance : forall D c1 c2,
  1 <= c_n c1 -> 1 <= c_n c2 -> fst (var_f D c1) = 0 -> fst (var_f D c2) = 0 ->
  exists nud, welch_gene D c1 c2 = TN_tiny (fst (mdiff_f D c1 c2)) (snd (mdiff_f D c1 c2)) 0 nud.
Proof. exact welch_zero_variance. Qed.
Print Assumptions c11_welch_zero_variance.

Theorem c11_welch_constant_gene : forall st mask D H lo hi T b t_cdf s1 s2 v up g l1 l2 c1 c2,
  0 < D -> 0 < H -> 0 <= lo <= H -> H <= hi <= 2 * H -> T <= 2 * H ->
  - st_S st < q1_min (st_th st) -> q1_min (st_th st) < q1_th (st_th st) ->
  (* scipy: t.cdf(x, df=0) is NaN *) (forall g n m, tnu_nu g = Some (n, m) -> n = 0 -> t_cdf g = None) ->
  sdg_stats st mask D H lo hi T b t_cdf s1 s2 = POk (v, up) ->
  cstats_of s1 = POk l1 -> cstats_of s2 = POk l2 -> nth_error l1 g = Some c1 -> nth_error l2 g = Some c2 ->
  1 <= c_n c1 -> 1 <= c_n c2 -> fst (var_f D c1) = 0 -> fst (var_f D c2) = 0 ->
  (exists nud, welch_gene D c1 c2 = TN_tiny (fst (mdiff_f D c1 c2)) (snd (mdiff_f D c1 c2)) 0 nud) /\
  nth_error (welch_pvalues H lo hi b t_cdf (welch_genes D l1 l2)) g = Some (2 * H) /\
  nth_error v g <> Some true.
Proof. exact constant_gene_not_recorded. Qed.
Print Assumptions c11_welch_constant_gene.

(* the stored statistics of real constant genes (numbers printed by numpy for np.full((n,1), v); D = 2^50, 2^46, 2):
   0.7 x 9 cells: float variance NEGATIVE, statistic in the denom = 1e-10 branch with nu = 8 (to rounding);
   3.3 x 11 cells: float variance positive, ordinary branch, t^2 > 8e16, nu = 10 (to rounding);
   2.0 x 4 cells: float variance 0: nu = 0;  each against 6 cells at 0.
   The EXACT variance of the stored numbers (var_r) of the first is a different number (-6.2e-17 against the
   float's -1.1e-16 = -2^-53): reading the stored values as exact and computing exactly does not reproduce
   the float variance, which is why var_f rounds every operation. *)
Example c11_welch_constant_gene_noise :
  let z6 := mk_cstat 6 0 0 0 in
  let c07 := mk_cstat 9 7093169413108531 5590339147006490714844539387904 0 in
  let c33 := mk_cstat 11 2554385413649203 593171349223982773114167623680 11 in
  let c20 := mk_cstat 4 16 64 4 in
  (fst (var_f (2 ^ 50) c07) < 0 /\
   fst (var_f (2 ^ 50) c07) * snd (var_r (2 ^ 50) c07) <> fst (var_r (2 ^ 50) c07) * snd (var_f (2 ^ 50) c07) /\
   match welch_gene (2 ^ 50) c07 z6 with TN_tiny dn dd nun nud => 0 < dn /\ 7 * nud < nun < 9 * nud /\ 0 < nud | _ => False end) /\
  (0 < fst (var_f (2 ^ 46) c33) /\
   match welch_gene (2 ^ 46) c33 z6 with TN s a d nun nud => s = 1 /\ 8 * 10 ^ 16 * d < a /\ 9 * nud < nun < 11 * nud /\ 0 < nud | _ => False end) /\
  (fst (var_f 2 c20) = 0 /\
   match welch_gene 2 c20 z6 with TN_tiny dn dd nun nud => 0 < dn /\ nun = 0 | _ => False end).
Proof. cbv zeta. vm_compute. repeat split; try reflexivity; discriminate. Qed.

(* (the next two are 5-line READ-OFFS of welch_p's definition, kept for the record: what the code does with a
   NaN CDF value and with an empty cluster is by construction of the model; the content is in the tie, tags
   1150 / 1153 with cluster sizes 0 and 1) *)
Theorem c11_welch_p_nan : forall H lo hi b g, 0 < H -> lo <= H <= hi -> welch_p H lo hi b g None = 2 * H.
Proof. exact welch_p_nan. Qed.
Print Assumptions c11_welch_p_nan.
(* a cluster without cells: var/0, nu = NaN: p-value 1 whatever the oracle says *)
Theorem c11_welch_empty_cluster : forall D c1 c2 H lo hi b c, 0 < H -> lo <= H <= hi ->
  c_n c1 <= 0 \/ c_n c2 <= 0 -> welch_p H lo hi b (welch_gene D c1 c2) c = 2 * H.
Proof. exact welch_p_empty_cluster. Qed.
Print Assumptions c11_welch_empty_cluster.

(* swap symmetry, proved: exchanging the clusters negates t and keeps t^2 and nu; |fold|, q1, qdiff
   are the same numbers; skipping is symmetric *)
Theorem c11_welch_swap_statistic : forall D c1 c2, welch_gene D c2 c1 = tnu_neg (welch_gene D c1 c2).
Proof. exact welch_gene_swap. Qed.
Print Assumptions c11_welch_swap_statistic.
Theorem c11_welch_swap_boring : forall bn bd g, tnu_boring bn bd (tnu_neg g) = tnu_boring bn bd g.
Proof. exact tnu_boring_neg. Qed.
Print Assumptions c11_welch_swap_boring.
Theorem c11_welch_swap_scores : forall D c1 c2,
  fold_f D c2 c1 = (fst (fold_f D c1 c2), snd (fold_f D c2 c1)) /\ snd (fold_f D c2 c1) = snd (fold_f D c1 c2) /\
  req (q1_r c2 c1) (q1_r c1 c2) /\
  (0 <= c_ge1 c1 -> 0 <= c_ge1 c2 -> req (qdiff_r c2 c1) (qdiff_r c1 c2)).
Proof. exact welch_scores_swap. Qed.
Print Assumptions c11_welch_swap_scores.
(* the p-value: equal when the oracle is symmetric at this gene and neither value is clipped ... *)
Theorem c11_welch_swap_p : forall H lo hi c, 0 < H -> lo <= 2 * H - hi -> 2 * H - hi <= c <= hi ->
  p_of_cdf H lo hi (Some (2 * H - c)) = p_of_cdf H lo hi (Some c).
Proof. exact p_of_cdf_swap. Qed.
Print Assumptions c11_welch_swap_p.
(* ... and NOT in general: the clip interval [eps, ceil] is not symmetric (real values: 2.78e-139 one
   way round, 2.22e-16 the other).  Both are far below any admissible p_th >= 1e-11 unless there are
   > 45000 genes, but the scores -log(p) differ. *)
Example c11_welch_swap_p_clip_caveat :
  p_of_cdf 32 1 60 (Some 2) = 4 /\ p_of_cdf 32 1 60 (Some (2 * 32 - 2)) = 8.
Proof. exact welch_p_swap_clip_differs. Qed.

(* a concrete statistics file (D = 4): two clusters of 4 cells, gene 0 a marker (8 +- 0.5 against
   0.25 +- 0.25), gene 1 CONSTANT at a dyadic value in both clusters (8 against 0: float variance 0, nu = 0,
   CDF NaN, not recorded), gene 2 identical in both; and a ONE-CELL cluster (var = 0, 0/0 -> nu_denom = 1.0).
   The oracle is a function of the statistic (here: of the sign of t). *)
Definition c11_sa := mk_summary 4 [128; 128; 1] [4104; 4096; 1] [4; 4; 1] [4; 4; 0] [4; 4; 0].
Definition c11_sb := mk_summary 4 [4; 0; 1] [8; 0; 1] [2; 0; 1] [0; 0; 0] [0; 0; 0].
Definition c11_s1 := mk_summary 1 [32; 32; 0] [1024; 1024; 0] [1; 1; 0] [1; 1; 0] [1; 1; 0].
Definition c11_orc (g : tnu) : option Z := match g with TN s _ _ _ _ => Some (512 + 511 * s) | _ => None end.
Example c11_from_stats_nonvacuous :
  (exists x, stats_pair 4 1024 512 1 1023 10 None c11_orc c11_sa c11_sb = POk x /\
     pi_p x = [2; 1024; 1024] /\ pi_scores x = [(1024, 1024, 7936); (1024, 1024, 8192); (0, 0, 0)] /\
     pi_mean1 x = [8192; 8192; 64] /\ pi_mean2 x = [256; 0; 64]) /\
  sdg_stats c11_st None 4 512 1 1023 10 (Some (5, 2)) c11_orc c11_sa c11_sb
  = POk ([true; false; false], [false; false; false]) /\
  (* sign of t and whether nu > 0, per gene *)
  (match cstats_of c11_sa, cstats_of c11_sb with
   | POk a, POk b => map (fun g => match g with TN s _ _ nun _ => s * (1 + Z.sgn nun) | TN_tiny dn _ nun _ => 100 + nun | TN_nan => -100 end)
                         (welch_genes 4 a b)
   | _, _ => [] end) = [2; 100; 0] /\
  (match cstats_of c11_s1, cstats_of c11_sb with
   | POk a, POk b => map (fun g => match g with TN s _ _ nun _ => s * (1 + Z.sgn nun) | TN_tiny dn _ nun _ => 100 + nun | TN_nan => -100 end)
                         (welch_genes 4 a b)
   | _, _ => [] end) = [2; 100; - 2].
Proof.
  split; [eexists; split; [vm_compute; reflexivity|]; repeat split|].
  split; [vm_compute; reflexivity|]. split; vm_compute; reflexivity.
Qed.

(* The four oracle premises of c11_sound_exact_welch_composed (c11_composed_premises_nonvacuous) do not force the oracle to say "not significant" everywhere (audit 4, A6: with the step CDF
   above sdg_stats records no gene at all).  c11_rec_tnu_cdf is the step CDF inside the band |t| <= boring_t = 1
   and 0.5 + sign(t) 31/64 outside it: it meets the four premises AND, on the statistics file of
   c11_from_stats_nonvacuous, gene 0 (t > boring_t) is recorded - premises and hypothesis
   `nth_error v g = Some true` of c11_sound_exact_welch_composed hold TOGETHER, and so does its conclusion
   (the full-Holm value of gene 0 is 6 < 20). *)
Definition c11_rec_tnu_cdf (g : tnu) : option Z :=
  if tnu_boring 1 1 g then c11_toy_tnu_cdf g
  else match g with TN s _ _ _ _ => Some (32 + 31 * s) | _ => None end.
Example c11_composed_premises_and_recorded_gene :
  (forall n m c, c11_rec_tnu_cdf (TN (-1) (1 * 1) (1 * 1) n m) = Some c -> 20 <= 2 * c) /\
  (forall n m c, c11_rec_tnu_cdf (TN 1 (1 * 1) (1 * 1) n m) = Some c -> 20 <= 2 * (2 * 32 - c)) /\
  (forall g g' c c', band_le 1 1 g g' -> c11_rec_tnu_cdf g = Some c -> c11_rec_tnu_cdf g' = Some c' -> c <= c') /\
  (forall g g', band_le 1 1 g g' \/ band_le 1 1 g' g -> c11_rec_tnu_cdf g = None -> c11_rec_tnu_cdf g' = None) /\
  (exists v up, sdg_stats c11_st None 4 32 1 63 20 (Some (1, 1)) c11_rec_tnu_cdf c11_sa c11_sb = POk (v, up) /\
                nth_error v 0%nat = Some true) /\
  (exists l1 l2, cstats_of c11_sa = POk l1 /\ cstats_of c11_sb = POk l2 /\
     nth_error (correct_ttest (2 * 32) 0 (welch_pvalues 32 1 63 None c11_rec_tnu_cdf (welch_genes 4 l1 l2))) 0%nat = Some 6).
Proof.
  assert (B : forall g, in_band 1 1 g = true -> c11_rec_tnu_cdf g = c11_toy_tnu_cdf g).
  { intros g Hb. unfold in_band in Hb. apply andb_prop in Hb. destruct Hb as [_ Hb].
    unfold c11_rec_tnu_cdf. rewrite Hb. reflexivity. }
  destruct c11_composed_premises_nonvacuous as (P1 & P2 & P3 & P4 & _).
  split; [|split; [|split; [|split; [|split]]]].
  - intros n m c. exact (P1 n m c).
  - intros n m c. exact (P2 n m c).
  - intros g g' c c' Hb. pose proof Hb as (B1 & B2 & _). rewrite (B g B1), (B g' B2). exact (P3 g g' c c' Hb).
  - intros g g' Hb.
    assert (BB : in_band 1 1 g = true /\ in_band 1 1 g' = true).
    { destruct Hb as [(B1 & B2 & _)|(B2 & B1 & _)]; split; assumption. }
    destruct BB as [B1 B2]. rewrite (B g B1), (B g' B2). exact (P4 g g' Hb).
  - eexists. eexists. split; [vm_compute; reflexivity | reflexivity].
  - eexists. eexists. split; [vm_compute; reflexivity|]. split; [vm_compute; reflexivity|]. vm_compute. reflexivity.
Qed.

(* the cluster-size hypothesis (audit 4, A6): up to 2^21 cells the int64 arithmetic of the code and the
   integer arithmetic of kterm agree on n**3 - n**2 ... *)
Theorem c11_cells_in_int64_range_no_wrap : forall n,
  cells_in_int64_range n -> 0 <= n * n * n - n * n < 2 ^ 63.
Proof. exact kterm_den_no_int64_wrap. Qed.
Print Assumptions c11_cells_in_int64_range_no_wrap.
(* ... beyond it they do not: OBSERVED REAL-CODE BEHAVIOUR, outside the model.  D = 1 resp. 2.
   (a) n1 = 3,000,000 cells half at 1.0 half at 3.0, n2 = 5 cells constant at 2.0:
         int64 n1**3 - n1**2 = 8553246926290448384 (true value 26999991000000000000);
         real aggregate_stats + _calculate_tt_nu: nu = 950360.77; model (and the code run with python ints): 2999999.
   (b) n1 = 2,200,000 (half 1.0, half 3.0), n2 = 2,300,000 (half 1.0, half 3.5): both int64 values are NEGATIVE
         (-7798748913709551616 for n1), nu_denom < 0 falls back to 1.0, real nu = 1.29e-12, t = -234.78 and the
         real welch_t_test returns p = 1.0; model (and python ints): nu = 4364677, t^2 = 55119, p = 4.45e-308 (the clip).
         Every gene of such a pair of nodes gets p = 1: no marker is recorded for the pair.
   The wrap needs a node of more than 2,097,152 cells; (b) needs two (or one of 2^21 < n <= 2,642,245 cells whose
   term dominates).  Leaf clusters are far below, internal nodes of a whole-atlas taxonomy need not be. *)
Example c11_int64_wrap_outside_model :
  ~ cells_in_int64_range 3000000 /\
  (3000000 * 3000000 * 3000000 - 3000000 * 3000000) mod 2 ^ 64 = 8553246926290448384 /\
  (2200000 * 2200000 * 2200000 - 2200000 * 2200000) mod 2 ^ 64 - 2 ^ 64 = -7798748913709551616 /\
  (match welch_gene 1 (mk_cstat 3000000 6000000 15000000 3000000) (mk_cstat 5 10 20 5) with
   | TN s _ _ nun nud => Some (s, nun / nud, (1000 * nun) / nud) | _ => None end) = Some (0, 2999999, 2999999000) /\
  (match welch_gene 2 (mk_cstat 2200000 8800000 44000000 2200000) (mk_cstat 2300000 10350000 60950000 2300000) with
   | TN s a d nun nud => Some (s, a / d, nun / nud) | _ => None end) = Some (-1, 55119, 4364677).
Proof.
  split; [unfold cells_in_int64_range; vm_compute; intros [_ H]; apply H; reflexivity|].
  repeat split; vm_compute; reflexivity.
Qed.

(* ------------------------------------------------------------------ *)
(* the gene-major tables: the pair-major table of ANY per-pair gene lists with indices below n_genes
   is a well-formed compressed matrix (C13's wf_comp), so transpose_sparse_matrix_on_disk (C13's model,
   every elements_at_a_time, chunk sizes >= 1) returns the transpose specification: a well-formed
   table with n_genes rows, as many entries, storing (g, j) iff the pair-major table stores (j, g).
   SCOPE: this is the SERIAL branch of add_sparse_by_gene_markers_to_file (n_processors = 1 ->
   transpose_sparse_matrix_on_disk).  With n_processors > 1 the code calls transpose_sparse_matrix_on_disk_v2
   (csc_to_csr_parallel.py), whose model and theorem are C13's (c13_parallel_exact: the parallel result equals
   the same transpose_spec for inputs without duplicate (row, col) entries - table_of rows has none when each
   per-pair list is duplicate-free, which up_down's lists are); the two are not composed here, the tie for
   the parallel branch is the end-to-end runs of e2e_cases with n_processors in {1, 2, 3}. *)
Theorem c11_tables_transpose : forall rows n_genes E L Lc,
  Forall (Forall (fun g => (g < n_genes)%nat)) rows -> (1 <= L)%nat -> (1 <= Lc)%nat ->
  exists t, transpose (table_of rows) false n_genes None E L Lc = Ok t /\
    let out := t_out t in
    out = transpose_spec (table_of rows) false n_genes None /\
    hd 1%nat (ptr out) = 0%nat /\ mono (ptr out) /\ length (ptr out) = S n_genes /\
    last (ptr out) 0%nat = length (idx out) /\
    length (idx out) = length (concat rows) /\
    forall g j, (g < n_genes)%nat -> (j < length rows)%nat -> stored out g j = stored (table_of rows) j g.
Proof. exact tables_transpose. Qed.
Print Assumptions c11_tables_transpose.

(* its hypothesis is met by the lists the model records: indices below the length of the validity mask *)
Theorem c11_up_down_in_range : forall v u,
  Forall (fun g => (g < length v)%nat) (fst (up_down (v, u))) /\ Forall (fun g => (g < length v)%nat) (snd (up_down (v, u))).
Proof. exact up_down_lt. Qed.
Print Assumptions c11_up_down_in_range.

Example c11_tables_transpose_nonvacuous :
  let rows := [[1; 4]; []; [0]; [2; 3; 5]; [4]]%nat in
  Forall (Forall (fun g => (g < 6)%nat)) rows /\
  (exists t, transpose (table_of rows) false 6 None 4 2 3 = Ok t /\
     ptr (t_out t) = [0; 1; 2; 3; 4; 6; 7]%nat /\ idx (t_out t) = [2; 0; 3; 3; 0; 4; 3]%nat).
Proof.
  cbv zeta. split; [repeat constructor|]. eexists. split; [vm_compute; reflexivity|]. split; reflexivity.
Qed.
