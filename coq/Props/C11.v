(* C11 — reference markers are sound and complete for the stated criteria.
   (theorems are added in stage 2) *)
From Coq Require Import ZArith List Bool.
From CTM Require Import Base.Sx Model.Holm Model.Penetrance.
Import ListNotations.
Open Scope Z_scope.

Example c11_example_holm :
  correct_ttest 1000 0 [10; 500; 3; 10; 900; 4] = [40; 1000; 18; 40; 1000; 20] /\
  approx_correct_ttest 1000 100 [10; 500; 3; 10; 900; 4] = [40; 500; 18; 40; 900; 20].
Proof. vm_compute. split; reflexivity. Qed.
