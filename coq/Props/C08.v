(* C08 — marker genes are reconciled with the query by name, with ancestor fallback.
   Property theorems only: each is closed by `exact <lemma>`.
   Model: Model/Markers.v (validate_marker_lookup as the fold over the parents in
   reversed all_parents order, create_marker_cache_from_specified_markers,
   write_query_markers_to_h5, serialize_markers, the flattening of the table). *)
From Coq Require Import ZArith List Bool Arith Permutation.
From CTM Require Import Base.Sx Base.SortX Model.Tree Model.Markers Proofs.MarkersP.
Import ListNotations.
Open Scope Z_scope.

(* The genes written to the cache for a parent with >= 2 children are, as a set,
   spec_markers of the ORIGINAL table: own ∩ query if that has >= min genes, else
   (own ∪ anc_1 ∪ … ∪ anc_k [∪ root]) ∩ query with k minimal (k_min); the two index
   arrays of the group name these genes column by column (pairing by name), the
   reference indices ascend, and no gene occurs twice.  dict_ok = the levels are
   Python dicts (no node twice in a level).  The proof's content: ancestors (and the
   parent's own entry) are still unpatched when consulted, because the parents are
   processed by decreasing depth, the root last.  The statement is claimed for valid taxonomies
   only (validate t = true, what TaxonomyTree enforces): on an invalid tree the code's
   parents() lookup raises KeyError where the model's `ancestors` returns []. *)
Theorem c08_used_equals_spec : forall t tb refg qg minm c p,
  validate t = true ->
  dict_ok t ->
  create_cache tb refg qg (Some t) minm = MOk c ->
  In p (all_parents t) -> (2 <= length (children t p))%nat ->
  exists ri qi names,
    tget p (c_groups c) = Some (ri, qi) /\
    names_at refg ri = Some names /\ names_at qg qi = Some names /\
    NoDup names /\ ascending ri /\
    forall g, In g names <-> In g (spec_markers tb qg minm t p).
Proof. intros t tb refg qg minm c p _. exact (used_equals_spec t tb refg qg minm c p). Qed.
Print Assumptions c08_used_equals_spec.

(* k_min is the smallest number of (present) ancestor lists that reaches the minimum:
   no shorter non-empty prefix does; and at least one ancestor is consulted when there is one *)
Theorem c08_fallback_minimal : forall q minm own al k,
  (1 <= k < k_min q minm own al)%nat -> (n_usable q (with_first own al k) < minm)%nat.
Proof. exact k_min_minimal. Qed.
Print Assumptions c08_fallback_minimal.

Theorem c08_fallback_bounds : forall q minm own al,
  (k_min q minm own al <= length al)%nat /\ (al <> [] -> 1 <= k_min q minm own al)%nat.
Proof. exact k_min_bounds. Qed.
Print Assumptions c08_fallback_bounds.

(* the genes the output reports for a parent are the genes of its group in the cache
   (the ones used); parents with a single child report none *)
Theorem c08_reported_equals_used : forall c refg t out p,
  serialize c refg t = MOk out -> In p (all_parents t) ->
  ((p <> None /\ (length (children t p) < 2)%nat) -> tget p out = Some []) /\
  ((p = None \/ (2 <= length (children t p))%nat) ->
     exists ri qi names, tget p (c_groups c) = Some (ri, qi) /\
                         names_at refg ri = Some names /\ tget p out = Some names).
Proof. exact reported_equals_used. Qed.
Print Assumptions c08_reported_equals_used.

(* query and reference columns are paired by gene name, for every order (and even
   multiplicity) of the two gene lists: column j of both index arrays is the same gene *)
Theorem c08_pairing_by_name : forall tb refg qg c k ri qi,
  write_query_markers tb refg qg = MOk c -> In (k, (ri, qi)) (c_groups c) ->
  exists l names, In (k, l) tb /\ Permutation l names /\ ascending ri /\
    names_at refg ri = Some names /\ names_at qg qi = Some names.
Proof. exact pairing_by_name. Qed.
Print Assumptions c08_pairing_by_name.

Theorem c08_pairing_columns : forall refg qg ri qi names j r s,
  names_at refg ri = Some names -> names_at qg qi = Some names ->
  nth_error ri j = Some r -> nth_error qi j = Some s ->
  exists g, nth_error names j = Some g /\ nth_error refg r = Some g /\ nth_error qg s = Some g.
Proof. exact names_at_columns. Qed.
Print Assumptions c08_pairing_columns.

(* every group of a created cache (with or without a tree): paired by name, genes of
   the query and of the reference only *)
Theorem c08_used_in_query_and_reference : forall tb refg qg topt minm c k ri qi,
  create_cache tb refg qg topt minm = MOk c -> In (k, (ri, qi)) (c_groups c) ->
  exists names, names_at refg ri = Some names /\ names_at qg qi = Some names /\ ascending ri /\
                forall g, In g names -> In g qg /\ In g refg.
Proof. exact used_in_query_and_reference. Qed.
Print Assumptions c08_used_in_query_and_reference.

(* parents with a single child need no markers: validate_marker_lookup skips them
   (no error, no patch, whatever their entry) ... *)
Theorem c08_single_child_needs_none : forall t q minm st p,
  (length (children t p) <= 1)%nat ->
  vstep t q minm st p =
  {| v_tb := v_tb st; v_err := v_err st; v_bad := v_bad st; v_skip := S (v_skip st); v_log := v_log st |}.
Proof. exact vstep_single_child. Qed.
Print Assumptions c08_single_child_needs_none.

(* ... and their entry (whatever it lists) never decides whether the cache is created.  Stated for every key
   that needs no markers: needs_markers t p = false, i.e. p is not a parent of the tree with >= 2 children --
   a parent with a single child (the root of a one-node top level included), a node of the leaf level, a key
   that is no node of the (reduced) tree at all such as a node of a level removed by drop_level.
   If the cache is created with the entry of p empty, it is created with any list l of reference genes in its
   place, whether or not l shares a gene with the query.  (l has to consist of reference genes: a marker unknown
   to the reference is an error wherever it is listed -- c08_errors_unknown_to_reference.  NoDup: the table is
   a Python dict.)  The entry of p is still READ when a descendant of p falls back on its ancestors, so the two
   runs differ in more than the entry of p; the proof is a simulation of the two folds of
   validate_marker_lookup.  This was finding F7 (refuted by the code before the repair: the loop of
   create_marker_cache_from_specified_markers demanded query overlap of every key of the table). *)
Theorem c08_unneeded_entry_never_fails : forall t tb refg qg minm p l,
  NoDup (map fst tb) ->
  needs_markers t p = false ->
  (forall g, In g l -> In g refg) ->
  (exists c, create_cache (tset p [] tb) refg qg (Some t) minm = MOk c) ->
  exists c, create_cache (tset p l tb) refg qg (Some t) minm = MOk c.
Proof. exact unneeded_entry_is_harmless. Qed.
Print Assumptions c08_unneeded_entry_never_fails.

(* the form it had as the refuted statement: a parent with a single child *)
Theorem c08_single_child_entry_never_fails : forall t tb refg qg minm p l,
  NoDup (map fst tb) ->
  In p (all_parents t) -> (length (children t p) <= 1)%nat ->
  (forall g, In g l -> In g refg) ->
  (exists c, create_cache (tset p [] tb) refg qg (Some t) minm = MOk c) ->
  exists c, create_cache (tset p l tb) refg qg (Some t) minm = MOk c.
Proof. exact single_child_entry_is_harmless. Qed.
Print Assumptions c08_single_child_entry_never_fails.

Theorem c08_not_a_parent_needs_none : forall t p, ~ In p (all_parents t) -> needs_markers t p = false.
Proof. exact not_a_parent_needs_none. Qed.
Print Assumptions c08_not_a_parent_needs_none.

(* conversely, what is still demanded: "No markers at parent node ... were present in query set" is raised for
   nothing but a parent of the tree with >= 2 children whose (validated) entry lists genes, none in the query
   (possible only when min_markers = 0 keeps validate_marker_lookup from patching it) *)
Theorem c08_no_overlap_only_for_needed : forall t tb refg qg minm,
  create_cache tb refg qg (Some t) minm = MErr E_NO_OVERLAP ->
  exists tb' log k l, validate_marker_lookup tb qg t minm = MOk (tb', log) /\
    In (k, l) tb' /\ In k (all_parents t) /\ (2 <= length (children t k))%nat /\
    l <> [] /\ (forall g, In g l -> ~ In g qg).
Proof. exact no_overlap_only_for_needed. Qed.
Print Assumptions c08_no_overlap_only_for_needed.

(* errors: a root that has to choose between >= 2 children and has no usable marker *)
Theorem c08_errors_root : forall t tb refg qg minm,
  (2 <= length (children t None))%nat ->
  (forall g, In g (entry tb None) -> ~ In g qg) ->
  exists e, create_cache tb refg qg (Some t) minm = MErr e.
Proof. exact root_without_usable_is_error. Qed.
Print Assumptions c08_errors_root.

(* errors: a listed marker that the query has but the reference does not know
   (a marker absent from BOTH is dropped silently when its entry is patched; see DESIGN) *)
Theorem c08_errors_unknown_to_reference : forall t tb refg qg minm k l g,
  In (k, l) tb -> In g l -> In g qg -> ~ In g refg ->
  exists e, create_cache tb refg qg (Some t) minm = MErr e.
Proof. exact unknown_to_reference_is_error. Qed.
Print Assumptions c08_errors_unknown_to_reference.

(* errors: the same clause at full strength — which listed markers demand the error is the declarative
   `demands_error` of the ORIGINAL table: every gene unknown to the reference, except a gene that the query
   lacks too, listed in an entry that is replaced by its patched version (entry_replaced: a non-root parent of
   the tree with >= 2 children, fewer than min usable own markers, and an ancestor entry or the root entry to
   patch with).  The check evaluates `unknown_demanded` on every table the implementation accepts. *)
Theorem c08_errors_unknown_marker : forall t tb refg qg minm k l g,
  dict_ok t -> tget k tb = Some l -> In g l ->
  demands_error tb refg qg minm t k g = true ->
  exists e, create_cache tb refg qg (Some t) minm = MErr e.
Proof. exact unknown_marker_is_error. Qed.
Print Assumptions c08_errors_unknown_marker.

Theorem c08_accepted_demands_nothing : forall t tb refg qg minm c,
  dict_ok t -> NoDup (map fst tb) ->
  create_cache tb refg qg (Some t) minm = MOk c ->
  unknown_demanded tb refg qg minm t = [].
Proof. exact accepted_demands_nothing. Qed.
Print Assumptions c08_accepted_demands_nothing.

(* errors: a query sharing no marker with the table (corollary of c08_errors_root) *)
Theorem c08_errors_no_shared_marker : forall t tb refg qg minm,
  (2 <= length (children t None))%nat ->
  (forall k l g, In (k, l) tb -> In g l -> ~ In g qg) ->
  exists e, create_cache tb refg qg (Some t) minm = MErr e.
Proof. exact no_shared_marker_is_error. Qed.
Print Assumptions c08_errors_no_shared_marker.

(* flattening: the one-level tree has the root as its only parent and the root uses the
   union of every list of the table, restricted to the query *)
Theorem c08_flatten_unions : forall tb refg qg lv minm c,
  NoDup (nodes lv) -> (2 <= length (nodes lv))%nat ->
  create_cache (flatten_table tb) refg qg (Some [lv]) minm = MOk c ->
  all_parents [lv] = [None] /\
  exists ri qi names,
    tget None (c_groups c) = Some (ri, qi) /\
    names_at refg ri = Some names /\ names_at qg qi = Some names /\ NoDup names /\
    forall g, In g names <-> (In g qg /\ exists k l, In (k, l) tb /\ In g l).
Proof. exact flatten_unions. Qed.
Print Assumptions c08_flatten_unions.

Theorem c08_flatten_tree : forall t t', flatten t = TOk t' -> t' = [leaf_level t].
Proof. exact flatten_is_leaf_level. Qed.
Print Assumptions c08_flatten_tree.

(* ---------------- non-vacuity ---------------- *)
(* three levels; min_markers = 2.
   node 5 (level 1, two children): own {100,101}, only 100 in the query; its parent 1 is not a
     key of the table, so the root's list is added: {100,102,103};
   node 7 (level 1, two children): own {106,199}; its parent 2 lists {105,100}: enough, the
     root is not consulted: {100,105,106};
   node 6 and node 1 have a single child and get nothing. *)
Definition ex_tree : tree :=
  [ [(1, [5]); (2, [6; 7])];
    [(5, [10; 11]); (6, [12]); (7, [13; 14])];
    [(10, [0]); (11, [1]); (12, [2]); (13, [3]); (14, [4])] ].
Definition ex_table : table :=
  [ (Some (1%nat, 5), [100; 101]); (None, [102; 103; 104]); (Some (0%nat, 2), [105; 100]);
    (Some (1%nat, 7), [106; 199]); (Some (1%nat, 6), []) ].
Definition ex_ref : list gene := [199; 106; 105; 104; 103; 102; 101; 100].
Definition ex_query : list gene := [100; 102; 103; 105; 106; 300].

Example c08_example_fallback :
  dict_ok ex_tree /\ validate ex_tree = true /\
  (exists c, create_cache ex_table ex_ref ex_query (Some ex_tree) 2 = MOk c /\
             tget (Some (1%nat, 5)) (c_groups c) = Some ([4; 5; 7], [2; 1; 0])%nat /\
             tget (Some (1%nat, 7)) (c_groups c) = Some ([1; 2; 7], [4; 3; 0])%nat /\
             serialize c ex_ref ex_tree =
               MOk [(Some (0%nat, 1), []); (Some (0%nat, 2), [105; 100]); (Some (1%nat, 5), [103; 102; 100]);
                    (Some (1%nat, 6), []); (Some (1%nat, 7), [106; 105; 100]); (None, [103; 102])]) /\
  canon (spec_markers ex_table ex_query 2 ex_tree (Some (1%nat, 5))) = [100; 102; 103] /\
  canon (spec_markers ex_table ex_query 2 ex_tree (Some (1%nat, 7))) = [100; 105; 106] /\
  validate_marker_lookup ex_table ex_query ex_tree 2 =
    MOk ([(Some (1%nat, 5), [100; 102; 103]); (None, [102; 103; 104]); (Some (0%nat, 2), [105; 100]);
          (Some (1%nat, 7), [100; 105; 106]); (Some (1%nat, 6), [])],
         [(Some (1%nat, 7), [Some (0%nat, 2)]); (Some (1%nat, 5), [None])]).
Proof.
  split.
  { repeat constructor; cbn; intuition discriminate. }
  split; [vm_compute; reflexivity|].
  split; [eexists; vm_compute; repeat split; reflexivity|].
  vm_compute. repeat split; reflexivity.
Qed.

(* the error theorems' hypotheses are satisfiable: the root's genes are all absent from the query *)
Example c08_example_errors :
  create_cache ex_table ex_ref [100; 105; 106] (Some ex_tree) 2 = MErr E_VALIDATE /\
  create_cache ex_table ex_ref [300] (Some ex_tree) 2 = MErr E_NOWHERE /\
  create_cache ex_table [100; 101; 102; 103; 104; 105; 199] ex_query (Some ex_tree) 2 = MErr E_NOT_IN_REF.
Proof. vm_compute. repeat split; reflexivity. Qed.

(* the unknown-marker clause: 199 (entry of node 7, unknown to the reference below) is absent from the query
   and node 7's entry is replaced -> excused, the table is accepted; the same gene under the root (never
   replaced) or a gene of the query (106) demands the error *)
Definition ex_ref_no199 : list gene := [106; 105; 104; 103; 102; 101; 100].
Example c08_example_unknown :
  entry_replaced ex_table ex_query 2 ex_tree (Some (1%nat, 7)) = true /\
  unknown_demanded ex_table ex_ref_no199 ex_query 2 ex_tree = [] /\
  (exists c, create_cache ex_table ex_ref_no199 ex_query (Some ex_tree) 2 = MOk c) /\
  unknown_demanded (tset None [102; 103; 199] ex_table) ex_ref_no199 ex_query 2 ex_tree = [(None, 199)] /\
  create_cache (tset None [102; 103; 199] ex_table) ex_ref_no199 ex_query (Some ex_tree) 2 = MErr E_NOT_IN_REF /\
  unknown_demanded ex_table [105; 104; 103; 102; 101; 100] ex_query 2 ex_tree = [(Some (1%nat, 7), 106)].
Proof.
  split; [vm_compute; reflexivity|]. split; [vm_compute; reflexivity|].
  split; [eexists; vm_compute; reflexivity|]. vm_compute. repeat split; reflexivity.
Qed.

(* entries that need no markers: the witness of the former finding F7.  Node 0 of level 0 has a single child; its
   entry [0] shares no gene with the query [1;2;3].  The cache is created, the group of node 0 is empty; the same
   for a key of the leaf level and for a key of a level that is not in the tree.  A parent with two children
   (node 1) in that situation, min_markers = 0: still E_NO_OVERLAP. *)
Definition f7_tree : tree := [[(0, [0]); (1, [1; 2])]; [(0, [0]); (1, [1]); (2, [2])]].
Definition f7_table : table := [(None, [1; 2]); (Some (0%nat, 0), []); (Some (0%nat, 1), [3])].
Example c08_example_unneeded :
  In (Some (0%nat, 0)) (all_parents f7_tree) /\ length (children f7_tree (Some (0%nat, 0))) = 1%nat /\
  needs_markers f7_tree (Some (0%nat, 0)) = false /\
  needs_markers f7_tree (Some (1%nat, 2)) = false /\ needs_markers f7_tree (Some (7%nat, 5)) = false /\
  needs_markers f7_tree (Some (0%nat, 1)) = true /\ needs_markers f7_tree None = true /\
  NoDup (map fst f7_table) /\
  (exists c, create_cache (tset (Some (0%nat, 0)) [] f7_table) [0; 1; 2; 3] [1; 2; 3] (Some f7_tree) 1 = MOk c) /\
  (exists c, create_cache (tset (Some (0%nat, 0)) [0] f7_table) [0; 1; 2; 3] [1; 2; 3] (Some f7_tree) 1 = MOk c /\
             tget (Some (0%nat, 0)) (c_groups c) = Some ([], [])) /\
  (exists c, create_cache (tset (Some (1%nat, 2)) [0] f7_table) [0; 1; 2; 3] [1; 2; 3] (Some f7_tree) 1 = MOk c) /\
  (exists c, create_cache (tset (Some (7%nat, 5)) [0] f7_table) [0; 1; 2; 3] [1; 2; 3] (Some f7_tree) 1 = MOk c) /\
  create_cache (tset (Some (0%nat, 1)) [0] f7_table) [0; 1; 2; 3] [1; 2; 3] (Some f7_tree) 0 = MErr E_NO_OVERLAP /\
  create_cache (tset (Some (0%nat, 0)) [0] f7_table) [0; 1; 2; 3] [1; 2; 3] None 1 = MErr E_NO_OVERLAP.
Proof.
  split; [vm_compute; tauto|]. split; [reflexivity|].
  do 5 (split; [vm_compute; reflexivity|]).
  split; [repeat constructor; cbn; intuition discriminate|].
  split; [eexists; vm_compute; reflexivity|].
  split; [eexists; vm_compute; split; reflexivity|].
  split; [eexists; vm_compute; reflexivity|].
  split; [eexists; vm_compute; reflexivity|].
  split; vm_compute; reflexivity.
Qed.
