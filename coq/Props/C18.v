(* C18 — the stages compose: cluster centroids map back to themselves. *)
From Coq Require Import ZArith List Bool.
From Coq Require Import Permutation Sorted.
From CTM Require Import Base.Sx Model.Vote Proofs.CorrP Proofs.VoteP Proofs.VoteMainP Proofs.CentroidP.
From CTM Require Import Base.SortX Model.Tree Model.Normalize Model.Markers Model.RefSide Proofs.TreeP Proofs.RefSideP Proofs.RefSideVoteP.
Import ListNotations.
Open Scope Z_scope.

(* A query that coincides with the mean profile of leaf l on the drawn subset, and is not
   constant on it, wins the iteration for the child that owns l, whenever every leaf owned by
   another child is not perfectly correlated with it on the subset.  This is the statement
   of the property under the extra hypothesis "the centroid is not flat on the subset";
   without it the faithful model refutes the property (c18_flat_subset_refuted). *)
Theorem c18_centroid_partial : forall q refs (owners : list Z) S l rl i,
  nth_error refs l = Some rl ->
  getcols S rl = getcols S q ->
  0 < ccov (getcols S q) (getcols S q) ->
  (forall j rj, nth_error refs j = Some rj -> nth j owners (-1) <> nth l owners (-1) ->
       let qs := getcols S q in let rs := getcols S rj in
       ccov rs rs = 0 \/ ccov qs rs < 0 \/ ccov qs rs * ccov qs rs < ccov qs qs * ccov rs rs) ->
  nearest q refs S = Some i ->
  nth i owners (-1) = nth l owners (-1).
Proof. exact centroid_wins. Qed.
Print Assumptions c18_centroid_partial.

(* ... lifted to the whole vote at a node: when that holds for EVERY drawn subset, every
   iteration is won by a leaf of the same child, which therefore gets all the votes and
   every other child none ... *)
Theorem c18_centroid_unanimous_partial : forall q refs (owners : list Z) subsets l rl winners,
  nth_error refs l = Some rl ->
  Forall (centroid_on q refs owners l rl) subsets ->
  tally q refs subsets = Some winners ->
  length winners = length subsets /\
  Forall (fun w => (w < length refs)%nat) winners /\
  Forall (fun w => nth w owners (-1) = nth l owners (-1)) winners /\
  votes_for owners winners (nth l owners (-1)) = length subsets /\
  (forall c, c <> nth l owners (-1) -> votes_for owners winners c = 0%nat).
Proof. exact centroid_unanimous. Qed.
Print Assumptions c18_centroid_unanimous_partial.

(* ... so choose_node, whatever the tie order of its sort and however many runners-up are
   requested, reports that child with bootstrapping probability 1 (all `length subsets`
   votes) and an empty runner-up list -- at every node on the path, for every bootstrap
   factor (the factor only changes which subsets are drawn) *)
Theorem c18_centroid_probability_one_partial :
  forall q refs (owners : list Z) subsets l rl winners order (n_assign : nat) w wv rs,
  nth_error refs l = Some rl -> length owners = length refs ->
  subsets <> [] ->
  Forall (centroid_on q refs owners l rl) subsets ->
  tally q refs subsets = Some winners ->
  Permutation order (zdistinct owners) ->
  StronglySorted (fun a b => (b <= a)%nat) (map (votes_for owners winners) order) ->
  (1 <= n_assign)%nat ->
  choose_with order (votes_for owners winners) n_assign = Some (w, wv, rs) ->
  w = nth l owners (-1) /\ wv = length subsets /\ rs = [].
Proof. exact centroid_probability_one. Qed.
Print Assumptions c18_centroid_probability_one_partial.

(* non-vacuity: three leaves under two children, the cell is leaf 2's profile, two subsets on
   which it is not flat; leaf 0 is flat on them and leaf 1 imperfectly correlated *)
Example c18_example :
  let q := [8; 0; 16; 24] in let refs := [[0; 8; 0; 0]; [16; 0; 32; 50]; [8; 0; 16; 24]] in
  let owners := [1; 1; 2] in
  tally q refs [[0%nat; 2%nat; 3%nat]; [0%nat; 1%nat; 3%nat]] = Some [2%nat; 2%nat] /\
  votes_for owners [2%nat; 2%nat] 2 = 2%nat /\ votes_for owners [2%nat; 2%nat] 1 = 0%nat /\
  choose_with [2; 1] (votes_for owners [2%nat; 2%nat]) 3 = Some (2, 2%nat, []).
Proof. vm_compute. repeat split; reflexivity. Qed.
Example c18_example_hypotheses :
  Forall (centroid_on [8; 0; 16; 24] [[0; 8; 0; 0]; [16; 0; 32; 50]; [8; 0; 16; 24]] [1; 1; 2] 2 [8; 0; 16; 24])
         [[0%nat; 2%nat; 3%nat]; [0%nat; 1%nat; 3%nat]].
Proof. exact centroid_example_ok. Qed.

(* the full statement fails on a subset on which the centroid is flat: all correlations are 0
   by the constant-row convention and the first leaf wins, although no other leaf is
   perfectly correlated (finding F6) *)
Theorem c18_flat_subset_refuted :
  exists q refs (owners : list Z) S l rl i,
    nth_error refs l = Some rl /\ rl = q /\
    (forall j rj, nth_error refs j = Some rj -> j <> l ->
        ~ (0 < ccov (getcols S q) (getcols S rj) /\
           ccov (getcols S q) (getcols S rj) * ccov (getcols S q) (getcols S rj) =
           ccov (getcols S q) (getcols S q) * ccov (getcols S rj) (getcols S rj) /\
           0 < ccov (getcols S rj) (getcols S rj))) /\
    nearest q refs S = Some i /\ nth i owners (-1) <> nth l owners (-1).
Proof.
  exists [8; 8; 0], [[0; 16; 5]; [8; 8; 0]], [1; 2], [0%nat; 1%nat], 1%nat, [8; 8; 0], 0%nat.
  split; [reflexivity|]. split; [reflexivity|]. split.
  - intros j rj Hj Hne. destruct j as [|[|j]]; cbn in Hj; [| congruence | destruct j; discriminate].
    inversion Hj; subst rj. vm_compute. intros (H & _). discriminate.
  - vm_compute. split; [reflexivity | discriminate].
Qed.
Print Assumptions c18_flat_subset_refuted.

(* ====================================================================================================
   The REFERENCE side (Model/RefSide.v): statistics file -> get_leaf_means -> assemble_query_data.
   A value of a mean is `mean sum (max 1 n)` for an arbitrary embedding `mean` (type A): nothing below
   depends on how the exact rational sum / max(1, n) is represented.
   ==================================================================================================== *)

(* (1) the mean of leaf c at gene g is sum(c,g) / max(1, n(c)), c and g looked up BY NAME in the statistics file
   (sf_at: through cluster_to_row and col_names); the rows of the matrix are the sorted leaves, its columns the
   gene list of the file *)
Theorem c18_leaf_means_read_by_name : forall (A : Type) (mean : Z -> Z -> A) t sf fs m,
  get_leaf_means A mean t sf fs = ROk m ->
  m_cells m = zsort (nodes (leaf_level t)) /\ m_genes m = sf_cols sf /\ m_norm m = Log2CPM /\
  length (m_data m) = length (m_cells m) /\
  forall c g, In c (nodes (leaf_level t)) ->
    mat_at A m c g = option_map (fun sn => mean (fst sn) (Z.max 1 (snd sn))) (sf_at sf c g).
Proof. exact leaf_means_by_name. Qed.
Print Assumptions c18_leaf_means_read_by_name.

(* audit 3, item 13: the model used to answer ROk on a statistics file without any gene, where the real
   aggregate_stats raises "ValueError: zero-size array to reduction operation minimum which has no identity"
   (choose_int_dtype((result['gt0'].min(), ...)) on an array of n_genes = 0 entries).  Run here on a generated
   taxonomy: a file with `sum` of shape (n, 0) makes get_leaf_means raise that ValueError with and without
   for_marker_selection (also when a cluster is missing from cluster_to_row); a 1-gene file is accepted.  The error
   branch is now in the model (agg_check, code 23 = RE_ZEROGENES, after the KeyError of a missing leaf, n_genes
   being read off the first leaf of the population).  All the theorems of this section are conditional on
   `get_leaf_means ... = ROk m`, so none needed a new hypothesis; what an accepted file satisfies is stated here:
   the `sum` row of the first leaf of every aggregated population is not empty (zero_row = false), i.e. the file
   has at least one gene.  c18_refside_example_zero_genes: the excluded file is exactly where Python raises.
   LABEL (audit 4, A6): BY CONSTRUCTION OF THE MODEL; THE CONTENT IS IN THE TIE.  This theorem is the model's own
   guard read back: get_leaf_means answers ROk only after agg_check has tested exactly `zero_row cs l0 = false`
   for the first leaf of every population (a five-line induction re-proves it), and its conclusion is phrased in
   the model's internals.  It says nothing about the real code beyond "the model has that branch"; that the real
   aggregate_stats raises ValueError on exactly those files, and accepts a 1-gene file, is what the harness runs
   (harness/props/c18*.py, the zero-gene statistics files).  It is kept because MANIFEST / DESIGN cite it
   and because it records which inputs the conditional theorems of this section cover. *)
Theorem c18_leaf_means_accepted_has_genes : forall (A : Type) (mean : Z -> Z -> A) t sf fs m,
  get_leaf_means A mean t sf fs = ROk m ->
  exists cs, raw_stats sf (sf_c2r sf) = Some cs /\
    forall l0 rest, In (l0 :: rest) (map snd (concat (as_leaves t))) -> zero_row cs l0 = false.
Proof. exact leaf_means_accepted_has_genes. Qed.
Print Assumptions c18_leaf_means_accepted_has_genes.

(* ... and for EVERY row order rp and column order cp of a well-formed file (sf_wf: what the writers produce),
   the rearranged file -- rows, cluster_to_row, columns and col_names moved together -- reads the same by name
   (this theorem), is accepted whenever the original is, and gives the same leaf means by name (the next one) *)
Theorem c18_statistics_file_by_name : forall rp cp sf,
  sf_wf sf -> NoDup (sf_cols sf) ->
  Permutation rp (seq 0 (length (sf_n sf))) -> Permutation cp (seq 0 (length (sf_cols sf))) ->
  forall c g, sf_at (rearrange rp cp sf) c g = sf_at sf c g.
Proof. exact sf_at_rearrange. Qed.
Print Assumptions c18_statistics_file_by_name.

Theorem c18_leaf_means_by_name : forall (A : Type) (mean : Z -> Z -> A) rp cp t sf fs m,
  sf_wf sf ->
  Permutation rp (seq 0 (length (sf_n sf))) -> Permutation cp (seq 0 (length (sf_cols sf))) ->
  get_leaf_means A mean t sf fs = ROk m ->
  exists m', get_leaf_means A mean t (rearrange rp cp sf) fs = ROk m' /\
    m_cells m' = m_cells m /\ Permutation (m_genes m') (m_genes m) /\
    forall c g, In c (nodes (leaf_level t)) ->
      mat_at A m' c g = mat_at A m c g /\
      mat_at A m c g = option_map (fun sn => mean (fst sn) (Z.max 1 (snd sn))) (sf_at sf c g).
Proof. exact leaf_means_order_independent. Qed.
Print Assumptions c18_leaf_means_by_name.

(* (2) for a valid taxonomy: the rows of reference_data for parent P are exactly the leaves below P (= the leaves
   whose ancestor at P's level is P; all leaves for the root), each once, sorted by name; reference_types is
   parallel to the rows and reference_types[i] is the child of P that is the ancestor-or-self of row i's leaf
   (ancestor_at is a function: that child is unique).  Single-child chains and parents whose children are
   leaves are included (child_level_of P < length t is all that is needed, and it is a conclusion). *)
Theorem c18_reference_rows_are_the_parents_leaves :
  forall (A : Type) t groups refg qg qgenes qnorm (m : rmat A) parent a,
  validate t = true -> wf t ->
  assemble_reference A t groups refg qg qgenes qnorm m parent = ROk a ->
  (child_level_of parent < length t)%nat /\
  Sorted Z.le (m_cells (a_ref a)) /\ NoDup (m_cells (a_ref a)) /\
  (forall l, In l (m_cells (a_ref a)) <->
     exists c, In c (children t parent) /\
               ancestor_at t (length t - 1) l (child_level_of parent) = Some c) /\
  (forall li x, parent = Some (li, x) ->
     forall l, In l (m_cells (a_ref a)) <-> ancestor_at t (length t - 1) l li = Some x) /\
  (parent = None -> forall l, In l (m_cells (a_ref a)) <-> In l (nodes (leaf_level t))) /\
  length (a_types a) = length (m_cells (a_ref a)) /\
  length (m_data (a_ref a)) = length (m_cells (a_ref a)) /\
  (forall i l, nth_error (m_cells (a_ref a)) i = Some l ->
     exists c, nth_error (a_types a) i = Some c /\ In c (children t parent) /\
               ancestor_at t (length t - 1) l (child_level_of parent) = Some c).
Proof. exact reference_rows. Qed.
Print Assumptions c18_reference_rows_are_the_parents_leaves.

(* (3) column j of reference_data is the column of the reference matrix NAMED
   all_ref_identifiers[reference_markers[j]] (entry (i, j) = the entry of m at row-name l, column-name g),
   whatever the order of the genes in m, i.e. in the statistics file; the query genes are the same list *)
Theorem c18_reference_columns_by_name :
  forall (A : Type) t groups refg qg qgenes qnorm (m : rmat A) parent a,
  assemble_reference A t groups refg qg qgenes qnorm m parent = ROk a ->
  exists ri qi, tget parent groups = Some (ri, qi) /\
    names_at refg ri = Some (m_genes (a_ref a)) /\ names_at qg qi = Some (a_qgenes a) /\
    a_qgenes a = m_genes (a_ref a) /\ NoDup (m_genes (a_ref a)) /\
    m_norm (a_ref a) = Log2CPM /\
    forall i j l r, nth_error (m_cells (a_ref a)) i = Some l -> nth_error ri j = Some r ->
      exists g row v, nth_error refg r = Some g /\ nth_error (m_genes (a_ref a)) j = Some g /\
        nth_error (m_data (a_ref a)) i = Some row /\ nth_error row j = Some v /\
        mat_at A m l g = Some v.
Proof. exact reference_columns. Qed.
Print Assumptions c18_reference_columns_by_name.

(* ... and with a cache written by write_query_markers (c08_pairing_by_name): the columns are the genes of the
   marker table's entry for P, and query column j and reference column j carry the SAME gene name, which is
   all_ref_identifiers[reference[j]] = all_query_identifiers[query[j]] *)
Theorem c18_columns_aligned :
  forall (A : Type) tb t refg qg c qgenes qnorm (m : rmat A) parent a,
  write_query_markers tb refg qg = MOk c ->
  assemble_reference A t (c_groups c) refg qg qgenes qnorm m parent = ROk a ->
  exists ri qi l, tget parent (c_groups c) = Some (ri, qi) /\
    In (parent, l) tb /\ Permutation l (m_genes (a_ref a)) /\ a_qgenes a = m_genes (a_ref a) /\
    forall j r s, nth_error ri j = Some r -> nth_error qi j = Some s ->
      exists g, nth_error (m_genes (a_ref a)) j = Some g /\ nth_error (a_qgenes a) j = Some g /\
                nth_error refg r = Some g /\ nth_error qg s = Some g.
Proof. exact columns_aligned. Qed.
Print Assumptions c18_columns_aligned.

(* (4) a profile q that equals the mean profile of leaf L, by name, on the genes assembled for P IS row
   index-of-L of reference_data, and reference_types there is P's child on the path to L *)
Theorem c18_centroid_is_a_reference_row :
  forall (A : Type) t groups refg qg qgenes qnorm (m : rmat A) parent a L (q : list A),
  validate t = true -> wf t ->
  assemble_reference A t groups refg qg qgenes qnorm m parent = ROk a ->
  In L (m_cells (a_ref a)) ->
  Forall2 (fun g v => mat_at A m L g = Some v) (m_genes (a_ref a)) q ->
  exists i c, nth_error (m_cells (a_ref a)) i = Some L /\ nth_error (m_data (a_ref a)) i = Some q /\
              nth_error (a_types a) i = Some c /\ In c (children t parent) /\
              ancestor_at t (length t - 1) L (child_level_of parent) = Some c.
Proof. exact centroid_is_a_reference_row. Qed.
Print Assumptions c18_centroid_is_a_reference_row.

(* the composed corollary: c18_centroid_partial with its hypotheses `nth_error refs l = Some rl`,
   `getcols S rl = getcols S q` and the owners DISCHARGED from (1)-(4): refs and owners are what the reference side
   builds from the statistics file, the taxonomy and the marker cache, and the cell is the centroid of leaf L read
   BY NAME from the statistics file (is_centroid_of).  Still `_partial` for the reason c18_centroid_partial is: the
   hypothesis "not flat on the subset" (finding F6). *)
Theorem c18_centroid_through_the_stages_partial :
  forall (mean : Z -> Z -> Z) t sf fs m groups refg qg qgenes qnorm P a L q S i,
  validate t = true -> wf t ->
  get_leaf_means Z mean t sf fs = ROk m ->
  assemble_reference Z t groups refg qg qgenes qnorm m P = ROk a ->
  In L (m_cells (a_ref a)) ->
  is_centroid_of mean sf L (m_genes (a_ref a)) q ->
  0 < ccov (getcols S q) (getcols S q) ->
  (forall j rj c, nth_error (m_data (a_ref a)) j = Some rj ->
       ancestor_at t (length t - 1) L (child_level_of P) = Some c -> nth j (a_types a) (-1) <> c ->
       let qs := getcols S q in let rs := getcols S rj in
       ccov rs rs = 0 \/ ccov qs rs < 0 \/ ccov qs rs * ccov qs rs < ccov qs qs * ccov rs rs) ->
  nearest q (m_data (a_ref a)) S = Some i ->
  In (nth i (a_types a) (-1)) (children t P) /\
  ancestor_at t (length t - 1) L (child_level_of P) = Some (nth i (a_types a) (-1)).
Proof. exact centroid_through_the_stages. Qed.
Print Assumptions c18_centroid_through_the_stages_partial.

(* ... and c18_centroid_unanimous_partial likewise: every iteration at P is won by a leaf of the child of P above L *)
Theorem c18_centroid_vote_through_the_stages_partial :
  forall (mean : Z -> Z -> Z) t sf fs m groups refg qg qgenes qnorm P a L q subsets winners c,
  validate t = true -> wf t ->
  get_leaf_means Z mean t sf fs = ROk m ->
  assemble_reference Z t groups refg qg qgenes qnorm m P = ROk a ->
  In L (m_cells (a_ref a)) ->
  is_centroid_of mean sf L (m_genes (a_ref a)) q ->
  ancestor_at t (length t - 1) L (child_level_of P) = Some c ->
  Forall (fun S => 0 < ccov (getcols S q) (getcols S q) /\
            forall j rj, nth_error (m_data (a_ref a)) j = Some rj -> nth j (a_types a) (-1) <> c ->
              let qs := getcols S q in let rs := getcols S rj in
              ccov rs rs = 0 \/ ccov qs rs < 0 \/ ccov qs rs * ccov qs rs < ccov qs qs * ccov rs rs) subsets ->
  tally q (m_data (a_ref a)) subsets = Some winners ->
  In c (children t P) /\
  length winners = length subsets /\
  Forall (fun w => nth w (a_types a) (-1) = c) winners /\
  votes_for (a_types a) winners c = length subsets /\
  (forall c', c' <> c -> votes_for (a_types a) winners c' = 0%nat).
Proof. exact centroid_vote_through_the_stages. Qed.
Print Assumptions c18_centroid_vote_through_the_stages_partial.

(* non-vacuity: a two-level taxonomy with an unsorted child list and a single-child node, a statistics file with
   its rows in another order, a cluster outside the taxonomy, a cluster of 0 cells, genes in the order 12, 10, 11
   (the query: 11, 12, 10), means over the common denominator 4 *)
Example c18_refside_example_tree : validate ex_tree = true /\ wf ex_tree.
Proof. exact ex_tree_ok. Qed.
Example c18_refside_example_leaf_means :
  get_leaf_means Z ex_mean ex_tree ex_sf false =
  ROk (mk_rmat [2; 3; 5] [12; 10; 11] [[8; 0; 24]; [20; 40; 60]; [4; 8; 12]] Log2CPM).
Proof. exact ex_leaf_means. Qed.
(* the example file without any gene is well formed and refused with code 23 (ValueError), whatever
   for_marker_selection; with one gene it is accepted *)
Example c18_refside_example_zero_genes :
  sf_wf ex_sf_nogene /\
  get_leaf_means Z ex_mean ex_tree ex_sf_nogene false = RErr RE_ZEROGENES /\
  get_leaf_means Z ex_mean ex_tree ex_sf_nogene true = RErr RE_ZEROGENES /\
  get_leaf_means Z ex_mean ex_tree ex_sf_onegene true =
  ROk (mk_rmat [2; 3; 5] [12] [[8]; [20]; [4]] Log2CPM).
Proof. exact ex_zero_genes. Qed.
Example c18_refside_example_file_wf :
  sf_wf ex_sf /\ Permutation [2%nat; 0%nat; 3%nat; 1%nat] (seq 0 (length (sf_n ex_sf))) /\
  Permutation [1%nat; 2%nat; 0%nat] (seq 0 (length (sf_cols ex_sf))).
Proof. exact ex_file_wf. Qed.
Example c18_refside_example_root :
  rbind (get_leaf_means Z ex_mean ex_tree ex_sf false) (fun m =>
    assemble_reference Z ex_tree ex_groups ex_refg ex_qg ex_qg Log2CPM m None) =
  ROk (mk_assembled Z (mk_rmat [2; 3; 5] [12; 11] [[8; 24]; [20; 60]; [4; 12]] Log2CPM) [1; 1; 0] [12; 11]).
Proof. exact ex_assemble_root. Qed.
Example c18_refside_example_node :
  rbind (get_leaf_means Z ex_mean ex_tree ex_sf false) (fun m =>
    assemble_reference Z ex_tree ex_groups ex_refg ex_qg ex_qg Log2CPM m (Some (0%nat, 1))) =
  ROk (mk_assembled Z (mk_rmat [2; 3] [12; 10; 11] [[8; 0; 24]; [20; 40; 60]] Log2CPM) [2; 3] [12; 10; 11]).
Proof. exact ex_assemble_node. Qed.
Example c18_refside_example_centroid : is_centroid_of ex_mean ex_sf 3 [12; 10; 11] [20; 40; 60].
Proof. exact ex_centroid. Qed.
Example c18_refside_example_vote :
  let q := [20; 40; 60] in let refs := [[8; 0; 24]; [20; 40; 60]] in let S := [0%nat; 1%nat; 2%nat] in
  0 < ccov (getcols S q) (getcols S q) /\
  ccov (getcols S q) (getcols S [8; 0; 24]) * ccov (getcols S q) (getcols S [8; 0; 24]) <
    ccov (getcols S q) (getcols S q) * ccov (getcols S [8; 0; 24]) (getcols S [8; 0; 24]) /\
  nearest q refs S = Some 1%nat /\
  ancestor_at ex_tree 1 3 1 = Some 3.
Proof. exact ex_vote. Qed.
