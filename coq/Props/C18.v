(* C18 — the stages compose: cluster centroids map back to themselves. *)
From Coq Require Import ZArith List Bool.
From Coq Require Import Permutation Sorted.
From CTM Require Import Base.Sx Model.Vote Proofs.CorrP Proofs.VoteP Proofs.VoteMainP Proofs.CentroidP.
Import ListNotations.
Open Scope Z_scope.

(* A query that coincides with the mean profile of leaf l on the drawn subset, and is not
   constant on it, wins the iteration for the child that owns l, whenever every leaf owned by
   another child is not perfectly correlated with it on the subset.  This is the statement
   of the property under the extra hypothesis "the centroid is not flat on the subset";
   without it the faithful model refutes the property (c18_flat_subset_refuted). *)
Theorem c18_centroid_partial : forall q refs (owners : list Z) S l rl i,
  nth_error refs l = Some rl ->
  getcols S rl = getcols S q ->
  0 < ccov (getcols S q) (getcols S q) ->
  (forall j rj, nth_error refs j = Some rj -> nth j owners (-1) <> nth l owners (-1) ->
       let qs := getcols S q in let rs := getcols S rj in
       ccov rs rs = 0 \/ ccov qs rs < 0 \/ ccov qs rs * ccov qs rs < ccov qs qs * ccov rs rs) ->
  nearest q refs S = Some i ->
  nth i owners (-1) = nth l owners (-1).
Proof. exact centroid_wins. Qed.
Print Assumptions c18_centroid_partial.

(* ... lifted to the whole vote at a node: when that holds for EVERY drawn subset, every
   iteration is won by a leaf of the same child, which therefore gets all the votes and
   every other child none ... *)
Theorem c18_centroid_unanimous_partial : forall q refs (owners : list Z) subsets l rl winners,
  nth_error refs l = Some rl ->
  Forall (centroid_on q refs owners l rl) subsets ->
  tally q refs subsets = Some winners ->
  length winners = length subsets /\
  Forall (fun w => (w < length refs)%nat) winners /\
  Forall (fun w => nth w owners (-1) = nth l owners (-1)) winners /\
  votes_for owners winners (nth l owners (-1)) = length subsets /\
  (forall c, c <> nth l owners (-1) -> votes_for owners winners c = 0%nat).
Proof. exact centroid_unanimous. Qed.
Print Assumptions c18_centroid_unanimous_partial.

(* ... so choose_node, whatever the tie order of its sort and however many runners-up are
   requested, reports that child with bootstrapping probability 1 (all `length subsets`
   votes) and an empty runner-up list -- at every node on the path, for every bootstrap
   factor (the factor only changes which subsets are drawn) *)
Theorem c18_centroid_probability_one_partial :
  forall q refs (owners : list Z) subsets l rl winners order (n_assign : nat) w wv rs,
  nth_error refs l = Some rl -> length owners = length refs ->
  subsets <> [] ->
  Forall (centroid_on q refs owners l rl) subsets ->
  tally q refs subsets = Some winners ->
  Permutation order (zdistinct owners) ->
  StronglySorted (fun a b => (b <= a)%nat) (map (votes_for owners winners) order) ->
  (1 <= n_assign)%nat ->
  choose_with order (votes_for owners winners) n_assign = Some (w, wv, rs) ->
  w = nth l owners (-1) /\ wv = length subsets /\ rs = [].
Proof. exact centroid_probability_one. Qed.
Print Assumptions c18_centroid_probability_one_partial.

(* non-vacuity: three leaves under two children, the cell is leaf 2's profile, two subsets on
   which it is not flat; leaf 0 is flat on them and leaf 1 imperfectly correlated *)
Example c18_example :
  let q := [8; 0; 16; 24] in let refs := [[0; 8; 0; 0]; [16; 0; 32; 50]; [8; 0; 16; 24]] in
  let owners := [1; 1; 2] in
  tally q refs [[0%nat; 2%nat; 3%nat]; [0%nat; 1%nat; 3%nat]] = Some [2%nat; 2%nat] /\
  votes_for owners [2%nat; 2%nat] 2 = 2%nat /\ votes_for owners [2%nat; 2%nat] 1 = 0%nat /\
  choose_with [2; 1] (votes_for owners [2%nat; 2%nat]) 3 = Some (2, 2%nat, []).
Proof. vm_compute. repeat split; reflexivity. Qed.
Example c18_example_hypotheses :
  Forall (centroid_on [8; 0; 16; 24] [[0; 8; 0; 0]; [16; 0; 32; 50]; [8; 0; 16; 24]] [1; 1; 2] 2 [8; 0; 16; 24])
         [[0%nat; 2%nat; 3%nat]; [0%nat; 1%nat; 3%nat]].
Proof. exact centroid_example_ok. Qed.

(* the full statement fails on a subset on which the centroid is flat: all correlations are 0
   by the constant-row convention and the first leaf wins, although no other leaf is
   perfectly correlated (finding F6) *)
Theorem c18_flat_subset_refuted :
  exists q refs (owners : list Z) S l rl i,
    nth_error refs l = Some rl /\ rl = q /\
    (forall j rj, nth_error refs j = Some rj -> j <> l ->
        ~ (0 < ccov (getcols S q) (getcols S rj) /\
           ccov (getcols S q) (getcols S rj) * ccov (getcols S q) (getcols S rj) =
           ccov (getcols S q) (getcols S q) * ccov (getcols S rj) (getcols S rj) /\
           0 < ccov (getcols S rj) (getcols S rj))) /\
    nearest q refs S = Some i /\ nth i owners (-1) <> nth l owners (-1).
Proof.
  exists [8; 8; 0], [[0; 16; 5]; [8; 8; 0]], [1; 2], [0%nat; 1%nat], 1%nat, [8; 8; 0], 0%nat.
  split; [reflexivity|]. split; [reflexivity|]. split.
  - intros j rj Hj Hne. destruct j as [|[|j]]; cbn in Hj; [| congruence | destruct j; discriminate].
    inversion Hj; subst rj. vm_compute. intros (H & _). discriminate.
  - vm_compute. split; [reflexivity | discriminate].
Qed.
Print Assumptions c18_flat_subset_refuted.
