(* C18 — the stages compose: cluster centroids map back to themselves. *)
From Coq Require Import ZArith List Bool.
From CTM Require Import Base.Sx Model.Vote Proofs.CorrP Proofs.VoteMainP.
Import ListNotations.
Open Scope Z_scope.

(* A query that coincides with the mean profile of leaf l on the drawn subset, and is not
   constant on it, wins the iteration for the child that owns l, whenever every leaf owned by
   another child is not perfectly correlated with it on the subset.  This is the statement
   of the property under the extra hypothesis "the centroid is not flat on the subset";
   without it the faithful model refutes the property (c18_flat_subset_refuted). *)
Theorem c18_centroid_partial : forall q refs (owners : list Z) S l rl i,
  nth_error refs l = Some rl ->
  getcols S rl = getcols S q ->
  0 < ccov (getcols S q) (getcols S q) ->
  (forall j rj, nth_error refs j = Some rj -> nth j owners (-1) <> nth l owners (-1) ->
       let qs := getcols S q in let rs := getcols S rj in
       ccov rs rs = 0 \/ ccov qs rs < 0 \/ ccov qs rs * ccov qs rs < ccov qs qs * ccov rs rs) ->
  nearest q refs S = Some i ->
  nth i owners (-1) = nth l owners (-1).
Proof. exact centroid_wins. Qed.
Print Assumptions c18_centroid_partial.

(* the full statement fails on a subset on which the centroid is flat: all correlations are 0
   by the constant-row convention and the first leaf wins, although no other leaf is
   perfectly correlated (finding F6) *)
Theorem c18_flat_subset_refuted :
  exists q refs (owners : list Z) S l rl i,
    nth_error refs l = Some rl /\ rl = q /\
    (forall j rj, nth_error refs j = Some rj -> j <> l ->
        ~ (0 < ccov (getcols S q) (getcols S rj) /\
           ccov (getcols S q) (getcols S rj) * ccov (getcols S q) (getcols S rj) =
           ccov (getcols S q) (getcols S q) * ccov (getcols S rj) (getcols S rj) /\
           0 < ccov (getcols S rj) (getcols S rj))) /\
    nearest q refs S = Some i /\ nth i owners (-1) <> nth l owners (-1).
Proof.
  exists [8; 8; 0], [[0; 16; 5]; [8; 8; 0]], [1; 2], [0%nat; 1%nat], 1%nat, [8; 8; 0], 0%nat.
  split; [reflexivity|]. split; [reflexivity|]. split.
  - intros j rj Hj Hne. destruct j as [|[|j]]; cbn in Hj; [| congruence | destruct j; discriminate].
    inversion Hj; subst rj. vm_compute. intros (H & _). discriminate.
  - vm_compute. split; [reflexivity | discriminate].
Qed.
Print Assumptions c18_flat_subset_refuted.
