(* C10 — the taxonomy stays a strict tree under construction and transformation.
   Property theorems only: each is closed by `exact <lemma>`. *)
From Coq Require Import ZArith List Bool.
From CTM Require Import Base.Sx Base.SortX Model.Tree Proofs.TreeP.
Import ListNotations.
Open Scope Z_scope.

(* F3: the validator accepts a child listed twice; the leaf pairs then contain a leaf paired
   with itself and a pair listed twice *)
Theorem c10_leaf_pairs_refuted : exists t p,
  validate t = true /\ Forall (fun lv => NoDup (nodes lv)) t /\
  (~ NoDup (leaf_pairs t p) \/ exists a, In (a, a) (leaf_pairs t p)).
Proof. exact leaf_pairs_refuted. Qed.
Print Assumptions c10_leaf_pairs_refuted.
