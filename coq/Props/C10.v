(* C10 — the taxonomy stays a strict tree under construction and transformation.
   Property theorems only: each is closed by `exact <lemma>`.

   Vocabulary (Model/Tree.v): a level is a Python dict in insertion order, node |-> list of
   children (leaf level: list of cell rows); a tree is the list of its levels, top first;
   level names are positions; node names are order-preserving integers.
   Specification predicates used below (their definitions are restated as `Example c10_def_*`
   at the end of the file, each proved by reflexivity):
     lists lv p c        some entry (p, cs) of lv has c in cs          (p lists c / leaf p owns row c)
     wf t                every level has pairwise different keys       (true of any Python dict)
     inner_nodup t       no child list of a non-leaf level repeats a name (enforced by
                         validate_taxonomy_tree since the repair of finding F3, hence true of
                         every accepted tree: c10_validate_sound; it is no hypothesis any more)
     path_ok t li x l    l = [(li-1, p1); (li-2, p2); ...; (0, p_li)] with every p_j a node of level j
                         that lists the previous element (x first)
     squash li l         l without its entry of level li, the levels above li renumbered down by one
     up_level li j       position in the original tree of level j of the tree without level li

   PRECONDITION of every theorem below, read as a statement about the real TaxonomyTree:
       NoDup hierarchy   -- the level NAMES of taxonomy_tree['hierarchy'] are pairwise different.
   The model identifies a level with its POSITION, the real class with its NAME (one dict entry per
   name, hierarchy.index(name) for the position).  The real validate_taxonomy_tree does NOT demand
   this: it accepts e.g. {'hierarchy': ['a','b','a'], 'a': {'x': ['p'], 'y': ['q']},
   'b': {'p': ['x'], 'q': ['y']}} - the dict 'a' serves as top level AND as leaf level - and the
   object built from it is no tree (parents('a','x') = {} although children('b','p') = ['x']; with
   'a': {'x': ['p','q'], 'y': ['r']}, 'b': {'p': ['x'], 'q': ['y'], 'r': []} - also accepted - the node
   ('a','x') reaches, through its children p and q, the leaves x AND y while as_leaves['a']['x'] = ['x'];
   flatten() raises; drop_level('b') yields hierarchy ['a','a']).  The positional model cannot
   even express such a dict: read by position it is the honest three-level tree of
   c10_repeated_level_name_positional below, about which the theorems are true, while the real class
   does not behave like that tree.  Recorded as finding F29 (known_findings.json, class F29-validator-accepts-repeated-level-name;
   harness/props/c10.py repeated_level_stream evaluates the property clauses on the real object); the
   harness states the precondition in ctx.assumptions and generates no repeated name elsewhere.

   Unchecked and checked queries.  `ancestors` and `children` are total: where the code raises
   (parents() of a name that is no node: KeyError; children() of such a name: RuntimeError) they
   return [].  The checked versions ancestors_chk / children_chk return the error as a value and
   are the ones the harness compares with the code on non-nodes (tags 1012, 1016).  Statements
   below that quantify over every (level, name) with the unchecked queries (c10_leaf_pairs_exact,
   c10_drop_preserves, c10_roundtrip_preserves) are true for non-nodes too, but only because both
   sides are []: they speak about the code exactly on nodes, where c10_queries_total_on_nodes shows
   unchecked = checked; c10_drop_preserves_on_nodes and c10_roundtrip_on_nodes restate the ancestor
   clauses on nodes with the checked query.

   By construction of the model (the content of these is in the tie, not in the theorem):
   c10_drop_errors is the if-chain of drop_level_gen read off; the clause t' = [leaf_level t] of
   c10_flatten_preserves is the definition of flatten; is_equal_to t t in c10_roundtrip_preserves
   is reflexivity of the model's set comparison. *)
From Coq Require Import ZArith List Bool Permutation Lia.
From CTM Require Import Base.Sx Base.SortX Model.Tree Model.TreeReread Proofs.TreeP Proofs.TreeBackfillP
  Proofs.TreeRereadP Proofs.TreeQueriesP Proofs.TreeBackfillLinkP.
From CTM Require Model.RunMapping.
Import ListNotations.
Open Scope Z_scope.

(* ====================================================================== the validator *)

(* accepted => below the top every node has exactly one parent, every listed child exists,
   no child list repeats a name, no row belongs to two leaves (nor twice to one) *)
Theorem c10_validate_sound : forall t, validate t = true ->
  t <> [] /\
  (forall k, (S k < length t)%nat ->
     (forall c, In c (nodes (nth (S k) t [])) ->
        exists p, lists (nth k t []) p c /\ forall p', lists (nth k t []) p' c -> p' = p) /\
     (forall p c, lists (nth k t []) p c -> In c (nodes (nth (S k) t []))) /\
     (forall p cs, In (p, cs) (nth k t []) -> NoDup cs)) /\
  NoDup (leaf_rows t) /\
  (forall l l' r, lists (leaf_level t) l r -> lists (leaf_level t) l' r -> l = l') /\
  inner_nodup t.
Proof. exact validate_sound. Qed.
Print Assumptions c10_validate_sound.

(* the verdict is exactly "strict tree": soundness and completeness in one equivalence.
   For any list of levels: the child lists of a level, laid end to end, repeat no name ... *)
Theorem c10_validate_exact : forall t,
  validate t = true <->
  t <> [] /\
  (forall k, (S k < length t)%nat ->
     (forall c, In c (nodes (nth (S k) t [])) -> exists p, lists (nth k t []) p c) /\
     (forall p c, lists (nth k t []) p c -> In c (nodes (nth (S k) t []))) /\
     (forall p p' c, lists (nth k t []) p c -> lists (nth k t []) p' c -> p = p') /\
     NoDup (concat (map snd (nth k t [])))) /\
  NoDup (leaf_rows t).
Proof. exact validate_exact. Qed.
Print Assumptions c10_validate_exact.

(* ... and for Python dicts (pairwise different keys) that is: one parent per child and no child
   twice in one list *)
Theorem c10_validate_exact_dict : forall t, wf t ->
  (validate t = true <->
   t <> [] /\
   (forall k, (S k < length t)%nat ->
      (forall c, In c (nodes (nth (S k) t [])) -> exists p, lists (nth k t []) p c) /\
      (forall p c, lists (nth k t []) p c -> In c (nodes (nth (S k) t []))) /\
      (forall p p' c, lists (nth k t []) p c -> lists (nth k t []) p' c -> p = p') /\
      (forall p cs, In (p, cs) (nth k t []) -> NoDup cs)) /\
   NoDup (leaf_rows t)).
Proof. exact validate_exact_dict. Qed.
Print Assumptions c10_validate_exact_dict.

(* every defect is rejected: orphan child, dangling child, second parent, row shared by two
   leaves, row repeated inside a leaf, child repeated inside a child list *)
Theorem c10_validate_complete : forall t,
  ((exists k c, (S k < length t)%nat /\ In c (nodes (nth (S k) t [])) /\ forall p, ~ lists (nth k t []) p c)
     -> validate t = false) /\
  ((exists k p c, (S k < length t)%nat /\ lists (nth k t []) p c /\ ~ In c (nodes (nth (S k) t [])))
     -> validate t = false) /\
  ((exists k p p' c, (S k < length t)%nat /\ lists (nth k t []) p c /\ lists (nth k t []) p' c /\ p <> p')
     -> validate t = false) /\
  ((exists l l' r, lists (leaf_level t) l r /\ lists (leaf_level t) l' r /\ l <> l')
     -> validate t = false) /\
  ((exists l rs, In (l, rs) (leaf_level t) /\ ~ NoDup rs) -> validate t = false) /\
  ((exists k p cs, (S k < length t)%nat /\ In (p, cs) (nth k t []) /\ ~ NoDup cs) -> validate t = false).
Proof. exact validate_complete. Qed.
Print Assumptions c10_validate_complete.

(* the one-edit mutants of ANY tree (valid or not) that introduce such a defect are rejected *)
Theorem c10_mutants_rejected : forall t,
  (* dangling child: a name that is not a node of the next level is appended to a child list *)
  (forall k p c, (S k < length t)%nat -> In p (nodes (nth k t [])) -> ~ In c (nodes (nth (S k) t [])) ->
     validate (replace_nth k (add_child (nth k t []) p c) t) = false) /\
  (* second parent: a child of p is also listed under another node p' *)
  (forall k p p' c, (S k < length t)%nat -> lists (nth k t []) p c -> In p' (nodes (nth k t [])) -> p' <> p ->
     validate (replace_nth k (add_child (nth k t []) p' c) t) = false) /\
  (* orphan child: a new node is added below the top and nobody lists it *)
  (forall k c cs, (S k < length t)%nat -> (forall p, ~ lists (nth k t []) p c) ->
     validate (replace_nth (S k) (add_node (nth (S k) t []) c cs) t) = false) /\
  (* shared row: a row that some leaf owns is appended to a leaf (another one, or the same) *)
  (forall l l' r, t <> [] -> lists (leaf_level t) l r -> In l' (nodes (leaf_level t)) ->
     validate (replace_nth (length t - 1) (add_child (leaf_level t) l' r) t) = false) /\
  (* duplicate child (finding F3, repaired): a child that p lists is listed under p once more *)
  (forall k p c, (S k < length t)%nat -> lists (nth k t []) p c ->
     validate (replace_nth k (add_child (nth k t []) p c) t) = false).
Proof. exact mutants_rejected. Qed.
Print Assumptions c10_mutants_rejected.

(* two things the validator still lets through (documented, not repaired): an inner node without
   children, an empty level *)
Theorem c10_validator_gaps :
  (validate childless_tree = true /\ children_of (nth 0 childless_tree []) 1 = []) /\
  (validate empty_level_tree = true /\ nth 1 empty_level_tree [(0, [])] = []).
Proof. exact validator_gaps. Qed.
Print Assumptions c10_validator_gaps.

(* ====================================================================== construction from label columns *)

(* records = per cell its label at every one of the n levels (top first).  get_taxonomy_tree
   raises exactly when some label has two different parents; otherwise the tree it returns is
   accepted, has as edges exactly the label combinations present, as nodes exactly the labels
   present, and gives every leaf exactly the positions of the cells carrying its label *)
Theorem c10_from_labels_exact : forall n records,
  (1 <= n)%nat -> Forall (fun r => length r = n) records ->
  (get_taxonomy_tree n records = TErr E_INVALID <->
   exists k r r' c, (S k < n)%nat /\ In r records /\ In r' records /\
      nth_error r (S k) = Some c /\ nth_error r' (S k) = Some c /\ nth_error r k <> nth_error r' k) /\
  (~ (exists k r r' c, (S k < n)%nat /\ In r records /\ In r' records /\
      nth_error r (S k) = Some c /\ nth_error r' (S k) = Some c /\ nth_error r k <> nth_error r' k) ->
   exists t, get_taxonomy_tree n records = TOk t /\ validate t = true /\
     length t = n /\ wf t /\ inner_nodup t /\
     (forall k p c, (S k < n)%nat ->
        (lists (nth k t []) p c <->
         exists r, In r records /\ nth_error r k = Some p /\ nth_error r (S k) = Some c)) /\
     (forall k x, (k < n)%nat ->
        (In x (nodes (nth k t [])) <-> exists r, In r records /\ nth_error r k = Some x)) /\
     (forall l i, lists (leaf_level t) l i <->
        exists j r, nth_error records j = Some r /\ nth_error r (n - 1) = Some l /\ i = Z.of_nat j)).
Proof. exact from_labels_exact. Qed.
Print Assumptions c10_from_labels_exact.

(* ====================================================================== parent and child queries *)

(* children() and the child -> parent table are mutually inverse; every node below the top has
   a parent; parents(level, node) is THE path to the top (one entry per level above, nearest
   first) and never raises on a node of the tree *)
Theorem c10_parent_child_inverse : forall t, validate t = true -> wf t ->
  (forall k p c, (S k < length t)%nat ->
     (In c (children_of (nth k t []) p) <-> parent_of (nth k t []) c = Some p)) /\
  (forall k c, (S k < length t)%nat -> In c (nodes (nth (S k) t [])) ->
     exists p, parent_of (nth k t []) c = Some p /\ In p (nodes (nth k t []))) /\
  (forall li x, (li < length t)%nat -> In x (nodes (nth li t [])) ->
     path_ok t li x (ancestors t li x) /\
     (forall l, path_ok t li x l -> l = ancestors t li x) /\
     map fst (ancestors t li x) = rev (seq 0 li) /\
     ancestors_chk t li x = TOk (ancestors t li x)).
Proof. exact parent_child_inverse. Qed.
Print Assumptions c10_parent_child_inverse.

(* the unchecked queries used in the statements of this file are the checked ones on nodes; on a
   name that is not a node of the level the code raises: children() RuntimeError, parents()
   KeyError -- except at the top level, where parents() returns {} for any name, in the code as in
   the model -- and the unchecked queries return [] *)
Theorem c10_queries_total_on_nodes : forall t, validate t = true -> wf t ->
  forall li x, (li < length t)%nat ->
  (In x (nodes (nth li t [])) ->
     ancestors_chk t li x = TOk (ancestors t li x) /\
     children_chk t li x = TOk (children t (Some (li, x)))) /\
  (~ In x (nodes (nth li t [])) ->
     children_chk t li x = TErr E_NONODE /\ children t (Some (li, x)) = [] /\
     ancestors t li x = [] /\
     ((0 < li)%nat -> ancestors_chk t li x = TErr E_KEY) /\
     (li = 0%nat -> ancestors_chk t li x = TOk [])).
Proof. exact queries_total_on_nodes. Qed.
Print Assumptions c10_queries_total_on_nodes.

(* ====================================================================== leaf lists *)

(* as_leaves[level k][x] = leaves_of t k x.  For every accepted tree the leaf lists of a node's
   children are pairwise disjoint, repetition free, and their union is the node's leaf list; the
   leaf lists of one level partition the leaf set *)
Theorem c10_leaves_partition : forall t, validate t = true -> wf t ->
  (forall k x, (S k < length t)%nat ->
     Permutation (leaves_of t k x) (flat_map (leaves_of t (S k)) (children_of (nth k t []) x))) /\
  (forall k x, (S k < length t)%nat ->
     NoDup (flat_map (leaves_of t (S k)) (children_of (nth k t []) x))) /\
  (forall k x, NoDup (leaves_of t k x)) /\
  (forall k x x' l, In l (leaves_of t k x) -> In l (leaves_of t k x') -> x = x') /\
  (forall k, (k < length t)%nat ->
     Permutation (flat_map (leaves_of t k) (nodes (nth k t []))) (nodes (leaf_level t))) /\
  (forall k, (k < length t)%nat ->
     nth k (as_leaves t) [] = map (fun x => (x, leaves_of t k x)) (nodes (nth k t []))).
Proof. exact leaves_partition_thm. Qed.
Print Assumptions c10_leaves_partition.

(* the leaf list of node x of level k holds exactly the leaves whose ancestor at level k is x
   (ancestor_at t li l k = the entry of level k in parents(li, l); l itself for k = li) *)
Theorem c10_leaves_by_ancestor : forall t, validate t = true -> wf t ->
  forall k x l, (k < length t)%nat ->
    (In l (leaves_of t k x) <-> ancestor_at t (length t - 1) l k = Some x).
Proof. exact leaves_of_ancestor. Qed.
Print Assumptions c10_leaves_by_ancestor.

(* ====================================================================== leaf pairs *)

(* for every accepted tree and every parent -- the root (None), inner nodes, leaf-level
   "parents" -- the pairs are listed once each and are exactly the name-ordered pairs of leaves
   under two different children of the parent.
   (parent = Some (li, x) with x not a node of level li: the code raises RuntimeError in
   children() -- children_chk t li x = TErr E_NONODE, c10_queries_total_on_nodes --; the model's
   list is empty there and the statement says no more than that.  The tie calls leaves_to_compare
   with the entries of all_parents and with leaves, all nodes.) *)
Theorem c10_leaf_pairs_exact : forall t parent,
  validate t = true -> wf t ->
  (forall li x, parent = Some (li, x) -> (li < length t)%nat) ->
  NoDup (leaf_pairs t parent) /\
  forall a b,
    In (a, b) (leaf_pairs t parent) <->
    a < b /\ exists c c', In c (children t parent) /\ In c' (children t parent) /\ c <> c' /\
                          In a (leaves_of t (child_level parent) c) /\
                          In b (leaves_of t (child_level parent) c').
Proof. exact leaf_pairs_exact_all. Qed.
Print Assumptions c10_leaf_pairs_exact.

(* ====================================================================== transformations *)

(* drop_level of any level but the leaf level of an accepted tree: never raises, the result is
   accepted (closure), has one level less, the same leaf level (leaf set AND rows), the same
   nodes at every remaining level, every node's ancestors are its old ancestors without the
   dropped level -- as a list (squash) and level by level (ancestor_at) -- and no merged child
   list repeats a name *)
Theorem c10_drop_preserves : forall t li, validate t = true -> wf t -> (S li < length t)%nat ->
  exists t', drop_level t li = TOk t' /\
    validate t' = true /\ wf t' /\ length t' = (length t - 1)%nat /\
    leaf_level t' = leaf_level t /\
    (forall k, nodes (nth k t' []) = nodes (nth (up_level li k) t [])) /\
    (forall j x, ancestors t' j x = squash li (ancestors t (up_level li j) x)) /\
    (forall j x k, ancestor_at t' j x k = ancestor_at t (up_level li j) x (up_level li k)) /\
    inner_nodup t'.
Proof. exact drop_preserves. Qed.
Print Assumptions c10_drop_preserves.

(* the ancestor clause above holds for every (j, x); for a name x that is no node of level j of t'
   both sides are [] while the code raises.  On the nodes of t' -- which are nodes of t at the
   lifted position -- with the query that raises: neither tree raises, and the answers are related
   by squash *)
Theorem c10_drop_preserves_on_nodes : forall t li, validate t = true -> wf t -> (S li < length t)%nat ->
  exists t', drop_level t li = TOk t' /\
    forall j x, (j < length t')%nat -> In x (nodes (nth j t' [])) ->
      In x (nodes (nth (up_level li j) t [])) /\
      ancestors_chk t (up_level li j) x = TOk (ancestors t (up_level li j) x) /\
      ancestors_chk t' j x = TOk (squash li (ancestors t (up_level li j) x)).
Proof. exact drop_preserves_chk. Qed.
Print Assumptions c10_drop_preserves_on_nodes.

(* the three refusals of drop_level, in the order the code tests them.  By construction of the
   model: this is the if-chain of drop_level_gen read off; that the code tests the same three
   conditions in the same order with these messages is what the tie (tags 1004, 1014) checks *)
Theorem c10_drop_errors : forall (t : tree) li,
  (length t = 1%nat -> drop_level t li = TErr E_FLAT) /\
  (length t <> 1%nat -> (length t <= li)%nat -> drop_level t li = TErr E_NOLEVEL) /\
  (length t <> 1%nat -> S li = length t -> drop_level t li = TErr E_LEAF).
Proof. exact drop_level_errors. Qed.
Print Assumptions c10_drop_errors.

(* any sequence of drops (each position refers to the tree current at that moment; drop of the
   top level, repeated drops down to one level, ...) and drop-then-flatten *)
Theorem c10_drop_many_preserves : forall lis t, validate t = true -> wf t -> drops_ok (length t) lis ->
  exists t', drop_levels t lis = TOk t' /\ validate t' = true /\ wf t' /\
    length t' = (length t - length lis)%nat /\
    leaf_level t' = leaf_level t /\ flatten t' = flatten t /\
    (forall k, nodes (nth k t' []) = nodes (nth (up_levels lis k) t [])) /\
    (forall j x k, ancestor_at t' j x k = ancestor_at t (up_levels lis j) x (up_levels lis k)) /\
    inner_nodup t'.
Proof. exact drop_levels_preserve. Qed.
Print Assumptions c10_drop_many_preserves.

(* drop_leaf_level of an accepted tree never raises: the level above becomes the leaf level and
   inherits the rows of its former children (no row twice: the child lists repeat no name) *)
Theorem c10_drop_leaf_preserves : forall t, validate t = true -> wf t -> (2 <= length t)%nat ->
  exists t', drop_leaf_level t = TOk t' /\
    validate t' = true /\ wf t' /\ length t' = (length t - 1)%nat /\
    (forall k, (k < length t - 1)%nat -> nodes (nth k t' []) = nodes (nth k t [])) /\
    (forall j x, (j < length t - 1)%nat -> ancestors t' j x = ancestors t j x) /\
    (forall x, children_of (leaf_level t') x =
               flat_map (children_of (leaf_level t)) (children_of (nth (length t - 2) t []) x)).
Proof. exact drop_leaf_preserves. Qed.
Print Assumptions c10_drop_leaf_preserves.

(* the descendant leaves of every remaining node survive any sequence of drops: a node of the
   reduced tree has the same leaves below it as it had in the original tree *)
Theorem c10_drop_keeps_leaf_lists : forall lis t t', validate t = true -> wf t -> drops_ok (length t) lis ->
  drop_levels t lis = TOk t' ->
  forall k x l, (k < length t')%nat ->
    (In l (leaves_of t' k x) <-> In l (leaves_of t (up_levels lis k) x)).
Proof. exact drop_levels_leaves. Qed.
Print Assumptions c10_drop_keeps_leaf_lists.


(* flatten: never raises on an accepted tree; the result is the leaf level alone (leaf set and
   rows kept, no ancestors left), is accepted, cannot be reduced further, is a fixed point of
   flatten, and is what flatten gives after any transformation that keeps the leaf level.
   (The clause t' = [leaf_level t] holds by construction of the model -- it is the definition of
   flatten --; its content is in the tie, tag 1005.  The content proved here is that this tree is
   accepted, i.e. that flatten does not raise.) *)
Theorem c10_flatten_preserves : forall t, validate t = true -> wf t ->
  exists t', flatten t = TOk t' /\ validate t' = true /\ wf t' /\ t' = [leaf_level t] /\
    leaf_level t' = leaf_level t /\
    (forall x, ancestors t' 0 x = []) /\
    (forall li, drop_level t' li = TErr E_FLAT) /\ flatten t' = TOk t' /\
    (forall u, leaf_level u = leaf_level t -> flatten u = TOk t').
Proof. exact flatten_preserves. Qed.
Print Assumptions c10_flatten_preserves.

(* to_str / from_str with drop_cells=True: the result is `drop_cells t`: accepted, same levels,
   same nodes, same inner levels, no rows, same ancestors, and is_equal_to the original.
   (The plain round trip is c10_reread_preserves below.  The last conjunct, is_equal_to t t, holds
   by construction of the model -- set_eqb is reflexive --; its content is in the tie.) *)
Theorem c10_roundtrip_preserves : forall t, validate t = true -> wf t ->
  validate (drop_cells t) = true /\ wf (drop_cells t) /\ length (drop_cells t) = length t /\
  (forall k, nodes (nth k (drop_cells t) []) = nodes (nth k t [])) /\
  (forall k, (S k < length t)%nat -> nth k (drop_cells t) [] = nth k t []) /\
  leaf_rows (drop_cells t) = [] /\
  (forall j x, (j < length t)%nat -> ancestors (drop_cells t) j x = ancestors t j x) /\
  is_equal_to t (drop_cells t) = true /\ is_equal_to t t = true.
Proof. exact roundtrip_preserves. Qed.
Print Assumptions c10_roundtrip_preserves.

(* its ancestor clause on nodes, with the query that raises *)
Theorem c10_roundtrip_on_nodes : forall t, validate t = true -> wf t ->
  forall j x, (j < length t)%nat -> In x (nodes (nth j t [])) ->
    In x (nodes (nth j (drop_cells t) [])) /\
    ancestors_chk (drop_cells t) j x = TOk (ancestors t j x) /\
    ancestors_chk t j x = TOk (ancestors t j x).
Proof. exact roundtrip_preserves_chk. Qed.
Print Assumptions c10_roundtrip_on_nodes.

(* plain to_str() / from_str() (Model/TreeReread.v).  clean_for_json turns every Python *set* into the
   sorted list of its elements and keeps the order of every list, tuple and dict; json keeps both.
   Which child collections are sets is not part of the model's tree (get_taxonomy_tree / from_h5ad:
   the children of every non-leaf node; a tree read from JSON: none; drop_level of the former: all
   but the rebuilt level), so it is an argument: fs, shaped like the tree, true = set.  The re-read
   tree is then `reread fs t`, and it is NOT t in general (c10_ex_reread).

   General fact first: two trees with the same levels, the same keys in the same order and, per
   key, child collections that are permutations of one another (tree_perm, restated at the end of
   the file) are indistinguishable for the validator, for dict well-formedness, for nodes, for the
   child -> parent table, for parents() INCLUDING when it raises, for children() up to order
   (including when it raises), for is_equal_to and __eq__; their leaf lists and leaf pairs are
   permutations of one another. *)
Theorem c10_child_order_irrelevant : forall t u, tree_perm t u -> validate t = true -> wf t ->
  validate u = true /\ wf u /\ length u = length t /\
  (forall k, nodes (nth k u []) = nodes (nth k t [])) /\
  (forall k c, parent_of (nth k u []) c = parent_of (nth k t []) c) /\
  (forall li x, ancestors u li x = ancestors t li x) /\
  (forall li x, ancestors_chk u li x = ancestors_chk t li x) /\
  (forall parent, Permutation (children u parent) (children t parent)) /\
  (forall li x, match children_chk t li x, children_chk u li x with
                | TOk a, TOk b => Permutation b a
                | TErr c, TErr d => c = d
                | _, _ => False
                end) /\
  (forall li x, Permutation (leaves_of u li x) (leaves_of t li x)) /\
  (forall parent, Permutation (leaf_pairs u parent) (leaf_pairs t parent)) /\
  is_equal_to t u = true /\ tree_eqb t u = true.
Proof. exact child_order_irrelevant. Qed.
Print Assumptions c10_child_order_irrelevant.

(* the round trip, for every accepted tree and EVERY assignment of "set" / "list" to its child
   collections: accepted again, same levels, per level the same nodes in the same order, the same
   child -> parent table, the same ancestors of every (level, node) -- and the same KeyError where
   parents() raises --, the children of every parent (the root included) permuted, the same
   RuntimeError where children() raises, the leaf list of every node permuted, the leaf pairs of
   every parent permuted (as name-ordered pairs: leaf_pairs applies order_pair to each), equal to
   the original for is_equal_to and for __eq__ *)
Theorem c10_reread_preserves : forall fs t, validate t = true -> wf t ->
  validate (reread fs t) = true /\ wf (reread fs t) /\ length (reread fs t) = length t /\
  (forall k, nodes (nth k (reread fs t) []) = nodes (nth k t [])) /\
  (forall k c, parent_of (nth k (reread fs t) []) c = parent_of (nth k t []) c) /\
  (forall li x, ancestors (reread fs t) li x = ancestors t li x) /\
  (forall li x, ancestors_chk (reread fs t) li x = ancestors_chk t li x) /\
  (forall parent, Permutation (children (reread fs t) parent) (children t parent)) /\
  (forall li x, match children_chk t li x, children_chk (reread fs t) li x with
                | TOk a, TOk b => Permutation b a
                | TErr c, TErr d => c = d
                | _, _ => False
                end) /\
  (forall li x, Permutation (leaves_of (reread fs t) li x) (leaves_of t li x)) /\
  (forall parent, Permutation (leaf_pairs (reread fs t) parent) (leaf_pairs t parent)) /\
  is_equal_to t (reread fs t) = true /\ tree_eqb t (reread fs t) = true.
Proof. exact reread_preserves. Qed.
Print Assumptions c10_reread_preserves.

(* the shape of the re-read tree: related to t; a tree without sets comes back literally; every
   entry keeps its key and has its collection sorted exactly when it is flagged as a set *)
Theorem c10_reread_shape : forall fs t,
  tree_perm t (reread fs t) /\ reread flags_json t = t /\
  (forall fl lv i, (i < length lv)%nat ->
     nth i (reread_level fl lv) (0, []) =
     (fst (nth i lv (0, [])),
      if nth i fl false then zsort (snd (nth i lv (0, []))) else snd (nth i lv (0, [])))).
Proof. exact reread_shape. Qed.
Print Assumptions c10_reread_shape.

(* ====================================================================== backfill (used by C01 / C17) *)

(* backfill_assignments on one cell's record (per level: the node stored, or nothing).  Whatever
   it returns keeps the levels that were present and gives every filled level the recorded
   parent of the node one level down in the result; the only way to fail is a KeyError *)
Theorem c10_backfill_spec : forall (t : tree) rec, length rec = length t ->
  (forall rec', backfill t rec = TOk rec' ->
     length rec' = length rec /\
     (forall j a, nth j rec None = Some a -> nth j rec' None = Some a) /\
     (forall j, (S j < length t)%nat -> nth j rec None = None ->
        nth j rec' None = match nth (S j) rec' None with
                          | Some c => parent_of (nth j t []) c
                          | None => None
                          end) /\
     nth (length t - 1) rec' None = nth (length t - 1) rec None) /\
  (forall c, backfill t rec = TErr c -> c = E_KEY).
Proof. exact backfill_spec. Qed.
Print Assumptions c10_backfill_spec.

(* on an accepted tree, a record holding a leaf and -- at any subset of the other levels -- that
   leaf's true ancestors (what mapping onto a flattened / reduced tree leaves behind) never
   raises and comes back holding the leaf's ancestor at EVERY level *)
Theorem c10_backfill_fills : forall t rec l, validate t = true -> wf t -> length rec = length t ->
  In l (nodes (leaf_level t)) ->
  nth (length t - 1) rec None = Some l ->
  (forall k a, (k < length t)%nat -> nth k rec None = Some a -> ancestor_at t (length t - 1) l k = Some a) ->
  exists rec', backfill t rec = TOk rec' /\ length rec' = length t /\
    forall k, (k < length t)%nat -> nth k rec' None = ancestor_at t (length t - 1) l k.
Proof. exact backfill_fills. Qed.
Print Assumptions c10_backfill_fills.

(* There are two models of backfill_assignments: Tree.backfill above (one cell, per level its
   'assignment' or nothing; tied to the code by tag 1018 in harness/props/c10.py) and
   RunMapping.backfill (the list of cells as the pipeline holds them, dicts stored-level-index ->
   output record, loops in the code's order; tied by tags 1701 / 1703 in harness/props/c17.py).
   They agree, for every tree and every list of cell dicts (no well-formedness needed), through
   rec_of n cell = the assignment of cell at each of the n levels: the pipeline model succeeds
   exactly when Tree.backfill succeeds on every cell, with those assignments; it fails only with
   the KeyError, and then Tree.backfill raises it for some cell.  Hence c10_backfill_spec and
   c10_backfill_fills speak about the pipeline model too. *)
Theorem c10_backfill_models_agree : forall (t : tree) (cells : list RunMapping.cellmap),
  (forall cells', RunMapping.backfill t cells = TOk cells' ->
     Forall2 (fun c c' => Tree.backfill t (rec_of (length t) c) = TOk (rec_of (length t) c')) cells cells') /\
  (forall e, RunMapping.backfill t cells = TErr e ->
     e = E_KEY /\ exists c, In c cells /\ Tree.backfill t (rec_of (length t) c) = TErr E_KEY) /\
  (Forall (fun c => exists r, Tree.backfill t (rec_of (length t) c) = TOk r) cells ->
     exists cells', RunMapping.backfill t cells = TOk cells') /\
  (forall cell,
     match RunMapping.backfill t [cell] with
     | TOk [cell'] => Tree.backfill t (rec_of (length t) cell) = TOk (rec_of (length t) cell')
     | TOk _ => False
     | TErr e => e = E_KEY /\ Tree.backfill t (rec_of (length t) cell) = TErr E_KEY
     end).
Proof. exact backfill_models_agree. Qed.
Print Assumptions c10_backfill_models_agree.

(* ====================================================================== non-vacuity *)
(* a 3-level tree: two classes, three subclasses, five clusters (one without cells), 5 rows;
   dict insertion orders and child orders deliberately not sorted *)
Definition ex3 : tree :=
  [ [(1, [12]); (0, [11; 10])];
    [(10, [21; 20]); (12, [23; 24]); (11, [22])];
    [(20, [0]); (21, [2; 1]); (22, []); (23, [3]); (24, [4])] ].

Example c10_ex_hyps : validate ex3 = true /\ wf ex3 /\ drops_ok (length ex3) [1%nat; 0%nat].
Proof.
  split; [vm_compute; reflexivity|]. split; [apply wf_small; reflexivity | cbn; lia].
Qed.
Example c10_ex_queries :
  ancestors ex3 2 21 = [(1%nat, 10); (0%nat, 0)] /\ ancestor_at ex3 2 23 0 = Some 1 /\
  leaves_of ex3 0 0 = [21; 20; 22] /\ leaves_of ex3 1 10 = [21; 20] /\
  leaf_pairs ex3 (Some (0%nat, 0)) = [(21, 22); (20, 22)] /\
  leaf_pairs ex3 None = [(21, 23); (20, 23); (22, 23); (21, 24); (20, 24); (22, 24)] /\
  leaf_pairs ex3 (Some (2%nat, 20)) = [].
Proof. vm_compute. repeat split. Qed.
Example c10_ex_transform :
  drop_level ex3 1 = TOk [ [(1, [23; 24]); (0, [22; 21; 20])]; nth 2 ex3 [] ] /\
  drop_level ex3 0 = TOk (tl ex3) /\ drop_level ex3 2 = TErr E_LEAF /\ drop_level ex3 3 = TErr E_NOLEVEL /\
  drop_levels ex3 [1%nat; 0%nat] = flatten ex3 /\ flatten ex3 = TOk [nth 2 ex3 []] /\
  drop_leaf_level ex3 = TOk [ nth 0 ex3 []; [(10, [2; 1; 0]); (12, [3; 4]); (11, [])] ] /\
  leaf_rows (drop_cells ex3) = [] /\ nodes (leaf_level (drop_cells ex3)) = [20; 21; 22; 23; 24].
Proof. vm_compute. repeat split. Qed.
Example c10_ex_backfill :
  backfill ex3 [None; None; Some 21] = TOk [Some 0; Some 10; Some 21] /\          (* after flatten *)
  backfill ex3 [Some 1; None; Some 24] = TOk [Some 1; Some 12; Some 24] /\        (* after drop_level 1 *)
  backfill ex3 [None; Some 12; None] = TOk [Some 1; Some 12; None] /\             (* no leaf stored *)
  backfill ex3 [None; None; Some 99] = TErr E_KEY /\                               (* not a node *)
  (forall k a, (k < 3)%nat -> nth k [Some 1; None; Some 24] None = Some a -> ancestor_at ex3 2 24 k = Some a) /\
  leaves_of ex3 0 1 = [23; 24] /\
  (exists t', drop_levels ex3 [1%nat] = TOk t' /\ leaves_of t' 0 1 = [23; 24]).
Proof.
  repeat (split; [vm_compute; reflexivity|]). split.
  - intros k a Hk. destruct k as [|[|[|k]]]; cbn [nth]; intros E; inversion E; subst; try reflexivity. lia.
  - split; [reflexivity|]. eexists. split; vm_compute; reflexivity.
Qed.
(* the audit's witness: the tree get_taxonomy_tree builds from three cells (children are a set, here
   iterated in order of first appearance) does not come back literally, and leaves_to_compare
   lists the same pairs in another order; a set-free tree comes back literally *)
Example c10_ex_reread :
  get_taxonomy_tree 2 [[0; 11]; [0; 10]; [0; 12]] = TOk built /\
  flags_built built = [[true]] /\
  reread (flags_built built) built = built_reread /\ built <> built_reread /\
  reread flags_json built = built /\
  leaf_pairs built (Some (0%nat, 0)) = [(10, 11); (11, 12); (10, 12)] /\
  leaf_pairs built_reread (Some (0%nat, 0)) = [(10, 11); (10, 12); (11, 12)] /\
  leaf_pairs built (Some (0%nat, 0)) <> leaf_pairs built_reread (Some (0%nat, 0)).
Proof. exact built_witness. Qed.
(* the hypotheses of c10_reread_preserves on ex3 with sets at the two inner levels (and, to show a
   mixed state, one leaf whose rows are a set): the keys stay where they are, [11;10] [21;20] [2;1]
   come back sorted, [23;24] was sorted already *)
Example c10_ex_reread_ex3 :
  validate ex3 = true /\ wf ex3 /\
  reread [[true; true]; [true; true; true]; [false; true]] ex3 =
    [ [(1, [12]); (0, [10; 11])];
      [(10, [20; 21]); (12, [23; 24]); (11, [22])];
      [(20, [0]); (21, [1; 2]); (22, []); (23, [3]); (24, [4])] ] /\
  leaf_pairs ex3 None = [(21, 23); (20, 23); (22, 23); (21, 24); (20, 24); (22, 24)] /\
  leaf_pairs (reread (flags_built ex3) ex3) None = [(20, 23); (21, 23); (22, 23); (20, 24); (21, 24); (22, 24)].
Proof.
  split; [vm_compute; reflexivity|]. split; [apply wf_small; reflexivity|].
  split; [vm_compute; reflexivity|]. split; vm_compute; reflexivity.
Qed.
(* the two backfill models on ex3 (= ex_tree): a cell mapped on the flattened tree, a cell mapped
   with level 1 dropped, a cell whose stored node has no recorded parent *)
Example c10_ex_backfill_link :
  ex_tree = ex3 /\
  map (rec_of 3) [[(2%nat, ex_orec 21)]; [(0%nat, ex_orec 1); (2%nat, ex_orec 24)]] =
    [[None; None; Some 21]; [Some 1; None; Some 24]] /\
  (exists cells', RunMapping.backfill ex_tree [[(2%nat, ex_orec 21)]; [(0%nat, ex_orec 1); (2%nat, ex_orec 24)]] = TOk cells' /\
     map (rec_of 3) cells' = [[Some 0; Some 10; Some 21]; [Some 1; Some 12; Some 24]]) /\
  Tree.backfill ex_tree [None; None; Some 21] = TOk [Some 0; Some 10; Some 21] /\
  RunMapping.backfill ex_tree [[(2%nat, ex_orec 99)]] = TErr E_KEY /\
  Tree.backfill ex_tree (rec_of 3 [(2%nat, ex_orec 99)]) = TErr E_KEY.
Proof. split; [reflexivity | exact backfill_link_example]. Qed.
(* a name that is no node: the unchecked query is empty, the checked one is the KeyError *)
Example c10_ex_non_node :
  ancestors ex3 2 99 = [] /\ ancestors_chk ex3 2 99 = TErr E_KEY /\
  children ex3 (Some (1%nat, 99)) = [] /\ children_chk ex3 1 99 = TErr E_NONODE /\
  ancestors_chk ex3 0 99 = TOk [] /\ ancestors_chk ex3 2 21 = TOk [(1%nat, 10); (0%nat, 0)].
Proof. vm_compute. repeat split. Qed.
(* a mutant of each rejected class on ex3 (the duplicate child was accepted before the repair of F3),
   and the F3 witnesses themselves: well-formed dicts, refused *)
Example c10_ex_mutants :
  validate (replace_nth 0 (add_child (nth 0 ex3 []) 1 99) ex3) = false /\      (* dangling *)
  validate (replace_nth 0 (add_child (nth 0 ex3 []) 1 10) ex3) = false /\      (* second parent *)
  validate (replace_nth 1 (add_node (nth 1 ex3 []) 13 []) ex3) = false /\      (* orphan *)
  validate (replace_nth 2 (add_child (leaf_level ex3) 22 3) ex3) = false /\    (* shared row *)
  validate (replace_nth 0 (add_child (nth 0 ex3 []) 0 10) ex3) = false.        (* duplicate child: F3 *)
Proof. vm_compute. repeat split. Qed.
Example c10_ex_f3_rejected :
  validate f3_tree = false /\ validate f3_tree_rows = false /\ wf f3_tree /\ wf f3_tree_rows.
Proof. exact f3_rejected. Qed.
(* label columns: four cells of a 3-level taxonomy; a fifth cell giving label 10 a second parent *)
Definition ex_records : list (list Z) := [[0; 10; 20]; [0; 10; 21]; [1; 12; 23]; [0; 10; 20]].
Example c10_ex_labels :
  Forall (fun r => length r = 3%nat) ex_records /\
  ~ (exists k r r' c, (S k < 3)%nat /\ In r ex_records /\ In r' ex_records /\
       nth_error r (S k) = Some c /\ nth_error r' (S k) = Some c /\ nth_error r k <> nth_error r' k) /\
  get_taxonomy_tree 3 ex_records =
    TOk [ [(0, [10]); (1, [12])]; [(10, [20; 21]); (12, [23])]; [(20, [0; 3]); (21, [1]); (23, [2])] ] /\
  get_taxonomy_tree 3 (ex_records ++ [[1; 10; 20]]) = TErr E_INVALID.
Proof.
  split; [repeat constructor|]. split; [|vm_compute; split; reflexivity].
  intros H. apply (two_parents_b_spec 3) in H; [vm_compute in H; discriminate | lia].
Qed.

(* the specification predicates, unfolded *)
Example c10_def_lists : forall lv p c, lists lv p c <-> exists cs, In (p, cs) lv /\ In c cs.
Proof. intros. reflexivity. Qed.
Example c10_def_wf : forall t, wf t <-> Forall (fun lv => NoDup (nodes lv)) t.
Proof. intros. reflexivity. Qed.
Example c10_def_child_lists_nodup : forall lv, child_lists_nodup lv <-> forall p cs, In (p, cs) lv -> NoDup cs.
Proof. intros. reflexivity. Qed.
Example c10_def_inner_nodup : forall a b rest,
  (inner_nodup (a :: b :: rest) <-> child_lists_nodup a /\ inner_nodup (b :: rest)) /\
  (inner_nodup [a] <-> True) /\ (inner_nodup [] <-> True).
Proof. intros. cbn [inner_nodup]. tauto. Qed.
Example c10_def_path_ok : forall t li x k p l,
  (path_ok t li x [] <-> li = 0%nat) /\
  (path_ok t li x ((k, p) :: l) <->
   li = S k /\ In p (nodes (nth k t [])) /\ lists (nth k t []) p x /\ path_ok t k p l).
Proof. intros. split; reflexivity. Qed.
Example c10_def_squash : forall li l,
  squash li l = map (fun kp => (if (fst kp <? li)%nat then fst kp else pred (fst kp), snd kp))
                    (filter (fun kp => negb (fst kp =? li)%nat) l).
Proof. intros. reflexivity. Qed.
Example c10_def_up_level : forall li j, up_level li j = if (j <? li)%nat then j else S j.
Proof. intros. reflexivity. Qed.
Example c10_def_up_levels : forall li rest j,
  up_levels [] j = j /\ up_levels (li :: rest) j = up_level li (up_levels rest j).
Proof. intros. split; reflexivity. Qed.
Example c10_def_drops_ok : forall n li rest,
  (drops_ok n [] <-> True) /\ (drops_ok n (li :: rest) <-> (S li < n)%nat /\ drops_ok (n - 1) rest).
Proof. intros. split; reflexivity. Qed.
Example c10_def_child_level : forall li (x : node), child_level None = 0%nat /\ child_level (Some (li, x)) = S li.
Proof. intros. split; reflexivity. Qed.
Example c10_def_mutations : forall lv p c x cs,
  add_child lv p c = map (fun nc => if fst nc =? p then (fst nc, snd nc ++ [c]) else nc) lv /\
  add_node lv x cs = lv ++ [(x, cs)].
Proof. intros. split; reflexivity. Qed.
Example c10_def_tree_perm : forall t u,
  tree_perm t u <->
  Forall2 (Forall2 (fun a b : node * list Z => fst a = fst b /\ Permutation (snd a) (snd b))) t u.
Proof. intros. reflexivity. Qed.
Example c10_def_reread_witnesses :
  built = [[(0, [11; 10; 12])]; [(11, [0]); (10, [1]); (12, [2])]] /\
  built_reread = [[(0, [10; 11; 12])]; [(11, [0]); (10, [1]); (12, [2])]].
Proof. split; reflexivity. Qed.
Example c10_def_rec_of : forall n (cell : RunMapping.cellmap),
  rec_of n cell = map (fun k => option_map RunMapping.o_asg (RunMapping.lookup k cell)) (seq 0 n).
Proof. intros. reflexivity. Qed.
Example c10_def_witnesses :
  f3_tree = [[(0, [1; 1; 2])]; [(1, []); (2, [])]] /\
  f3_tree_rows = [[(0, [1; 1; 2])]; [(1, [7]); (2, [8])]] /\
  childless_tree = [[(0, [2]); (1, [])]; [(2, [5])]] /\
  empty_level_tree = [[(0, [])]; []].
Proof. repeat split. Qed.

(* the PRECONDITION NoDup hierarchy (header): the real dict with hierarchy ['a','b','a'] read BY POSITION is
   this three-level tree - accepted by the model's validator, leaf 0 (= 'x') has the ancestors
   [(1, 10); (0, 0)] and node 0 of the top level has exactly the leaf 0 below it.  The real TaxonomyTree,
   keyed by NAME, answers parents('a','x') = {} and lists 'x' as its own leaf only by accident of the
   shared dict: the theorems of this file are about the positional reading and do not describe the real
   class on such input (finding F29). *)
Example c10_repeated_level_name_positional :
  let a := [(0, [10]); (1, [11])] in let b := [(10, [0]); (11, [1])] in
  let t := [a; b; a] in
  validate t = true /\ ancestors t 2 0 = [(1%nat, 10); (0%nat, 0)] /\
  leaves_of t 0 0 = [0] /\ leaves_of t 0 1 = [1].
Proof. vm_compute. repeat split; reflexivity. Qed.
