(* C12 — selected query markers cover every cluster pair as far as possible.
   Property theorems only: each is closed by `exact <lemma>`.
   Model: Model/Selection.v (_run_selection of marker_selection/selection.py: slots
   (pair, direction), the state (chosen, counts, aggregate, filled, utility), update_filled,
   the desperate phase, one loop iteration `step st g` that is legal only when g is an
   unchosen gene of maximal utility — the tie order of np.argsort is an input, the theorems
   quantify over EVERY legal choice sequence `trace`). *)
From Coq Require Import ZArith List Bool Arith Permutation.
From CTM Require Import Base.Sx Base.SortX Model.Tree Model.Selection Proofs.SelectionP.
From CTM Require Import Model.SelectionK Proofs.SelectionKP Proofs.SelectionKSafeP.   (* every genes_at_a_time: section at the end *)
Import ListNotations.
Open Scope nat_scope.

(* the invariant of the loop, at the end of every legal run: stored counts = number of chosen
   genes marking the slot; aggregate = sum of the two directions; stored utility of an unchosen
   gene = number of UNFILLED slots of the parent it marks; chosen genes carry a negative
   utility; a slot is flagged filled only if it is a slot of the parent and one of the three
   filling conditions holds (target reached where both directions could reach it / every
   marker taken / pair holds twice the target) *)
Theorem c12_invariant : forall n_genes pairs marks n trace st,
  run n_genes pairs marks n (start n_genes pairs marks n) trace = Some st ->
  (forall s, counts st s = cnt marks (chosen st) s) /\
  (forall p, aggr st p = counts st (p, false) + counts st (p, true)) /\
  (forall g, ~ In g (chosen st) -> utility st g = Z.of_nat (util pairs marks (filled st) g)) /\
  (forall g, In g (chosen st) -> (utility st g < 0)%Z) /\
  (forall s, filled st s = true -> In s (slots pairs) /\ fillable n_genes marks n st s).
Proof. exact invariant. Qed.
Print Assumptions c12_invariant.

(* ... and it is an invariant of the loop proper: J (Proofs/SelectionP.v: the five clauses above plus
   NoDup chosen, chosen genes < n_genes, every chosen gene marks a slot of the parent) holds when
   `while True` is entered (after the first fill pass and the desperate phase) and is preserved by
   every legal iteration *)
Theorem c12_invariant_initially : forall n_genes pairs marks n,
  J n_genes pairs marks n (start n_genes pairs marks n).
Proof. exact J_start. Qed.
Print Assumptions c12_invariant_initially.

Theorem c12_invariant_preserved : forall n_genes pairs marks n st g st',
  J n_genes pairs marks n st -> step n_genes pairs marks n st g = Some st' -> J n_genes pairs marks n st'.
Proof. exact J_step. Qed.
Print Assumptions c12_invariant_preserved.

(* `filled` only grows along a step *)
Theorem c12_filled_monotone : forall n_genes pairs marks n st g st' s,
  step n_genes pairs marks n st g = Some st' -> filled st s = true -> filled st' s = true.
Proof. exact filled_monotone. Qed.
Print Assumptions c12_filled_monotone.

(* termination: every legal run makes at most n_genes + 1 passes through `while True`
   (|trace| choices + the pass that breaks) ... *)
Theorem c12_terminates : forall n_genes pairs marks n trace st,
  run n_genes pairs marks n (start n_genes pairs marks n) trace = Some st ->
  length trace + 1 <= n_genes + 1.
Proof. exact iterations_bounded. Qed.
Print Assumptions c12_terminates.

(* ... the loop never gets stuck (while it has not stopped there is a legal choice), and the
   fuelled deterministic instance (first gene of maximal utility) stops within n_genes + 1
   passes: its out-of-fuel branch is unreachable and its result is a legal run *)
Theorem c12_progress : forall n_genes pairs marks n st,
  J n_genes pairs marks n st ->
  finished n_genes pairs (update_filled n_genes pairs marks n st) = false ->
  exists g st', step n_genes pairs marks n st g = Some st'.
Proof. exact progress. Qed.
Print Assumptions c12_progress.

Theorem c12_terminates_fuel : forall n_genes pairs marks n,
  exists st trace,
    greedy n_genes pairs marks n (S n_genes) (start n_genes pairs marks n) = Some st /\
    run n_genes pairs marks n (start n_genes pairs marks n) trace = Some st.
Proof. exact terminates. Qed.
Print Assumptions c12_terminates_fuel.

Theorem c12_no_duplicates : forall n_genes pairs marks n trace st,
  run n_genes pairs marks n (start n_genes pairs marks n) trace = Some st -> NoDup (chosen st).
Proof. exact no_duplicates. Qed.
Print Assumptions c12_no_duplicates.

(* every selected gene is a gene of the thinned array (= a reference gene present in the
   query) and a reference marker of at least one pair the parent must discriminate
   (genes_at_a_time = 1) *)
Theorem c12_only_useful_genes : forall n_genes pairs marks n trace st,
  run n_genes pairs marks n (start n_genes pairs marks n) trace = Some st ->
  forall g, In g (chosen st) -> g < n_genes /\ exists p d, In p pairs /\ marks g (p, d) = true.
Proof. exact only_useful_genes. Qed.
Print Assumptions c12_only_useful_genes.

(* a parent with no pair to discriminate gets no marker (and the loop makes no choice) *)
Theorem c12_nothing_to_discriminate : forall n_genes marks n trace st,
  run n_genes [] marks n (start n_genes [] marks n) trace = Some st -> chosen st = [] /\ trace = [].
Proof. exact nothing_to_discriminate. Qed.
Print Assumptions c12_nothing_to_discriminate.

(* coverage: for EVERY legal choice sequence reaching `finished`, every pair of the parent is
   marked by at least min(2n, available) selected genes, available = number of genes of the
   thinned array (reference markers present in the query) that mark the pair.
   The hypothesis no_gene_both_ways: no gene is an up- and a down-marker of one pair (C11;
   asserted by marker_mask_from_pair_idx; checked on every generated table) — without it the
   aggregate counts such a gene twice. *)
Theorem c12_coverage : forall n_genes pairs marks n trace st,
  no_gene_both_ways marks ->
  run n_genes pairs marks n (start n_genes pairs marks n) trace = Some st ->
  forall p, In p pairs ->
    Nat.min (2 * n) (covered marks (genes n_genes) p) <= covered marks (chosen st) p.
Proof. exact coverage. Qed.
Print Assumptions c12_coverage.

(* the hypothesis is decidable on a concrete table: the boolean the harness evaluates on every
   generated (thinned) table implies it *)
Theorem c12_hypothesis_checkable : forall pd,
  both_ways_free pd = true -> no_gene_both_ways (marks_of pd).
Proof. exact both_ways_free_sound. Qed.
Print Assumptions c12_hypothesis_checkable.

(* the executable statement spec_c12 that the harness evaluates on the lists returned by the
   implementation (no duplicates; every gene a gene of the thinned array marking a slot of the
   parent; coverage >= min(2n, available) per pair) holds on the result of every legal run *)
Theorem c12_spec_holds : forall n_genes pairs marks n trace st,
  no_gene_both_ways marks ->
  run n_genes pairs marks n (start n_genes pairs marks n) trace = Some st ->
  spec_c12 n_genes pairs marks n (chosen st) = true.
Proof. exact spec_holds. Qed.
Print Assumptions c12_spec_holds.

(* the order in which the pairs are indexed is irrelevant: a legal run under one order is a
   legal run WITH THE SAME CHOICE SEQUENCE under any permutation of the pairs; the selected
   SET, the per-slot counts and the filled flags coincide (only the order in which the
   desperate phase emits its genes may differ) *)
Theorem c12_pair_order_irrelevant : forall n_genes marks n pairs pairs',
  Permutation pairs pairs' -> forall trace st,
  run n_genes pairs marks n (start n_genes pairs marks n) trace = Some st ->
  exists st', run n_genes pairs' marks n (start n_genes pairs' marks n) trace = Some st' /\
              Permutation (chosen st) (chosen st') /\
              (forall s, counts st s = counts st' s) /\ (forall s, filled st s = filled st' s).
Proof. exact pair_order_irrelevant. Qed.
Print Assumptions c12_pair_order_irrelevant.

(* with a tie-breaking rule that looks only at the utility array and the taken genes (the
   model's deterministic instance; np.argsort of the utility array is another such rule) the
   selected set itself is the same under both orders *)
Theorem c12_greedy_order_irrelevant : forall n_genes marks n pairs pairs',
  Permutation pairs pairs' -> forall fuel st,
  greedy n_genes pairs marks n fuel (start n_genes pairs marks n) = Some st ->
  exists st', greedy n_genes pairs' marks n fuel (start n_genes pairs' marks n) = Some st' /\
              Permutation (chosen st) (chosen st').
Proof. exact greedy_order_irrelevant. Qed.
Print Assumptions c12_greedy_order_irrelevant.

(* ... and the two index arrays the pipeline can produce for one parent (sorted global indices
   on the full table = "behemoth"; positions in leaves_to_compare order after
   downsample_pairs_to_other) are such permutations *)
Theorem c12_behemoth_order_is_permutation : forall rm t parent i1 i2,
  parent_idx rm t parent true = Some i1 -> parent_idx rm t parent false = Some i2 -> Permutation i1 i2.
Proof. exact parent_idx_perm. Qed.
Print Assumptions c12_behemoth_order_is_permutation.

(* "occur in the query" / "available in the query": the table the loop works on is the file's table
   thinned to the query genes. Gene j of the thinned array is reference gene keep[j], where keep
   lists (in reference order) exactly the reference genes whose name occurs in the query; it is
   listed for a pair and a direction iff that reference gene is listed there in the file; the pairs
   and their positions are untouched *)
Theorem c12_thinning_sound : forall rm query,
  let keep := keep_idx rm query in
  rm_genes (thin_genes rm query) = map (fun i => nth i (rm_genes rm) 0%Z) keep /\
  (forall i, In i keep <-> i < length (rm_genes rm) /\ In (nth i (rm_genes rm) 0%Z) query) /\
  length (rm_pairs (thin_genes rm query)) = length (rm_pairs rm) /\
  forall k e, nth_error (rm_pairs rm) k = Some e ->
    exists e', nth_error (rm_pairs (thin_genes rm query)) k = Some e' /\ fst e' = fst e /\
      (forall j, In j (fst (snd e')) <-> exists i, nth_error keep j = Some i /\ In i (fst (snd e))) /\
      (forall j, In j (snd (snd e')) <-> exists i, nth_error keep j = Some i /\ In i (snd (snd e))).
Proof. exact thinning_sound. Qed.
Print Assumptions c12_thinning_sound.

(* ---------------- non-vacuity: 4 genes, 2 pairs (the table of DESIGN B.3) ---------------- *)
Definition ex_pd : list (list nat * list nat) := [([1], [0; 2]); ([0], [2; 3])].
Example ex_both_ways : both_ways_free ex_pd = true.
Proof. reflexivity. Qed.
Example ex_hypothesis : no_gene_both_ways (marks_of ex_pd).
Proof. apply both_ways_free_sound. reflexivity. Qed.
(* n = 1: no pair is desperate (both have 3 markers); [2; 0] is a legal run that stops exactly there
   (both pairs then hold 2 = 2n markers), [0; 1; 2] is another *)
Example ex_run_n1 :
  option_map (fun st => chosen st) (run 4 [0; 1] (marks_of ex_pd) 1 (start 4 [0; 1] (marks_of ex_pd) 1) [2; 0])
  = Some [2; 0].
Proof. vm_compute. reflexivity. Qed.
Example ex_run_n1' :
  option_map (fun st => chosen st) (run 4 [0; 1] (marks_of ex_pd) 1 (start 4 [0; 1] (marks_of ex_pd) 1) [0; 1; 2])
  = Some [0; 1; 2].
Proof. vm_compute. reflexivity. Qed.
(* an illegal choice (gene 3 does not maximise the utility) is refused *)
Example ex_illegal :
  run 4 [0; 1] (marks_of ex_pd) 1 (start 4 [0; 1] (marks_of ex_pd) 1) [3] = None.
Proof. vm_compute. reflexivity. Qed.
(* the two pair orders: same choice sequence accepted, n = 3 makes both pairs desperate and the
   desperate phase emits [0;1;2;3] under one order and [0;2;3;1] under the other *)
Example ex_order :
  (chosen (start 4 [0; 1] (marks_of ex_pd) 3), chosen (start 4 [1; 0] (marks_of ex_pd) 3))
  = ([0; 1; 2; 3], [0; 2; 3; 1]).
Proof. vm_compute. reflexivity. Qed.
(* coverage is tight: with n = 1 the run [2; 0] leaves pair 0 with exactly 2 = min(2n, 3) markers *)
Example ex_coverage_tight :
  option_map (fun st => (covered (marks_of ex_pd) (chosen st) 0, covered (marks_of ex_pd) (genes 4) 0))
             (run 4 [0; 1] (marks_of ex_pd) 1 (start 4 [0; 1] (marks_of ex_pd) 1) [2; 0]) = Some (2, 3).
Proof. vm_compute. reflexivity. Qed.
(* the hypothesis of c12_coverage is needed: a table (outside the quantifier - the reference-marker
   writer never produces it) in which gene 0 marks pair 0 both ways; n = 1: the loop takes gene 0,
   the aggregate is 2 = 2n, the pair counts as done with ONE selected marker although 3 are available *)
Example ex_hypothesis_needed :
  let pd := [([0], [0; 1; 2])] in
  both_ways_free pd = false /\
  option_map (fun st => (chosen st, covered (marks_of pd) (chosen st) 0, covered (marks_of pd) (genes 3) 0))
             (run 3 [0] (marks_of pd) 1 (start 3 [0] (marks_of pd) 1) [0]) = Some ([0], 1, 3).
Proof. vm_compute. split; reflexivity. Qed.
(* thinning: reference genes 10..14, query {13, 11, 99}: genes 1 and 3 are kept and renumbered 0, 1 *)
Example ex_thin :
  let rm := {| rm_genes := [10; 11; 12; 13; 14]%Z; rm_pairs := [((0, 1)%Z, ([1; 2], [3; 4]))] |} in
  (keep_idx rm [13; 11; 99]%Z, rm_pairs (thin_genes rm [13; 11; 99]%Z)) = ([1; 3], [((0, 1)%Z, ([0], [1]))]).
Proof. vm_compute. reflexivity. Qed.

(* ====================================================================================================
   EVERY genes_at_a_time = k >= 1 (Model/SelectionK.v; the theorems above are the case k = 1).
   One iteration of `while True` = update of been_filled / utility (the list sorted_utility_idx is
   re-sorted - and then holds every gene again, chosen ones included - only if a slot was newly
   filled), the two `break`s, then AT MOST k pops of the LAST element of the list with nothing
   recomputed in between: _choose_gene stops the batch as soon as the list is empty or its last
   element has utility <= 0 (repair of F23/F24/F25; before it a batch popped k entries whatever their
   utility, selected genes marking nothing, raised IndexError on the empty list and RuntimeError
   "chose gene twice" on a re-sorted one).
   `popk`/`stepk`/`runk`/`replayk` take the genes popped, grouped per iteration, as input; a pop is
   legal iff the gene is a member of the list of maximal utility among the members and that utility is
   positive; a batch shorter than k is legal iff no member left has a positive utility.
   Outcomes: KDone (break); KRaise (KTwice g) (the statement `raise RuntimeError: chose gene g twice`
   that is still in _choose_one_gene) - proved unreachable below.  IndexError is not an outcome any
   more: pop(-1) is executed on a non-empty list only.
   ==================================================================================================== *)

(* k = 1 is exactly the model of Selection.v: from any state satisfying the loop invariant (JK = J
   without "every chosen gene marks a slot") with a list holding every unchosen gene (PI), the
   batched loop fed with singleton batches accepts exactly the choice sequences `run` accepts, with
   the same final state (the early stop never fires on the first pop of a batch) ... *)
Theorem c12_batch_one_is_step : forall n_genes pairs marks n trace st pool i,
  JK n_genes pairs marks n st -> PI n_genes st pool ->
  kres_opt (runk n_genes pairs marks n 1 st pool (map (fun g => [g]) trace) i) = run n_genes pairs marks n st trace.
Proof. exact batch_one_is_run. Qed.
Print Assumptions c12_batch_one_is_step.

(* ... the state and list at the entry of `while True` satisfy both (and the full invariant J) ... *)
Theorem c12_batch_initially : forall n_genes pairs marks n,
  JK n_genes pairs marks n (start n_genes pairs marks n) /\
  PI n_genes (start n_genes pairs marks n) (pool0 n_genes pairs marks n).
Proof. intros. split; [apply JK_start | apply PI_pool0]. Qed.
Print Assumptions c12_batch_initially.

(* ... and with k = 1 the exception cannot occur, whatever batches are offered *)
Theorem c12_batch_one_never_raises : forall n_genes pairs marks n trace st pool i e,
  JK n_genes pairs marks n st -> PI n_genes st pool ->
  runk n_genes pairs marks n 1 st pool trace i <> KRaise e.
Proof. exact batch_one_never_raises. Qed.
Print Assumptions c12_batch_one_never_raises.

(* every k: a completed run returns a duplicate-free list of genes of the thinned array (= reference
   genes present in the query) *)
Theorem c12_batch_no_duplicates : forall n_genes pairs marks n k prefix batches st,
  replayk n_genes pairs marks n k prefix batches = KDone st ->
  NoDup (chosen st) /\ forall g, In g (chosen st) -> g < n_genes.
Proof. exact batch_no_duplicates. Qed.
Print Assumptions c12_batch_no_duplicates.

(* every k: every selected gene is a gene of the thinned array AND a reference marker of at least one
   pair the parent must discriminate - the full clause, as c12_only_useful_genes for k = 1
   (was c12_batch_in_query_and_marker_refuted before the repair: F23) *)
Theorem c12_batch_in_query_and_marker : forall n_genes pairs marks n k prefix batches st,
  replayk n_genes pairs marks n k prefix batches = KDone st ->
  forall g, In g (chosen st) -> g < n_genes /\ exists p d, In p pairs /\ marks g (p, d) = true.
Proof. exact batch_in_query_and_marker. Qed.
Print Assumptions c12_batch_in_query_and_marker.

(* every k: coverage on termination.  Neither batching nor the early stop of a batch can end the LOOP
   early: the `break`s are evaluated on the freshly updated flags, and a slot is flagged only under
   one of the three filling conditions *)
Theorem c12_batch_coverage : forall n_genes pairs marks n k prefix batches st,
  no_gene_both_ways marks ->
  replayk n_genes pairs marks n k prefix batches = KDone st ->
  forall p, In p pairs ->
    Nat.min (2 * n) (covered marks (genes n_genes) p) <= covered marks (chosen st) p.
Proof. exact batch_coverage. Qed.
Print Assumptions c12_batch_coverage.

(* every k: the executable statement of C12, spec_c12 - the SAME predicate as for k = 1: no
   duplicates; every gene a gene of the thinned array marking a slot of the parent; coverage - holds
   on the result of every completed run ... *)
Theorem c12_batch_full_spec : forall n_genes pairs marks n k prefix batches st,
  no_gene_both_ways marks ->
  replayk n_genes pairs marks n k prefix batches = KDone st ->
  spec_c12 n_genes pairs marks n (chosen st) = true.
Proof. exact batch_full_spec. Qed.
Print Assumptions c12_batch_full_spec.

(* ... and so does its part spec_c12_batch (spec_c12 without the "marks a slot" clause), which the
   harness reports separately *)
Theorem c12_batch_spec_holds : forall n_genes pairs marks n k prefix batches st,
  no_gene_both_ways marks ->
  replayk n_genes pairs marks n k prefix batches = KDone st ->
  spec_c12_batch n_genes pairs marks n (chosen st) = true.
Proof. exact spec_batch_holds. Qed.
Print Assumptions c12_batch_spec_holds.

(* every k: legality of the trace.  A batch has BETWEEN 1 AND k genes, appended in order, pairwise
   distinct; each is a gene of the thinned array that was unchosen when the batch was formed, of
   POSITIVE utility, and no gene unchosen then and not popped earlier in the batch had a larger
   utility - utility = the array when the batch was formed (st1, after this iteration's update); ties
   are the input.  The batch is shorter than k only if it ran out of useful genes: no gene left
   unchosen after it has a positive utility *)
Theorem c12_batch_trace_legal : forall n_genes pairs marks n k st pool batch st' pool',
  JK n_genes pairs marks n st -> PI n_genes st pool ->
  stepk n_genes pairs marks n k st pool batch = SNext st' pool' ->
  let st1 := update_filled n_genes pairs marks n st in
  (1 <= k -> 1 <= length batch) /\ length batch <= k /\
  chosen st' = chosen st ++ batch /\ NoDup batch /\
  (forall b1 g b2, batch = b1 ++ g :: b2 ->
    g < n_genes /\ ~ In g (chosen st) /\ (0 < utility st1 g)%Z /\
    forall h, h < n_genes -> ~ In h (chosen st) -> ~ In h b1 -> (utility st1 h <= utility st1 g)%Z) /\
  (length batch < k -> forall h, h < n_genes -> ~ In h (chosen st') -> (utility st1 h <= 0)%Z).
Proof. exact batch_trace_legal. Qed.
Print Assumptions c12_batch_trace_legal.

(* ... exactly: the length of a batch is min(k, number of genes of positive utility when the batch is
   formed) - it is shorter than k iff fewer than k useful genes are left *)
Theorem c12_batch_length_exact : forall n_genes pairs marks n k st pool batch st' pool',
  JK n_genes pairs marks n st -> PI n_genes st pool ->
  stepk n_genes pairs marks n k st pool batch = SNext st' pool' ->
  length batch = Nat.min k (n_useful n_genes (update_filled n_genes pairs marks n st)).
Proof. exact batch_length_exact. Qed.
Print Assumptions c12_batch_length_exact.

(* the invariants are preserved by every batch: JK and PI ... *)
Theorem c12_batch_invariant_preserved : forall n_genes pairs marks n k st pool b st' pool',
  JK n_genes pairs marks n st -> PI n_genes st pool ->
  stepk n_genes pairs marks n k st pool b = SNext st' pool' ->
  JK n_genes pairs marks n st' /\ PI n_genes st' pool'.
Proof. intros n_genes pairs marks n k. exact (stepk_inv n_genes pairs marks n k). Qed.
Print Assumptions c12_batch_invariant_preserved.

(* ... and the FULL invariant J of the k = 1 loop (every chosen gene marks a slot of the parent) *)
Theorem c12_batch_full_invariant_preserved : forall n_genes pairs marks n k st pool b st' pool',
  J n_genes pairs marks n st -> PI n_genes st pool ->
  stepk n_genes pairs marks n k st pool b = SNext st' pool' ->
  J n_genes pairs marks n st' /\ PI n_genes st' pool'.
Proof. exact stepk_invJ. Qed.
Print Assumptions c12_batch_full_invariant_preserved.

(* EVERY gene of every batch (not only the first) is a reference marker of a slot of the parent that
   was not yet filled when the batch was formed *)
Theorem c12_batch_genes_are_markers : forall n_genes pairs marks n k st pool batch st' pool' g,
  JK n_genes pairs marks n st -> PI n_genes st pool ->
  stepk n_genes pairs marks n k st pool batch = SNext st' pool' -> In g batch ->
  exists s, In s (slots pairs) /\ marks g s = true /\ filled (update_filled n_genes pairs marks n st) s = false.
Proof. intros n_genes pairs marks n k. exact (batch_genes_are_markers n_genes pairs marks n k). Qed.
Print Assumptions c12_batch_genes_are_markers.

(* every k >= 1: the call never raises.  (a) whatever desperate prefix and batches are offered, the
   replay never ends in the exception - the `raise RuntimeError("chose gene twice")` statement is
   unreachable: a gene is popped only if its utility is positive, a chosen gene has utility -1;
   (b) the fuelled deterministic instance (first member of maximal utility, at most k times per pass)
   ends in `break` on EVERY table.
   (were c12_batch_returns_refuted_empty_list / _chosen_twice before the repair: F24, F25) *)
Theorem c12_batch_never_raises : forall n_genes pairs marks n k,
  1 <= k ->
  (forall prefix batches e, replayk n_genes pairs marks n k prefix batches <> KRaise e) /\
  exists st, greedyk n_genes pairs marks n k (S n_genes) (start n_genes pairs marks n) (pool0 n_genes pairs marks n) = GDone st.
Proof. exact batch_total. Qed.
Print Assumptions c12_batch_never_raises.

(* ... from any state of the loop *)
Theorem c12_batch_step_never_raises : forall n_genes pairs marks n k trace st pool i e,
  JK n_genes pairs marks n st -> PI n_genes st pool ->
  runk n_genes pairs marks n k st pool trace i <> KRaise e.
Proof. intros n_genes pairs marks n k. exact (runk_never_raises n_genes pairs marks n k). Qed.
Print Assumptions c12_batch_step_never_raises.

(* termination for every k >= 1: the fuelled deterministic instance never runs out of fuel
   n_genes + 1 (every pass that does not break chooses at least one new gene), it ends in `break`, and
   its result is the result of a legal run *)
Theorem c12_batch_terminates : forall n_genes pairs marks n k,
  1 <= k ->
  exists trace st,
    greedyk n_genes pairs marks n k (S n_genes) (start n_genes pairs marks n) (pool0 n_genes pairs marks n) = GDone st /\
    replayk n_genes pairs marks n k (chosen (start n_genes pairs marks n)) trace = KDone st.
Proof. exact batch_terminates. Qed.
Print Assumptions c12_batch_terminates.

(* every completed run chooses between 1 and k genes per pass and at most n_genes in all: the number
   of passes is at most n_genes + 1 *)
Theorem c12_batch_iterations_bounded : forall n_genes pairs marks n k trace st pool i st',
  1 <= k -> JK n_genes pairs marks n st -> PI n_genes st pool ->
  runk n_genes pairs marks n k st pool trace i = KDone st' ->
  length (chosen st) + length trace <= length (chosen st') /\
  length (chosen st') <= length (chosen st) + k * length trace /\ length (chosen st') <= n_genes.
Proof. intros n_genes pairs marks n k. exact (batch_iterations_bounded n_genes pairs marks n k). Qed.
Print Assumptions c12_batch_iterations_bounded.

(* ---------------- non-vacuity for k > 1 ---------------- *)
(* the table of DESIGN B.3 (ex_pd above), n = 1, k = 2: one batch [2;0] and the loop stops; n = 2:
   k = 2 takes [2;0] then [1;3] (or [3;1]: a tie), k = 4 takes all four in ONE batch, genes of
   utility 2 first; [0;1;2;3] is not a batch the loop can pop (gene 1 before gene 2) *)
Example ex_batch_k2 :
  kres_chosen (replayk 4 [0; 1] (marks_of ex_pd) 1 2 [] [[2; 0]]) = Some [2; 0] /\
  kres_chosen (replayk 4 [0; 1] (marks_of ex_pd) 2 2 [] [[2; 0]; [1; 3]]) = Some [2; 0; 1; 3] /\
  kres_chosen (replayk 4 [0; 1] (marks_of ex_pd) 2 2 [] [[2; 0]; [3; 1]]) = Some [2; 0; 3; 1].
Proof. vm_compute. repeat split; reflexivity. Qed.
Example ex_batch_k4 :
  kres_chosen (replayk 4 [0; 1] (marks_of ex_pd) 2 4 [] [[0; 2; 1; 3]]) = Some [0; 2; 1; 3] /\
  replayk 4 [0; 1] (marks_of ex_pd) 2 4 [] [[0; 1; 2; 3]] = KIllegal 0 /\
  replayk 4 [0; 1] (marks_of ex_pd) 2 3 [] [[2; 0; 3]] = KNotFinished.
Proof. vm_compute. repeat split; reflexivity. Qed.
(* an illegal batch (gene 1 does not have maximal utility among the members left) is refused *)
Example ex_batch_illegal :
  replayk 4 [0; 1] (marks_of ex_pd) 1 2 [] [[2; 1]] = KIllegal 0.
Proof. vm_compute. reflexivity. Qed.
(* over-coverage in one direction only (the docstring's "unnecessary over coverage"): one pair, three
   markers each way, n = 1, k = 2: the batch [5;4] takes two DOWN markers, the pair then holds
   2 = 2n and the loop stops without any up-marker; with k = 1 the run is [5;2] *)
Example ex_batch_one_sided :
  kres_chosen (replayk 6 [0] (marks_of [([3; 4; 5], [0; 1; 2])]) 1 2 [] [[5; 4]]) = Some [5; 4] /\
  kres_chosen (replayk 6 [0] (marks_of [([3; 4; 5], [0; 1; 2])]) 1 1 [] [[5]; [2]]) = Some [5; 2].
Proof. vm_compute. split; reflexivity. Qed.
(* the three tables on which the unrepaired code went wrong (F23, F24, F25), n = 2, k = 2.
   F23: one pair with up-markers 0,1,2, gene 3 marks nothing.  Batch [2;1], then - the pair is not
   filled - the SHORT batch [0]: gene 3 has utility 0 and stays out (the old code popped [0;3]; that
   batch is now refused); spec_c12 holds on [2;1;0].
   F24: the same table without gene 3: second batch [0], then the list is empty: the batch stops (the
   old code raised IndexError), the loop breaks on max utility <= 0.
   F25: pairs a|b {0,1,2}, a|c {3,4}, b|c {}: 3 and 4 are taken by the desperate phase, the first update
   fills a|c (re-sort: the list holds 3 and 4 again, utility -1); batches [2;1] and [0] - the candidate
   after 0 is a chosen gene of utility -1: stop (the old code raised "chose gene 4 twice") *)
Example ex_batch_f23 :
  kres_chosen (replayk 4 [0] (marks_of [([], [0; 1; 2])]) 2 2 [] [[2; 1]; [0]]) = Some [2; 1; 0] /\
  replayk 4 [0] (marks_of [([], [0; 1; 2])]) 2 2 [] [[2; 1]; [0; 3]] = KIllegal 1 /\
  spec_c12 4 [0] (marks_of [([], [0; 1; 2])]) 2 [2; 1; 0] = true /\
  spec_c12 4 [0] (marks_of [([], [0; 1; 2])]) 2 [2; 1; 0; 3] = false.
Proof. vm_compute. repeat split; reflexivity. Qed.
Example ex_batch_f24 :
  kres_chosen (replayk 3 [0] (marks_of [([], [0; 1; 2])]) 2 2 [] [[2; 1]; [0]]) = Some [2; 1; 0].
Proof. vm_compute. reflexivity. Qed.
Example ex_batch_f25 :
  kres_chosen (replayk 5 [0; 1; 2] (marks_of [([], [0; 1; 2]); ([], [3; 4]); ([], [])]) 2 2 [3; 4] [[2; 1]; [0]])
    = Some [3; 4; 2; 1; 0] /\
  replayk 5 [0; 1; 2] (marks_of [([], [0; 1; 2]); ([], [3; 4]); ([], [])]) 2 2 [3; 4] [[2; 1]; [0; 4]] = KIllegal 1.
Proof. vm_compute. split; reflexivity. Qed.
(* a short batch is legal ONLY when nothing useful is left: [2] alone is refused while 0 is available *)
Example ex_batch_short_illegal :
  replayk 4 [0; 1] (marks_of ex_pd) 2 2 [] [[2]; [0]; [1; 3]] = KIllegal 0.
Proof. vm_compute. reflexivity. Qed.
(* the deterministic instance on the three tables: `break` *)
Example ex_greedyk :
  (match greedyk 4 [0] (marks_of [([], [0; 1; 2])]) 2 2 5 (start 4 [0] (marks_of [([], [0; 1; 2])]) 2)
                 (pool0 4 [0] (marks_of [([], [0; 1; 2])]) 2) with GDone st => chosen st | _ => [] end) = [0; 1; 2] /\
  (match greedyk 3 [0] (marks_of [([], [0; 1; 2])]) 2 2 4 (start 3 [0] (marks_of [([], [0; 1; 2])]) 2)
                 (pool0 3 [0] (marks_of [([], [0; 1; 2])]) 2) with GDone st => chosen st | _ => [] end) = [0; 1; 2] /\
  (match greedyk 5 [0; 1; 2] (marks_of [([], [0; 1; 2]); ([], [3; 4]); ([], [])]) 2 2 6
                 (start 5 [0; 1; 2] (marks_of [([], [0; 1; 2]); ([], [3; 4]); ([], [])]) 2)
                 (pool0 5 [0; 1; 2] (marks_of [([], [0; 1; 2]); ([], [3; 4]); ([], [])]) 2) with GDone st => chosen st | _ => [] end)
    = [3; 4; 0; 1; 2].
Proof. vm_compute. repeat split; reflexivity. Qed.
