(* C12 — selected query markers cover every cluster pair as far as possible.
   Property theorems only: each is closed by `exact <lemma>`.
   Model: Model/Selection.v (_run_selection of marker_selection/selection.py: slots
   (pair, direction), the state (chosen, counts, aggregate, filled, utility), update_filled,
   the desperate phase, one loop iteration `step st g` that is legal only when g is an
   unchosen gene of maximal utility — the tie order of np.argsort is an input, the theorems
   quantify over EVERY legal choice sequence `trace`). *)
From Coq Require Import ZArith List Bool Arith Permutation.
From CTM Require Import Base.Sx Base.SortX Model.Tree Model.Selection Proofs.SelectionP.
From CTM Require Import Proofs.SelectionPickP Proofs.SelectionDownP Proofs.SelectionNamesP.   (* block "audit repair" below *)
From CTM Require Import Model.SelectionK Proofs.SelectionKP Proofs.SelectionKSafeP.   (* every genes_at_a_time: section at the end *)
From CTM Require Import Proofs.SelectionPickKP Proofs.SelectionPickKOrderP.          (* BLOCK "audit 3, A10" at the very end *)
Import ListNotations.
Open Scope nat_scope.

(* the invariant of the loop, at the end of every legal run: stored counts = number of chosen
   genes marking the slot; aggregate = sum of the two directions; stored utility of an unchosen
   gene = number of UNFILLED slots of the parent it marks; chosen genes carry a negative
   utility; a slot is flagged filled only if it is a slot of the parent and one of the three
   filling conditions holds (target reached where both directions could reach it / every
   marker taken / pair holds twice the target) *)
Theorem c12_invariant : forall n_genes pairs marks n trace st,
  run n_genes pairs marks n (start n_genes pairs marks n) trace = Some st ->
  (forall s, counts st s = cnt marks (chosen st) s) /\
  (forall p, aggr st p = counts st (p, false) + counts st (p, true)) /\
  (forall g, ~ In g (chosen st) -> utility st g = Z.of_nat (util pairs marks (filled st) g)) /\
  (forall g, In g (chosen st) -> (utility st g < 0)%Z) /\
  (forall s, filled st s = true -> In s (slots pairs) /\ fillable n_genes marks n st s).
Proof. exact invariant. Qed.
Print Assumptions c12_invariant.

(* ... and it is an invariant of the loop proper: J (Proofs/SelectionP.v: the five clauses above plus
   NoDup chosen, chosen genes < n_genes, every chosen gene marks a slot of the parent) holds when
   `while True` is entered (after the first fill pass and the desperate phase) and is preserved by
   every legal iteration *)
Theorem c12_invariant_initially : forall n_genes pairs marks n,
  J n_genes pairs marks n (start n_genes pairs marks n).
Proof. exact J_start. Qed.
Print Assumptions c12_invariant_initially.

Theorem c12_invariant_preserved : forall n_genes pairs marks n st g st',
  J n_genes pairs marks n st -> step n_genes pairs marks n st g = Some st' -> J n_genes pairs marks n st'.
Proof. exact J_step. Qed.
Print Assumptions c12_invariant_preserved.

(* `filled` only grows along a step *)
Theorem c12_filled_monotone : forall n_genes pairs marks n st g st' s,
  step n_genes pairs marks n st g = Some st' -> filled st s = true -> filled st' s = true.
Proof. exact filled_monotone. Qed.
Print Assumptions c12_filled_monotone.

(* termination: every legal run makes at most n_genes + 1 passes through `while True`
   (|trace| choices + the pass that breaks) ... *)
Theorem c12_terminates : forall n_genes pairs marks n trace st,
  run n_genes pairs marks n (start n_genes pairs marks n) trace = Some st ->
  length trace + 1 <= n_genes + 1.
Proof. exact iterations_bounded. Qed.
Print Assumptions c12_terminates.

(* ... the loop never gets stuck (while it has not stopped there is a legal choice), and the
   fuelled deterministic instance (first gene of maximal utility) stops within n_genes + 1
   passes: its out-of-fuel branch is unreachable and its result is a legal run *)
Theorem c12_progress : forall n_genes pairs marks n st,
  J n_genes pairs marks n st ->
  finished n_genes pairs (update_filled n_genes pairs marks n st) = false ->
  exists g st', step n_genes pairs marks n st g = Some st'.
Proof. exact progress. Qed.
Print Assumptions c12_progress.

Theorem c12_terminates_fuel : forall n_genes pairs marks n,
  exists st trace,
    greedy n_genes pairs marks n (S n_genes) (start n_genes pairs marks n) = Some st /\
    run n_genes pairs marks n (start n_genes pairs marks n) trace = Some st.
Proof. exact terminates. Qed.
Print Assumptions c12_terminates_fuel.

Theorem c12_no_duplicates : forall n_genes pairs marks n trace st,
  run n_genes pairs marks n (start n_genes pairs marks n) trace = Some st -> NoDup (chosen st).
Proof. exact no_duplicates. Qed.
Print Assumptions c12_no_duplicates.

(* every selected gene is a gene of the thinned array (= a reference gene present in the
   query) and a reference marker of at least one pair the parent must discriminate
   (genes_at_a_time = 1) *)
Theorem c12_only_useful_genes : forall n_genes pairs marks n trace st,
  run n_genes pairs marks n (start n_genes pairs marks n) trace = Some st ->
  forall g, In g (chosen st) -> g < n_genes /\ exists p d, In p pairs /\ marks g (p, d) = true.
Proof. exact only_useful_genes. Qed.
Print Assumptions c12_only_useful_genes.

(* a parent with no pair to discriminate gets no marker (and the loop makes no choice).
   HONEST LABEL: this is about the MODEL of _run_selection on an empty taxonomy_idx_array; the real
   _run_selection raises there (ValueError: zero-size array to reduction operation minimum, in
   _stats_from_marker_counts; part (D) of harness/props/c12_downsample.py makes that call on every run
   and publishes the outcome as run_selection_on_no_pairs).  The [] of
   the pipeline comes from the short-circuit `if len(leaves) == 0` of select_all_markers /
   _marker_selection_worker, which is modelled by select_parent: c12_parent_short_circuit and
   c12_parent_run_has_pairs (the loop is only ever entered with pairs <> []) in the block at the end
   of this part.  Every other run theorem of this file is used by the pipeline only with pairs <> []. *)
Theorem c12_nothing_to_discriminate : forall n_genes marks n trace st,
  run n_genes [] marks n (start n_genes [] marks n) trace = Some st -> chosen st = [] /\ trace = [].
Proof. exact nothing_to_discriminate. Qed.
Print Assumptions c12_nothing_to_discriminate.

(* coverage: for EVERY legal choice sequence reaching `finished`, every pair of the parent is
   marked by at least min(2n, available) selected genes, available = number of genes of the
   thinned array (reference markers present in the query) that mark the pair.
   The hypothesis no_gene_both_ways: no gene is an up- and a down-marker of one pair (C11;
   asserted by marker_mask_from_pair_idx; checked on every generated table) — without it the
   aggregate counts such a gene twice. *)
Theorem c12_coverage : forall n_genes pairs marks n trace st,
  no_gene_both_ways marks ->
  run n_genes pairs marks n (start n_genes pairs marks n) trace = Some st ->
  forall p, In p pairs ->
    Nat.min (2 * n) (covered marks (genes n_genes) p) <= covered marks (chosen st) p.
Proof. exact coverage. Qed.
Print Assumptions c12_coverage.

(* the hypothesis is decidable on a concrete table: the boolean the harness evaluates on every
   generated (thinned) table implies it *)
Theorem c12_hypothesis_checkable : forall pd,
  both_ways_free pd = true -> no_gene_both_ways (marks_of pd).
Proof. exact both_ways_free_sound. Qed.
Print Assumptions c12_hypothesis_checkable.

(* the executable statement spec_c12 that the harness evaluates on the lists returned by the
   implementation (no duplicates; every gene a gene of the thinned array marking a slot of the
   parent; coverage >= min(2n, available) per pair) holds on the result of every legal run *)
Theorem c12_spec_holds : forall n_genes pairs marks n trace st,
  no_gene_both_ways marks ->
  run n_genes pairs marks n (start n_genes pairs marks n) trace = Some st ->
  spec_c12 n_genes pairs marks n (chosen st) = true.
Proof. exact spec_holds. Qed.
Print Assumptions c12_spec_holds.

(* the order in which the pairs are indexed is irrelevant: a legal run under one order is a
   legal run WITH THE SAME CHOICE SEQUENCE under any permutation of the pairs; the selected
   SET, the per-slot counts, the aggregate, the filled flags AND THE UTILITY ARRAY coincide - at the
   end and AT EVERY PREFIX of the run (steps = the first k iterations of `while True`); the two
   marker_gene_name_lists are the two desperate prefixes (permutations of each other: only the order
   in which the desperate phase emits its genes differs) followed by the same k choices.
   Consequence (c12_pick_function_order_irrelevant below): whatever deterministic rule breaks the
   ties by looking at the utility arrays seen so far and at WHICH genes were taken, it sees the same
   data under both orders and makes the same choices. *)
Theorem c12_pair_order_irrelevant : forall n_genes marks n pairs pairs',
  Permutation pairs pairs' -> forall trace st,
  run n_genes pairs marks n (start n_genes pairs marks n) trace = Some st ->
  (exists st', run n_genes pairs' marks n (start n_genes pairs' marks n) trace = Some st' /\
               Permutation (chosen st) (chosen st') /\
               (forall s, counts st s = counts st' s) /\ (forall s, filled st s = filled st' s) /\
               (forall p, aggr st p = aggr st' p) /\ (forall g, utility st g = utility st' g)) /\
  forall k, exists sk sk',
    steps n_genes pairs marks n (start n_genes pairs marks n) (firstn k trace) = Some sk /\
    steps n_genes pairs' marks n (start n_genes pairs' marks n) (firstn k trace) = Some sk' /\
    chosen sk = chosen (start n_genes pairs marks n) ++ firstn k trace /\
    chosen sk' = chosen (start n_genes pairs' marks n) ++ firstn k trace /\
    Permutation (chosen (start n_genes pairs marks n)) (chosen (start n_genes pairs' marks n)) /\
    (forall s, counts sk s = counts sk' s) /\ (forall s, filled sk s = filled sk' s) /\
    (forall p, aggr sk p = aggr sk' p) /\ (forall g, utility sk g = utility sk' g).
Proof. exact pair_order_irrelevant_prefix. Qed.
Print Assumptions c12_pair_order_irrelevant.

(* HONEST LABEL (audit defect 3): `greedy` breaks ties by taking the FIRST gene of maximal utility.
   That is NOT what the code does (it pops the tail of a possibly stale np.argsort: Example
   ex_python_is_not_first_max below), so this theorem says nothing about the code's own choices.
   It is kept as the instance pick = pick_first_max (c12_greedy_is_pick_instance) of
   c12_pick_function_order_irrelevant, which covers the code's rule (pick_pop, for ANY argsort). *)
Theorem c12_greedy_order_irrelevant : forall n_genes marks n pairs pairs',
  Permutation pairs pairs' -> forall fuel st,
  greedy n_genes pairs marks n fuel (start n_genes pairs marks n) = Some st ->
  exists st', greedy n_genes pairs' marks n fuel (start n_genes pairs' marks n) = Some st' /\
              Permutation (chosen st) (chosen st').
Proof. exact greedy_order_irrelevant. Qed.
Print Assumptions c12_greedy_order_irrelevant.

(* HONEST LABEL: by construction of the model (parent_idx ... true is nat_sort of parent_idx ... false,
   and a sorted list is a permutation of the list).  It says nothing about the downsampled TABLE of a
   non-behemoth parent; that is c12_downsample_preserves_marks / c12_threshold_irrelevant below. *)
Theorem c12_behemoth_order_is_permutation : forall rm t parent i1 i2,
  parent_idx rm t parent true = Some i1 -> parent_idx rm t parent false = Some i2 -> Permutation i1 i2.
Proof. exact parent_idx_perm. Qed.
Print Assumptions c12_behemoth_order_is_permutation.

(* "occur in the query" / "available in the query": the table the loop works on is the file's table
   thinned to the query genes. Gene j of the thinned array is reference gene keep[j], where keep
   lists (in reference order) exactly the reference genes whose name occurs in the query; it is
   listed for a pair and a direction iff that reference gene is listed there in the file; the pairs
   and their positions are untouched *)
Theorem c12_thinning_sound : forall rm query,
  NoDup (rm_genes rm) ->      (* gene names of the file are distinct: outside this the model is not tied
                                 (match_genes goes through a set and a name -> index dict) *)
  let keep := keep_idx rm query in
  NoDup (rm_genes (thin_genes rm query)) /\
  rm_genes (thin_genes rm query) = map (fun i => nth i (rm_genes rm) 0%Z) keep /\
  (forall i, In i keep <-> i < length (rm_genes rm) /\ In (nth i (rm_genes rm) 0%Z) query) /\
  length (rm_pairs (thin_genes rm query)) = length (rm_pairs rm) /\
  forall k e, nth_error (rm_pairs rm) k = Some e ->
    exists e', nth_error (rm_pairs (thin_genes rm query)) k = Some e' /\ fst e' = fst e /\
      (forall j, In j (fst (snd e')) <-> exists i, nth_error keep j = Some i /\ In i (fst (snd e))) /\
      (forall j, In j (snd (snd e')) <-> exists i, nth_error keep j = Some i /\ In i (snd (snd e))).
Proof. exact thinning_sound_nodup. Qed.
Print Assumptions c12_thinning_sound.

(* ---------------- non-vacuity: 4 genes, 2 pairs (the table of DESIGN B.3) ---------------- *)
Definition ex_pd : list (list nat * list nat) := [([1], [0; 2]); ([0], [2; 3])].
Example ex_both_ways : both_ways_free ex_pd = true.
Proof. reflexivity. Qed.
Example ex_hypothesis : no_gene_both_ways (marks_of ex_pd).
Proof. apply both_ways_free_sound. reflexivity. Qed.
(* n = 1: no pair is desperate (both have 3 markers); [2; 0] is a legal run that stops exactly there
   (both pairs then hold 2 = 2n markers), [0; 1; 2] is another *)
Example ex_run_n1 :
  option_map (fun st => chosen st) (run 4 [0; 1] (marks_of ex_pd) 1 (start 4 [0; 1] (marks_of ex_pd) 1) [2; 0])
  = Some [2; 0].
Proof. vm_compute. reflexivity. Qed.
Example ex_run_n1' :
  option_map (fun st => chosen st) (run 4 [0; 1] (marks_of ex_pd) 1 (start 4 [0; 1] (marks_of ex_pd) 1) [0; 1; 2])
  = Some [0; 1; 2].
Proof. vm_compute. reflexivity. Qed.
(* an illegal choice (gene 3 does not maximise the utility) is refused *)
Example ex_illegal :
  run 4 [0; 1] (marks_of ex_pd) 1 (start 4 [0; 1] (marks_of ex_pd) 1) [3] = None.
Proof. vm_compute. reflexivity. Qed.
(* the two pair orders: same choice sequence accepted, n = 3 makes both pairs desperate and the
   desperate phase emits [0;1;2;3] under one order and [0;2;3;1] under the other *)
Example ex_order :
  (chosen (start 4 [0; 1] (marks_of ex_pd) 3), chosen (start 4 [1; 0] (marks_of ex_pd) 3))
  = ([0; 1; 2; 3], [0; 2; 3; 1]).
Proof. vm_compute. reflexivity. Qed.
(* coverage is tight: with n = 1 the run [2; 0] leaves pair 0 with exactly 2 = min(2n, 3) markers *)
Example ex_coverage_tight :
  option_map (fun st => (covered (marks_of ex_pd) (chosen st) 0, covered (marks_of ex_pd) (genes 4) 0))
             (run 4 [0; 1] (marks_of ex_pd) 1 (start 4 [0; 1] (marks_of ex_pd) 1) [2; 0]) = Some (2, 3).
Proof. vm_compute. reflexivity. Qed.
(* the hypothesis of c12_coverage is needed: a table (outside the quantifier - the reference-marker
   writer never produces it) in which gene 0 marks pair 0 both ways; n = 1: the loop takes gene 0,
   the aggregate is 2 = 2n, the pair counts as done with ONE selected marker although 3 are available *)
Example ex_hypothesis_needed :
  let pd := [([0], [0; 1; 2])] in
  both_ways_free pd = false /\
  option_map (fun st => (chosen st, covered (marks_of pd) (chosen st) 0, covered (marks_of pd) (genes 3) 0))
             (run 3 [0] (marks_of pd) 1 (start 3 [0] (marks_of pd) 1) [0]) = Some ([0], 1, 3).
Proof. vm_compute. split; reflexivity. Qed.
(* thinning: reference genes 10..14, query {13, 11, 99}: genes 1 and 3 are kept and renumbered 0, 1 *)
Example ex_thin :
  let rm := {| rm_genes := [10; 11; 12; 13; 14]%Z; rm_pairs := [((0, 1)%Z, ([1; 2], [3; 4]))] |} in
  (keep_idx rm [13; 11; 99]%Z, rm_pairs (thin_genes rm [13; 11; 99]%Z)) = ([1; 3], [((0, 1)%Z, ([0], [1]))]).
Proof. vm_compute. reflexivity. Qed.

(* ====================================================================================================
   BLOCK "audit repair" (report2.md defects 3, 9, 10).  Model: the additions at the end of
   Model/Selection.v (steps, run_with / select_with, pick_first_max / pick_of_trace / pick_pop,
   downsample_pairs, n_per_for, select_parent).  Proofs: SelectionPickP, SelectionDownP, SelectionNamesP.
   Tie: harness/props/c12_downsample.py (tags 1260-1263).
   ==================================================================================================== *)

(* ---------------- defect 3 (i): the tie-break the code really uses ----------------
   select_with pick = _run_selection with the gene of every iteration named by the rule `pick`.  A rule
   sees, for every call of _update_been_filled so far, (was sorted_utility_idx recomputed, the utility
   array after the call, marker_gene_name_list at the call) and marker_gene_name_list now; every
   choice is checked by `step`, so a completed select_with is a legal run and every theorem above
   applies to it: *)
Theorem c12_select_with_is_legal_run : forall n_genes pairs marks n pick st,
  select_with n_genes pairs marks n pick = WDone st ->
  exists trace, run n_genes pairs marks n (start n_genes pairs marks n) trace = Some st /\
                chosen st = chosen (start n_genes pairs marks n) ++ trace.
Proof. exact select_with_is_run. Qed.
Print Assumptions c12_select_with_is_legal_run.

(* For EVERY rule that does not look at the ORDER of the chosen lists (pick_respects, SelectionPickP.v:
   equal flags and utility arrays + chosen lists that are permutations of each other give the same
   answer), the two pair orders give the same outcome; on `break`: the SAME choice sequence in the loop,
   the same selected set, counts, flags and utility array.  numpy's rule is such a rule for ANY
   argsort (c12_rules_respect: pick_pop sorter, sorter an arbitrary function of the array - stale list
   or not); so are the model's first_max and a recorded trace.  The hypothesis cannot be dropped
   (ex_order_peeking_rule): the desperate phase emits its genes in the order of the pairs. *)
Theorem c12_pick_function_order_irrelevant : forall n_genes marks n pairs pairs' pick,
  Permutation pairs pairs' -> pick_respects pick ->
  match select_with n_genes pairs marks n pick, select_with n_genes pairs' marks n pick with
  | WDone st, WDone st' =>
      (exists trace, chosen st = chosen (start n_genes pairs marks n) ++ trace /\
                     chosen st' = chosen (start n_genes pairs' marks n) ++ trace /\
                     run n_genes pairs marks n (start n_genes pairs marks n) trace = Some st /\
                     run n_genes pairs' marks n (start n_genes pairs' marks n) trace = Some st') /\
      Permutation (chosen st) (chosen st') /\
      (forall s, counts st s = counts st' s) /\ (forall s, filled st s = filled st' s) /\
      (forall g, utility st g = utility st' g)
  | WIllegal g, WIllegal g' => g = g'
  | WStuck, WStuck => True
  | WOutOfFuel, WOutOfFuel => True
  | _, _ => False
  end.
Proof. exact pick_function_order_irrelevant. Qed.
Print Assumptions c12_pick_function_order_irrelevant.

(* NOTE (audit 3, A10): `sorter` is ANY function here, so for a non-sort the theorem above only says
   WIllegal g = WIllegal g.  That a GENUINE argsort gives a legal run that completes (WDone) is
   c12_numpy_rule_is_legal in the block at the end of this file. *)
Theorem c12_rules_respect :
  pick_respects pick_first_max /\ (forall sorter, pick_respects (pick_pop sorter)) /\
  (forall nd trace, pick_respects (pick_of_trace nd trace)).
Proof. exact rules_respect. Qed.
Print Assumptions c12_rules_respect.

(* `greedy` is the instance pick = pick_first_max ... *)
Theorem c12_greedy_is_pick_instance : forall n_genes pairs marks n,
  wres_opt (select_with n_genes pairs marks n pick_first_max) =
  greedy n_genes pairs marks n (S n_genes) (start n_genes pairs marks n).
Proof. exact greedy_is_select_with. Qed.
Print Assumptions c12_greedy_is_pick_instance.

(* ... and every legal recorded choice sequence (what the harness replays: the lists returned by the
   real _run_selection) is the instance pick = "read the next gene off the record" *)
Theorem c12_recorded_trace_is_pick_instance : forall n_genes pairs marks n trace st,
  run n_genes pairs marks n (start n_genes pairs marks n) trace = Some st ->
  select_with n_genes pairs marks n (pick_of_trace (length (chosen (start n_genes pairs marks n))) trace) = WDone st.
Proof. exact trace_is_select_with. Qed.
Print Assumptions c12_recorded_trace_is_pick_instance.

(* ---------------- defect 3 (ii): the downsampled table of a non-behemoth parent ----------------
   downsample_pairs rm keep = MarkerGeneArray.downsample_pairs_to_other(only_keep_pairs=keep) on the
   thinned array: same genes; the kept keys, in the given order, are found again at the local numbers
   0..m-1 (so _get_taxonomy_idx returns 0..m-1); and local pair k carries EXACTLY the marks of the
   global pair idx[k] of the full array, for every gene and both directions.  NoDup keep:
   leaves_to_compare(parent) has no repetition (c10_leaf_pairs_exact). *)
Theorem c12_downsample_preserves_marks : forall rm keep arr,
  NoDup keep -> downsample_pairs rm keep = Some arr ->
  rm_genes arr = rm_genes rm /\
  map fst (rm_pairs arr) = keep /\
  exists idx,
    opt_all (map (fun pr => idx_of_pair pr (rm_pairs rm) 0) keep) = Some idx /\
    opt_all (map (fun pr => idx_of_pair pr (rm_pairs arr) 0) keep) = Some (seq 0 (length keep)) /\
    length idx = length keep /\
    Forall (fun i => i < length (rm_pairs rm)) idx /\
    forall k i, nth_error idx k = Some i ->
      forall g d, marks_of (pair_tables arr) g (k, d) = marks_of (pair_tables rm) g (i, d).
Proof. exact downsample_preserves_marks. Qed.
Print Assumptions c12_downsample_preserves_marks.

(* the whole of _run_selection commutes with such a renumbering, and with the sort: for two index
   arrays and two tables related as above, every rule gives the same selection (sel_same d d' r r',
   SelectionDownP.v: same outcome; on `break` chosen = d ++ t and d' ++ t with the SAME t, d and d'
   permutations of each other, the same selected set and the same utility array) *)
Theorem c12_threshold_core : forall n_genes n pick marksB marksD idx idxB idxD,
  pick_respects pick ->
  (forall g k d, k < length idx -> marksD g (k, d) = marksB g (nth k idx 0, d)) ->
  Permutation idxB idx -> Permutation idxD (seq 0 (length idx)) ->
  sel_same (chosen (start n_genes idxB marksB n)) (chosen (start n_genes idxD marksD n))
           (select_with n_genes idxB marksB n pick) (select_with n_genes idxD marksD n pick).
Proof. exact threshold_core. Qed.
Print Assumptions c12_threshold_core.

(* hence: one parent, treated as a behemoth (spawn_copy: full table, sorted global pair numbers) or not
   (downsample_pairs_to_other: its own pairs, local numbers) - select_parent ... true / false - gets the
   same selection for every rule; also the same short-circuit and the same errors
   (parent_res_same, SelectionDownP.v, names the two arrays and index arrays and applies sel_same) *)
Theorem c12_threshold_irrelevant : forall pick rm query t parent n,
  pick_respects pick -> NoDup (leaf_pairs t parent) ->
  parent_res_same (thin_genes rm query) t parent n
    (select_parent pick rm query t parent true n) (select_parent pick rm query t parent false n).
Proof. exact threshold_irrelevant. Qed.
Print Assumptions c12_threshold_irrelevant.

(* ---------------- defect 10: totalisations ---------------- *)
(* marks_of answers `false` for a pair number beyond the table where Python would raise IndexError:
   never exercised - every pair number _get_taxonomy_idx produces is in range *)
Theorem c12_parent_idx_in_range : forall rm t parent b idx,
  parent_idx rm t parent b = Some idx -> Forall (fun i => i < length (rm_pairs rm)) idx.
Proof. exact parent_idx_in_range. Qed.
Print Assumptions c12_parent_idx_in_range.

(* pairs = []: the pipeline never calls _run_selection (by construction of select_parent, which copies
   `if len(leaves) == 0: output_dict[parent] = []`; the content is in the tie, tag 1261) ... *)
Theorem c12_parent_short_circuit : forall pick rm query t parent bh n,
  keep_idx rm query <> [] -> leaf_pairs t parent = [] ->
  select_parent pick rm query t parent bh n = PSkip.
Proof. exact parent_short_circuit. Qed.
Print Assumptions c12_parent_short_circuit.

(* ... and whenever it does call it, taxonomy_idx_array is non-empty and in range, on an array with the
   genes of the thinned file *)
Theorem c12_parent_run_has_pairs : forall pick rm query t parent bh n ng r,
  select_parent pick rm query t parent bh n = PRun ng r ->
  exists arr idx, idx <> [] /\ Forall (fun i => i < length (rm_pairs arr)) idx /\
    parent_idx arr t parent true = Some idx /\ ng = length (rm_genes arr) /\
    rm_genes arr = rm_genes (thin_genes rm query) /\
    r = select_with ng idx (marks_of (pair_tables arr)) n pick.
Proof. exact parent_run_has_pairs. Qed.
Print Assumptions c12_parent_run_has_pairs.

(* an empty query/reference overlap: RuntimeError("No gene overlap between reference and query set"),
   for every parent - the theorems above about `run 0 ...` are never used by the pipeline *)
Theorem c12_empty_overlap_refused : forall pick rm query t parent bh n,
  (forall g, In g (rm_genes rm) -> ~ In g query) ->
  select_parent pick rm query t parent bh n = PErrOverlap.
Proof. exact empty_overlap_refused. Qed.
Print Assumptions c12_empty_overlap_refused.

Theorem c12_overlap_needed : forall pick rm query t parent bh n,
  select_parent pick rm query t parent bh n <> PErrOverlap ->
  exists g, In g (rm_genes rm) /\ In g query.
Proof. exact overlap_needed. Qed.
Print Assumptions c12_overlap_needed.

(* ---------------- defect 9: C12 about gene NAMES ----------------
   Every gene returned for a parent, by NAME: it is the name of exactly one gene of the reference file,
   that name occurs in the query, and that reference gene is listed in the file as a down- or up-marker
   of a pair (keyed by its two leaf names) that the parent must discriminate.  Composition of
   c12_only_useful_genes with c12_thinning_sound and parent_idx. *)
Theorem c12_selected_names_are_query_markers : forall rm query t parent bh idx n trace st,
  NoDup (rm_genes rm) ->
  let rm' := thin_genes rm query in
  parent_idx rm' t parent bh = Some idx ->
  run (length (rm_genes rm')) idx (marks_of (pair_tables rm')) n
      (start (length (rm_genes rm')) idx (marks_of (pair_tables rm')) n) trace = Some st ->
  forall j, In j (chosen st) ->
    exists name i,
      nth_error (rm_genes rm') j = Some name /\
      In name query /\
      nth_error (rm_genes rm) i = Some name /\ (forall i', nth_error (rm_genes rm) i' = Some name -> i' = i) /\
      exists pr dn up (d : bool), In pr (leaf_pairs t parent) /\ In (pr, (dn, up)) (rm_pairs rm) /\
                                  In i (if d then up else dn).
Proof. exact selected_names_are_query_markers. Qed.
Print Assumptions c12_selected_names_are_query_markers.

(* ---------------- n_per_utility_override ----------------
   this_n_per = n_per_utility_override[chosen_parent] if the parent is a key, else n_per_utility
   (n_per_for).  By construction of the model; the content is in the tie (tag 1261: select_parent with
   n_per_for against select_all_markers with random override tables).  select_parent takes this_n_per
   as its only dependence on the table, so an entry can affect no parent but its own: *)
Theorem c12_override_applies_to_its_parent_only : forall default ov p v,
  n_per_for default ((p, v) :: ov) p = v /\
  forall q, q <> p -> n_per_for default ((p, v) :: ov) q = n_per_for default ov q.
Proof. exact override_applies_to_its_parent_only. Qed.
Print Assumptions c12_override_applies_to_its_parent_only.

Theorem c12_override_absent_is_default : forall default ov p,
  (forall v, ~ In (p, v) ov) -> n_per_for default ov p = default.
Proof. exact override_absent_is_default. Qed.
Print Assumptions c12_override_absent_is_default.

(* ---------------- non-vacuity of the block ---------------- *)
(* the audit's table (4 pairs, 8 genes, n = 2).  The real _run_selection returns g4 g1 g0 g6 g2 g3; the
   np.argsort results of the four utility arrays on which it re-sorted are given as a table.  pick_pop
   reproduces the real list; first_max gives ANOTHER SET; both are legal runs *)
Definition ex_audit_pd : list (list nat * list nat) := [([0], [1; 2; 3]); ([], []); ([4], []); ([1; 5; 6], [0; 4; 7])].
Definition ex_argsort : list (list Z * list nat) :=
  [([2; 2; 1; 1; 2; 1; 1; 1]%Z, [3; 2; 6; 5; 7; 1; 0; 4]);
   ([2; 2; 1; 1; -2; 1; 1; 1]%Z, [4; 3; 5; 2; 6; 7; 0; 1]);
   ([-3; -1; 1; 1; -3; 1; 1; 0]%Z, [0; 4; 1; 7; 3; 2; 5; 6]);
   ([-3; -2; 1; 1; -3; 0; -2; 0]%Z, [0; 4; 6; 1; 5; 7; 3; 2])].
Example ex_python_is_not_first_max :
  wres_chosen (select_with 8 [0; 1; 2; 3] (marks_of ex_audit_pd) 2 (pick_pop (table_sorter ex_argsort))) = Some [4; 1; 0; 6; 2; 3] /\
  wres_chosen (select_with 8 [0; 1; 2; 3] (marks_of ex_audit_pd) 2 pick_first_max) = Some [4; 0; 1; 2; 3; 5] /\
  wres_chosen (select_with 8 [3; 1; 0; 2] (marks_of ex_audit_pd) 2 (pick_pop (table_sorter ex_argsort))) = Some [4; 1; 0; 6; 2; 3].
Proof. vm_compute. repeat split; reflexivity. Qed.
(* a rule that looks at the ORDER of marker_gene_name_list tells the pair orders apart: pairs 0 and 1 are
   desperate (one marker each, n = 1), the desperate prefix is [0;1] or [1;0], genes 2..5 tie *)
Definition ex_peek : pick_fn := fun _ ch =>
  match ch with [0; 1] => Some 3 | [1; 0] => Some 2 | [0; 1; 3] => Some 4 | [1; 0; 2] => Some 4 | _ => None end.
Example ex_order_peeking_rule :
  let pd := [([0], []); ([1], []); ([2; 3], [4; 5])] in
  wres_chosen (select_with 6 [0; 1; 2] (marks_of pd) 1 ex_peek) = Some [0; 1; 3; 4] /\
  wres_chosen (select_with 6 [1; 0; 2] (marks_of pd) 1 ex_peek) = Some [1; 0; 2; 4].
Proof. vm_compute. split; reflexivity. Qed.

(* a reference file with 6 genes and the 3 pairs of 3 leaves; tree: classes 10 = {0, 1}, 11 = {2};
   query = 5 of the 6 genes (shuffled) + a foreign one *)
Definition ex_tree : tree := [[(10, [0; 1]); (11, [2])]; [(0, [100]); (1, [101]); (2, [102])]]%Z.
Definition ex_rm : refmarkers :=
  {| rm_genes := [20; 21; 22; 23; 24; 25]%Z;
     rm_pairs := [((0, 1)%Z, ([0; 5], [1])); ((0, 2)%Z, ([1; 2], [3; 5])); ((1, 2)%Z, ([4], [0]))] |}.
Definition ex_query : list Z := [25; 21; 22; 23; 20; 99]%Z.
(* parent_idx: the root must discriminate (0,2) and (1,2) = global pairs 1 and 2; class 10 the pair (0,1)
   = global pair 0; class 11 (one child) and a leaf nothing *)
Example ex_parent_idx :
  leaf_pairs ex_tree None = [(0, 2); (1, 2)]%Z /\
  parent_idx ex_rm ex_tree None true = Some [1; 2] /\
  parent_idx ex_rm ex_tree (Some (0, 10%Z)) true = Some [0] /\
  parent_idx ex_rm ex_tree (Some (0, 11%Z)) true = Some [] /\        (* a file that lacks the pair (1,2): RuntimeError *)
  parent_idx {| rm_genes := rm_genes ex_rm; rm_pairs := firstn 2 (rm_pairs ex_rm) |} ex_tree None true = None.
Proof. vm_compute. repeat split; reflexivity. Qed.
(* the downsampled array of the root: gene 24 is not in the query (thinning renumbers 25 to 4), the two
   pairs of the root sit at local numbers 0 and 1 *)
Example ex_downsample :
  downsample_pairs (thin_genes ex_rm ex_query) (leaf_pairs ex_tree None) =
    Some {| rm_genes := [20; 21; 22; 23; 25]%Z;
            rm_pairs := [((0, 2)%Z, ([1; 2], [3; 4])); ((1, 2)%Z, ([], [0]))] |} /\
  NoDup (leaf_pairs ex_tree None) /\ NoDup (rm_genes ex_rm).
Proof.
  split; [vm_compute; reflexivity|]. split.
  - vm_compute. repeat constructor; cbn; intuition discriminate.
  - vm_compute. repeat constructor; cbn; intuition discriminate.
Qed.
(* behemoth or not: the same three genes (thinned indices 0, 1, 3 = names 20, 21, 23); the short-circuit
   for class 11; the refusal of a query without any reference gene *)
Example ex_select_parent :
  select_parent pick_first_max ex_rm ex_query ex_tree (Some (0, 11%Z)) true 1 = PSkip /\
  select_parent pick_first_max ex_rm [77%Z] ex_tree None false 1 = PErrOverlap /\
  (match select_parent pick_first_max ex_rm ex_query ex_tree None true 1 with
   | PRun ng r => Some (ng, wres_chosen r) | _ => None end) = Some (5, Some [0; 1; 3]) /\
  (match select_parent pick_first_max ex_rm ex_query ex_tree None false 1 with
   | PRun ng r => Some (ng, wres_chosen r) | _ => None end) = Some (5, Some [0; 1; 3]).
Proof. vm_compute. repeat split; reflexivity. Qed.
(* a desperate pair carried through to coverage: pair 0 has ONE marker (gene 0) and n = 2, so it is
   desperate: gene 0 is taken before the loop, pair 0 ends with 1 = min(2n, 1) selected markers, pair 1
   (3 down, 3 up) with 4 = min(2n, 6) *)
Example ex_desperate_coverage :
  let pd := [([0], []); ([1; 2; 3], [4; 5; 6])] in
  let m := marks_of pd in
  chosen (start 7 [0; 1] m 2) = [0] /\
  option_map (fun st => (chosen st, covered m (chosen st) 0, covered m (genes 7) 0,
                                    covered m (chosen st) 1, covered m (genes 7) 1))
             (run 7 [0; 1] m 2 (start 7 [0; 1] m 2) [1; 2; 4; 5]) = Some ([0; 1; 2; 4; 5], 1, 1, 4, 6) /\
  both_ways_free pd = true.
Proof. vm_compute. repeat split; reflexivity. Qed.
(* the override table: class 10 gets 3, the root and class 11 the default 1 *)
Example ex_override :
  let ov := [(Some (0, 10%Z), 3)] in
  (n_per_for 1 ov (Some (0, 10%Z)), n_per_for 1 ov None, n_per_for 1 ov (Some (0, 11%Z))) = (3, 1, 1).
Proof. reflexivity. Qed.
(* end of BLOCK "audit repair" *)

(* ====================================================================================================
   EVERY genes_at_a_time = k >= 1 (Model/SelectionK.v; the theorems above are the case k = 1).
   One iteration of `while True` = update of been_filled / utility (the list sorted_utility_idx is
   re-sorted - and then holds every gene again, chosen ones included - only if a slot was newly
   filled), the two `break`s, then AT MOST k pops of the LAST element of the list with nothing
   recomputed in between: _choose_gene stops the batch as soon as the list is empty or its last
   element has utility <= 0 (repair of F23/F24/F25; before it a batch popped k entries whatever their
   utility, selected genes marking nothing, raised IndexError on the empty list and RuntimeError
   "chose gene twice" on a re-sorted one).
   `popk`/`stepk`/`runk`/`replayk` take the genes popped, grouped per iteration, as input; a pop is
   legal iff the gene is a member of the list of maximal utility among the members and that utility is
   positive; a batch shorter than k is legal iff no member left has a positive utility.
   Outcomes: KDone (break); KRaise (KTwice g) (the statement `raise RuntimeError: chose gene g twice`
   that is still in _choose_one_gene) - proved unreachable below.  IndexError is not an outcome any
   more: pop(-1) is executed on a non-empty list only.
   ==================================================================================================== *)

(* k = 1 is exactly the model of Selection.v: from any state satisfying the loop invariant (JK = J
   without "every chosen gene marks a slot") with a list holding every unchosen gene (PI), the
   batched loop fed with singleton batches accepts exactly the choice sequences `run` accepts, with
   the same final state (the early stop never fires on the first pop of a batch) ... *)
Theorem c12_batch_one_is_step : forall n_genes pairs marks n trace st pool i,
  JK n_genes pairs marks n st -> PI n_genes st pool ->
  kres_opt (runk n_genes pairs marks n 1 st pool (map (fun g => [g]) trace) i) = run n_genes pairs marks n st trace.
Proof. exact batch_one_is_run. Qed.
Print Assumptions c12_batch_one_is_step.

(* ... the state and list at the entry of `while True` satisfy both (and the full invariant J) ... *)
Theorem c12_batch_initially : forall n_genes pairs marks n,
  JK n_genes pairs marks n (start n_genes pairs marks n) /\
  PI n_genes (start n_genes pairs marks n) (pool0 n_genes pairs marks n).
Proof. intros. split; [apply JK_start | apply PI_pool0]. Qed.
Print Assumptions c12_batch_initially.

(* ... and with k = 1 the exception cannot occur, whatever batches are offered *)
Theorem c12_batch_one_never_raises : forall n_genes pairs marks n trace st pool i e,
  JK n_genes pairs marks n st -> PI n_genes st pool ->
  runk n_genes pairs marks n 1 st pool trace i <> KRaise e.
Proof. exact batch_one_never_raises. Qed.
Print Assumptions c12_batch_one_never_raises.

(* every k: a completed run returns a duplicate-free list of genes of the thinned array (= reference
   genes present in the query) *)
Theorem c12_batch_no_duplicates : forall n_genes pairs marks n k prefix batches st,
  replayk n_genes pairs marks n k prefix batches = KDone st ->
  NoDup (chosen st) /\ forall g, In g (chosen st) -> g < n_genes.
Proof. exact batch_no_duplicates. Qed.
Print Assumptions c12_batch_no_duplicates.

(* every k: every selected gene is a gene of the thinned array AND a reference marker of at least one
   pair the parent must discriminate - the full clause, as c12_only_useful_genes for k = 1
   (was c12_batch_in_query_and_marker_refuted before the repair: F23) *)
Theorem c12_batch_in_query_and_marker : forall n_genes pairs marks n k prefix batches st,
  replayk n_genes pairs marks n k prefix batches = KDone st ->
  forall g, In g (chosen st) -> g < n_genes /\ exists p d, In p pairs /\ marks g (p, d) = true.
Proof. exact batch_in_query_and_marker. Qed.
Print Assumptions c12_batch_in_query_and_marker.

(* every k: coverage on termination.  Neither batching nor the early stop of a batch can end the LOOP
   early: the `break`s are evaluated on the freshly updated flags, and a slot is flagged only under
   one of the three filling conditions *)
Theorem c12_batch_coverage : forall n_genes pairs marks n k prefix batches st,
  no_gene_both_ways marks ->
  replayk n_genes pairs marks n k prefix batches = KDone st ->
  forall p, In p pairs ->
    Nat.min (2 * n) (covered marks (genes n_genes) p) <= covered marks (chosen st) p.
Proof. exact batch_coverage. Qed.
Print Assumptions c12_batch_coverage.

(* every k: the executable statement of C12, spec_c12 - the SAME predicate as for k = 1: no
   duplicates; every gene a gene of the thinned array marking a slot of the parent; coverage - holds
   on the result of every completed run ... *)
Theorem c12_batch_full_spec : forall n_genes pairs marks n k prefix batches st,
  no_gene_both_ways marks ->
  replayk n_genes pairs marks n k prefix batches = KDone st ->
  spec_c12 n_genes pairs marks n (chosen st) = true.
Proof. exact batch_full_spec. Qed.
Print Assumptions c12_batch_full_spec.

(* ... and so does its part spec_c12_batch (spec_c12 without the "marks a slot" clause), which the
   harness reports separately *)
Theorem c12_batch_spec_holds : forall n_genes pairs marks n k prefix batches st,
  no_gene_both_ways marks ->
  replayk n_genes pairs marks n k prefix batches = KDone st ->
  spec_c12_batch n_genes pairs marks n (chosen st) = true.
Proof. exact spec_batch_holds. Qed.
Print Assumptions c12_batch_spec_holds.

(* every k: legality of the trace.  A batch has BETWEEN 1 AND k genes, appended in order, pairwise
   distinct; each is a gene of the thinned array that was unchosen when the batch was formed, of
   POSITIVE utility, and no gene unchosen then and not popped earlier in the batch had a larger
   utility - utility = the array when the batch was formed (st1, after this iteration's update); ties
   are the input.  The batch is shorter than k only if it ran out of useful genes: no gene left
   unchosen after it has a positive utility *)
Theorem c12_batch_trace_legal : forall n_genes pairs marks n k st pool batch st' pool',
  JK n_genes pairs marks n st -> PI n_genes st pool ->
  stepk n_genes pairs marks n k st pool batch = SNext st' pool' ->
  let st1 := update_filled n_genes pairs marks n st in
  (1 <= k -> 1 <= length batch) /\ length batch <= k /\
  chosen st' = chosen st ++ batch /\ NoDup batch /\
  (forall b1 g b2, batch = b1 ++ g :: b2 ->
    g < n_genes /\ ~ In g (chosen st) /\ (0 < utility st1 g)%Z /\
    forall h, h < n_genes -> ~ In h (chosen st) -> ~ In h b1 -> (utility st1 h <= utility st1 g)%Z) /\
  (length batch < k -> forall h, h < n_genes -> ~ In h (chosen st') -> (utility st1 h <= 0)%Z).
Proof. exact batch_trace_legal. Qed.
Print Assumptions c12_batch_trace_legal.

(* ... exactly: the length of a batch is min(k, number of genes of positive utility when the batch is
   formed) - it is shorter than k iff fewer than k useful genes are left *)
Theorem c12_batch_length_exact : forall n_genes pairs marks n k st pool batch st' pool',
  JK n_genes pairs marks n st -> PI n_genes st pool ->
  stepk n_genes pairs marks n k st pool batch = SNext st' pool' ->
  length batch = Nat.min k (n_useful n_genes (update_filled n_genes pairs marks n st)).
Proof. exact batch_length_exact. Qed.
Print Assumptions c12_batch_length_exact.

(* the invariants are preserved by every batch: JK and PI ... *)
Theorem c12_batch_invariant_preserved : forall n_genes pairs marks n k st pool b st' pool',
  JK n_genes pairs marks n st -> PI n_genes st pool ->
  stepk n_genes pairs marks n k st pool b = SNext st' pool' ->
  JK n_genes pairs marks n st' /\ PI n_genes st' pool'.
Proof. intros n_genes pairs marks n k. exact (stepk_inv n_genes pairs marks n k). Qed.
Print Assumptions c12_batch_invariant_preserved.

(* ... and the FULL invariant J of the k = 1 loop (every chosen gene marks a slot of the parent) *)
Theorem c12_batch_full_invariant_preserved : forall n_genes pairs marks n k st pool b st' pool',
  J n_genes pairs marks n st -> PI n_genes st pool ->
  stepk n_genes pairs marks n k st pool b = SNext st' pool' ->
  J n_genes pairs marks n st' /\ PI n_genes st' pool'.
Proof. exact stepk_invJ. Qed.
Print Assumptions c12_batch_full_invariant_preserved.

(* EVERY gene of every batch (not only the first) is a reference marker of a slot of the parent that
   was not yet filled when the batch was formed *)
Theorem c12_batch_genes_are_markers : forall n_genes pairs marks n k st pool batch st' pool' g,
  JK n_genes pairs marks n st -> PI n_genes st pool ->
  stepk n_genes pairs marks n k st pool batch = SNext st' pool' -> In g batch ->
  exists s, In s (slots pairs) /\ marks g s = true /\ filled (update_filled n_genes pairs marks n st) s = false.
Proof. intros n_genes pairs marks n k. exact (batch_genes_are_markers n_genes pairs marks n k). Qed.
Print Assumptions c12_batch_genes_are_markers.

(* every k >= 1: the call never raises.  (a) whatever desperate prefix and batches are offered, the
   replay never ends in the exception - the `raise RuntimeError("chose gene twice")` statement is
   unreachable: a gene is popped only if its utility is positive, a chosen gene has utility -1;
   (b) the fuelled deterministic instance (first member of maximal utility, at most k times per pass)
   ends in `break` on EVERY table.
   (were c12_batch_returns_refuted_empty_list / _chosen_twice before the repair: F24, F25) *)
Theorem c12_batch_never_raises : forall n_genes pairs marks n k,
  1 <= k ->
  (forall prefix batches e, replayk n_genes pairs marks n k prefix batches <> KRaise e) /\
  exists st, greedyk n_genes pairs marks n k (S n_genes) (start n_genes pairs marks n) (pool0 n_genes pairs marks n) = GDone st.
Proof. exact batch_total. Qed.
Print Assumptions c12_batch_never_raises.

(* ... from any state of the loop *)
Theorem c12_batch_step_never_raises : forall n_genes pairs marks n k trace st pool i e,
  JK n_genes pairs marks n st -> PI n_genes st pool ->
  runk n_genes pairs marks n k st pool trace i <> KRaise e.
Proof. intros n_genes pairs marks n k. exact (runk_never_raises n_genes pairs marks n k). Qed.
Print Assumptions c12_batch_step_never_raises.

(* termination for every k >= 1: the fuelled deterministic instance never runs out of fuel
   n_genes + 1 (every pass that does not break chooses at least one new gene), it ends in `break`, and
   its result is the result of a legal run *)
Theorem c12_batch_terminates : forall n_genes pairs marks n k,
  1 <= k ->
  exists trace st,
    greedyk n_genes pairs marks n k (S n_genes) (start n_genes pairs marks n) (pool0 n_genes pairs marks n) = GDone st /\
    replayk n_genes pairs marks n k (chosen (start n_genes pairs marks n)) trace = KDone st.
Proof. exact batch_terminates. Qed.
Print Assumptions c12_batch_terminates.

(* every completed run chooses between 1 and k genes per pass and at most n_genes in all: the number
   of passes is at most n_genes + 1 *)
Theorem c12_batch_iterations_bounded : forall n_genes pairs marks n k trace st pool i st',
  1 <= k -> JK n_genes pairs marks n st -> PI n_genes st pool ->
  runk n_genes pairs marks n k st pool trace i = KDone st' ->
  length (chosen st) + length trace <= length (chosen st') /\
  length (chosen st') <= length (chosen st) + k * length trace /\ length (chosen st') <= n_genes.
Proof. intros n_genes pairs marks n k. exact (batch_iterations_bounded n_genes pairs marks n k). Qed.
Print Assumptions c12_batch_iterations_bounded.

(* ---------------- non-vacuity for k > 1 ---------------- *)
(* the table of DESIGN B.3 (ex_pd above), n = 1, k = 2: one batch [2;0] and the loop stops; n = 2:
   k = 2 takes [2;0] then [1;3] (or [3;1]: a tie), k = 4 takes all four in ONE batch, genes of
   utility 2 first; [0;1;2;3] is not a batch the loop can pop (gene 1 before gene 2) *)
Example ex_batch_k2 :
  kres_chosen (replayk 4 [0; 1] (marks_of ex_pd) 1 2 [] [[2; 0]]) = Some [2; 0] /\
  kres_chosen (replayk 4 [0; 1] (marks_of ex_pd) 2 2 [] [[2; 0]; [1; 3]]) = Some [2; 0; 1; 3] /\
  kres_chosen (replayk 4 [0; 1] (marks_of ex_pd) 2 2 [] [[2; 0]; [3; 1]]) = Some [2; 0; 3; 1].
Proof. vm_compute. repeat split; reflexivity. Qed.
Example ex_batch_k4 :
  kres_chosen (replayk 4 [0; 1] (marks_of ex_pd) 2 4 [] [[0; 2; 1; 3]]) = Some [0; 2; 1; 3] /\
  replayk 4 [0; 1] (marks_of ex_pd) 2 4 [] [[0; 1; 2; 3]] = KIllegal 0 /\
  replayk 4 [0; 1] (marks_of ex_pd) 2 3 [] [[2; 0; 3]] = KNotFinished.
Proof. vm_compute. repeat split; reflexivity. Qed.
(* an illegal batch (gene 1 does not have maximal utility among the members left) is refused *)
Example ex_batch_illegal :
  replayk 4 [0; 1] (marks_of ex_pd) 1 2 [] [[2; 1]] = KIllegal 0.
Proof. vm_compute. reflexivity. Qed.
(* over-coverage in one direction only (the docstring's "unnecessary over coverage"): one pair, three
   markers each way, n = 1, k = 2: the batch [5;4] takes two DOWN markers, the pair then holds
   2 = 2n and the loop stops without any up-marker; with k = 1 the run is [5;2] *)
Example ex_batch_one_sided :
  kres_chosen (replayk 6 [0] (marks_of [([3; 4; 5], [0; 1; 2])]) 1 2 [] [[5; 4]]) = Some [5; 4] /\
  kres_chosen (replayk 6 [0] (marks_of [([3; 4; 5], [0; 1; 2])]) 1 1 [] [[5]; [2]]) = Some [5; 2].
Proof. vm_compute. split; reflexivity. Qed.
(* the three tables on which the unrepaired code went wrong (F23, F24, F25), n = 2, k = 2.
   F23: one pair with up-markers 0,1,2, gene 3 marks nothing.  Batch [2;1], then - the pair is not
   filled - the SHORT batch [0]: gene 3 has utility 0 and stays out (the old code popped [0;3]; that
   batch is now refused); spec_c12 holds on [2;1;0].
   F24: the same table without gene 3: second batch [0], then the list is empty: the batch stops (the
   old code raised IndexError), the loop breaks on max utility <= 0.
   F25: pairs a|b {0,1,2}, a|c {3,4}, b|c {}: 3 and 4 are taken by the desperate phase, the first update
   fills a|c (re-sort: the list holds 3 and 4 again, utility -1); batches [2;1] and [0] - the candidate
   after 0 is a chosen gene of utility -1: stop (the old code raised "chose gene 4 twice") *)
Example ex_batch_f23 :
  kres_chosen (replayk 4 [0] (marks_of [([], [0; 1; 2])]) 2 2 [] [[2; 1]; [0]]) = Some [2; 1; 0] /\
  replayk 4 [0] (marks_of [([], [0; 1; 2])]) 2 2 [] [[2; 1]; [0; 3]] = KIllegal 1 /\
  spec_c12 4 [0] (marks_of [([], [0; 1; 2])]) 2 [2; 1; 0] = true /\
  spec_c12 4 [0] (marks_of [([], [0; 1; 2])]) 2 [2; 1; 0; 3] = false.
Proof. vm_compute. repeat split; reflexivity. Qed.
Example ex_batch_f24 :
  kres_chosen (replayk 3 [0] (marks_of [([], [0; 1; 2])]) 2 2 [] [[2; 1]; [0]]) = Some [2; 1; 0].
Proof. vm_compute. reflexivity. Qed.
Example ex_batch_f25 :
  kres_chosen (replayk 5 [0; 1; 2] (marks_of [([], [0; 1; 2]); ([], [3; 4]); ([], [])]) 2 2 [3; 4] [[2; 1]; [0]])
    = Some [3; 4; 2; 1; 0] /\
  replayk 5 [0; 1; 2] (marks_of [([], [0; 1; 2]); ([], [3; 4]); ([], [])]) 2 2 [3; 4] [[2; 1]; [0; 4]] = KIllegal 1.
Proof. vm_compute. split; reflexivity. Qed.
(* a short batch is legal ONLY when nothing useful is left: [2] alone is refused while 0 is available *)
Example ex_batch_short_illegal :
  replayk 4 [0; 1] (marks_of ex_pd) 2 2 [] [[2]; [0]; [1; 3]] = KIllegal 0.
Proof. vm_compute. reflexivity. Qed.
(* the deterministic instance on the three tables: `break` *)
Example ex_greedyk :
  (match greedyk 4 [0] (marks_of [([], [0; 1; 2])]) 2 2 5 (start 4 [0] (marks_of [([], [0; 1; 2])]) 2)
                 (pool0 4 [0] (marks_of [([], [0; 1; 2])]) 2) with GDone st => chosen st | _ => [] end) = [0; 1; 2] /\
  (match greedyk 3 [0] (marks_of [([], [0; 1; 2])]) 2 2 4 (start 3 [0] (marks_of [([], [0; 1; 2])]) 2)
                 (pool0 3 [0] (marks_of [([], [0; 1; 2])]) 2) with GDone st => chosen st | _ => [] end) = [0; 1; 2] /\
  (match greedyk 5 [0; 1; 2] (marks_of [([], [0; 1; 2]); ([], [3; 4]); ([], [])]) 2 2 6
                 (start 5 [0; 1; 2] (marks_of [([], [0; 1; 2]); ([], [3; 4]); ([], [])]) 2)
                 (pool0 5 [0; 1; 2] (marks_of [([], [0; 1; 2]); ([], [3; 4]); ([], [])]) 2) with GDone st => chosen st | _ => [] end)
    = [3; 4; 0; 1; 2].
Proof. vm_compute. repeat split; reflexivity. Qed.

(* ====================================================================================================
   BLOCK "audit 3, A10".  Model: the additions at the end of Model/SelectionK.v (pop_with, run_with_k /
   select_with_k, select_parent_k).  Proofs: SelectionPickKP.v, SelectionPickKOrderP.v.
   Tie: harness/props/c12_downsample.py part (E) (tags 1264-1266), k in {2, 3, 5}.
   ==================================================================================================== *)

(* ---------------- (i) numpy's rule is LEGAL ----------------
   is_argsort sorter (SelectionPickKP.v): for every array u, sorter u is a permutation of the indices
   0..len(u)-1 and the values u[sorter u] do not decrease - what np.argsort guarantees whatever its
   `kind` and whatever it does with equal values.  For such a sorter the code's own rule - pop(-1) of a
   list that is re-sorted only when _update_been_filled newly fills a slot (or at its first call), so is
   STALE in between - always names an unchosen gene of maximal utility and the loop ends in `break`.
   The invariant (NI): the list holds exactly the genes that are unchosen or were already chosen when
   it was last sorted, and for each of them the array it was sorted by still gives its utility - the
   utility array changes only where a slot is newly filled (then the list is re-sorted) or at the gene
   just chosen; the already-chosen members have negative utility, an unfinished loop has a member of
   positive utility, so the last member is unchosen and maximal. *)
(* DOMAIN (audit 4, A5 ii).  The proof needs neither `no_gene_both_ways marks` nor `pairs <> []`
   (SelectionPickKP.numpy_rule_is_legal has neither); they are hypotheses here because outside them the
   model does not speak for the code: the real _run_selection raises where the model ends in `break`
   (ex_excluded_both_ways: AssertionError in the desperate phase; ex_excluded_no_pairs: ValueError
   in _stats_from_marker_counts).  Real inputs satisfy both: the reference-marker writer lists a gene
   in one direction only (ex_hypothesis, both_ways_free on every generated table) and select_parent(_k)
   never calls _run_selection with an empty taxonomy_idx_array (c12_parent_run_has_pairs(_batch)). *)
Theorem c12_numpy_rule_is_legal : forall n_genes pairs marks n sorter,
  is_argsort sorter -> no_gene_both_ways marks -> pairs <> [] ->
  exists st', select_with n_genes pairs marks n (pick_pop sorter) = WDone st'.
Proof. exact numpy_rule_is_legal_dom. Qed.
Print Assumptions c12_numpy_rule_is_legal.

(* ... hence, with c12_select_with_is_legal_run and c12_spec_holds (c12_coverage): what the code selects
   with numpy's rule satisfies C12's executable statement *)
Theorem c12_numpy_rule_meets_spec : forall n_genes pairs marks n sorter,
  is_argsort sorter -> no_gene_both_ways marks -> pairs <> [] ->
  exists st', select_with n_genes pairs marks n (pick_pop sorter) = WDone st' /\
              spec_c12 n_genes pairs marks n (chosen st') = true.
Proof. exact numpy_rule_meets_spec_dom. Qed.
Print Assumptions c12_numpy_rule_meets_spec.

(* the same for every genes_at_a_time = k >= 1: each of the up-to-k pops of a batch is pop(-1) of the
   same list (nothing is recomputed inside a batch); never IndexError, never "chose gene twice", never
   out of fuel - ON THE DOMAIN above (a gene both ways: AssertionError; no pair: ValueError) and for
   k >= 1 (genes_at_a_time = 0 passes the schema and makes the real `while True` spin for ever: the
   model's WKOutOfFuel, ex_excluded_k0; observed, not generated, by harness/props/c12_batch.py) *)
Theorem c12_numpy_rule_is_legal_batch : forall n_genes pairs marks n sorter k,
  is_argsort sorter -> 1 <= k -> no_gene_both_ways marks -> pairs <> [] ->
  exists st', select_with_k n_genes pairs marks n k (pick_pop sorter) = WKDone st'.
Proof. exact numpy_rule_is_legal_k_dom. Qed.
Print Assumptions c12_numpy_rule_is_legal_batch.

Theorem c12_numpy_rule_meets_spec_batch : forall n_genes pairs marks n sorter k,
  is_argsort sorter -> 1 <= k -> no_gene_both_ways marks -> pairs <> [] ->
  exists st', select_with_k n_genes pairs marks n k (pick_pop sorter) = WKDone st' /\
              spec_c12 n_genes pairs marks n (chosen st') = true.
Proof. exact numpy_rule_meets_spec_k_dom. Qed.
Print Assumptions c12_numpy_rule_meets_spec_batch.

(* the hypothesis is satisfiable: a stable insertion argsort is an argsort (so is, by the tie, the
   installed np.argsort on every array the harness hands it) *)
Theorem c12_an_argsort_exists : is_argsort ins_argsort.
Proof. exact ins_argsort_is_argsort. Qed.
Print Assumptions c12_an_argsort_exists.

(* ---------------- (ii) the rule-driven loop for every k ----------------
   a completed select_with_k is a completed batched run (replayk), so every c12_batch_* theorem above
   applies to it ... *)
Theorem c12_select_with_k_is_legal_run : forall n_genes pairs marks n k pick st,
  select_with_k n_genes pairs marks n k pick = WKDone st ->
  exists batches, replayk n_genes pairs marks n k (chosen (start n_genes pairs marks n)) batches = KDone st.
Proof. exact select_with_k_is_replayk. Qed.
Print Assumptions c12_select_with_k_is_legal_run.

(* ... and the old definitions are its k = 1 instances *)
Theorem c12_select_with_is_k1 : forall n_genes pairs marks n pick,
  select_with_k n_genes pairs marks n 1 pick = wk_of_wres (select_with n_genes pairs marks n pick).
Proof. exact select_with_k_one. Qed.
Print Assumptions c12_select_with_is_k1.

Theorem c12_select_parent_is_k1 : forall pick rm query t parent bh n,
  select_parent_k 1 pick rm query t parent bh n = pk_of_parent_res (select_parent pick rm query t parent bh n).
Proof. exact select_parent_k_one. Qed.
Print Assumptions c12_select_parent_is_k1.

(* pair order, every k >= 0: for every rule that does not look at the order of the chosen lists (numpy's:
   c12_rules_respect) the two pair orders give the same outcome; on `break`: the same genes popped in
   the loop in the same order after desperate prefixes that are permutations of each other, the same
   selected set, counts, flags and utility array *)
Theorem c12_batch_pair_order_irrelevant : forall n_genes marks n k pairs pairs' pick,
  Permutation pairs pairs' -> pick_respects pick ->
  match select_with_k n_genes pairs marks n k pick, select_with_k n_genes pairs' marks n k pick with
  | WKDone st, WKDone st' =>
      (exists popped, chosen st = chosen (start n_genes pairs marks n) ++ popped /\
                      chosen st' = chosen (start n_genes pairs' marks n) ++ popped) /\
      Permutation (chosen (start n_genes pairs marks n)) (chosen (start n_genes pairs' marks n)) /\
      Permutation (chosen st) (chosen st') /\
      (forall s, counts st s = counts st' s) /\ (forall s, filled st s = filled st' s) /\
      (forall g, utility st g = utility st' g)
  | WKIllegal g, WKIllegal g' => g = g'
  | WKStuck, WKStuck => True
  | WKOutOfFuel, WKOutOfFuel => True
  | WKRaise e, WKRaise e' => e = e'
  | _, _ => False
  end.
Proof. exact batch_pair_order_irrelevant. Qed.
Print Assumptions c12_batch_pair_order_irrelevant.

(* renumbering + sort, every k (c12_threshold_core lifted; sel_same_k = sel_same on wkres) *)
Theorem c12_batch_threshold_core : forall n_genes n k pick marksB marksD idx idxB idxD,
  pick_respects pick ->
  (forall g j d, j < length idx -> marksD g (j, d) = marksB g (nth j idx 0, d)) ->
  Permutation idxB idx -> Permutation idxD (seq 0 (length idx)) ->
  sel_same_k (chosen (start n_genes idxB marksB n)) (chosen (start n_genes idxD marksD n))
             (select_with_k n_genes idxB marksB n k pick) (select_with_k n_genes idxD marksD n k pick).
Proof. exact threshold_core_k. Qed.
Print Assumptions c12_batch_threshold_core.

(* behemoth threshold, every k: one parent treated as a behemoth or given its downsampled table gets the
   same selection (same short-circuit, same errors) for every such rule *)
Theorem c12_batch_threshold_irrelevant : forall k pick rm query t parent n,
  pick_respects pick -> NoDup (leaf_pairs t parent) ->
  parent_res_same_k k (thin_genes rm query) t parent n
    (select_parent_k k pick rm query t parent true n) (select_parent_k k pick rm query t parent false n).
Proof. exact threshold_irrelevant_k. Qed.
Print Assumptions c12_batch_threshold_irrelevant.

(* names, every k: composition of c12_batch_in_query_and_marker with c12_thinning_sound and parent_idx *)
Theorem c12_batch_selected_names_are_query_markers : forall rm query t parent bh idx n k prefix batches st,
  NoDup (rm_genes rm) ->
  let rm' := thin_genes rm query in
  parent_idx rm' t parent bh = Some idx ->
  replayk (length (rm_genes rm')) idx (marks_of (pair_tables rm')) n k prefix batches = KDone st ->
  forall j, In j (chosen st) ->
    exists name i,
      nth_error (rm_genes rm') j = Some name /\
      In name query /\
      nth_error (rm_genes rm) i = Some name /\ (forall i', nth_error (rm_genes rm) i' = Some name -> i' = i) /\
      exists pr dn up (d : bool), In pr (leaf_pairs t parent) /\ In (pr, (dn, up)) (rm_pairs rm) /\
                                  In i (if d then up else dn).
Proof. exact batch_selected_names_are_query_markers. Qed.
Print Assumptions c12_batch_selected_names_are_query_markers.

(* ... and for the run made by any rule (numpy's included) *)
Theorem c12_rule_selected_names_are_query_markers : forall rm query t parent bh idx n k pick st,
  NoDup (rm_genes rm) ->
  let rm' := thin_genes rm query in
  parent_idx rm' t parent bh = Some idx ->
  select_with_k (length (rm_genes rm')) idx (marks_of (pair_tables rm')) n k pick = WKDone st ->
  forall j, In j (chosen st) ->
    exists name i,
      nth_error (rm_genes rm') j = Some name /\
      In name query /\
      nth_error (rm_genes rm) i = Some name /\ (forall i', nth_error (rm_genes rm) i' = Some name -> i' = i) /\
      exists pr dn up (d : bool), In pr (leaf_pairs t parent) /\ In (pr, (dn, up)) (rm_pairs rm) /\
                                  In i (if d then up else dn).
Proof. exact rule_selected_names_are_query_markers. Qed.
Print Assumptions c12_rule_selected_names_are_query_markers.

(* ---------------- audit 4, A5 (i): legality COMPOSED with order and threshold ----------------
   c12_batch_pair_order_irrelevant / c12_batch_threshold_irrelevant alone would be satisfied by two runs
   that both end WKIllegal g.  For numpy's own rule they do not: both runs end in `break`. *)
Theorem c12_numpy_pair_order_composed : forall n_genes marks n k pairs pairs' sorter,
  is_argsort sorter -> 1 <= k -> no_gene_both_ways marks -> pairs <> [] ->
  Permutation pairs pairs' ->
  exists st st',
    select_with_k n_genes pairs marks n k (pick_pop sorter) = WKDone st /\
    select_with_k n_genes pairs' marks n k (pick_pop sorter) = WKDone st' /\
    (exists popped, chosen st = chosen (start n_genes pairs marks n) ++ popped /\
                    chosen st' = chosen (start n_genes pairs' marks n) ++ popped) /\
    Permutation (chosen (start n_genes pairs marks n)) (chosen (start n_genes pairs' marks n)) /\
    Permutation (chosen st) (chosen st') /\
    (forall s, counts st s = counts st' s) /\ (forall s, filled st s = filled st' s) /\
    (forall g, utility st g = utility st' g).
Proof. exact numpy_pair_order_composed. Qed.
Print Assumptions c12_numpy_pair_order_composed.

(* the same at the level of the pipeline's per-parent entry, behemoth (global pair numbers) against the
   downsampled table (local numbers): both short-circuit (exactly when the parent has no pair), or both
   are refused alike, or BOTH calls of _run_selection end in `break` with selections that are
   permutations of each other, the same popped genes in the same order, the same utility array *)
Theorem c12_numpy_threshold_composed : forall k sorter rm query t parent n,
  is_argsort sorter -> 1 <= k -> NoDup (leaf_pairs t parent) ->
  no_gene_both_ways (marks_of (pair_tables (thin_genes rm query))) ->
  match select_parent_k k (pick_pop sorter) rm query t parent true n,
        select_parent_k k (pick_pop sorter) rm query t parent false n with
  | PKSkip, PKSkip => leaf_pairs t parent = []
  | PKErrOverlap, PKErrOverlap => True
  | PKErrPair, PKErrPair => True
  | PKRun ng w, PKRun ng' w' =>
      ng = ng' /\ ng = length (rm_genes (thin_genes rm query)) /\
      exists st st', w = WKDone st /\ w' = WKDone st' /\
        Permutation (chosen st) (chosen st') /\ (forall g, utility st g = utility st' g) /\
        exists arr idxB idxD,
          downsample_pairs (thin_genes rm query) (leaf_pairs t parent) = Some arr /\
          parent_idx (thin_genes rm query) t parent true = Some idxB /\ idxB <> [] /\
          parent_idx arr t parent true = Some idxD /\ idxD <> [] /\
          Permutation (chosen (start ng idxB (marks_of (pair_tables (thin_genes rm query))) n))
                      (chosen (start ng idxD (marks_of (pair_tables arr)) n)) /\
          exists popped,
            chosen st = chosen (start ng idxB (marks_of (pair_tables (thin_genes rm query))) n) ++ popped /\
            chosen st' = chosen (start ng idxD (marks_of (pair_tables arr)) n) ++ popped
  | _, _ => False
  end.
Proof. exact numpy_threshold_composed. Qed.
Print Assumptions c12_numpy_threshold_composed.

(* the four statements about the per-parent entry (c12_parent_short_circuit, c12_parent_run_has_pairs,
   c12_empty_overlap_refused, c12_overlap_needed) for every genes_at_a_time.  Like their k = 1
   originals the first, third and fourth are by construction of select_parent_k (it copies the three
   early exits of select_all_markers / select_marker_genes_v2; the content is in the tie, tag 1266);
   the second has content: whenever _run_selection is called, taxonomy_idx_array is NON-EMPTY and in
   range - the `pairs <> []` of the theorems above is met by every call the pipeline makes *)
Theorem c12_parent_short_circuit_batch : forall k pick rm query t parent bh n,
  keep_idx rm query <> [] -> leaf_pairs t parent = [] ->
  select_parent_k k pick rm query t parent bh n = PKSkip.
Proof. exact parent_short_circuit_k. Qed.
Print Assumptions c12_parent_short_circuit_batch.

Theorem c12_parent_run_has_pairs_batch : forall k pick rm query t parent bh n ng r,
  select_parent_k k pick rm query t parent bh n = PKRun ng r ->
  exists arr idx, idx <> [] /\ Forall (fun i => i < length (rm_pairs arr)) idx /\
    parent_idx arr t parent true = Some idx /\ ng = length (rm_genes arr) /\
    rm_genes arr = rm_genes (thin_genes rm query) /\
    (if bh then Some (thin_genes rm query)
     else downsample_pairs (thin_genes rm query) (leaf_pairs t parent)) = Some arr /\
    r = select_with_k ng idx (marks_of (pair_tables arr)) n k pick.
Proof. exact parent_run_has_pairs_k. Qed.
Print Assumptions c12_parent_run_has_pairs_batch.

Theorem c12_empty_overlap_refused_batch : forall k pick rm query t parent bh n,
  (forall g, In g (rm_genes rm) -> ~ In g query) ->
  select_parent_k k pick rm query t parent bh n = PKErrOverlap.
Proof. exact empty_overlap_refused_k. Qed.
Print Assumptions c12_empty_overlap_refused_batch.

Theorem c12_overlap_needed_batch : forall k pick rm query t parent bh n,
  select_parent_k k pick rm query t parent bh n <> PKErrOverlap ->
  exists g, In g (rm_genes rm) /\ In g query.
Proof. exact overlap_needed_k. Qed.
Print Assumptions c12_overlap_needed_batch.

(* ---------------- non-vacuity of the block ---------------- *)
(* the insertion argsort on the audit's first array; on the audit's table it completes - with the genes of
   numpy's list [4;1;0;6;2;3] (ex_python_is_not_first_max) in ANOTHER order (ties), both legal; k = 2
   (one gene more: the second pop of the last batch) and k = 3 complete as well *)
Example ex_ins_argsort :
  ins_argsort [2; 2; 1; 1; 2; 1; 1; 1]%Z = [2; 3; 5; 6; 7; 0; 1; 4].
Proof. vm_compute. reflexivity. Qed.
Example ex_numpy_rule_legal :
  wres_chosen (select_with 8 [0; 1; 2; 3] (marks_of ex_audit_pd) 2 (pick_pop ins_argsort)) = Some [4; 1; 0; 6; 3; 2] /\
  (match select_with_k 8 [0; 1; 2; 3] (marks_of ex_audit_pd) 2 2 (pick_pop ins_argsort) with
   | WKDone st => Some (chosen st) | _ => None end) = Some [4; 1; 0; 6; 5; 3; 2] /\
  (match select_with_k 8 [3; 1; 0; 2] (marks_of ex_audit_pd) 2 3 (pick_pop ins_argsort) with
   | WKDone st => Some (chosen st) | _ => None end) =
  (match select_with_k 8 [0; 1; 2; 3] (marks_of ex_audit_pd) 2 3 (pick_pop ins_argsort) with
   | WKDone st => Some (chosen st) | _ => None end).
Proof. vm_compute. repeat split; reflexivity. Qed.
(* a sorter that is NOT an argsort (descending) is caught: the rule names a gene of non-maximal utility *)
Example ex_not_an_argsort_is_illegal :
  select_with 8 [0; 1; 2; 3] (marks_of ex_audit_pd) 2 (pick_pop (fun u => rev (ins_argsort u))) = WIllegal 4.
Proof. vm_compute. reflexivity. Qed.
(* behemoth or not, k = 2, numpy's rule with the insertion argsort: the same list *)
Example ex_select_parent_k :
  (match select_parent_k 2 (pick_pop ins_argsort) ex_rm ex_query ex_tree None true 1 with
   | PKRun ng (WKDone st) => Some (ng, chosen st) | _ => None end) = Some (5, [0; 4; 3]) /\
  (match select_parent_k 2 (pick_pop ins_argsort) ex_rm ex_query ex_tree None false 1 with
   | PKRun ng (WKDone st) => Some (ng, chosen st) | _ => None end) = Some (5, [0; 4; 3]) /\
  select_parent_k 2 (pick_pop ins_argsort) ex_rm ex_query ex_tree (Some (0, 11%Z)) true 1 = PKSkip.
Proof. vm_compute. repeat split; reflexivity. Qed.
(* ---------------- audit 4, A5: the hypotheses are met / the excluded inputs are where Python raises ---------------- *)
(* the hypotheses of c12_numpy_pair_order_composed on the audit's table (its conclusion on these very
   values: third clause of ex_numpy_rule_legal) *)
Example ex_composed_hypotheses :
  is_argsort ins_argsort /\ no_gene_both_ways (marks_of ex_audit_pd) /\ [0; 1; 2; 3] <> [] /\
  Permutation [0; 1; 2; 3] [3; 1; 0; 2].
Proof.
  split; [exact ins_argsort_is_argsort|]. split; [apply both_ways_free_sound; reflexivity|].
  split; [discriminate|].
  apply (perm_trans (l' := [1; 0; 2; 3])); [apply perm_swap|].
  apply (perm_trans (l' := [1; 0; 3; 2])); [do 2 apply perm_skip; apply perm_swap|].
  apply (perm_trans (l' := [1; 3; 0; 2])); [apply perm_skip, perm_swap|]. apply perm_swap.
Qed.
(* ... and of c12_numpy_threshold_composed on the reference file of ex_select_parent_k (its conclusion on
   these values: ex_select_parent_k; the root has two pairs, thinned table free of both-ways genes) *)
Example ex_threshold_composed_hypotheses :
  NoDup (leaf_pairs ex_tree None) /\ leaf_pairs ex_tree None <> [] /\
  no_gene_both_ways (marks_of (pair_tables (thin_genes ex_rm ex_query))).
Proof.
  split; [exact (proj1 (proj2 ex_downsample))|]. split; [vm_compute; discriminate|].
  apply both_ways_free_sound. vm_compute. reflexivity.
Qed.
(* EXCLUDED input 1: gene 0 is down- AND up-marker of the only pair, n = 2 (the pair is desperate).
   Model: `break` with gene 0 selected.  Real code (reproduced: 2 genes, one pair, down [0], up [0],
   n_per_utility 2, genes_at_a_time 1): AssertionError raised by marker_mask_from_pair_idx, called from
   _choose_desperate_markers.  The hypothesis no_gene_both_ways fails on it. *)
Example ex_excluded_both_ways :
  let pd := [([0], [0])] in
  both_ways_free pd = false /\ ~ no_gene_both_ways (marks_of pd) /\
  wres_chosen (select_with 2 [0] (marks_of pd) 2 (pick_pop ins_argsort)) = Some [0].
Proof.
  cbv zeta. split; [reflexivity|]. split; [|vm_compute; reflexivity].
  intros H. specialize (H 0 0 eq_refl). vm_compute in H. discriminate.
Qed.
(* EXCLUDED input 2: taxonomy_idx_array = [].  Model: `break`, nothing selected.  Real code
   (reproduced by calling _run_selection directly with an empty index array; the pipeline never does:
   c12_parent_run_has_pairs_batch): ValueError "zero-size array to reduction operation minimum which has
   no identity", raised by _stats_from_marker_counts AFTER the loop. *)
Example ex_excluded_no_pairs :
  wres_chosen (select_with 2 [] (marks_of [([0], [1])]) 2 (pick_pop ins_argsort)) = Some [].
Proof. vm_compute. reflexivity. Qed.
(* EXCLUDED input 3: genes_at_a_time = 0 (accepted by the schema: it is a plain argschema Int).  Model:
   every pass of `while True` pops nothing, the state never changes, the fuel runs out.  Real code
   (reproduced under a 5 s alarm: one pair, down [0;2], up [1;3], n_per_utility 1): still inside
   _choose_gene / `while True` when the alarm fires; with genes_at_a_time = 1 the same call returns at
   once.  OBSERVED by harness/props/c12_batch.py (distribution batch_k0_observed), outside the quantifier
   of C12 (genes_at_a_time is a parameter of the run, the theorems say 1 <= k). *)
Example ex_excluded_k0 :
  select_with_k 4 [0] (marks_of [([0; 2], [1; 3])]) 1 0 (pick_pop ins_argsort) = WKOutOfFuel /\
  (match select_with_k 4 [0] (marks_of [([0; 2], [1; 3])]) 1 1 (pick_pop ins_argsort) with
   | WKDone st => Some (chosen st) | _ => None end) = Some [3; 2].
Proof. vm_compute. split; reflexivity. Qed.
(* end of BLOCK "audit 3, A10" *)
