(* C12 — selected query markers cover every cluster pair as far as possible.
   Property theorems only: each is closed by `exact <lemma>`.
   Model: Model/Selection.v (_run_selection of marker_selection/selection.py: slots
   (pair, direction), the state (chosen, counts, aggregate, filled, utility), update_filled,
   the desperate phase, one loop iteration `step st g` that is legal only when g is an
   unchosen gene of maximal utility — the tie order of np.argsort is an input, the theorems
   quantify over EVERY legal choice sequence `trace`). *)
From Coq Require Import ZArith List Bool Arith Permutation.
From CTM Require Import Base.Sx Base.SortX Model.Tree Model.Selection Proofs.SelectionP.
Import ListNotations.
Open Scope nat_scope.

(* the invariant of the loop, at the end of every legal run: stored counts = number of chosen
   genes marking the slot; aggregate = sum of the two directions; stored utility of an unchosen
   gene = number of UNFILLED slots of the parent it marks; chosen genes carry a negative
   utility; a slot is flagged filled only if it is a slot of the parent and one of the three
   filling conditions holds (target reached where both directions could reach it / every
   marker taken / pair holds twice the target) *)
Theorem c12_invariant : forall n_genes pairs marks n trace st,
  run n_genes pairs marks n (start n_genes pairs marks n) trace = Some st ->
  (forall s, counts st s = cnt marks (chosen st) s) /\
  (forall p, aggr st p = counts st (p, false) + counts st (p, true)) /\
  (forall g, ~ In g (chosen st) -> utility st g = Z.of_nat (util pairs marks (filled st) g)) /\
  (forall g, In g (chosen st) -> (utility st g < 0)%Z) /\
  (forall s, filled st s = true -> In s (slots pairs) /\ fillable n_genes marks n st s).
Proof. exact invariant. Qed.
Print Assumptions c12_invariant.

(* ... and it is an invariant of the loop proper: J (Proofs/SelectionP.v: the five clauses above plus
   NoDup chosen, chosen genes < n_genes, every chosen gene marks a slot of the parent) holds when
   `while True` is entered (after the first fill pass and the desperate phase) and is preserved by
   every legal iteration *)
Theorem c12_invariant_initially : forall n_genes pairs marks n,
  J n_genes pairs marks n (start n_genes pairs marks n).
Proof. exact J_start. Qed.
Print Assumptions c12_invariant_initially.

Theorem c12_invariant_preserved : forall n_genes pairs marks n st g st',
  J n_genes pairs marks n st -> step n_genes pairs marks n st g = Some st' -> J n_genes pairs marks n st'.
Proof. exact J_step. Qed.
Print Assumptions c12_invariant_preserved.

(* `filled` only grows along a step *)
Theorem c12_filled_monotone : forall n_genes pairs marks n st g st' s,
  step n_genes pairs marks n st g = Some st' -> filled st s = true -> filled st' s = true.
Proof. exact filled_monotone. Qed.
Print Assumptions c12_filled_monotone.

(* termination: every legal run makes at most n_genes + 1 passes through `while True`
   (|trace| choices + the pass that breaks) ... *)
Theorem c12_terminates : forall n_genes pairs marks n trace st,
  run n_genes pairs marks n (start n_genes pairs marks n) trace = Some st ->
  length trace + 1 <= n_genes + 1.
Proof. exact iterations_bounded. Qed.
Print Assumptions c12_terminates.

(* ... the loop never gets stuck (while it has not stopped there is a legal choice), and the
   fuelled deterministic instance (first gene of maximal utility) stops within n_genes + 1
   passes: its out-of-fuel branch is unreachable and its result is a legal run *)
Theorem c12_progress : forall n_genes pairs marks n st,
  J n_genes pairs marks n st ->
  finished n_genes pairs (update_filled n_genes pairs marks n st) = false ->
  exists g st', step n_genes pairs marks n st g = Some st'.
Proof. exact progress. Qed.
Print Assumptions c12_progress.

Theorem c12_terminates_fuel : forall n_genes pairs marks n,
  exists st trace,
    greedy n_genes pairs marks n (S n_genes) (start n_genes pairs marks n) = Some st /\
    run n_genes pairs marks n (start n_genes pairs marks n) trace = Some st.
Proof. exact terminates. Qed.
Print Assumptions c12_terminates_fuel.

Theorem c12_no_duplicates : forall n_genes pairs marks n trace st,
  run n_genes pairs marks n (start n_genes pairs marks n) trace = Some st -> NoDup (chosen st).
Proof. exact no_duplicates. Qed.
Print Assumptions c12_no_duplicates.

(* every selected gene is a gene of the thinned array (= a reference gene present in the
   query) and a reference marker of at least one pair the parent must discriminate
   (genes_at_a_time = 1) *)
Theorem c12_only_useful_genes : forall n_genes pairs marks n trace st,
  run n_genes pairs marks n (start n_genes pairs marks n) trace = Some st ->
  forall g, In g (chosen st) -> g < n_genes /\ exists p d, In p pairs /\ marks g (p, d) = true.
Proof. exact only_useful_genes. Qed.
Print Assumptions c12_only_useful_genes.

(* a parent with no pair to discriminate gets no marker (and the loop makes no choice) *)
Theorem c12_nothing_to_discriminate : forall n_genes marks n trace st,
  run n_genes [] marks n (start n_genes [] marks n) trace = Some st -> chosen st = [] /\ trace = [].
Proof. exact nothing_to_discriminate. Qed.
Print Assumptions c12_nothing_to_discriminate.

(* coverage: for EVERY legal choice sequence reaching `finished`, every pair of the parent is
   marked by at least min(2n, available) selected genes, available = number of genes of the
   thinned array (reference markers present in the query) that mark the pair.
   The hypothesis no_gene_both_ways: no gene is an up- and a down-marker of one pair (C11;
   asserted by marker_mask_from_pair_idx; checked on every generated table) — without it the
   aggregate counts such a gene twice. *)
Theorem c12_coverage : forall n_genes pairs marks n trace st,
  no_gene_both_ways marks ->
  run n_genes pairs marks n (start n_genes pairs marks n) trace = Some st ->
  forall p, In p pairs ->
    Nat.min (2 * n) (covered marks (genes n_genes) p) <= covered marks (chosen st) p.
Proof. exact coverage. Qed.
Print Assumptions c12_coverage.

(* the hypothesis is decidable on a concrete table: the boolean the harness evaluates on every
   generated (thinned) table implies it *)
Theorem c12_hypothesis_checkable : forall pd,
  both_ways_free pd = true -> no_gene_both_ways (marks_of pd).
Proof. exact both_ways_free_sound. Qed.
Print Assumptions c12_hypothesis_checkable.

(* the executable statement spec_c12 that the harness evaluates on the lists returned by the
   implementation (no duplicates; every gene a gene of the thinned array marking a slot of the
   parent; coverage >= min(2n, available) per pair) holds on the result of every legal run *)
Theorem c12_spec_holds : forall n_genes pairs marks n trace st,
  no_gene_both_ways marks ->
  run n_genes pairs marks n (start n_genes pairs marks n) trace = Some st ->
  spec_c12 n_genes pairs marks n (chosen st) = true.
Proof. exact spec_holds. Qed.
Print Assumptions c12_spec_holds.

(* the order in which the pairs are indexed is irrelevant: a legal run under one order is a
   legal run WITH THE SAME CHOICE SEQUENCE under any permutation of the pairs; the selected
   SET, the per-slot counts and the filled flags coincide (only the order in which the
   desperate phase emits its genes may differ) *)
Theorem c12_pair_order_irrelevant : forall n_genes marks n pairs pairs',
  Permutation pairs pairs' -> forall trace st,
  run n_genes pairs marks n (start n_genes pairs marks n) trace = Some st ->
  exists st', run n_genes pairs' marks n (start n_genes pairs' marks n) trace = Some st' /\
              Permutation (chosen st) (chosen st') /\
              (forall s, counts st s = counts st' s) /\ (forall s, filled st s = filled st' s).
Proof. exact pair_order_irrelevant. Qed.
Print Assumptions c12_pair_order_irrelevant.

(* with a tie-breaking rule that looks only at the utility array and the taken genes (the
   model's deterministic instance; np.argsort of the utility array is another such rule) the
   selected set itself is the same under both orders *)
Theorem c12_greedy_order_irrelevant : forall n_genes marks n pairs pairs',
  Permutation pairs pairs' -> forall fuel st,
  greedy n_genes pairs marks n fuel (start n_genes pairs marks n) = Some st ->
  exists st', greedy n_genes pairs' marks n fuel (start n_genes pairs' marks n) = Some st' /\
              Permutation (chosen st) (chosen st').
Proof. exact greedy_order_irrelevant. Qed.
Print Assumptions c12_greedy_order_irrelevant.

(* ... and the two index arrays the pipeline can produce for one parent (sorted global indices
   on the full table = "behemoth"; positions in leaves_to_compare order after
   downsample_pairs_to_other) are such permutations *)
Theorem c12_behemoth_order_is_permutation : forall rm t parent i1 i2,
  parent_idx rm t parent true = Some i1 -> parent_idx rm t parent false = Some i2 -> Permutation i1 i2.
Proof. exact parent_idx_perm. Qed.
Print Assumptions c12_behemoth_order_is_permutation.

(* "occur in the query" / "available in the query": the table the loop works on is the file's table
   thinned to the query genes. Gene j of the thinned array is reference gene keep[j], where keep
   lists (in reference order) exactly the reference genes whose name occurs in the query; it is
   listed for a pair and a direction iff that reference gene is listed there in the file; the pairs
   and their positions are untouched *)
Theorem c12_thinning_sound : forall rm query,
  let keep := keep_idx rm query in
  rm_genes (thin_genes rm query) = map (fun i => nth i (rm_genes rm) 0%Z) keep /\
  (forall i, In i keep <-> i < length (rm_genes rm) /\ In (nth i (rm_genes rm) 0%Z) query) /\
  length (rm_pairs (thin_genes rm query)) = length (rm_pairs rm) /\
  forall k e, nth_error (rm_pairs rm) k = Some e ->
    exists e', nth_error (rm_pairs (thin_genes rm query)) k = Some e' /\ fst e' = fst e /\
      (forall j, In j (fst (snd e')) <-> exists i, nth_error keep j = Some i /\ In i (fst (snd e))) /\
      (forall j, In j (snd (snd e')) <-> exists i, nth_error keep j = Some i /\ In i (snd (snd e))).
Proof. exact thinning_sound. Qed.
Print Assumptions c12_thinning_sound.

(* ---------------- non-vacuity: 4 genes, 2 pairs (the table of DESIGN B.3) ---------------- *)
Definition ex_pd : list (list nat * list nat) := [([1], [0; 2]); ([0], [2; 3])].
Example ex_both_ways : both_ways_free ex_pd = true.
Proof. reflexivity. Qed.
Example ex_hypothesis : no_gene_both_ways (marks_of ex_pd).
Proof. apply both_ways_free_sound. reflexivity. Qed.
(* n = 1: no pair is desperate (both have 3 markers); [2; 0] is a legal run that stops exactly there
   (both pairs then hold 2 = 2n markers), [0; 1; 2] is another *)
Example ex_run_n1 :
  option_map (fun st => chosen st) (run 4 [0; 1] (marks_of ex_pd) 1 (start 4 [0; 1] (marks_of ex_pd) 1) [2; 0])
  = Some [2; 0].
Proof. vm_compute. reflexivity. Qed.
Example ex_run_n1' :
  option_map (fun st => chosen st) (run 4 [0; 1] (marks_of ex_pd) 1 (start 4 [0; 1] (marks_of ex_pd) 1) [0; 1; 2])
  = Some [0; 1; 2].
Proof. vm_compute. reflexivity. Qed.
(* an illegal choice (gene 3 does not maximise the utility) is refused *)
Example ex_illegal :
  run 4 [0; 1] (marks_of ex_pd) 1 (start 4 [0; 1] (marks_of ex_pd) 1) [3] = None.
Proof. vm_compute. reflexivity. Qed.
(* the two pair orders: same choice sequence accepted, n = 3 makes both pairs desperate and the
   desperate phase emits [0;1;2;3] under one order and [0;2;3;1] under the other *)
Example ex_order :
  (chosen (start 4 [0; 1] (marks_of ex_pd) 3), chosen (start 4 [1; 0] (marks_of ex_pd) 3))
  = ([0; 1; 2; 3], [0; 2; 3; 1]).
Proof. vm_compute. reflexivity. Qed.
(* coverage is tight: with n = 1 the run [2; 0] leaves pair 0 with exactly 2 = min(2n, 3) markers *)
Example ex_coverage_tight :
  option_map (fun st => (covered (marks_of ex_pd) (chosen st) 0, covered (marks_of ex_pd) (genes 4) 0))
             (run 4 [0; 1] (marks_of ex_pd) 1 (start 4 [0; 1] (marks_of ex_pd) 1) [2; 0]) = Some (2, 3).
Proof. vm_compute. reflexivity. Qed.
(* the hypothesis of c12_coverage is needed: a table (outside the quantifier - the reference-marker
   writer never produces it) in which gene 0 marks pair 0 both ways; n = 1: the loop takes gene 0,
   the aggregate is 2 = 2n, the pair counts as done with ONE selected marker although 3 are available *)
Example ex_hypothesis_needed :
  let pd := [([0], [0; 1; 2])] in
  both_ways_free pd = false /\
  option_map (fun st => (chosen st, covered (marks_of pd) (chosen st) 0, covered (marks_of pd) (genes 3) 0))
             (run 3 [0] (marks_of pd) 1 (start 3 [0] (marks_of pd) 1) [0]) = Some ([0], 1, 3).
Proof. vm_compute. split; reflexivity. Qed.
(* thinning: reference genes 10..14, query {13, 11, 99}: genes 1 and 3 are kept and renumbered 0, 1 *)
Example ex_thin :
  let rm := {| rm_genes := [10; 11; 12; 13; 14]%Z; rm_pairs := [((0, 1)%Z, ([1; 2], [3; 4]))] |} in
  (keep_idx rm [13; 11; 99]%Z, rm_pairs (thin_genes rm [13; 11; 99]%Z)) = ([1; 3], [((0, 1)%Z, ([0], [1]))]).
Proof. vm_compute. reflexivity. Qed.
