From Coq Require Import ZArith List Bool.
From CTM Require Import Model.Election.
Theorem c06_placeholder : True. Proof. exact I. Qed.
Print Assumptions c06_placeholder.
