(* C06 — a cell's mapping depends only on its own expression vector.
   Property theorems only: each is closed by `exact <lemma>`. *)
From Coq Require Import ZArith List Bool Permutation Sorted.
From CTM Require Import Base.Sx Base.SortX Model.Tree Model.Election Model.PerCell Model.Vote
     Proofs.ElectionP Proofs.PerCellP Proofs.SubsetP Model.VoteDecide Proofs.VoteDecideP.
Import ListNotations.
Open Scope Z_scope.

(* With bootstrap factor 1 the marker subset of every iteration, sorted as tally_votes
   sorts it, is the whole marker list — whatever the random generator returned: *)
Theorem c06_factor_one_subset_is_everything :
  forall (n : nat) (S S' : list nat),
    subset_ok (1, 1) n S = true -> Permutation S' S -> Sorted lt S' -> S' = seq 0 n.
Proof. exact full_subset. Qed.
Print Assumptions c06_factor_one_subset_is_everything.

(* ... so the leaf nearest to a cell is the same for any two draws *)
Theorem c06_nearest_independent_of_draw :
  forall q refs (n : nat) (S1 S2 S1' S2' : list nat),
    subset_ok (1, 1) n S1 = true -> subset_ok (1, 1) n S2 = true ->
    Permutation S1' S1 -> Sorted lt S1' -> Permutation S2' S2 -> Sorted lt S2' ->
    nearest q refs S1' = nearest q refs S2'.
Proof. exact nearest_full. Qed.
Print Assumptions c06_nearest_independent_of_draw.

(* ... hence the WHOLE vote of a cell at a node: every iteration is won by the leaf nearest on all
   markers, its child gets every vote and no other child gets any.  At factor 1 the record
   of a cell (winner, probability 1, no runner-up) is a function of the cell's own row and
   the reference alone — not of the generator, the iteration count, or the other cells *)
Theorem c06_factor_one_tally : forall q refs (n : nat) (subsets : list (list nat)),
  Forall (sorted_draw n) subsets ->
  tally q refs subsets =
    match nearest q refs (seq 0 n) with
    | Some w => Some (repeat w (length subsets))
    | None => match subsets with [] => Some [] | _ => None end
    end.
Proof. exact factor_one_tally. Qed.
Print Assumptions c06_factor_one_tally.

Theorem c06_factor_one_unanimous : forall q refs (owners : list Z) (n : nat) subsets (w : nat) winners,
  Forall (sorted_draw n) subsets ->
  nearest q refs (seq 0 n) = Some w ->
  tally q refs subsets = Some winners ->
  winners = repeat w (length subsets) /\
  votes_for owners winners (nth w owners (-1)) = length subsets /\
  (forall c, c <> nth w owners (-1) -> votes_for owners winners c = 0%nat).
Proof. exact factor_one_unanimous. Qed.
Print Assumptions c06_factor_one_unanimous.

Example c06_factor_one_example :
  sorted_draw 4 [0; 1; 2; 3]%nat /\
  tally [8; 0; 16; 24] [[0; 8; 0; 0]; [16; 0; 32; 50]; [8; 0; 16; 25]] [[0; 1; 2; 3]; [0; 1; 2; 3]; [0; 1; 2; 3]]%nat
    = Some [1; 1; 1]%nat.
Proof.
  split.
  - exists [0; 1; 2; 3]%nat. split; [vm_compute; reflexivity|]. split; [apply Permutation_refl|].
    repeat (constructor; try (unfold lt; repeat constructor)).
  - vm_compute. reflexivity.
Qed.

(* Whenever the decision taken for a cell at a parent (with >= 2 children) is a function
   dc of that cell alone — neither of the generator state nor of the other cells handed
   to the same call — the level-by-level routing of run_type_assignment (shared
   previously_assigned tables, write-back by row index, visits in sorted node order)
   is, row by row, the per-cell recursion map_one down the tree: *)
Theorem c06_per_cell :
  forall (cell rng : Type)
         (decide : rng -> option (nat * node) -> list node -> list cell -> list rec * rng)
         (dc : option (nat * node) -> list node -> cell -> rec),
    (forall g p kids cs, (2 <= length kids)%nat -> fst (decide g p kids cs) = map (dc p kids) cs) ->
    (forall p kids c, (2 <= length kids)%nat -> In (asg (dc p kids c)) kids) ->
    forall t cells g rows g',
      tree_ok t ->
      run_type_assignment cell rng decide t cells g = Ok (rows, g') ->
      rows = map (map_one cell dc t) cells.
Proof. exact per_cell. Qed.
Print Assumptions c06_per_cell.

(* The hypothesis "the decision for a cell is a function of that cell alone" is met by the vote at
   bootstrap factor 1: if every call draws `iters` acceptable factor-1 subsets (any generator, any
   state), the election run with the modelled vote (Model/VoteDecide.v) IS the per-cell recursion
   with dc_vote, the record the vote gives the cell on all markers *)
Theorem c06_vote_at_factor_one_is_per_cell :
  forall (cell rng : Type) (refs_at : option (nat * node) -> list vec) (owners_at : option (nat * node) -> list Z)
         (q_at : cell -> option (nat * node) -> vec) (draw : rng -> option (nat * node) -> list (list nat) * rng)
         (n_assign : nat) (corr_at : cell -> option (nat * node) -> Z -> frac),
    (forall p, refs_at p <> []) -> (1 <= n_assign)%nat ->
    forall (n_markers : option (nat * node) -> nat) (iters : nat),
    (forall g p, Forall (sorted_draw (n_markers p)) (fst (draw g p)) /\ length (fst (draw g p)) = iters) ->
    forall t cells g rows g', tree_ok t ->
      run_type_assignment cell rng (decide_vote cell rng refs_at owners_at q_at draw n_assign corr_at) t cells g = Ok (rows, g') ->
      rows = map (map_one cell (dc_vote cell refs_at owners_at q_at n_assign corr_at n_markers iters) t) cells.
Proof. exact vote_election_per_cell. Qed.
Print Assumptions c06_vote_at_factor_one_is_per_cell.

(* Hence a cell gets the same records in any two runs, at any positions, in any company
   and from any generator states: permuting the query, mapping a subset or a superset,
   duplicating cells are all instances (i, j arbitrary; cells1, cells2 arbitrary). *)
Theorem c06_same_cell_same_row :
  forall (cell rng : Type)
         (decide : rng -> option (nat * node) -> list node -> list cell -> list rec * rng)
         (dc : option (nat * node) -> list node -> cell -> rec),
    (forall g p kids cs, (2 <= length kids)%nat -> fst (decide g p kids cs) = map (dc p kids) cs) ->
    (forall p kids c, (2 <= length kids)%nat -> In (asg (dc p kids c)) kids) ->
    forall t cells1 g1 rows1 g1' cells2 g2 rows2 g2' i j c,
      tree_ok t ->
      run_type_assignment cell rng decide t cells1 g1 = Ok (rows1, g1') ->
      run_type_assignment cell rng decide t cells2 g2 = Ok (rows2, g2') ->
      nth_error cells1 i = Some c -> nth_error cells2 j = Some c ->
      nth_error rows1 i = nth_error rows2 j.
Proof. exact same_cell_same_row. Qed.
Print Assumptions c06_same_cell_same_row.

(* ... and mapping the query in chunks — any split into consecutive pieces, each piece
   run separately from its own generator state, as the workers do — gives the rows of
   the whole run, in order. *)
Theorem c06_chunking :
  forall (cell rng : Type)
         (decide : rng -> option (nat * node) -> list node -> list cell -> list rec * rng)
         (dc : option (nat * node) -> list node -> cell -> rec),
    (forall g p kids cs, (2 <= length kids)%nat -> fst (decide g p kids cs) = map (dc p kids) cs) ->
    (forall p kids c, (2 <= length kids)%nat -> In (asg (dc p kids c)) kids) ->
    forall t (chunks : list (list cell)) (gs : list rng) (outs : list (list (list rec) * rng)) g rows g',
      tree_ok t ->
      Forall2 (fun cg out => run_type_assignment cell rng decide t (fst cg) (snd cg) = Ok out)
              (combine chunks gs) outs ->
      length gs = length chunks ->
      run_type_assignment cell rng decide t (concat chunks) g = Ok (rows, g') ->
      rows = concat (map fst outs).
Proof. exact chunks_concat. Qed.
Print Assumptions c06_chunking.

(* non-vacuity: a per-cell decision procedure meeting both hypotheses, on a 3-level
   taxonomy with a single-child chain; the whole run and the per-cell recursion agree,
   also for a permuted query with a duplicated cell *)
Definition ex_tree : tree :=
  [ [(1, [10; 11])]; [(10, [100]); (11, [110; 111])]; [(100, []); (110, []); (111, [])] ].
Definition ex_dc (p : option (nat * node)) (kids : list node) (c : Z) : rec :=
  {| asg := if Z.even c then hd 0 kids else last kids 0; prob := (3, 4); corr := Some (1, 2);
     runners := []; agg := one |}.
Definition ex_decide (g : nat) (p : option (nat * node)) (kids : list node) (cs : list Z) : list rec * nat :=
  (map (ex_dc p kids) cs, S g).
Example c06_hypotheses_satisfiable :
  (forall g p kids cs, (2 <= length kids)%nat -> fst (ex_decide g p kids cs) = map (ex_dc p kids) cs) /\
  (forall p kids c, (2 <= length kids)%nat -> In (asg (ex_dc p kids c)) kids).
Proof. exact ex_dc_ok. Qed.
Example c06_example :
  run_type_assignment Z nat ex_decide ex_tree [5; 6; 7] 0%nat = Ok (map (map_one Z ex_dc ex_tree) [5; 6; 7], 2%nat) /\
  run_type_assignment Z nat ex_decide ex_tree [7; 5; 7; 6] 9%nat = Ok (map (map_one Z ex_dc ex_tree) [7; 5; 7; 6], 11%nat) /\
  map (map asg) (map (map_one Z ex_dc ex_tree) [5; 6]) = [[1; 11; 111]; [1; 10; 100]].
Proof. vm_compute. repeat split; reflexivity. Qed.
