(* C16 — validation rewrites identifiers and integers without altering the data.
   Property theorems only: each is closed by `exact <lemma>`. *)
From Coq Require Import ZArith List Bool.
From CTM Require Import Base.Sx Model.IntDtype Model.GeneId Proofs.IntDtypeP Proofs.GeneIdP.
Import ListNotations.
Open Scope Z_scope.

(* choose_int_dtype below compares the rounded bounds with iinfo.min / iinfo.max EXACTLY.  That
   is what the code does when the bounds are integers; for bounds held in float32 / float64
   numpy first converts iinfo.max to that float type (choose_int_dtype_f, tied to the code on
   every run).  The two coincide except at the float boundaries -- c16_dtype_float_faithful --
   where the code picks a type that cannot hold the bound -- c16_dtype_float_boundary_refuted,
   the witness of finding F5. *)
Theorem c16_dtype_float_faithful : forall mant lo hi,
  (mant = 0 \/ forall c, In c candidates -> 2 ^ mant <= snd c -> round_half_even hi <> snd c + 1) ->
  choose_int_dtype_f mant lo hi = choose_int_dtype lo hi.
Proof. exact choose_f_agrees. Qed.
Print Assumptions c16_dtype_float_faithful.

Theorem c16_dtype_float_boundary_refuted :
  exists mant lo hi k, choose_int_dtype_f mant lo hi = Some k /\
     ~ (round_half_even hi <= snd (range_of k)).
Proof. exact choose_f_refuted. Qed.
Print Assumptions c16_dtype_float_boundary_refuted.

(* the integer type chosen contains the rounded bounds and is the first candidate that does *)
Theorem c16_dtype_wide_enough : forall lo hi k,
  0 < snd lo -> 0 < snd hi ->            (* bounds are rationals: positive denominators *)
  choose_int_dtype lo hi = Some k ->
  (k < 8)%nat /\
  fst (range_of k) <= round_half_even lo /\ round_half_even hi <= snd (range_of k) /\
  forall j, (j < k)%nat ->
     ~ (fst (range_of j) <= round_half_even lo /\ round_half_even hi <= snd (range_of j)).
Proof. intros lo hi k _ _. exact (choose_sound lo hi k). Qed.
Print Assumptions c16_dtype_wide_enough.

(* whenever some candidate type can hold the range, one is chosen (no fall-back) *)
Theorem c16_dtype_complete : forall lo hi c,
  0 < snd lo -> 0 < snd hi ->
  In c candidates -> fst c <= round_half_even lo -> round_half_even hi <= snd c ->
  exists k, choose_int_dtype lo hi = Some k.
Proof. intros lo hi c _ _. exact (choose_complete lo hi c). Qed.
Print Assumptions c16_dtype_complete.

(* every value between the measured minimum and maximum fits the chosen type after rounding *)
Theorem c16_values_fit : forall lo hi k xs,
  0 < snd lo -> 0 < snd hi ->
  choose_int_dtype lo hi = Some k ->
  Forall (fun x => 0 < snd x /\ rat_le lo x /\ rat_le x hi) xs ->
  Forall (fun r => fst (range_of k) <= r <= snd (range_of k)) (round_values xs).
Proof. exact values_fit. Qed.
Print Assumptions c16_values_fit.

(* rounding moves every value by at most one half, keeps length and order *)
Theorem c16_round_half : forall xs,
  Forall (fun x => 0 < snd x) xs ->
  Forall2 (fun x r => 2 * Z.abs (r * snd x - fst x) <= snd x) xs (round_values xs).
Proof. exact round_values_half. Qed.
Print Assumptions c16_round_half.

Theorem c16_round_integer_unchanged : forall z d, 0 < d -> round_half_even (z * d, d) = z.
Proof. exact round_integer. Qed.
Print Assumptions c16_round_integer_unchanged.

(* identifiers: position-wise description of the renaming *)
Theorem c16_ids : forall tbl ct g i x,
  nth_error g i = Some x ->
  nth_error (fst (map_loop tbl ct g)) i =
    Some (map_one tbl (ct + count_unmappable tbl (firstn i g)) x).
Proof. exact map_loop_nth. Qed.
Print Assumptions c16_ids.

Theorem c16_placeholders_unique : forall tbl g i j k,
  nth_error (fst (map_loop tbl 0 g)) i = Some (Placeholder k) ->
  nth_error (fst (map_loop tbl 0 g)) j = Some (Placeholder k) -> i = j.
Proof. exact placeholders_distinct. Qed.
Print Assumptions c16_placeholders_unique.

Theorem c16_n_unmapped : forall tbl ct g,
  snd (map_loop tbl ct g) = (ct + count_unmappable tbl g)%nat.
Proof. exact map_loop_count. Qed.
Print Assumptions c16_n_unmapped.

Theorem c16_recorded_renaming : forall g o x y,
  length g = length o ->
  (In (x, y) (gene_mapping g o) <->
   exists i, nth_error g i = Some x /\ nth_error o i = Some y /\ y <> Name x).
Proof. exact gene_mapping_spec. Qed.
Print Assumptions c16_recorded_renaming.

(* accepted inputs: unique cells and genes, same number of genes, unique output genes;
   no file is written only when nothing had to change *)
Theorem c16_order_shape_and_rejections : forall tbl cells genes lx round xi r,
  validate tbl cells genes lx round xi = GOk r ->
  NoDup cells /\ NoDup genes /\ ~ In [] genes /\
  length (v_genes r) = length genes /\ NoDup (v_genes r) /\
  v_rounded r = (round && negb xi) /\
  (v_new_file r = false -> lx = true /\ v_rounded r = false /\ v_genes r = map Name genes /\ v_mapping r = []).
Proof. exact validate_ok_spec. Qed.
Print Assumptions c16_order_shape_and_rejections.

Theorem c16_no_change_no_file : forall tbl cells genes round xi r o n,
  validate tbl cells genes true round xi = GOk r ->
  (round && negb xi) = false ->
  map_gene_identifiers tbl genes = GOk (o, n) -> onames_eq_strs o genes = true ->
  v_new_file r = false.
Proof. exact no_change_no_file. Qed.
Print Assumptions c16_no_change_no_file.

(* non-vacuity *)
Example c16_example_dtype :
  choose_int_dtype (0, 1) (511, 2) = Some 2%nat /\ round_half_even (511, 2) = 256 /\
  choose_int_dtype (-1, 2) (255, 1) = Some 0%nat /\ choose_int_dtype (0, 1) (4294967296, 1) = Some 6%nat.
Proof. vm_compute. repeat split; reflexivity. Qed.
