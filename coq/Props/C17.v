(* C17 — flattening or dropping a level equals mapping on the reduced taxonomy.
   Property theorems only.

   run_mapping_model (Model/RunMapping.v) is _run_mapping's data flow: the stored tree is
   kept for the output, the election (Model/Election.v) runs on the reduced tree, its
   records are keyed by the stored level names and flagged directly_assigned,
   backfill_assignments completes them from the stored tree.  The theorems hold for EVERY
   marker-cache acceptance test `cache_ok` and EVERY decision procedure `mk_decide` that
   are functions of (reduced tree, marker table) — which is all the code hands them —
   every marker table, every list of cells and every generator state.  A cell of the
   result is the dict {stored level index: record}; `lookup k cell` is cell[level k]. *)
From Coq Require Import ZArith List Bool.
From CTM Require Import Base.Sx Base.SortX Model.Tree Model.Election Model.RunMapping Proofs.ElectionP Proofs.RunMappingP.
From CTM Require Model.Markers.
Import ListNotations.
Open Scope Z_scope.

(* Dropping level li (accepted by drop_level: the tree has >= 2 levels and li is a level
   other than the leaf level) versus a run, without any reduction, on a reference whose
   taxonomy is drop_level t li:
   - both fail alike (marker cache, election), or
   - the reduced run succeeds with rowsB and generator g', and the dropping run either
     raises the KeyError of backfill_assignments (excluded by c17_backfilled_path under
     the validator's guarantees) or succeeds with the same generator state and rows that
     agree with rowsB at every stored level other than li (stored level k = reduced level
     k below li, k-1 above), while at li the record is the parent, in the STORED tree, of
     the directly assigned record at li+1, with its numbers, flagged inferred
     (directly_assigned = false) and without runner-up fields. *)
Theorem c17_drop_equals_reduced :
  forall (cell rng : Type) (cache_ok : tree -> Markers.table -> bool)
         (mk_decide : tree -> Markers.table -> rng -> option (nat * node) -> list node -> list cell -> list rec * rng)
         (t : tree) (li : nat) (t' : tree) (tb : Markers.table) (cells : list cell) (g : rng),
    drop_level t li = TOk t' ->
    match run_mapping_model cell rng cache_ok mk_decide t' {| cfg_drop := None; cfg_flatten := false |} tb cells g with
    | TErr e =>
        run_mapping_model cell rng cache_ok mk_decide t {| cfg_drop := Some li; cfg_flatten := false |} tb cells g = TErr e
    | TOk (rowsB, g') =>
        run_mapping_model cell rng cache_ok mk_decide t {| cfg_drop := Some li; cfg_flatten := false |} tb cells g
          = TErr Tree.E_KEY \/
        exists rowsA,
          run_mapping_model cell rng cache_ok mk_decide t {| cfg_drop := Some li; cfg_flatten := false |} tb cells g
            = TOk (rowsA, g') /\
          Forall2 (fun a b =>
                     (forall k, k <> li -> lookup k a = lookup (if (k <? li)%nat then k else pred k) b) /\
                     exists fine p,
                       lookup (S li) a = Some fine /\ o_direct fine = true /\
                       parent_of (nth li t []) (o_asg fine) = Some p /\
                       lookup li a = Some (inferred p fine))
                  rowsA rowsB
    end.
Proof. exact drop_equals_reduced. Qed.
Print Assumptions c17_drop_equals_reduced.

(* Flattening versus a run on the one-level taxonomy of the leaves with the flattened marker
   table (the sorted union of all lists, Markers.flatten_table): the leaf level holds
   exactly the record of the one-level run; every coarser level k holds the parent, in the
   stored tree, of the record at level k+1 — i.e. the leaf's ancestor — with the leaf's
   numbers, flagged inferred, without runner-up fields. *)
Theorem c17_flatten_equals_one_level :
  forall (cell rng : Type) (cache_ok : tree -> Markers.table -> bool)
         (mk_decide : tree -> Markers.table -> rng -> option (nat * node) -> list node -> list cell -> list rec * rng)
         (t : tree) (tb : Markers.table) (cells : list cell) (g : rng),
    validate t = true ->
    match run_mapping_model cell rng cache_ok mk_decide [leaf_level t] {| cfg_drop := None; cfg_flatten := false |}
                            (Markers.flatten_table tb) cells g with
    | TErr e =>
        run_mapping_model cell rng cache_ok mk_decide t {| cfg_drop := None; cfg_flatten := true |} tb cells g = TErr e
    | TOk (rowsB, g') =>
        run_mapping_model cell rng cache_ok mk_decide t {| cfg_drop := None; cfg_flatten := true |} tb cells g
          = TErr Tree.E_KEY \/
        exists rowsA,
          run_mapping_model cell rng cache_ok mk_decide t {| cfg_drop := None; cfg_flatten := true |} tb cells g
            = TOk (rowsA, g') /\
          Forall2 (fun a b =>
                     lookup (length t - 1) a = lookup 0 b /\
                     forall k, (S k < length t)%nat -> exists finer p,
                       lookup (S k) a = Some finer /\
                       parent_of (nth k t []) (o_asg finer) = Some p /\
                       lookup k a = Some (inferred p finer))
                  rowsA rowsB
    end.
Proof. exact flatten_equals_one_level. Qed.
Print Assumptions c17_flatten_equals_one_level.

(* A drop_level that is not a level of the taxonomy changes nothing at all (with or
   without flatten): same rows, same generator state, same errors. *)
Theorem c17_drop_absent_level_noop :
  forall (cell rng : Type) (cache_ok : tree -> Markers.table -> bool)
         (mk_decide : tree -> Markers.table -> rng -> option (nat * node) -> list node -> list cell -> list rec * rng)
         (t : tree) (li : nat) (f : bool) (tb : Markers.table) (cells : list cell) (g : rng),
    (length t <= li)%nat ->
    run_mapping_model cell rng cache_ok mk_decide t {| cfg_drop := Some li; cfg_flatten := f |} tb cells g =
    run_mapping_model cell rng cache_ok mk_decide t {| cfg_drop := None; cfg_flatten := f |} tb cells g.
Proof. exact drop_absent_noop. Qed.
Print Assumptions c17_drop_absent_level_noop.
