(* C17 — flattening or dropping a level equals mapping on the reduced taxonomy.
   Property theorems only.

   run_mapping_model (Model/RunMapping.v) is _run_mapping's data flow: the stored tree is
   kept for the output, the election (Model/Election.v) runs on the reduced tree, its
   records are keyed by the stored level names and flagged directly_assigned,
   backfill_assignments completes them from the stored tree.  The theorems hold for EVERY
   marker-cache acceptance test `cache_ok` and EVERY decision procedure `mk_decide` that
   are functions of (reduced tree, marker table) — which is all the code hands them —
   every marker table, every list of cells and every generator state.  A cell of the
   result is the dict {stored level index: record}; `lookup k cell` is cell[level k].

   WITH THE MARKER MODEL PLUGGED IN (audit 3, A7): Model/RunMappingMarkers.v instantiates
   cache_ok := (Markers.create_cache ... = MOk ...) and mk_decide := a vote that reads the table only
   through Markers.used of the parent it decides; c17_drop_named_equals_reduced_filtered compares the
   dropping run on the FILE's table with the run on the reduced reference whose file never had the
   entries of the removed level, under cache success of both;
   c17_drop_equals_never_had_level_refuted shows why "under cache success" cannot be dropped. *)
From Coq Require Import ZArith List Bool.
From CTM Require Import Base.Sx Base.SortX Model.Tree Model.Election Model.RunMapping Proofs.ElectionP Proofs.RunMappingP.
From CTM Require Import Proofs.TreeValidateP Proofs.TreeDropP.
From CTM Require Import Model.RunMappingKeys Proofs.RunMappingStrictP Proofs.RunMappingKeysP Proofs.MarkersP.
From CTM Require Model.Markers.
From CTM Require Import Model.RunMappingMarkers Proofs.RunMappingMarkersP.
Import ListNotations.
Open Scope Z_scope.

(* WHAT THIS THEOREM IS.  The run with drop_level = li on t and the run without reduction on
   t' = drop_level t li evaluate, in the model as in _run_mapping, one and the same marker-cache
   test and one and the same election: `cache_ok t' tb` and `run_type_assignment (mk_decide t'
   tb) t' cells g` (c17_both_runs_same_election below states this as an equation; it holds by
   unfolding, because _run_mapping reduces the tree BEFORE anything else looks at it - that the
   real code does so is the content of the tie, harness/props/c17.py parts (i'), (ii), (iii)).
   The two runs differ only in (stored tree, level names), which only backfill_assignments
   consumes.  So what is PROVED here is the backfill relation: how the output of
   backfill_assignments(stored tree t) on rows keyed by the surviving names relates to the
   same rows keyed by the names of t' (a single-gap backfill theorem) - not an equivalence of
   two independently executed mappings.  The table argument `tb` is keyed by the positions of
   the REDUCED tree in both runs (convention: Model/RunMappingKeys.v, c17_marker_key_convention).

   Dropping level li (accepted by drop_level: the tree has >= 2 levels and li is a level
   other than the leaf level) versus a run, without any reduction, on a reference whose
   taxonomy is drop_level t li:
   - both fail alike (marker cache, election), or
   - the reduced run succeeds with rowsB and generator g', and the dropping run either
     raises the KeyError of backfill_assignments (this alternative is removed in
     c17_drop_equals_reduced_strict under the validator's guarantees) or succeeds with the same
     generator state and rows that
     agree with rowsB at every stored level other than li (stored level k = reduced level
     k below li, k-1 above), while at li the record is the parent, in the STORED tree, of
     the directly assigned record at li+1, with its numbers, flagged inferred
     (directly_assigned = false) and without runner-up fields. *)
Theorem c17_drop_equals_reduced :
  forall (cell rng : Type) (cache_ok : tree -> Markers.table -> bool)
         (mk_decide : tree -> Markers.table -> rng -> option (nat * node) -> list node -> list cell -> list rec * rng)
         (t : tree) (li : nat) (t' : tree) (tb : Markers.table) (cells : list cell) (g : rng),
    drop_level t li = TOk t' ->
    match run_mapping_model cell rng cache_ok mk_decide t' {| cfg_drop := None; cfg_flatten := false |} tb cells g with
    | TErr e =>
        run_mapping_model cell rng cache_ok mk_decide t {| cfg_drop := Some li; cfg_flatten := false |} tb cells g = TErr e
    | TOk (rowsB, g') =>
        run_mapping_model cell rng cache_ok mk_decide t {| cfg_drop := Some li; cfg_flatten := false |} tb cells g
          = TErr Tree.E_KEY \/
        exists rowsA,
          run_mapping_model cell rng cache_ok mk_decide t {| cfg_drop := Some li; cfg_flatten := false |} tb cells g
            = TOk (rowsA, g') /\
          Forall2 (fun a b =>
                     (forall k, k <> li -> lookup k a = lookup (if (k <? li)%nat then k else pred k) b) /\
                     exists fine p,
                       lookup (S li) a = Some fine /\ o_direct fine = true /\
                       parent_of (nth li t []) (o_asg fine) = Some p /\
                       lookup li a = Some (inferred p fine))
                  rowsA rowsB
    end.
Proof. exact drop_equals_reduced. Qed.
Print Assumptions c17_drop_equals_reduced.

(* WHAT THIS THEOREM IS: as above - both runs execute the same cache test and the same
   election, on [leaf_level t] with the flattened table (c17_both_runs_same_election, second
   part); what is proved is the relation produced by backfill_assignments of the stored tree
   on a record that holds the leaf level only (a climb through all coarser levels).  Strict
   form without the KeyError alternative: c17_flatten_equals_one_level_strict.

   Flattening versus a run on the one-level taxonomy of the leaves with the flattened marker
   table (the sorted union of all lists, Markers.flatten_table): the leaf level holds
   exactly the record of the one-level run; every coarser level k holds the parent, in the
   stored tree, of the record at level k+1 - i.e. the leaf's ancestor - with the leaf's
   numbers, flagged inferred, without runner-up fields. *)
Theorem c17_flatten_equals_one_level :
  forall (cell rng : Type) (cache_ok : tree -> Markers.table -> bool)
         (mk_decide : tree -> Markers.table -> rng -> option (nat * node) -> list node -> list cell -> list rec * rng)
         (t : tree) (tb : Markers.table) (cells : list cell) (g : rng),
    validate t = true ->
    match run_mapping_model cell rng cache_ok mk_decide [leaf_level t] {| cfg_drop := None; cfg_flatten := false |}
                            (Markers.flatten_table tb) cells g with
    | TErr e =>
        run_mapping_model cell rng cache_ok mk_decide t {| cfg_drop := None; cfg_flatten := true |} tb cells g = TErr e
    | TOk (rowsB, g') =>
        run_mapping_model cell rng cache_ok mk_decide t {| cfg_drop := None; cfg_flatten := true |} tb cells g
          = TErr Tree.E_KEY \/
        exists rowsA,
          run_mapping_model cell rng cache_ok mk_decide t {| cfg_drop := None; cfg_flatten := true |} tb cells g
            = TOk (rowsA, g') /\
          Forall2 (fun a b =>
                     lookup (length t - 1) a = lookup 0 b /\
                     forall k, (S k < length t)%nat -> exists finer p,
                       lookup (S k) a = Some finer /\
                       parent_of (nth k t []) (o_asg finer) = Some p /\
                       lookup k a = Some (inferred p finer))
                  rowsA rowsB
    end.
Proof. exact flatten_equals_one_level. Qed.
Print Assumptions c17_flatten_equals_one_level.

(* A drop_level that is not a level of the taxonomy changes nothing at all (with or
   without flatten): same rows, same generator state, same errors. *)
Theorem c17_drop_absent_level_noop :
  forall (cell rng : Type) (cache_ok : tree -> Markers.table -> bool)
         (mk_decide : tree -> Markers.table -> rng -> option (nat * node) -> list node -> list cell -> list rec * rng)
         (t : tree) (li : nat) (f : bool) (tb : Markers.table) (cells : list cell) (g : rng),
    (length t <= li)%nat ->
    run_mapping_model cell rng cache_ok mk_decide t {| cfg_drop := Some li; cfg_flatten := f |} tb cells g =
    run_mapping_model cell rng cache_ok mk_decide t {| cfg_drop := None; cfg_flatten := f |} tb cells g.
Proof. exact drop_absent_noop. Qed.
Print Assumptions c17_drop_absent_level_noop.

(* The completed cells are root-to-leaf paths of the STORED tree, whatever the reduction
   (none, any droppable level, flatten, both, an absent level): for every decision procedure
   that answers with children of the parent it was asked about (it is only ever asked about
   parents with >= 2 children), every taxonomy meeting
   tree_ok (C01) that the validator accepts, every configuration that reduce accepts: a
   successful run satisfies the property's executable statement spec_c17 — one cell per
   query cell; every stored level present and nothing else; the assignments form a path of
   the stored tree; the levels of the reduced tree (m) are flagged directly_assigned and
   carry runner-up fields; every other level is flagged inferred, carries none, holds
   parent_of (stored tree) of the next finer assignment and that level's numbers. *)
Theorem c17_backfilled_path :
  forall (cell rng : Type) (cache_ok : tree -> Markers.table -> bool)
         (mk_decide : tree -> Markers.table -> rng -> option (nat * node) -> list node -> list cell -> list rec * rng),
    (forall t1 tb1 g p kids cs, (2 <= length kids)%nat ->
        Forall (fun r => In (asg r) kids) (fst (mk_decide t1 tb1 g p kids cs))) ->
    forall (t : tree) (c : cfg) (tb : Markers.table) (cells : list cell) (g : rng)
           (t' : tree) (m : list nat) (rows : list cellmap) (g' : rng),
      tree_ok t -> validate t = true ->
      reduce t c = TOk (t', m) ->
      run_mapping_model cell rng cache_ok mk_decide t c tb cells g = TOk (rows, g') ->
      spec_c17 t m (length cells) rows = true.
Proof. exact backfilled_path. Qed.
Print Assumptions c17_backfilled_path.

(* backfill_assignments never raises: under the same hypotheses no run ends in the KeyError
   of _child_to_parent — so the `= TErr E_KEY` alternative of c17_drop_equals_reduced and
   c17_flatten_equals_one_level does not occur for validated trees *)
Theorem c17_no_key_error :
  forall (cell rng : Type) (cache_ok : tree -> Markers.table -> bool)
         (mk_decide : tree -> Markers.table -> rng -> option (nat * node) -> list node -> list cell -> list rec * rng),
    (forall t1 tb1 g p kids cs, (2 <= length kids)%nat ->
        Forall (fun r => In (asg r) kids) (fst (mk_decide t1 tb1 g p kids cs))) ->
    forall (t : tree) (c : cfg) (tb : Markers.table) (cells : list cell) (g : rng) (t' : tree) (m : list nat),
      tree_ok t -> validate t = true ->
      reduce t c = TOk (t', m) ->
      run_mapping_model cell rng cache_ok mk_decide t c tb cells g <> TErr Tree.E_KEY.
Proof. exact no_key_error. Qed.
Print Assumptions c17_no_key_error.

(* ... and the run succeeds as soon as the reduction and the marker cache are accepted, when
   the decision procedure also answers for every cell it is handed (C01's totality on the
   reduced tree + no KeyError) *)
Theorem c17_total :
  forall (cell rng : Type) (cache_ok : tree -> Markers.table -> bool)
         (mk_decide : tree -> Markers.table -> rng -> option (nat * node) -> list node -> list cell -> list rec * rng),
    (forall t1 tb1 g p kids cs, (2 <= length kids)%nat ->
        Forall (fun r => In (asg r) kids) (fst (mk_decide t1 tb1 g p kids cs))) ->
    (forall t1 tb1 g p kids cs, (2 <= length kids)%nat ->
        length (fst (mk_decide t1 tb1 g p kids cs)) = length cs) ->
    forall (t : tree) (c : cfg) (tb : Markers.table) (cells : list cell) (g : rng) (t' : tree) (m : list nat),
      tree_ok t -> validate t = true ->
      reduce t c = TOk (t', m) ->
      cache_ok t' (if cfg_flatten c then Markers.flatten_table tb else tb) = true ->
      exists rows g', run_mapping_model cell rng cache_ok mk_decide t c tb cells g = TOk (rows, g').
Proof. exact run_total. Qed.
Print Assumptions c17_total.

(* The tree handed to the marker reconciliation and the election after drop_level is, as a
   tree that is QUERIED, the taxonomy that never had the level: parents(level j, x) on the
   reduced tree are the ancestors of x in the stored tree without the entry of the removed
   level li (squash: that entry deleted, the finer levels renumbered down by one; up_level: the
   stored position of reduced level j) - in particular every ancestor it names is a node of
   the reduced tree, never a node of the removed level.  (The harness compares exactly these
   answers of the real reduced TaxonomyTree, for every node, with `ancestors` on `reduce t cfg`:
   tag 1706.) *)
Theorem c17_reduced_tree_parents :
  forall (t : tree) (li : nat) (t' : tree) (m : list nat),
    validate t = true -> wf t -> (li < length t)%nat ->
    reduce t {| cfg_drop := Some li; cfg_flatten := false |} = TOk (t', m) ->
    drop_level t li = TOk t' /\ m = remove_nth li (seq 0 (length t)) /\
    (forall j x, ancestors t' j x = squash li (ancestors t (up_level li j) x)) /\
    (forall j x p, In p (map snd (ancestors t' j x)) -> exists k, In p (nodes (nth k t' []))).
Proof. exact reduce_drop_ancestors. Qed.
Print Assumptions c17_reduced_tree_parents.

(* ---------------- what the two theorems above compare, and their strict forms ---------------- *)

(* By construction of the model (the content is in the tie): each pair of runs compared above is
   run_core - cache test + election + place + backfill - on the SAME reduced tree, table, cells
   and generator, with a different (stored tree, level names) for the last step only. *)
Theorem c17_both_runs_same_election :
  forall (cell rng : Type) (cache_ok : tree -> Markers.table -> bool)
         (mk_decide : tree -> Markers.table -> rng -> option (nat * node) -> list node -> list cell -> list rec * rng)
         (t : tree) (tb : Markers.table) (cells : list cell) (g : rng),
    (forall li t', drop_level t li = TOk t' ->
       run_mapping_model cell rng cache_ok mk_decide t' {| cfg_drop := None; cfg_flatten := false |} tb cells g
         = run_core cell rng cache_ok mk_decide t' tb cells g (drop_cells t') (seq 0 (length t')) /\
       run_mapping_model cell rng cache_ok mk_decide t {| cfg_drop := Some li; cfg_flatten := false |} tb cells g
         = run_core cell rng cache_ok mk_decide t' tb cells g (drop_cells t) (remove_nth li (seq 0 (length t)))) /\
    (validate t = true ->
       run_mapping_model cell rng cache_ok mk_decide [leaf_level t] {| cfg_drop := None; cfg_flatten := false |}
                         (Markers.flatten_table tb) cells g
         = run_core cell rng cache_ok mk_decide [leaf_level t] (Markers.flatten_table tb) cells g
                    (drop_cells [leaf_level t]) [0%nat] /\
       run_mapping_model cell rng cache_ok mk_decide t {| cfg_drop := None; cfg_flatten := true |} tb cells g
         = run_core cell rng cache_ok mk_decide [leaf_level t] (Markers.flatten_table tb) cells g
                    (drop_cells t) [(length t - 1)%nat]).
Proof.
  intros cell rng cache_ok mk_decide t tb cells g. split.
  - intros li t'. exact (both_runs_same_election_drop cell rng cache_ok mk_decide t li t' tb cells g).
  - exact (both_runs_same_election_flat cell rng cache_ok mk_decide t tb cells g).
Qed.
Print Assumptions c17_both_runs_same_election.

(* Strict form of c17_drop_equals_reduced: for a taxonomy meeting tree_ok (C01) that the
   validator accepts and a decision procedure that answers with children of the parent it is
   asked about, the dropping run fails exactly like the reduced run or succeeds with the same
   generator state and the rows of the reduced run completed at level li - no KeyError
   alternative. *)
Theorem c17_drop_equals_reduced_strict :
  forall (cell rng : Type) (cache_ok : tree -> Markers.table -> bool)
         (mk_decide : tree -> Markers.table -> rng -> option (nat * node) -> list node -> list cell -> list rec * rng),
    (forall t1 tb1 g p kids cs, (2 <= length kids)%nat ->
        Forall (fun r => In (asg r) kids) (fst (mk_decide t1 tb1 g p kids cs))) ->
    forall (t : tree) (li : nat) (t' : tree) (tb : Markers.table) (cells : list cell) (g : rng),
    tree_ok t -> validate t = true ->
    drop_level t li = TOk t' ->
    match run_mapping_model cell rng cache_ok mk_decide t' {| cfg_drop := None; cfg_flatten := false |} tb cells g with
    | TErr e =>
        run_mapping_model cell rng cache_ok mk_decide t {| cfg_drop := Some li; cfg_flatten := false |} tb cells g = TErr e
    | TOk (rowsB, g') =>
        exists rowsA,
          run_mapping_model cell rng cache_ok mk_decide t {| cfg_drop := Some li; cfg_flatten := false |} tb cells g
            = TOk (rowsA, g') /\
          Forall2 (fun a b =>
                     (forall k, k <> li -> lookup k a = lookup (if (k <? li)%nat then k else pred k) b) /\
                     exists fine p,
                       lookup (S li) a = Some fine /\ o_direct fine = true /\
                       parent_of (nth li t []) (o_asg fine) = Some p /\
                       lookup li a = Some (inferred p fine))
                  rowsA rowsB
    end.
Proof. exact drop_equals_reduced_strict. Qed.
Print Assumptions c17_drop_equals_reduced_strict.

Theorem c17_flatten_equals_one_level_strict :
  forall (cell rng : Type) (cache_ok : tree -> Markers.table -> bool)
         (mk_decide : tree -> Markers.table -> rng -> option (nat * node) -> list node -> list cell -> list rec * rng),
    (forall t1 tb1 g p kids cs, (2 <= length kids)%nat ->
        Forall (fun r => In (asg r) kids) (fst (mk_decide t1 tb1 g p kids cs))) ->
    forall (t : tree) (tb : Markers.table) (cells : list cell) (g : rng),
    tree_ok t -> validate t = true ->
    match run_mapping_model cell rng cache_ok mk_decide [leaf_level t] {| cfg_drop := None; cfg_flatten := false |}
                            (Markers.flatten_table tb) cells g with
    | TErr e =>
        run_mapping_model cell rng cache_ok mk_decide t {| cfg_drop := None; cfg_flatten := true |} tb cells g = TErr e
    | TOk (rowsB, g') =>
        exists rowsA,
          run_mapping_model cell rng cache_ok mk_decide t {| cfg_drop := None; cfg_flatten := true |} tb cells g
            = TOk (rowsA, g') /\
          Forall2 (fun a b =>
                     lookup (length t - 1) a = lookup 0 b /\
                     forall k, (S k < length t)%nat -> exists finer p,
                       lookup (S k) a = Some finer /\
                       parent_of (nth k t []) (o_asg finer) = Some p /\
                       lookup k a = Some (inferred p finer))
                  rowsA rowsB
    end.
Proof. exact flatten_equals_one_level_strict. Qed.
Print Assumptions c17_flatten_equals_one_level_strict.

(* ---------------- the marker table: key convention, entries of removed parents ---------------- *)

(* In the code a key of the marker table is the string 'level_name/node', and drop_level keeps
   the names of the surviving levels; in the model a level name is a position in the tree that
   is queried, and run_mapping_model hands its table argument, unchanged, to the marker cache
   together with the REDUCED tree: that argument is keyed by reduced positions.  rekey m
   (Model/RunMappingKeys.v) translates the table of the file - keyed by the names of the STORED
   tree - into that convention; m = the level map of the reduction.  For every accepted
   reduction:
   (a) parent (j, x) of the reduced tree finds exactly the entry the file holds under its own
       name (m[j], x); the root entry is the root entry;
   (b) the entries of a level that did not survive lie under keys that are NO parents of the
       reduced tree (validate_marker_lookup iterates the parents of the reduced tree);
   (c) deleting those entries from the file changes no entry at a parent of the reduced tree.
   A stored-keyed table passed WITHOUT rekey is an encoding error of the caller of the model
   (c17_example_stored_keys_need_rekey), not a behaviour of the code: the code's string keys
   cannot shift (checked on the real validate_marker_lookup after the real drop_level, names
   'class/A', 'subclass/a1': harness/props/c17.py pipeline part runs exactly this). *)
Theorem c17_marker_key_convention :
  forall (t : tree) (c : cfg) (t' : tree) (m : list nat) (tb : Markers.table),
    validate t = true -> wf t -> reduce t c = TOk (t', m) ->
    (forall j x, In (Some (j, x)) (all_parents t') ->
       Markers.tget (Some (j, x)) (rekey m tb) = Markers.tget (Some (nth j m 0%nat, x)) tb) /\
    Markers.tget None (rekey m tb) = Markers.tget None tb /\
    (forall s x, ~ In s m -> ~ In (rekey_key m (Some (s, x))) (all_parents t')) /\
    (forall k, In k (all_parents t') ->
       Markers.tget k (rekey m tb) = Markers.tget k (rekey m (filter (surviving m) tb))).
Proof. exact rekey_convention. Qed.
Print Assumptions c17_marker_key_convention.

(* "marker groups of removed parents are never consulted BY validate_marker_lookup / used" (and by
   nothing else is claimed: create_marker_cache_from_specified_markers as a whole DOES read them -
   its reference-membership check and its write loop iterate every key of the file, see
   c17_drop_equals_never_had_level_refuted): two tables that agree at the parents
   of the tree u handed to the marker reconciliation - they may differ arbitrarily under keys
   that are no parents of u, which is where (b) puts the entries of removed parents - give
   every parent of u with >= 2 children the same markers: what assemble_query_data reads from
   either cache (Markers.used) is a duplicate-free list of one and the same set of genes, the
   set spec_markers (C08) of either table.  (Both caches are assumed to be created: an entry of
   a removed parent can still make the creation FAIL - a gene unknown to the reference is
   refused wherever it is listed, C08 c08_errors_unknown_to_reference - but then it fails in
   the dropping run and in the run on the reduced reference alike, since both are handed the
   same file.) *)
Theorem c17_removed_entries_not_consulted :
  forall (u : tree) (tb1 tb2 : Markers.table) (refg qg : list Markers.gene) (minm : nat)
         (c1 c2 : Markers.cache) (p : Markers.pkey),
    dict_ok u ->
    (forall k, In k (all_parents u) -> Markers.tget k tb1 = Markers.tget k tb2) ->
    Markers.create_cache tb1 refg qg (Some u) minm = Markers.MOk c1 ->
    Markers.create_cache tb2 refg qg (Some u) minm = Markers.MOk c2 ->
    In p (all_parents u) -> (2 <= length (children u p))%nat ->
    exists names1 names2,
      Markers.used c1 refg qg p = Some (names1, names1) /\
      Markers.used c2 refg qg p = Some (names2, names2) /\
      NoDup names1 /\ NoDup names2 /\
      (forall g, In g names1 <-> In g names2) /\
      (forall g, In g names1 <-> In g (Markers.spec_markers tb1 qg minm u p)).
Proof. exact entries_elsewhere_not_consulted. Qed.
Print Assumptions c17_removed_entries_not_consulted.

(* the strict drop theorem for the table AS THE FILE HOLDS IT (keyed by the names of the stored
   tree; run_mapping_named = run_mapping_model after rekey): the reference that never had the
   level holds the same entries under the names of its own tree, i.e. rekey m of the file.
   HONEST LABEL (audit 3, A7): run_mapping_named t cfg tb unfolds to run_mapping_model t cfg (rekey m tb),
   so this is c17_drop_equals_reduced_strict at tb := rekey m tb - an instance, by construction; cache_ok
   and mk_decide are still arbitrary functions of the WHOLE table.  The statement with the marker model
   plugged in, and with the removed entries really deleted on the right-hand side, is
   c17_drop_named_equals_reduced_filtered below. *)
Theorem c17_drop_equals_reduced_named :
  forall (cell rng : Type) (cache_ok : tree -> Markers.table -> bool)
         (mk_decide : tree -> Markers.table -> rng -> option (nat * node) -> list node -> list cell -> list rec * rng),
    (forall t1 tb1 g p kids cs, (2 <= length kids)%nat ->
        Forall (fun r => In (asg r) kids) (fst (mk_decide t1 tb1 g p kids cs))) ->
    forall (t : tree) (li : nat) (t' : tree) (tb : Markers.table) (cells : list cell) (g : rng),
    tree_ok t -> validate t = true ->
    drop_level t li = TOk t' ->
    match run_mapping_model cell rng cache_ok mk_decide t' {| cfg_drop := None; cfg_flatten := false |}
                            (rekey (remove_nth li (seq 0 (length t))) tb) cells g with
    | TErr e =>
        run_mapping_named cell rng cache_ok mk_decide t {| cfg_drop := Some li; cfg_flatten := false |} tb cells g = TErr e
    | TOk (rowsB, g') =>
        exists rowsA,
          run_mapping_named cell rng cache_ok mk_decide t {| cfg_drop := Some li; cfg_flatten := false |} tb cells g
            = TOk (rowsA, g') /\
          Forall2 (fun a b =>
                     (forall k, k <> li -> lookup k a = lookup (if (k <? li)%nat then k else pred k) b) /\
                     exists fine p,
                       lookup (S li) a = Some fine /\ o_direct fine = true /\
                       parent_of (nth li t []) (o_asg fine) = Some p /\
                       lookup li a = Some (inferred p fine))
                  rowsA rowsB
    end.
Proof. exact drop_equals_reduced_named. Qed.
Print Assumptions c17_drop_equals_reduced_named.

(* ---------------- with the marker model plugged in (Model/RunMappingMarkers.v) ---------------- *)

(* what assemble_query_data reads for a parent is not only the same SET (c17_removed_entries_not_consulted)
   but the same LIST, when the reference gene names are pairwise different (they are the identifiers of a
   CellByGeneMatrix): the groups of the cache are sorted by reference index *)
Theorem c17_removed_entries_same_lists :
  forall (u : tree) (tb1 tb2 : Markers.table) (refg qg : list Markers.gene) (minm : nat)
         (c1 c2 : Markers.cache) (p : Markers.pkey),
    dict_ok u -> NoDup refg ->
    (forall k, In k (all_parents u) -> Markers.tget k tb1 = Markers.tget k tb2) ->
    Markers.create_cache tb1 refg qg (Some u) minm = Markers.MOk c1 ->
    Markers.create_cache tb2 refg qg (Some u) minm = Markers.MOk c2 ->
    In p (all_parents u) -> (2 <= length (children u p))%nat ->
    Markers.used c1 refg qg p = Markers.used c2 refg qg p.
Proof. exact used_agree. Qed.
Print Assumptions c17_removed_entries_same_lists.

(* THE RUN-LEVEL STATEMENT.  cache_ok := create_marker_cache_from_specified_markers succeeds
   (cache_ok_real); the vote at a parent is ANY function of (reduced tree, what Markers.used reads of the
   cache for that parent, generator, parent, children, cells) that answers with children of the parent
   (mk_decide_real).  For a taxonomy meeting tree_ok that the validator accepts, pairwise different
   reference gene names, a droppable level li and m = the level map of the drop:
   IF the marker cache is created for the file's table (left run) AND for the table without the entries
   of the removed level (right run), THEN the run with drop_level on the FILE's table tb
   (run_mapping_real = run_mapping_named: keys are the names of the stored tree) fails exactly like, or
   succeeds with the same generator state and the level-li-completed rows of, the run WITHOUT any
   reduction on the reduced tree t' with the table `rekey m (filter (surviving m) tb)` - the file of a
   reference that never had the level.
   Content beyond c17_drop_equals_reduced_strict: the two runs are handed DIFFERENT tables; that the
   election is the same uses c17_removed_entries_same_lists (validate_marker_lookup on the reduced tree
   reads the table at its parents only, rekey sends the removed entries to keys that are no parents) and
   that run_type_assignment consults the vote only at parents with >= 2 children. *)
Theorem c17_drop_named_equals_reduced_filtered :
  forall (cell rng : Type) (refg qg : list Markers.gene) (minm : nat)
         (vote : tree -> option (list Markers.gene * list Markers.gene) ->
                 rng -> option (nat * node) -> list node -> list cell -> list rec * rng),
    (forall t1 u g p kids cs, (2 <= length kids)%nat ->
        Forall (fun r => In (asg r) kids) (fst (vote t1 u g p kids cs))) ->
    forall (t : tree) (li : nat) (t' : tree) (tb : Markers.table) (cells : list cell) (g : rng),
    tree_ok t -> validate t = true -> NoDup refg ->
    drop_level t li = TOk t' ->
    let m := remove_nth li (seq 0 (length t)) in
    cache_ok_real refg qg minm t' (rekey m tb) = true ->
    cache_ok_real refg qg minm t' (rekey m (filter (surviving m) tb)) = true ->
    match run_mapping_real_keyed cell rng refg qg minm vote t' {| cfg_drop := None; cfg_flatten := false |}
                                 (rekey m (filter (surviving m) tb)) cells g with
    | TErr e =>
        run_mapping_real cell rng refg qg minm vote t {| cfg_drop := Some li; cfg_flatten := false |} tb cells g = TErr e
    | TOk (rowsB, g') =>
        exists rowsA,
          run_mapping_real cell rng refg qg minm vote t {| cfg_drop := Some li; cfg_flatten := false |} tb cells g
            = TOk (rowsA, g') /\
          Forall2 (fun a b =>
                     (forall k, k <> li -> lookup k a = lookup (if (k <? li)%nat then k else pred k) b) /\
                     exists fine p,
                       lookup (S li) a = Some fine /\ o_direct fine = true /\
                       parent_of (nth li t []) (o_asg fine) = Some p /\
                       lookup li a = Some (inferred p fine))
                  rowsA rowsB
    end.
Proof.
  intros cell rng refg qg minm vote Hv t li t' tb cells g Ht V Nr Hd m K1 K2.
  exact (drop_named_equals_reduced_filtered cell rng refg qg minm vote Hv t li t' tb cells g Ht V Nr Hd K1 K2).
Qed.
Print Assumptions c17_drop_named_equals_reduced_filtered.

(* with flatten the keys play no part: the flattened table has the root key only *)
Theorem c17_flatten_ignores_keys :
  forall (cell rng : Type) (cache_ok : tree -> Markers.table -> bool)
         (mk_decide : tree -> Markers.table -> rng -> option (nat * node) -> list node -> list cell -> list rec * rng)
         (t : tree) (tb : Markers.table) (cells : list cell) (g : rng),
    validate t = true ->
    run_mapping_named cell rng cache_ok mk_decide t {| cfg_drop := None; cfg_flatten := true |} tb cells g =
    run_mapping_model cell rng cache_ok mk_decide t {| cfg_drop := None; cfg_flatten := true |} tb cells g.
Proof. exact flatten_named_is_model. Qed.
Print Assumptions c17_flatten_ignores_keys.

(* ---------------- non-vacuity: a 4-level taxonomy with a single top node, a single-child
   chain (10 -> 100) and a single-child parent (110 -> 1100) ---------------- *)
Definition ex_tree : tree :=
  [ [(1, [10; 11])];
    [(10, [100]); (11, [110; 111])];
    [(100, [1000; 1001]); (110, [1100]); (111, [1110; 1111])];
    [(1000, [0]); (1001, [1]); (1100, [2]); (1110, [3]); (1111, [4])] ].
Definition ex_decide (_ : tree) (_ : Markers.table) (g : nat) (p : option (nat * node)) (kids : list node) (cs : list Z)
  : list rec * nat :=
  (map (fun c => {| asg := if Z.even c then hd 0 kids else last kids 0; prob := (3, 4); corr := Some (1, 2);
                    runners := [(if Z.even c then last kids 0 else hd 0 kids, (1, 4), (1, 8))]; agg := one |}) cs, S g).
Definition ex_run := run_mapping_model Z nat (fun _ _ => true) ex_decide.
Definition ex_tb : Markers.table := [(None, [5; 3]); (Some (1%nat, 11), [3; 7])].

(* the hypotheses of c17_backfilled_path hold of it *)
Example c17_example_tree_ok : tree_ok ex_tree /\ validate ex_tree = true.
Proof. split; [apply tree_ok_b; vm_compute; reflexivity | vm_compute; reflexivity]. Qed.
Example c17_example_decide_ok :
  (forall t1 tb1 g p kids cs, (2 <= length kids)%nat ->
      Forall (fun r => In (asg r) kids) (fst (ex_decide t1 tb1 g p kids cs))) /\
  (forall t1 tb1 g p kids cs, (2 <= length kids)%nat -> length (fst (ex_decide t1 tb1 g p kids cs)) = length cs).
Proof.
  split.
  - intros t1 tb1 g p kids cs Hk. cbn. apply Forall_forall. intros r Hr. apply in_map_iff in Hr.
    destruct Hr as (c & <- & _). cbn [asg].
    assert (Hne : kids <> []) by (destruct kids; [cbn in Hk; inversion Hk | discriminate]).
    destruct (Z.even c).
    + destruct kids; [congruence | left; reflexivity].
    + destruct (exists_last Hne) as (l & a & ->). rewrite last_last. apply in_or_app. right. left. reflexivity.
  - intros t1 tb1 g p kids cs _. cbn. apply map_length.
Qed.

Example c17_example_hypotheses :
  validate ex_tree = true /\
  (exists t', drop_level ex_tree 0 = TOk t') /\ (exists t', drop_level ex_tree 1 = TOk t') /\
  (exists t', drop_level ex_tree 2 = TOk t') /\
  drop_level ex_tree 3 = TErr E_LEAF /\ drop_level ex_tree 4 = TErr E_NOLEVEL.
Proof. vm_compute. repeat split; eexists; reflexivity. Qed.

(* dropping the middle level 1: the reduced run and the dropping run, side by side *)
Example c17_example_drop :
  match drop_level ex_tree 1 with
  | TOk t' =>
      match ex_run t' {| cfg_drop := None; cfg_flatten := false |} ex_tb [5; 6; 7] 0%nat,
            ex_run ex_tree {| cfg_drop := Some 1%nat; cfg_flatten := false |} ex_tb [5; 6; 7] 0%nat with
      | TOk (rowsB, gB), TOk (rowsA, gA) =>
          gA = gB /\
          map (fun a => map (fun k => option_map o_asg (lookup k a)) [0; 1; 2; 3]%nat) rowsA
            = [[Some 1; Some 11; Some 111; Some 1111]; [Some 1; Some 10; Some 100; Some 1000]; [Some 1; Some 11; Some 111; Some 1111]] /\
          map (fun b => map (fun k => option_map o_asg (lookup k b)) [0; 1; 2]%nat) rowsB
            = [[Some 1; Some 111; Some 1111]; [Some 1; Some 100; Some 1000]; [Some 1; Some 111; Some 1111]] /\
          map (fun a => map (fun k => option_map o_direct (lookup k a)) [0; 1; 2; 3]%nat) rowsA
            = [[Some true; Some false; Some true; Some true]; [Some true; Some false; Some true; Some true];
               [Some true; Some false; Some true; Some true]] /\
          spec_c17 ex_tree [0; 2; 3]%nat 3 rowsA = true
      | _, _ => False
      end
  | TErr _ => False
  end.
Proof. vm_compute. repeat split; reflexivity. Qed.

(* flatten: only the leaf level is voted, everything above is the leaf's ancestor *)
Example c17_example_flatten :
  match ex_run ex_tree {| cfg_drop := None; cfg_flatten := true |} ex_tb [5; 6] 0%nat,
        ex_run [leaf_level ex_tree] {| cfg_drop := None; cfg_flatten := false |} (Markers.flatten_table ex_tb) [5; 6] 0%nat with
  | TOk (rowsA, gA), TOk (rowsB, gB) =>
      gA = gB /\
      map (fun a => map (fun k => option_map o_asg (lookup k a)) [0; 1; 2; 3]%nat) rowsA
        = [[Some 1; Some 11; Some 111; Some 1111]; [Some 1; Some 10; Some 100; Some 1000]] /\
      map (fun b => option_map o_asg (lookup 0 b)) rowsB = [Some 1111; Some 1000] /\
      map (fun a => map (fun k => option_map o_direct (lookup k a)) [0; 1; 2; 3]%nat) rowsA
        = [[Some false; Some false; Some false; Some true]; [Some false; Some false; Some false; Some true]] /\
      spec_c17 ex_tree [3]%nat 2 rowsA = true
  | _, _ => False
  end.
Proof. vm_compute. repeat split; reflexivity. Qed.

(* an absent level (index 7), the leaf level (rejected), and the reduction itself *)
Example c17_example_reduce :
  ex_run ex_tree {| cfg_drop := Some 7%nat; cfg_flatten := false |} ex_tb [5; 6] 0%nat
    = ex_run ex_tree {| cfg_drop := None; cfg_flatten := false |} ex_tb [5; 6] 0%nat /\
  ex_run ex_tree {| cfg_drop := Some 3%nat; cfg_flatten := false |} ex_tb [5; 6] 0%nat = TErr E_LEAF /\
  option_map snd (match reduce ex_tree {| cfg_drop := Some 1%nat; cfg_flatten := false |} with TOk r => Some r | TErr _ => None end)
    = Some [0; 2; 3]%nat /\
  option_map snd (match reduce ex_tree {| cfg_drop := Some 1%nat; cfg_flatten := true |} with TOk r => Some r | TErr _ => None end)
    = Some [3]%nat.
Proof. vm_compute. repeat split; reflexivity. Qed.

(* the reduced tree as a tree: with the middle level 1 removed, the parent of 111 (old level 2,
   new level 1) is the top node 1, not the removed node 11; wf holds of the example *)
Example c17_example_reduced_parents :
  wf ex_tree /\
  match reduce ex_tree {| cfg_drop := Some 1%nat; cfg_flatten := false |} with
  | TOk (t', _) => ancestors t' 2 1111 = [(1%nat, 111); (0%nat, 1)] /\ ancestors ex_tree 3 1111 = [(2%nat, 111); (1%nat, 11); (0%nat, 1)]
  | TErr _ => False
  end.
Proof. split; [apply tree_ok_wf; apply tree_ok_b; vm_compute; reflexivity | vm_compute; split; reflexivity]. Qed.

(* ---------------- the key convention on the example: level 1 of ex_tree dropped ---------------- *)
(* the file's table, keyed by the names (positions) of the STORED tree: root, (0,1), the removed
   parent (1,11), and the level-2 parents 100 and 111 *)
Definition ex_file : Markers.table :=
  [(None, [5; 3]); (Some (0%nat, 1), [3; 7]); (Some (1%nat, 11), [7; 8]);
   (Some (2%nat, 100), [5]); (Some (2%nat, 111), [3; 8])].
Definition ex_m : list nat := [0; 2; 3]%nat.
Definition ex_refg : list Markers.gene := [3; 5; 7; 8; 9].
Definition ex_qg : list Markers.gene := [9; 8; 7; 5; 3].

(* rekey: level 2 becomes level 1, the removed level 1 goes to index 3 + 1 = 4 (no level of the
   3-level reduced tree); deleting the removed entry first changes nothing at any other key *)
Example c17_example_rekey :
  rekey ex_m ex_file =
    [(None, [5; 3]); (Some (0%nat, 1), [3; 7]); (Some (4%nat, 11), [7; 8]);
     (Some (1%nat, 100), [5]); (Some (1%nat, 111), [3; 8])] /\
  rekey ex_m (filter (surviving ex_m) ex_file) =
    [(None, [5; 3]); (Some (0%nat, 1), [3; 7]); (Some (1%nat, 100), [5]); (Some (1%nat, 111), [3; 8])] /\
  option_map snd (match reduce ex_tree {| cfg_drop := Some 1%nat; cfg_flatten := false |} with TOk r => Some r | TErr _ => None end)
    = Some ex_m.
Proof. vm_compute. repeat split; reflexivity. Qed.

(* the audit's observation, as what it is: the file's table handed to the model WITHOUT rekey is
   read under the wrong names - parent (1,111) of the reduced tree (stored name (2,111)) is
   missing and (1,11) is not a node of reduced level 1 - whereas after rekey it finds [3; 8] *)
Example c17_example_stored_keys_need_rekey :
  Markers.tget (Some (1%nat, 111)) ex_file = None /\
  Markers.tget (Some (1%nat, 111)) (rekey ex_m ex_file) = Some [3; 8] /\
  Markers.tget (Some (2%nat, 111)) ex_file = Some [3; 8].
Proof. vm_compute. repeat split; reflexivity. Qed.

(* the hypotheses of c17_removed_entries_not_consulted hold of the reduced example tree and the
   two translated tables (with and without the entry of the removed parent 11), both caches are
   created, and with min_markers = 2 the parent (1,100) - one usable gene of its own - borrows from
   its ancestor IN THE REDUCED TREE, the top node (0,1): the genes 3 and 7, never the genes of the
   removed parent's ancestor line (8 is not borrowed) *)
Example c17_example_removed_entries :
  match drop_level ex_tree 1 with
  | TOk u =>
      dict_ok u /\
      (forall k, In k (all_parents u) ->
         Markers.tget k (rekey ex_m ex_file) = Markers.tget k (rekey ex_m (filter (surviving ex_m) ex_file))) /\
      In (Some (1%nat, 100)) (all_parents u) /\ (2 <= length (children u (Some (1%nat, 100%Z))))%nat /\
      match Markers.create_cache (rekey ex_m ex_file) ex_refg ex_qg (Some u) 2,
            Markers.create_cache (rekey ex_m (filter (surviving ex_m) ex_file)) ex_refg ex_qg (Some u) 2 with
      | Markers.MOk c1, Markers.MOk c2 =>
          Markers.used c1 ex_refg ex_qg (Some (1%nat, 100)) = Some ([3; 5; 7], [3; 5; 7]) /\
          Markers.used c2 ex_refg ex_qg (Some (1%nat, 100)) = Some ([3; 5; 7], [3; 5; 7]) /\
          Markers.used c1 ex_refg ex_qg (Some (1%nat, 111)) = Some ([3; 8], [3; 8]) /\
          Markers.used c2 ex_refg ex_qg (Some (1%nat, 111)) = Some ([3; 8], [3; 8])
      | _, _ => False
      end
  | TErr _ => False
  end.
Proof.
  vm_compute. split; [|split; [|split; [|split; [|repeat split; reflexivity]]]].
  - repeat constructor; cbn; intuition discriminate.
  - intros k Hk. repeat (destruct Hk as [<- | Hk]; [reflexivity|]). destruct Hk.
  - right; right; left. reflexivity.
  - apply le_n.
Qed.

(* the named run on the example: the dropping run with the FILE's table equals, level by level,
   the run on the reduced reference with the translated table *)
Example c17_example_named_run :
  match drop_level ex_tree 1 with
  | TOk t' =>
      match run_mapping_model Z nat (fun _ _ => true) ex_decide t' {| cfg_drop := None; cfg_flatten := false |}
                              (rekey ex_m ex_file) [5; 6; 7] 0%nat,
            run_mapping_named Z nat (fun _ _ => true) ex_decide ex_tree {| cfg_drop := Some 1%nat; cfg_flatten := false |}
                              ex_file [5; 6; 7] 0%nat with
      | TOk (rowsB, gB), TOk (rowsA, gA) =>
          gA = gB /\
          map (fun a => map (fun k => option_map o_asg (lookup k a)) [0; 2; 3]%nat) rowsA
            = map (fun b => map (fun k => option_map o_asg (lookup k b)) [0; 1; 2]%nat) rowsB
      | _, _ => False
      end
  | TErr _ => False
  end.
Proof. vm_compute. split; reflexivity. Qed.

(* ---------------- the marker model plugged in, on the example ---------------- *)
(* a vote that depends on what it reads of the cache: the number of reference columns of the parent
   shifts the choice *)
Definition ex_vote (_ : tree) (u : option (list Markers.gene * list Markers.gene)) (g : nat)
           (p : option (nat * node)) (kids : list node) (cs : list Z) : list rec * nat :=
  let n := match u with Some (a, _) => Z.of_nat (length a) | None => 0 end in
  (map (fun c => {| asg := if Z.even (c + n) then hd 0 kids else last kids 0; prob := (3, 4); corr := Some (1, 2);
                    runners := []; agg := one |}) cs, S g).

Example c17_example_vote_ok :
  forall t1 u g p kids cs, (2 <= length kids)%nat -> Forall (fun r => In (asg r) kids) (fst (ex_vote t1 u g p kids cs)).
Proof.
  intros t1 u g p kids cs Hk. cbn. apply Forall_forall. intros r Hr. apply in_map_iff in Hr.
  destruct Hr as (c & <- & _). cbn [asg].
  assert (Hne : kids <> []) by (destruct kids; [cbn in Hk; inversion Hk | discriminate]).
  destruct (Z.even _).
  - destruct kids; [congruence | left; reflexivity].
  - destruct (exists_last Hne) as (l & a & ->). rewrite last_last. apply in_or_app. right. left. reflexivity.
Qed.

(* the hypotheses of c17_drop_named_equals_reduced_filtered hold of ex_tree, level 1, the file ex_file
   (which has an entry for the removed parent (1,11)), min_markers 2: both caches are created, and the two
   runs - different tables - give the same rows at the shared levels and the same generator state *)
Example c17_example_real_run :
  NoDup ex_refg /\
  match drop_level ex_tree 1 with
  | TOk t' =>
      cache_ok_real ex_refg ex_qg 2 t' (rekey ex_m ex_file) = true /\
      cache_ok_real ex_refg ex_qg 2 t' (rekey ex_m (filter (surviving ex_m) ex_file)) = true /\
      rekey ex_m ex_file <> rekey ex_m (filter (surviving ex_m) ex_file) /\
      match run_mapping_real_keyed Z nat ex_refg ex_qg 2 ex_vote t' {| cfg_drop := None; cfg_flatten := false |}
                                   (rekey ex_m (filter (surviving ex_m) ex_file)) [5; 6; 7] 0%nat,
            run_mapping_real Z nat ex_refg ex_qg 2 ex_vote ex_tree {| cfg_drop := Some 1%nat; cfg_flatten := false |}
                             ex_file [5; 6; 7] 0%nat with
      | TOk (rowsB, gB), TOk (rowsA, gA) =>
          gA = gB /\
          map (fun a => map (fun k => option_map o_asg (lookup k a)) [0; 2; 3]%nat) rowsA
            = map (fun b => map (fun k => option_map o_asg (lookup k b)) [0; 1; 2]%nat) rowsB /\
          map (fun a => map (fun k => option_map o_asg (lookup k a)) [0; 1; 2; 3]%nat) rowsA
            = [[Some 1; Some 11; Some 111; Some 1111]; [Some 1; Some 10; Some 100; Some 1001]; [Some 1; Some 11; Some 111; Some 1111]]
      | _, _ => False
      end
  | TErr _ => False
  end.
Proof.
  split; [repeat constructor; cbn; intuition discriminate|].
  vm_compute. repeat split; try reflexivity. discriminate.
Qed.

(* WHY "under cache success of both": the asymmetry the audit found.  ex_file_bad = ex_file with the gene 99,
   unknown to the reference (and to the query), added to the entry of the REMOVED parent (1,11).
   validate_marker_lookup on the reduced tree never reads that entry (it succeeds, and leaves the same entries at
   every parent of the reduced tree), Markers.used never reads it - but create_cache as a whole fails with
   E_NOT_IN_REF: its reference-membership check runs over every key of the file (real code:
   create_marker_cache_from_specified_markers, 'The following marker genes are not in the reference dataset',
   reproduced on the real run_mapping).  So the dropping run on this file fails (E_MARKERS) while the run on the
   reduced reference with a file that never had the removed level's entries succeeds: "dropping a level = a
   reference that never had it" is FALSE at the run level when the comparison deletes the entries.
   NOT a finding against C17: the PROPERTY compares two runs that are handed the SAME marker file, and then both
   fail alike - in the model (second clause: the keyed run on the reduced tree with the unfiltered table) and on
   the real code (real run_mapping, drop_level = the middle level vs. a statistics file whose taxonomy never had
   it, same marker file with g777 under the removed level: both raise RuntimeError 'The following marker genes
   are not in the reference dataset'; with the removed level's entries deleted both succeed). *)
Definition ex_file_bad : Markers.table :=
  [(None, [5; 3]); (Some (0%nat, 1), [3; 7]); (Some (1%nat, 11), [7; 8; 99]);
   (Some (2%nat, 100), [5]); (Some (2%nat, 111), [3; 8])].

Theorem c17_drop_equals_never_had_level_refuted :
  exists (t : tree) (li : nat) (t' : tree) (tb : Markers.table) (refg qg : list Markers.gene) (minm : nat),
    let m := remove_nth li (seq 0 (length t)) in
    tree_ok t /\ validate t = true /\ NoDup refg /\ drop_level t li = TOk t' /\
    (* the removed entry is not consulted by validate_marker_lookup ... *)
    (exists tb1 log1 tb2 log2,
       Markers.validate_marker_lookup (rekey m tb) qg t' minm = Markers.MOk (tb1, log1) /\
       Markers.validate_marker_lookup (rekey m (filter (surviving m) tb)) qg t' minm = Markers.MOk (tb2, log2) /\
       log1 = log2 /\ forall k, In k (all_parents t') -> Markers.tget k tb1 = Markers.tget k tb2) /\
    (* ... yet the cache builder fails on the file and succeeds without the removed level's entries *)
    Markers.create_cache (rekey m tb) refg qg (Some t') minm = Markers.MErr Markers.E_NOT_IN_REF /\
    cache_ok_real refg qg minm t' (rekey m (filter (surviving m) tb)) = true /\
    (* the dropping run on the file fails, the run on the reference that never had the level succeeds *)
    run_mapping_real Z nat refg qg minm ex_vote t {| cfg_drop := Some li; cfg_flatten := false |} tb [5; 6; 7] 0%nat
      = TErr E_MARKERS /\
    (exists rows g', run_mapping_real_keyed Z nat refg qg minm ex_vote t' {| cfg_drop := None; cfg_flatten := false |}
                                            (rekey m (filter (surviving m) tb)) [5; 6; 7] 0%nat = TOk (rows, g')) /\
    (* the property's own comparison (the SAME file for both runs): both fail alike *)
    run_mapping_real_keyed Z nat refg qg minm ex_vote t' {| cfg_drop := None; cfg_flatten := false |}
                           (rekey m tb) [5; 6; 7] 0%nat = TErr E_MARKERS.
Proof.
  exists ex_tree, 1%nat.
  destruct (drop_level ex_tree 1) as [t'|e] eqn:Hd; [|vm_compute in Hd; discriminate].
  exists t', ex_file_bad, ex_refg, ex_qg, 2%nat.
  vm_compute in Hd. injection Hd as <-.
  split; [apply tree_ok_b; vm_compute; reflexivity|].
  split; [vm_compute; reflexivity|].
  split; [repeat constructor; cbn; intuition discriminate|].
  split; [vm_compute; reflexivity|].
  split.
  - vm_compute. do 4 eexists. split; [reflexivity|]. split; [reflexivity|]. split; [reflexivity|].
    intros k Hk. repeat (destruct Hk as [<- | Hk]; [reflexivity|]). destruct Hk.
  - vm_compute. repeat split; try reflexivity. do 2 eexists. reflexivity.
Qed.
Print Assumptions c17_drop_equals_never_had_level_refuted.
