(* C17 — flattening or dropping a level equals mapping on the reduced taxonomy.
   Property theorems only.

   run_mapping_model (Model/RunMapping.v) is _run_mapping's data flow: the stored tree is
   kept for the output, the election (Model/Election.v) runs on the reduced tree, its
   records are keyed by the stored level names and flagged directly_assigned,
   backfill_assignments completes them from the stored tree.  The theorems hold for EVERY
   marker-cache acceptance test `cache_ok` and EVERY decision procedure `mk_decide` that
   are functions of (reduced tree, marker table) — which is all the code hands them —
   every marker table, every list of cells and every generator state.  A cell of the
   result is the dict {stored level index: record}; `lookup k cell` is cell[level k]. *)
From Coq Require Import ZArith List Bool.
From CTM Require Import Base.Sx Base.SortX Model.Tree Model.Election Model.RunMapping Proofs.ElectionP Proofs.RunMappingP.
From CTM Require Import Proofs.TreeValidateP Proofs.TreeDropP.
From CTM Require Model.Markers.
Import ListNotations.
Open Scope Z_scope.

(* Dropping level li (accepted by drop_level: the tree has >= 2 levels and li is a level
   other than the leaf level) versus a run, without any reduction, on a reference whose
   taxonomy is drop_level t li:
   - both fail alike (marker cache, election), or
   - the reduced run succeeds with rowsB and generator g', and the dropping run either
     raises the KeyError of backfill_assignments (excluded by c17_backfilled_path under
     the validator's guarantees) or succeeds with the same generator state and rows that
     agree with rowsB at every stored level other than li (stored level k = reduced level
     k below li, k-1 above), while at li the record is the parent, in the STORED tree, of
     the directly assigned record at li+1, with its numbers, flagged inferred
     (directly_assigned = false) and without runner-up fields. *)
Theorem c17_drop_equals_reduced :
  forall (cell rng : Type) (cache_ok : tree -> Markers.table -> bool)
         (mk_decide : tree -> Markers.table -> rng -> option (nat * node) -> list node -> list cell -> list rec * rng)
         (t : tree) (li : nat) (t' : tree) (tb : Markers.table) (cells : list cell) (g : rng),
    drop_level t li = TOk t' ->
    match run_mapping_model cell rng cache_ok mk_decide t' {| cfg_drop := None; cfg_flatten := false |} tb cells g with
    | TErr e =>
        run_mapping_model cell rng cache_ok mk_decide t {| cfg_drop := Some li; cfg_flatten := false |} tb cells g = TErr e
    | TOk (rowsB, g') =>
        run_mapping_model cell rng cache_ok mk_decide t {| cfg_drop := Some li; cfg_flatten := false |} tb cells g
          = TErr Tree.E_KEY \/
        exists rowsA,
          run_mapping_model cell rng cache_ok mk_decide t {| cfg_drop := Some li; cfg_flatten := false |} tb cells g
            = TOk (rowsA, g') /\
          Forall2 (fun a b =>
                     (forall k, k <> li -> lookup k a = lookup (if (k <? li)%nat then k else pred k) b) /\
                     exists fine p,
                       lookup (S li) a = Some fine /\ o_direct fine = true /\
                       parent_of (nth li t []) (o_asg fine) = Some p /\
                       lookup li a = Some (inferred p fine))
                  rowsA rowsB
    end.
Proof. exact drop_equals_reduced. Qed.
Print Assumptions c17_drop_equals_reduced.

(* Flattening versus a run on the one-level taxonomy of the leaves with the flattened marker
   table (the sorted union of all lists, Markers.flatten_table): the leaf level holds
   exactly the record of the one-level run; every coarser level k holds the parent, in the
   stored tree, of the record at level k+1 — i.e. the leaf's ancestor — with the leaf's
   numbers, flagged inferred, without runner-up fields. *)
Theorem c17_flatten_equals_one_level :
  forall (cell rng : Type) (cache_ok : tree -> Markers.table -> bool)
         (mk_decide : tree -> Markers.table -> rng -> option (nat * node) -> list node -> list cell -> list rec * rng)
         (t : tree) (tb : Markers.table) (cells : list cell) (g : rng),
    validate t = true ->
    match run_mapping_model cell rng cache_ok mk_decide [leaf_level t] {| cfg_drop := None; cfg_flatten := false |}
                            (Markers.flatten_table tb) cells g with
    | TErr e =>
        run_mapping_model cell rng cache_ok mk_decide t {| cfg_drop := None; cfg_flatten := true |} tb cells g = TErr e
    | TOk (rowsB, g') =>
        run_mapping_model cell rng cache_ok mk_decide t {| cfg_drop := None; cfg_flatten := true |} tb cells g
          = TErr Tree.E_KEY \/
        exists rowsA,
          run_mapping_model cell rng cache_ok mk_decide t {| cfg_drop := None; cfg_flatten := true |} tb cells g
            = TOk (rowsA, g') /\
          Forall2 (fun a b =>
                     lookup (length t - 1) a = lookup 0 b /\
                     forall k, (S k < length t)%nat -> exists finer p,
                       lookup (S k) a = Some finer /\
                       parent_of (nth k t []) (o_asg finer) = Some p /\
                       lookup k a = Some (inferred p finer))
                  rowsA rowsB
    end.
Proof. exact flatten_equals_one_level. Qed.
Print Assumptions c17_flatten_equals_one_level.

(* A drop_level that is not a level of the taxonomy changes nothing at all (with or
   without flatten): same rows, same generator state, same errors. *)
Theorem c17_drop_absent_level_noop :
  forall (cell rng : Type) (cache_ok : tree -> Markers.table -> bool)
         (mk_decide : tree -> Markers.table -> rng -> option (nat * node) -> list node -> list cell -> list rec * rng)
         (t : tree) (li : nat) (f : bool) (tb : Markers.table) (cells : list cell) (g : rng),
    (length t <= li)%nat ->
    run_mapping_model cell rng cache_ok mk_decide t {| cfg_drop := Some li; cfg_flatten := f |} tb cells g =
    run_mapping_model cell rng cache_ok mk_decide t {| cfg_drop := None; cfg_flatten := f |} tb cells g.
Proof. exact drop_absent_noop. Qed.
Print Assumptions c17_drop_absent_level_noop.

(* The completed cells are root-to-leaf paths of the STORED tree, whatever the reduction
   (none, any droppable level, flatten, both, an absent level): for every decision procedure
   that answers with children of the parent it was asked about (it is only ever asked about
   parents with >= 2 children), every taxonomy meeting
   tree_ok (C01) that the validator accepts, every configuration that reduce accepts: a
   successful run satisfies the property's executable statement spec_c17 — one cell per
   query cell; every stored level present and nothing else; the assignments form a path of
   the stored tree; the levels of the reduced tree (m) are flagged directly_assigned and
   carry runner-up fields; every other level is flagged inferred, carries none, holds
   parent_of (stored tree) of the next finer assignment and that level's numbers. *)
Theorem c17_backfilled_path :
  forall (cell rng : Type) (cache_ok : tree -> Markers.table -> bool)
         (mk_decide : tree -> Markers.table -> rng -> option (nat * node) -> list node -> list cell -> list rec * rng),
    (forall t1 tb1 g p kids cs, (2 <= length kids)%nat ->
        Forall (fun r => In (asg r) kids) (fst (mk_decide t1 tb1 g p kids cs))) ->
    forall (t : tree) (c : cfg) (tb : Markers.table) (cells : list cell) (g : rng)
           (t' : tree) (m : list nat) (rows : list cellmap) (g' : rng),
      tree_ok t -> validate t = true ->
      reduce t c = TOk (t', m) ->
      run_mapping_model cell rng cache_ok mk_decide t c tb cells g = TOk (rows, g') ->
      spec_c17 t m (length cells) rows = true.
Proof. exact backfilled_path. Qed.
Print Assumptions c17_backfilled_path.

(* backfill_assignments never raises: under the same hypotheses no run ends in the KeyError
   of _child_to_parent — so the `= TErr E_KEY` alternative of c17_drop_equals_reduced and
   c17_flatten_equals_one_level does not occur for validated trees *)
Theorem c17_no_key_error :
  forall (cell rng : Type) (cache_ok : tree -> Markers.table -> bool)
         (mk_decide : tree -> Markers.table -> rng -> option (nat * node) -> list node -> list cell -> list rec * rng),
    (forall t1 tb1 g p kids cs, (2 <= length kids)%nat ->
        Forall (fun r => In (asg r) kids) (fst (mk_decide t1 tb1 g p kids cs))) ->
    forall (t : tree) (c : cfg) (tb : Markers.table) (cells : list cell) (g : rng) (t' : tree) (m : list nat),
      tree_ok t -> validate t = true ->
      reduce t c = TOk (t', m) ->
      run_mapping_model cell rng cache_ok mk_decide t c tb cells g <> TErr Tree.E_KEY.
Proof. exact no_key_error. Qed.
Print Assumptions c17_no_key_error.

(* ... and the run succeeds as soon as the reduction and the marker cache are accepted, when
   the decision procedure also answers for every cell it is handed (C01's totality on the
   reduced tree + no KeyError) *)
Theorem c17_total :
  forall (cell rng : Type) (cache_ok : tree -> Markers.table -> bool)
         (mk_decide : tree -> Markers.table -> rng -> option (nat * node) -> list node -> list cell -> list rec * rng),
    (forall t1 tb1 g p kids cs, (2 <= length kids)%nat ->
        Forall (fun r => In (asg r) kids) (fst (mk_decide t1 tb1 g p kids cs))) ->
    (forall t1 tb1 g p kids cs, (2 <= length kids)%nat ->
        length (fst (mk_decide t1 tb1 g p kids cs)) = length cs) ->
    forall (t : tree) (c : cfg) (tb : Markers.table) (cells : list cell) (g : rng) (t' : tree) (m : list nat),
      tree_ok t -> validate t = true ->
      reduce t c = TOk (t', m) ->
      cache_ok t' (if cfg_flatten c then Markers.flatten_table tb else tb) = true ->
      exists rows g', run_mapping_model cell rng cache_ok mk_decide t c tb cells g = TOk (rows, g').
Proof. exact run_total. Qed.
Print Assumptions c17_total.

(* The tree handed to the marker reconciliation and the election after drop_level is, as a
   tree that is QUERIED, the taxonomy that never had the level: parents(level j, x) on the
   reduced tree are the ancestors of x in the stored tree without the entry of the removed
   level li (squash: that entry deleted, the finer levels renumbered down by one; up_level: the
   stored position of reduced level j) - in particular every ancestor it names is a node of
   the reduced tree, never a node of the removed level.  (The harness compares exactly these
   answers of the real reduced TaxonomyTree, for every node, with `ancestors` on `reduce t cfg`:
   tag 1706.) *)
Theorem c17_reduced_tree_parents :
  forall (t : tree) (li : nat) (t' : tree) (m : list nat),
    validate t = true -> wf t -> (li < length t)%nat ->
    reduce t {| cfg_drop := Some li; cfg_flatten := false |} = TOk (t', m) ->
    drop_level t li = TOk t' /\ m = remove_nth li (seq 0 (length t)) /\
    (forall j x, ancestors t' j x = squash li (ancestors t (up_level li j) x)) /\
    (forall j x p, In p (map snd (ancestors t' j x)) -> exists k, In p (nodes (nth k t' []))).
Proof. exact reduce_drop_ancestors. Qed.
Print Assumptions c17_reduced_tree_parents.

(* ---------------- non-vacuity: a 4-level taxonomy with a single top node, a single-child
   chain (10 -> 100) and a single-child parent (110 -> 1100) ---------------- *)
Definition ex_tree : tree :=
  [ [(1, [10; 11])];
    [(10, [100]); (11, [110; 111])];
    [(100, [1000; 1001]); (110, [1100]); (111, [1110; 1111])];
    [(1000, [0]); (1001, [1]); (1100, [2]); (1110, [3]); (1111, [4])] ].
Definition ex_decide (_ : tree) (_ : Markers.table) (g : nat) (p : option (nat * node)) (kids : list node) (cs : list Z)
  : list rec * nat :=
  (map (fun c => {| asg := if Z.even c then hd 0 kids else last kids 0; prob := (3, 4); corr := Some (1, 2);
                    runners := [(if Z.even c then last kids 0 else hd 0 kids, (1, 4), (1, 8))]; agg := one |}) cs, S g).
Definition ex_run := run_mapping_model Z nat (fun _ _ => true) ex_decide.
Definition ex_tb : Markers.table := [(None, [5; 3]); (Some (1%nat, 11), [3; 7])].

(* the hypotheses of c17_backfilled_path hold of it *)
Example c17_example_tree_ok : tree_ok ex_tree /\ validate ex_tree = true.
Proof. split; [apply tree_ok_b; vm_compute; reflexivity | vm_compute; reflexivity]. Qed.
Example c17_example_decide_ok :
  (forall t1 tb1 g p kids cs, (2 <= length kids)%nat ->
      Forall (fun r => In (asg r) kids) (fst (ex_decide t1 tb1 g p kids cs))) /\
  (forall t1 tb1 g p kids cs, (2 <= length kids)%nat -> length (fst (ex_decide t1 tb1 g p kids cs)) = length cs).
Proof.
  split.
  - intros t1 tb1 g p kids cs Hk. cbn. apply Forall_forall. intros r Hr. apply in_map_iff in Hr.
    destruct Hr as (c & <- & _). cbn [asg].
    assert (Hne : kids <> []) by (destruct kids; [cbn in Hk; inversion Hk | discriminate]).
    destruct (Z.even c).
    + destruct kids; [congruence | left; reflexivity].
    + destruct (exists_last Hne) as (l & a & ->). rewrite last_last. apply in_or_app. right. left. reflexivity.
  - intros t1 tb1 g p kids cs _. cbn. apply map_length.
Qed.

Example c17_example_hypotheses :
  validate ex_tree = true /\
  (exists t', drop_level ex_tree 0 = TOk t') /\ (exists t', drop_level ex_tree 1 = TOk t') /\
  (exists t', drop_level ex_tree 2 = TOk t') /\
  drop_level ex_tree 3 = TErr E_LEAF /\ drop_level ex_tree 4 = TErr E_NOLEVEL.
Proof. vm_compute. repeat split; eexists; reflexivity. Qed.

(* dropping the middle level 1: the reduced run and the dropping run, side by side *)
Example c17_example_drop :
  match drop_level ex_tree 1 with
  | TOk t' =>
      match ex_run t' {| cfg_drop := None; cfg_flatten := false |} ex_tb [5; 6; 7] 0%nat,
            ex_run ex_tree {| cfg_drop := Some 1%nat; cfg_flatten := false |} ex_tb [5; 6; 7] 0%nat with
      | TOk (rowsB, gB), TOk (rowsA, gA) =>
          gA = gB /\
          map (fun a => map (fun k => option_map o_asg (lookup k a)) [0; 1; 2; 3]%nat) rowsA
            = [[Some 1; Some 11; Some 111; Some 1111]; [Some 1; Some 10; Some 100; Some 1000]; [Some 1; Some 11; Some 111; Some 1111]] /\
          map (fun b => map (fun k => option_map o_asg (lookup k b)) [0; 1; 2]%nat) rowsB
            = [[Some 1; Some 111; Some 1111]; [Some 1; Some 100; Some 1000]; [Some 1; Some 111; Some 1111]] /\
          map (fun a => map (fun k => option_map o_direct (lookup k a)) [0; 1; 2; 3]%nat) rowsA
            = [[Some true; Some false; Some true; Some true]; [Some true; Some false; Some true; Some true];
               [Some true; Some false; Some true; Some true]] /\
          spec_c17 ex_tree [0; 2; 3]%nat 3 rowsA = true
      | _, _ => False
      end
  | TErr _ => False
  end.
Proof. vm_compute. repeat split; reflexivity. Qed.

(* flatten: only the leaf level is voted, everything above is the leaf's ancestor *)
Example c17_example_flatten :
  match ex_run ex_tree {| cfg_drop := None; cfg_flatten := true |} ex_tb [5; 6] 0%nat,
        ex_run [leaf_level ex_tree] {| cfg_drop := None; cfg_flatten := false |} (Markers.flatten_table ex_tb) [5; 6] 0%nat with
  | TOk (rowsA, gA), TOk (rowsB, gB) =>
      gA = gB /\
      map (fun a => map (fun k => option_map o_asg (lookup k a)) [0; 1; 2; 3]%nat) rowsA
        = [[Some 1; Some 11; Some 111; Some 1111]; [Some 1; Some 10; Some 100; Some 1000]] /\
      map (fun b => option_map o_asg (lookup 0 b)) rowsB = [Some 1111; Some 1000] /\
      map (fun a => map (fun k => option_map o_direct (lookup k a)) [0; 1; 2; 3]%nat) rowsA
        = [[Some false; Some false; Some false; Some true]; [Some false; Some false; Some false; Some true]] /\
      spec_c17 ex_tree [3]%nat 2 rowsA = true
  | _, _ => False
  end.
Proof. vm_compute. repeat split; reflexivity. Qed.

(* an absent level (index 7), the leaf level (rejected), and the reduction itself *)
Example c17_example_reduce :
  ex_run ex_tree {| cfg_drop := Some 7%nat; cfg_flatten := false |} ex_tb [5; 6] 0%nat
    = ex_run ex_tree {| cfg_drop := None; cfg_flatten := false |} ex_tb [5; 6] 0%nat /\
  ex_run ex_tree {| cfg_drop := Some 3%nat; cfg_flatten := false |} ex_tb [5; 6] 0%nat = TErr E_LEAF /\
  option_map snd (match reduce ex_tree {| cfg_drop := Some 1%nat; cfg_flatten := false |} with TOk r => Some r | TErr _ => None end)
    = Some [0; 2; 3]%nat /\
  option_map snd (match reduce ex_tree {| cfg_drop := Some 1%nat; cfg_flatten := true |} with TOk r => Some r | TErr _ => None end)
    = Some [3]%nat.
Proof. vm_compute. repeat split; reflexivity. Qed.

(* the reduced tree as a tree: with the middle level 1 removed, the parent of 111 (old level 2,
   new level 1) is the top node 1, not the removed node 11; wf holds of the example *)
Example c17_example_reduced_parents :
  wf ex_tree /\
  match reduce ex_tree {| cfg_drop := Some 1%nat; cfg_flatten := false |} with
  | TOk (t', _) => ancestors t' 2 1111 = [(1%nat, 111); (0%nat, 1)] /\ ancestors ex_tree 3 1111 = [(2%nat, 111); (1%nat, 11); (0%nat, 1)]
  | TErr _ => False
  end.
Proof. split; [apply tree_ok_wf; apply tree_ok_b; vm_compute; reflexivity | vm_compute; split; reflexivity]. Qed.
