(* The two models of TaxonomyTree.backfill_assignments agree.

   Model/Tree.v      backfill   : one cell, reduced to its 'assignment' per level of the hierarchy
                                  (list (option node)); tied to the code by tag 1018 (harness c10.py)
   Model/RunMapping.v backfill  : the list of cells as the pipeline holds them (per cell a dict
                                  stored level index -> output record, insertion order), the loops
                                  in the code's order (levels outside, cells inside); tied by tags
                                  1701 / 1703 (harness c17.py)
   rec_of n cell = the 'assignment' of cell at each of the n levels (None = level absent).
   No hypothesis on the cell dicts is needed: both models read a dict through its first entry for
   a key, and keys >= length t are looked at by neither. *)
From Coq Require Import ZArith List Bool Lia.
From CTM Require Import Base.Sx Base.SortX Model.Tree Model.RunMapping.
Import ListNotations.

Definition rec_of (n : nat) (cell : cellmap) : list (option node) :=
  map (fun k => option_map o_asg (lookup k cell)) (seq 0 n).

Lemma rec_of_length n cell : length (rec_of n cell) = n.
Proof. unfold rec_of. rewrite map_length, seq_length. reflexivity. Qed.

Lemma rec_of_nth n cell k : (k < n)%nat -> nth k (rec_of n cell) None = option_map o_asg (lookup k cell).
Proof.
  intros Hk. unfold rec_of.
  rewrite (nth_indep _ None (option_map o_asg (lookup 0 cell))) by (rewrite map_length, seq_length; exact Hk).
  rewrite (map_nth (fun k => option_map o_asg (lookup k cell)) (seq 0 n) 0%nat k). rewrite seq_nth by exact Hk. reflexivity.
Qed.

Lemma lookup_app_none {A} k (d : list (nat * A)) j v : lookup k d = None ->
  lookup j (d ++ [(k, v)]) = if Nat.eqb j k then Some v else lookup j d.
Proof.
  induction d as [|[k' v'] r IH]; intros Hn; cbn [app lookup].
  - destruct (Nat.eqb j k); reflexivity.
  - cbn [lookup] in Hn. destruct (Nat.eqb k k') eqn:Ekk; [discriminate|]. specialize (IH Hn).
    destruct (Nat.eqb j k') eqn:Ejk.
    + apply Nat.eqb_eq in Ejk. subst k'. destruct (Nat.eqb j k) eqn:E; [|reflexivity].
      apply Nat.eqb_eq in E. subst j. rewrite Nat.eqb_refl in Ekk. discriminate.
    + exact IH.
Qed.

Lemma replace_nth_map_seq {A} (f g : nat -> A) k a n s :
  (forall j, g j = if Nat.eqb j k then a else f j) -> (s <= k)%nat -> (k < s + n)%nat ->
  map g (seq s n) = replace_nth (k - s) a (map f (seq s n)).
Proof.
  intros Hg. revert s. induction n as [|n IH]; intros s H1 H2; [lia|]. cbn [seq map].
  destruct (Nat.eq_dec s k) as [->|Hne].
  - rewrite Nat.sub_diag. cbn [replace_nth]. rewrite Hg, Nat.eqb_refl. f_equal.
    apply map_ext_in. intros j Hj. apply in_seq in Hj. rewrite Hg.
    destruct (Nat.eqb j k) eqn:E; [apply Nat.eqb_eq in E; lia | reflexivity].
  - replace (k - s)%nat with (S (k - S s)) by lia. cbn [replace_nth]. f_equal.
    + rewrite Hg. destruct (Nat.eqb s k) eqn:E; [apply Nat.eqb_eq in E; contradiction | reflexivity].
    + apply IH; lia.
Qed.

Lemma rec_of_append n cell k v : lookup k cell = None -> (k < n)%nat ->
  rec_of n (cell ++ [(k, v)]) = replace_nth k (Some (o_asg v)) (rec_of n cell).
Proof.
  intros Hn Hk. unfold rec_of.
  rewrite (replace_nth_map_seq (fun j => option_map o_asg (lookup j cell))
             (fun j => option_map o_asg (lookup j (cell ++ [(k, v)]))) k (Some (o_asg v)) n 0%nat).
  - rewrite Nat.sub_0_r. reflexivity.
  - intros j. rewrite (lookup_app_none k cell j v Hn). destruct (Nat.eqb j k); reflexivity.
  - lia.
  - lia.
Qed.

(* the levels-outside loop of RunMapping.backfill on ONE cell *)
Definition levels_loop (t : tree) (ks : list nat) (cells : list cellmap) : tres (list cellmap) :=
  fold_tres (fun cs k => map_tres (backfill_cell t k) cs) ks cells.

(* the same loop for one cell alone *)
Definition cell_loop (t : tree) (ks : list nat) (cell : cellmap) : tres cellmap :=
  fold_tres (fun c k => backfill_cell t k c) ks cell.

(* one step: backfill_cell at parent level k is the step of backfill_from at S k *)
Lemma cell_loop_link (t : tree) m : (m <= length t - 1)%nat -> forall cell,
  match cell_loop t (rev (seq 0 m)) cell with
  | TOk cell' => backfill_from t m (rec_of (length t) cell) = TOk (rec_of (length t) cell')
  | TErr e => e = Tree.E_KEY /\ backfill_from t m (rec_of (length t) cell) = TErr Tree.E_KEY
  end.
Proof.
  induction m as [|j IH]; intros Hm cell; [reflexivity|].
  rewrite seq_S, rev_app_distr. cbn [rev app plus]. unfold cell_loop. cbn [fold_tres backfill_from].
  rewrite !rec_of_nth by lia. unfold backfill_cell.
  assert (Hj : (j <= length t - 1)%nat) by lia.
  destruct (lookup j cell) as [r|] eqn:E1; cbn [option_map].
  - apply (IH Hj cell).
  - destruct (lookup (S j) cell) as [ch|] eqn:E2; cbn [option_map]; [|apply (IH Hj cell)].
    destruct (parent_of (nth j t []) (o_asg ch)) as [p|] eqn:E3; [|split; reflexivity].
    change (Some p) with (Some (o_asg (inferred p ch))).
    rewrite <- (rec_of_append (length t) cell j (inferred p ch) E1) by lia.
    apply (IH Hj (cell ++ [(j, inferred p ch)])).
Qed.

(* the cells do not interact: the levels-outside / cells-inside loop succeeds exactly when the
   loop of every cell alone does, with those results *)
Lemma levels_loop_cells (t : tree) ks : forall cells,
  match levels_loop t ks cells with
  | TOk cells' => Forall2 (fun c c' => cell_loop t ks c = TOk c') cells cells'
  | TErr e => exists c e', In c cells /\ cell_loop t ks c = TErr e'
  end.
Proof.
  induction ks as [|k ks IH]; intros cells.
  - cbn. induction cells; constructor; [reflexivity | assumption].
  - unfold levels_loop. cbn [fold_tres].
    assert (Hstep : match map_tres (backfill_cell t k) cells with
                    | TOk cs => Forall2 (fun c c' => backfill_cell t k c = TOk c') cells cs
                    | TErr e => exists c e', In c cells /\ backfill_cell t k c = TErr e'
                    end).
    { clear IH. induction cells as [|c r IHr]; [constructor|]. cbn [map_tres].
      destruct (backfill_cell t k c) as [y|e] eqn:Ec; [|exists c, e; split; [left; reflexivity | exact Ec]].
      destruct (map_tres (backfill_cell t k) r) as [r'|e].
      - constructor; assumption.
      - destruct IHr as (c0 & e0 & Hin & He). exists c0, e0. split; [right; exact Hin | exact He]. }
    destruct (map_tres (backfill_cell t k) cells) as [cs|e].
    + specialize (IH cs). unfold levels_loop in IH.
      destruct (fold_tres (fun cs0 k0 => map_tres (backfill_cell t k0) cs0) ks cs) as [cells'|e].
      * revert cells' IH. induction Hstep as [|c y cells cs Hc Hr IHs]; intros cells' IH2.
        -- inversion IH2; subst. constructor.
        -- inversion IH2 as [|? c' ? r' H1 H2]; subst. constructor; [|apply IHs; exact H2].
           unfold cell_loop. cbn [fold_tres]. rewrite Hc. exact H1.
      * destruct IH as (c0 & e0 & Hin & He).
        assert (Hex : exists c, In c cells /\ backfill_cell t k c = TOk c0).
        { clear He. induction Hstep as [|c y cells cs Hc Hr IHs]; [destruct Hin|].
          destruct Hin as [<-|Hin]; [exists c; split; [left; reflexivity | exact Hc]|].
          destruct (IHs Hin) as (c1 & H1 & H2). exists c1. split; [right; exact H1 | exact H2]. }
        destruct Hex as (c1 & H1 & H2). exists c1, e0. split; [exact H1|].
        unfold cell_loop. cbn [fold_tres]. rewrite H2. exact He.
    + destruct Hstep as (c0 & e0 & Hin & He). exists c0, e0. split; [exact Hin|].
      unfold cell_loop. cbn [fold_tres]. rewrite He. reflexivity.
Qed.

Theorem backfill_models_agree (t : tree) (cells : list cellmap) :
  (* success: every cell's assignments are what Tree.backfill gives for that cell alone *)
  (forall cells', RunMapping.backfill t cells = TOk cells' ->
     Forall2 (fun c c' => Tree.backfill t (rec_of (length t) c) = TOk (rec_of (length t) c')) cells cells') /\
  (* failure: it is the KeyError, and Tree.backfill raises it for some cell of the list *)
  (forall e, RunMapping.backfill t cells = TErr e ->
     e = Tree.E_KEY /\ exists c, In c cells /\ Tree.backfill t (rec_of (length t) c) = TErr Tree.E_KEY) /\
  (* conversely *)
  (Forall (fun c => exists r, Tree.backfill t (rec_of (length t) c) = TOk r) cells ->
     exists cells', RunMapping.backfill t cells = TOk cells') /\
  (* one cell alone, in one equation per outcome *)
  (forall cell,
     match RunMapping.backfill t [cell] with
     | TOk [cell'] => Tree.backfill t (rec_of (length t) cell) = TOk (rec_of (length t) cell')
     | TOk _ => False
     | TErr e => e = Tree.E_KEY /\ Tree.backfill t (rec_of (length t) cell) = TErr Tree.E_KEY
     end).
Proof.
  assert (Hle : (length t - 1 <= length t - 1)%nat) by lia.
  pose proof (cell_loop_link t (length t - 1) Hle) as HL.
  pose proof (levels_loop_cells t (rev (seq 0 (length t - 1)))) as HC.
  fold (Tree.backfill t) in HL.
  assert (Hone : forall c c', cell_loop t (rev (seq 0 (length t - 1))) c = TOk c' ->
                              Tree.backfill t (rec_of (length t) c) = TOk (rec_of (length t) c')).
  { intros c c' E. specialize (HL c). rewrite E in HL. exact HL. }
  assert (Herr : forall c e, cell_loop t (rev (seq 0 (length t - 1))) c = TErr e ->
                             e = Tree.E_KEY /\ Tree.backfill t (rec_of (length t) c) = TErr Tree.E_KEY).
  { intros c e E. specialize (HL c). rewrite E in HL. exact HL. }
  assert (Hmulti_err : forall cs e, RunMapping.backfill t cs = TErr e ->
            e = Tree.E_KEY /\ exists c, In c cs /\ Tree.backfill t (rec_of (length t) c) = TErr Tree.E_KEY).
  { intros cs e E. specialize (HC cs). unfold RunMapping.backfill in E. unfold levels_loop in HC. rewrite E in HC.
    destruct HC as (c & e' & Hin & He). destruct (Herr c e' He) as [-> Hb]. split; [|exists c; split; assumption].
    (* the code of the list-level failure: every failing step returns E_KEY *)
    clear - E. revert cs E. induction (rev (seq 0 (length t - 1))) as [|k ks IH]; intros cs E; [discriminate|].
    cbn [fold_tres] in E. destruct (map_tres (backfill_cell t k) cs) as [cs'|e0] eqn:Em; [apply (IH cs' E)|].
    inversion E; subst e0. clear E IH. revert Em. induction cs as [|c r IHr]; intros Em; [discriminate|].
    cbn [map_tres] in Em. destruct (backfill_cell t k c) as [y|e1] eqn:Ec.
    - destruct (map_tres (backfill_cell t k) r) as [r'|e2]; [discriminate|]. inversion Em; subst. apply IHr. reflexivity.
    - inversion Em; subst. unfold backfill_cell in Ec.
      destruct (lookup k c); [discriminate|]. destruct (lookup (S k) c); [|discriminate].
      destruct (parent_of (nth k t []) (o_asg o)); [discriminate|]. inversion Ec. reflexivity. }
  split; [|split; [|split]].
  - intros cells' E. specialize (HC cells). unfold RunMapping.backfill in E. unfold levels_loop in HC. rewrite E in HC.
    clear E. induction HC as [|c c' l l' Hc Hl IH]; [constructor|]. constructor; [apply Hone; exact Hc | exact IH].
  - intros e E. apply Hmulti_err. exact E.
  - intros Hall. destruct (RunMapping.backfill t cells) as [cells'|e] eqn:E; [exists cells'; reflexivity|].
    destruct (Hmulti_err cells e E) as [_ (c & Hin & Hb)].
    destruct (proj1 (Forall_forall _ _) Hall c Hin) as [r Hr]. rewrite Hr in Hb. discriminate.
  - intros cell. destruct (RunMapping.backfill t [cell]) as [cs|e] eqn:E.
    + specialize (HC [cell]). unfold RunMapping.backfill in E. unfold levels_loop in HC. rewrite E in HC.
      inversion HC as [|? c' ? l' H1 H2]; subst. inversion H2; subst. apply Hone. exact H1.
    + destruct (Hmulti_err [cell] e E) as [He (c & [<-|[]] & Hb)]. split; assumption.
Qed.

(* a witness: one cell mapped on a flattened tree (only the leaf level stored), one mapped with
   level 1 dropped, one whose stored node has no recorded parent *)
Definition ex_tree : tree :=
  [ [(1, [12]); (0, [11; 10])];
    [(10, [21; 20]); (12, [23; 24]); (11, [22])];
    [(20, [0]); (21, [2; 1]); (22, []); (23, [3]); (24, [4])] ].
Definition ex_orec (a : node) : orec :=
  {| o_asg := a; o_prob := (1, 1)%Z; o_corr := None; o_agg := (1, 1)%Z; o_runners := Some []; o_direct := true |}.

Lemma backfill_link_example :
  map (rec_of 3) [[(2%nat, ex_orec 21)]; [(0%nat, ex_orec 1); (2%nat, ex_orec 24)]] =
    [[None; None; Some 21%Z]; [Some 1%Z; None; Some 24%Z]] /\
  (exists cells', RunMapping.backfill ex_tree [[(2%nat, ex_orec 21)]; [(0%nat, ex_orec 1); (2%nat, ex_orec 24)]] = TOk cells' /\
     map (rec_of 3) cells' = [[Some 0%Z; Some 10%Z; Some 21%Z]; [Some 1%Z; Some 12%Z; Some 24%Z]]) /\
  Tree.backfill ex_tree [None; None; Some 21%Z] = TOk [Some 0%Z; Some 10%Z; Some 21%Z] /\
  RunMapping.backfill ex_tree [[(2%nat, ex_orec 99)]] = TErr Tree.E_KEY /\
  Tree.backfill ex_tree (rec_of 3 [(2%nat, ex_orec 99)]) = TErr Tree.E_KEY.
Proof.
  split; [vm_compute; reflexivity|]. split; [eexists; split; vm_compute; reflexivity|].
  split; [vm_compute; reflexivity|]. split; vm_compute; reflexivity.
Qed.
