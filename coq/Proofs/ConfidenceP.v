(* Trailing passes of run_type_assignment (C03): running product and correlation inheritance. *)
From Coq Require Import ZArith List Bool Lia.
From CTM Require Import Base.Sx Model.Tree Model.Election.
Import ListNotations.
Open Scope Z_scope.

Fixpoint products (a : frac) (l : list frac) : list frac :=
  match l with [] => [] | p :: t => fmul a p :: products (fmul a p) t end.

Lemma running_is_product acc rs : map agg (running acc rs) = products acc (map prob rs).
Proof. revert acc. induction rs as [|r t IH]; intros acc; cbn; [reflexivity|]. f_equal. apply IH. Qed.

Lemma running_keeps acc rs :
  map asg (running acc rs) = map asg rs /\ map prob (running acc rs) = map prob rs /\
  map corr (running acc rs) = map corr rs /\ map runners (running acc rs) = map runners rs.
Proof.
  revert acc. induction rs as [|r t IH]; intros acc; cbn; [auto|].
  destruct (IH (fmul acc (prob r))) as (A & B & C & D). rewrite A, B, C, D. auto.
Qed.

(* correlation after the inheritance pass: own value if a vote was held, else the value of the
   nearest level above where one was, else 1 (trivial choice at the top of the taxonomy) *)
Fixpoint inherited (above : frac) (l : list (option frac)) : list frac :=
  match l with
  | [] => []
  | Some c :: t => c :: inherited c t
  | None :: t => above :: inherited above t
  end.

Lemma inherit_corr above row rs :
  inherit above row = Ok rs ->
  exists recs, row = map Some recs /\
    map corr rs = map Some (inherited (match above with Some a => a | None => one end) (map corr recs)) /\
    map asg rs = map asg recs /\ map prob rs = map prob recs /\ map runners rs = map runners recs.
Proof.
  revert above rs. induction row as [|o row IH]; intros above rs H; cbn in H.
  - inversion H; subst. exists []. cbn. auto.
  - destruct o as [r|]; [|discriminate].
    destruct (inherit _ row) as [t'| | |] eqn:E; try discriminate.
    inversion H; subst rs. clear H.
    destruct (IH _ _ E) as (recs & -> & Hc & Ha & Hp & Hr).
    exists (r :: recs). cbn [map corr asg prob runners].
    split; [reflexivity|]. rewrite Hc, Ha, Hp, Hr.
    destruct (corr r) as [c|]; cbn [inherited]; auto.
Qed.

(* a parent with a single child: probability 1, no runners-up, no correlation of its own *)
Lemma trivial_rec_spec c : asg (trivial_rec c) = c /\ prob (trivial_rec c) = one /\
  corr (trivial_rec c) = None /\ runners (trivial_rec c) = [].
Proof. cbn. auto. Qed.
