(* Proofs about Model/Gather.v: the gathered, re-ordered result does not depend on the
   completion order; seeds are fixed at dispatch; the worker count matters only through
   the effective chunk size; merge orders of the other stages. *)
From Coq Require Import ZArith List Bool Lia Permutation.
From CTM Require Import Base.Sx Base.SortX Model.Pool Model.Gather Proofs.PoolP.
Import ListNotations.

(* ---- small list facts *)
Lemma firstn_In_x {A} (x : A) n : forall l, In x (firstn n l) -> In x l.
Proof.
  induction n as [|n IH]; intros [|a l]; cbn; try tauto.
  intros [H|H]; [left; exact H | right; apply IH; exact H].
Qed.

Lemma map_fst_combine_x {A B} (l1 : list A) : forall (l2 : list B),
  length l1 = length l2 -> map fst (combine l1 l2) = l1.
Proof.
  induction l1 as [|a l1 IH]; intros [|b l2]; cbn; intros H; try discriminate; try reflexivity.
  f_equal. apply IH. lia.
Qed.

Lemma zassoc_like_unique {A B} (l : list (A * B)) k v1 v2 :
  NoDup (map fst l) -> In (k, v1) l -> In (k, v2) l -> v1 = v2.
Proof.
  induction l as [|[a b] l IH]; cbn; intros ND H1 H2; [destruct H1|].
  inversion ND as [|x xs Hnotin ND']; subst.
  destruct H1 as [E1|H1], H2 as [E2|H2].
  - congruence.
  - inversion E1; subst. exfalso. apply Hnotin. apply (in_map fst) in H2. exact H2.
  - inversion E2; subst. exfalso. apply Hnotin. apply (in_map fst) in H1. exact H1.
  - apply IH; assumption.
Qed.

(* ---- permutations *)
Lemma concat_map_perm {A B} (f : A -> list B) l1 l2 :
  Permutation l1 l2 -> Permutation (concat (map f l1)) (concat (map f l2)).
Proof.
  induction 1 as [|x l l' _ IH|x y l|l l' l'' _ IH1 _ IH2]; cbn.
  - reflexivity.
  - apply Permutation_app_head. exact IH.
  - rewrite !app_assoc. apply Permutation_app_tail. apply Permutation_app_comm.
  - etransitivity; eassumption.
Qed.

Lemma zassoc_perm {A} k (l1 l2 : list (Z * A)) :
  Permutation l1 l2 -> NoDup (map fst l1) -> zassoc k l1 = zassoc k l2.
Proof.
  intros HP ND.
  assert (ND2 : NoDup (map fst l2)).
  { eapply Permutation_NoDup; [apply Permutation_map; exact HP | exact ND]. }
  destruct (zassoc k l1) as [v|] eqn:E1.
  - apply zassoc_in in E1. symmetry. apply zassoc_nodup_in; [exact ND2|].
    eapply Permutation_in; eassumption.
  - symmetry. apply zassoc_none. apply zassoc_none in E1. intros Hin. apply E1.
    eapply Permutation_in; [apply Permutation_sym; apply Permutation_map; exact HP | exact Hin].
Qed.

Lemma zinsert_comm x y l : zinsert x (zinsert y l) = zinsert y (zinsert x l).
Proof.
  induction l as [|z t IH]; cbn.
  - destruct (x <=? y)%Z eqn:E1, (y <=? x)%Z eqn:E2; try reflexivity.
    + apply Z.leb_le in E1, E2. assert (x = y) by lia. subst. reflexivity.
    + apply Z.leb_gt in E1, E2. lia.
  - destruct (y <=? z)%Z eqn:Eyz, (x <=? z)%Z eqn:Exz; cbn;
      destruct (x <=? y)%Z eqn:Exy, (y <=? x)%Z eqn:Eyx; cbn;
      rewrite ?Eyz, ?Exz, ?Exy, ?Eyx; try reflexivity;
      try (apply Z.leb_le in Exy; apply Z.leb_le in Eyx; assert (x = y) by lia; subst; reflexivity);
      try (rewrite IH; reflexivity);
      repeat match goal with
             | H : (_ <=? _)%Z = true |- _ => apply Z.leb_le in H
             | H : (_ <=? _)%Z = false |- _ => apply Z.leb_gt in H
             end; try lia.
Qed.

Lemma zsort_perm_eq l1 l2 : Permutation l1 l2 -> zsort l1 = zsort l2.
Proof.
  induction 1 as [|x l l' _ IH|x y l|l l' l'' _ IH1 _ IH2]; unfold zsort in *; cbn.
  - reflexivity.
  - rewrite IH. reflexivity.
  - apply zinsert_comm.
  - congruence.
Qed.

(* ---- gather / re-order *)
Section GatherP.
  Variable A : Type.
  Variable work : nat -> Z -> list (record A).

  Lemma lookup_last_perm c (b1 b2 : list (record A)) :
    Permutation b1 b2 -> NoDup (map fst b1) -> lookup_last A c b1 = lookup_last A c b2.
  Proof.
    intros HP ND. unfold lookup_last. apply zassoc_perm.
    - rewrite <- !Permutation_rev. exact HP.
    - eapply Permutation_NoDup; [apply Permutation_map; apply Permutation_rev | exact ND].
  Qed.

  Lemma re_order_perm co (b1 b2 : list (record A)) :
    Permutation b1 b2 -> NoDup (map fst b1) -> re_order A co b1 = re_order A co b2.
  Proof.
    intros HP ND. induction co as [|c rest IH]; cbn; [reflexivity|].
    rewrite (lookup_last_perm c b1 b2 HP ND), IH. reflexivity.
  Qed.

  (* shared-list path: any two completion orders give the same final list, provided the
     cell ids of the gathered records are distinct *)
  Theorem final_list_perm : forall co seeds s1 s2,
    Permutation s1 s2 -> NoDup (map fst (gather_list A work seeds s1)) ->
    final_list A work co seeds s1 = final_list A work co seeds s2.
  Proof.
    intros co seeds s1 s2 HP ND. unfold final_list. apply re_order_perm; [|exact ND].
    unfold gather_list. apply concat_map_perm. exact HP.
  Qed.

  (* the same with the hypothesis that every worker of the completion order has a seed (every
     worker gets its generator at dispatch): gather_list reads `nth i seeds 0`, and the default
     must not be what makes the statement true *)
  Theorem final_list_schedule_independent : forall co seeds s1 s2,
    (forall i, In i s1 -> (i < length seeds)%nat) ->
    Permutation s1 s2 -> NoDup (map fst (gather_list A work seeds s1)) ->
    final_list A work co seeds s1 = final_list A work co seeds s2.
  Proof. intros co seeds s1 s2 _. apply final_list_perm. Qed.

  (* buffer-directory path: the gathered list itself is independent of the listing order *)
  Theorem final_files_schedule_independent : forall name chunk_of_name co seeds s1 s2,
    (forall i, In i s1 -> (chunk_of_name (name i) < length seeds)%nat) ->
    Permutation s1 s2 ->
    gather_files A work name chunk_of_name seeds s1 = gather_files A work name chunk_of_name seeds s2 /\
    final_files A work name chunk_of_name co seeds s1 = final_files A work name chunk_of_name co seeds s2.
  Proof.
    intros name cn co seeds s1 s2 _ HP.
    assert (E : gather_files A work name cn seeds s1 = gather_files A work name cn seeds s2).
    { unfold gather_files. rewrite (zsort_perm_eq (map name s1) (map name s2)); [reflexivity|].
      apply Permutation_map. exact HP. }
    split; [exact E|]. unfold final_files. rewrite E. reflexivity.
  Qed.

  (* when the ids are distinct and every query cell was produced, the final list is the
     query order with each cell's own record *)
  Lemma re_order_spec co (b : list (record A)) r :
    re_order A co b = Some r -> map fst r = co /\ forall x, In x r -> In x b.
  Proof.
    revert r. induction co as [|c rest IH]; cbn; intros r H.
    - inversion H; subst. split; [reflexivity | intros x []].
    - destruct (lookup_last A c b) as [v|] eqn:E; [|discriminate].
      destruct (re_order A rest b) as [r'|]; [|discriminate]. inversion H; subst.
      destruct (IH r' eq_refl) as [H1 H2]. split; [cbn; rewrite H1; reflexivity|].
      intros x [<-|Hx]; [|apply H2; exact Hx].
      unfold lookup_last in E. apply zassoc_in in E. apply in_rev. exact E.
  Qed.
End GatherP.

(* the guard is needed: with a duplicated cell id the shared-list path depends on the order *)
Example duplicate_ids_order_dependent :
  let work := fun (i : nat) (_ : Z) => [(7%Z, Z.of_nat i)] in
  final_list Z work [7%Z] [] [0; 1]%nat = Some [(7, 1)]%Z /\
  final_list Z work [7%Z] [] [1; 0]%nat = Some [(7, 0)]%Z.
Proof. split; reflexivity. Qed.

(* ---- seeds *)
Section SeedsP.
  Variable S : Type.
  Variable draw : S -> Z * S.
  Variable winnow : world -> nat -> list job -> wres (list job).

  Lemma draws_length k : forall s, length (draws S draw k s) = k.
  Proof. induction k as [|k IH]; intros s; cbn; [reflexivity | rewrite IH; reflexivity]. Qed.

  (* whatever the world and the bound: the (worker, seed) pairs handed out are a prefix of
     (todo zipped with the first draws of the stream); all of it when the pool drained *)
  Lemma dispatch_seeds_prefix fuel W n : forall todo running t s acc,
    exists m, (m <= length todo)%nat /\
      snd (dispatch_seeds S draw winnow fuel W n todo running t s acc)
        = acc ++ firstn m (combine todo (draws S draw (length todo) s)) /\
      (fst (dispatch_seeds S draw winnow fuel W n todo running t s acc) = POk -> m = length todo).
  Proof.
    induction todo as [|w rest IH]; intros running t s acc; cbn [dispatch_seeds].
    - exists O. split; [cbn; lia|].
      destruct (wait_below winnow fuel W 1 running t []) as [r|r]; cbn;
        (split; [rewrite app_nil_r; reflexivity | reflexivity]).
    - destruct (wait_below winnow fuel W n (running ++ [(w, t)]) t []) as [[r lg]|[[r' t'] lg]] eqn:E.
      + exists 1%nat. split; [cbn; lia|]. cbn. split; [reflexivity|].
        intros ->. exfalso. eapply wait_never_ok. exact E.
      + destruct (IH r' t' (snd (draw s)) (acc ++ [(w, fst (draw s))])) as (m & Hm & Hs & Hok).
        exists (Datatypes.S m). split; [cbn; lia|]. split.
        * rewrite Hs. cbn. rewrite <- app_assoc. reflexivity.
        * intros H. rewrite (Hok H). reflexivity.
  Qed.
End SeedsP.

Theorem seeds_fixed_at_dispatch : forall (S : Type) (draw : S -> Z * S) (W : world) (n k : nat) (s : S),
  exists m, (m <= k)%nat /\
    snd (run_seeds S draw W n k s) = firstn m (combine (seq 0 k) (draws S draw k s)) /\
    (fst (run_seeds S draw W n k s) = POk -> snd (run_seeds S draw W n k s) = combine (seq 0 k) (draws S draw k s)).
Proof.
  intros S draw W n k s. unfold run_seeds.
  destruct (dispatch_seeds_prefix S draw winnow_list (pool_fuel W k) W n (seq 0 k) [] 0%nat s [])
    as (m & Hm & Hs & Hok).
  rewrite seq_length in *. exists m. split; [exact Hm|]. split; [exact Hs|].
  intros H. rewrite Hs, (Hok H). cbn. apply firstn_all2.
  rewrite combine_length, seq_length, draws_length. lia.
Qed.

(* the i-th worker gets the i-th draw: independent of the world and of the bound *)
Corollary seed_of_worker : forall (S : Type) (draw : S -> Z * S) (W1 W2 : world) (n1 n2 k : nat) (s : S) w z1 z2,
  In (w, z1) (snd (run_seeds S draw W1 n1 k s)) -> In (w, z2) (snd (run_seeds S draw W2 n2 k s)) -> z1 = z2.
Proof.
  intros S draw W1 W2 n1 n2 k s w z1 z2 H1 H2.
  destruct (seeds_fixed_at_dispatch S draw W1 n1 k s) as (m1 & _ & E1 & _).
  destruct (seeds_fixed_at_dispatch S draw W2 n2 k s) as (m2 & _ & E2 & _).
  rewrite E1 in H1. rewrite E2 in H2.
  apply firstn_In_x in H1. apply firstn_In_x in H2.
  assert (ND : NoDup (map fst (combine (seq 0 k) (draws S draw k s)))).
  { rewrite map_fst_combine_x; [apply seq_NoDup | rewrite seq_length, draws_length; reflexivity]. }
  apply (zassoc_like_unique _ _ _ _ ND H1 H2).
Qed.

(* ---- the verdict of the dispatch loop does not depend on what is logged or on the seed stream *)
Section Verdict.
  Variable winnow : world -> nat -> list job -> wres (list job).

  Lemma wait_below_log_irrelevant fuel W b : forall running t log1 log2,
    match wait_below winnow fuel W b running t log1, wait_below winnow fuel W b running t log2 with
    | inl (r1, _), inl (r2, _) => r1 = r2
    | inr (r1, t1, _), inr (r2, t2, _) => r1 = r2 /\ t1 = t2
    | _, _ => False
    end.
  Proof.
    induction fuel as [|f IH]; intros running t log1 log2; cbn [wait_below].
    - destruct (length running <? b)%nat; [split; reflexivity | reflexivity].
    - destruct (length running <? b)%nat; [split; reflexivity|].
      destruct (winnow W t running) as [r'|w c]; [apply IH | reflexivity].
  Qed.

  Lemma dispatch_seeds_verdict (S : Type) (draw : S -> Z * S) fuel W n : forall todo running t s acc log,
    fst (dispatch_seeds S draw winnow fuel W n todo running t s acc) =
    fst (dispatch_loop winnow fuel W n todo running t log).
  Proof.
    induction todo as [|w rest IH]; intros running t s acc log; cbn [dispatch_seeds dispatch_loop].
    - pose proof (wait_below_log_irrelevant fuel W 1 running t [] log) as H.
      destruct (wait_below winnow fuel W 1 running t []) as [[r1 l1]|[[r1 t1] l1]];
        destruct (wait_below winnow fuel W 1 running t log) as [[r2 l2]|[[r2 t2] l2]]; try contradiction; cbn [fst].
      + exact H.
      + reflexivity.
    - pose proof (wait_below_log_irrelevant fuel W n (running ++ [(w, t)]) t [] (log ++ [EStart w])) as H.
      destruct (wait_below winnow fuel W n (running ++ [(w, t)]) t []) as [[r1 l1]|[[r1 t1] l1]];
        destruct (wait_below winnow fuel W n (running ++ [(w, t)]) t (log ++ [EStart w])) as [[r2 l2]|[[r2 t2] l2]];
        try contradiction; cbn [fst].
      + exact H.
      + destruct H as [-> ->]. apply IH.
  Qed.
End Verdict.

Lemma run_seeds_verdict (S : Type) (draw : S -> Z * S) W n k s :
  fst (run_seeds S draw W n k s) = fst (run_pool_list W n k).
Proof. unfold run_seeds, run_pool_list. apply dispatch_seeds_verdict. Qed.

Lemma pool_clean W n k : (1 <= n)%nat -> (forall w, (w < k)%nat -> code W w = 0%Z) ->
  fst (run_pool_list W n k) = POk.
Proof.
  intros Hn Hz. destruct (pool_raises false W n k Hn) as (Hh & _ & Hr & _).
  unfold stage_result in *. destruct (fst (run_pool_list W n k)) as [|w c|]; [reflexivity| |contradiction].
  destruct (Hr w c eq_refl) as (Hw & Hc & Hnz). exfalso. apply Hnz. rewrite Hc. apply Hz. exact Hw.
Qed.

Lemma map_snd_combine_x {A B} (l1 : list A) : forall (l2 : list B),
  length l1 = length l2 -> map snd (combine l1 l2) = l2.
Proof.
  induction l1 as [|a l1 IH]; intros [|b l2]; cbn; intros H; try discriminate; try reflexivity.
  f_equal. apply IH. lia.
Qed.

(* ---- chunking facts *)
Lemma eff_chunk_pos n p c : (1 <= c)%nat -> (1 <= eff_chunk n p c)%nat.
Proof. intros Hc. unfold eff_chunk. lia. Qed.

Lemma chunks_length n cs : length (chunks n cs) = ceil_div n cs.
Proof. unfold chunks. rewrite map_length, seq_length. reflexivity. Qed.

(* a chunk size of at most n / p is used as given, whatever p is: there the worker count has
   no influence on the chunks at all *)
Lemma eff_chunk_small n p c : (1 <= p)%nat -> (1 <= c)%nat -> (c * p <= n)%nat -> eff_chunk n p c = c.
Proof.
  intros Hp Hc Hle. unfold eff_chunk, ceil_div.
  assert (H : (c <= (n + p - 1) / p)%nat).
  { apply Nat.div_le_lower_bound; [lia|]. rewrite Nat.mul_comm. lia. }
  lia.
Qed.

(* ---- the mapping as a whole: the worker count enters through the effective chunk size and
   through the bound of the dispatch loop; only the former matters.  With clean workers, any two
   worker counts p1 p2 >= 1 with the same effective chunk size, any two worlds (schedules) and
   any two orders s1 s2 in which the k workers appended their records give the same mapping --
   the one a sequential run would give (seeds in dispatch order, records in chunk order) *)
Theorem same_chunks_same_result :
  forall (A S : Type) (draw : S -> Z * S) (work_rows : nat -> nat -> Z -> list (record A))
         (cell_order : list Z) (s : S) (n p1 p2 c : nat) (W1 W2 : world) (s1 s2 : list nat),
  (1 <= p1)%nat -> (1 <= p2)%nat -> (1 <= c)%nat ->
  eff_chunk n p1 c = eff_chunk n p2 c ->
  let cs := eff_chunk n p1 c in
  let k := length (chunks n cs) in
  (forall w, (w < k)%nat -> code W1 w = 0%Z) -> (forall w, (w < k)%nat -> code W2 w = 0%Z) ->
  Permutation s1 (seq 0 k) -> Permutation s2 (seq 0 k) ->
  NoDup (map fst (gather_list A (chunk_work A work_rows n cs) (draws S draw k s) s1)) ->
  mapping_result A S draw work_rows cell_order s n p1 c W1 s1 =
  mapping_result A S draw work_rows cell_order s n p2 c W2 s2 /\
  mapping_result A S draw work_rows cell_order s n p1 c W1 s1 =
  final_list A (chunk_work A work_rows n cs) cell_order (draws S draw k s) (seq 0 k).
Proof.
  (* 1 <= c (audit 3, item 13) is a hypothesis of FAITHFULNESS, not of the proof: with
     chunk_size 0 the real row iterator yields empty chunks for ever, whereas `chunks n 0` is
     the empty list *)
  intros A S draw work_rows co s n p1 p2 c W1 W2 s1 s2 Hp1 Hp2 _ He cs k Hz1 Hz2 HP1 HP2 ND.
  assert (R : forall W p sg, (1 <= p)%nat -> (forall w, (w < k)%nat -> code W w = 0%Z) ->
              eff_chunk n p c = cs ->
              mapping_result A S draw work_rows co s n p c W sg =
              final_list A (chunk_work A work_rows n cs) co (draws S draw k s) sg).
  { intros W p sg Hp Hz Hc. unfold mapping_result. rewrite Hc. fold k.
    pose proof (run_seeds_verdict S draw W p k s) as Hv. rewrite (pool_clean W p k Hp Hz) in Hv.
    destruct (seeds_fixed_at_dispatch S draw W p k s) as (m & _ & _ & Hok).
    rewrite Hv. rewrite (Hok Hv).
    rewrite map_snd_combine_x by (rewrite seq_length, draws_length; reflexivity). reflexivity. }
  rewrite (R W1 p1 s1 Hp1 Hz1 eq_refl), (R W2 p2 s2 Hp2 Hz2 (eq_sym He)).
  split.
  - apply final_list_perm; [|exact ND].
    eapply Permutation_trans; [exact HP1 | apply Permutation_sym; exact HP2].
  - apply final_list_perm; assumption.
Qed.

(* a failing worker: no mapping, whatever the rest *)
Theorem mapping_result_failed :
  forall (A S : Type) (draw : S -> Z * S) (work_rows : nat -> nat -> Z -> list (record A))
         (cell_order : list Z) (s : S) (n p c : nat) (W : world) (sigma : list nat),
  (1 <= p)%nat ->
  (exists w, (w < length (chunks n (eff_chunk n p c)))%nat /\ code W w <> 0%Z) ->
  mapping_result A S draw work_rows cell_order s n p c W sigma = None.
Proof.
  intros A S draw work_rows co s n p c W sigma Hp Hex. unfold mapping_result.
  rewrite run_seeds_verdict.
  destruct (pool_raises false W p (length (chunks n (eff_chunk n p c))) Hp) as (_ & _ & _ & Hr).
  destruct (Hr Hex) as (w & cd & Hw).
  unfold stage_result in Hw. rewrite Hw. reflexivity.
Qed.

(* ---- statistics: the order of buffer_path_list, read off the parent's event log *)
Lemma starts_app a b : starts (a ++ b) = starts a ++ starts b.
Proof. unfold starts. induction a as [|e a IH]; cbn; [reflexivity|]. rewrite IH, app_assoc. reflexivity. Qed.

Lemma starts_popped before after : starts (popped before after) = [].
Proof.
  unfold popped.
  induction (filter (fun j => negb (existsb (fun j' => Nat.eqb (fst j) (fst j')) after)) before) as [|j l IH];
    cbn; [reflexivity | exact IH].
Qed.

Section Starts.
  Variable winnow : world -> nat -> list job -> wres (list job).

  (* polling only logs pops *)
  Lemma wait_below_starts fuel W b : forall running t log,
    starts (match wait_below winnow fuel W b running t log with
            | inl (_, lg) => lg | inr (_, _, lg) => lg end) = starts log.
  Proof.
    induction fuel as [|f IH]; intros running t log; cbn [wait_below].
    - destruct (length running <? b)%nat; reflexivity.
    - destruct (length running <? b)%nat; [reflexivity|].
      destruct (winnow W t running) as [r'|w c]; [|reflexivity].
      rewrite IH, starts_app, starts_popped, app_nil_r. reflexivity.
  Qed.

  (* the workers are started in the order of `todo`, a prefix of it when the inspector raised *)
  Lemma dispatch_starts fuel W n : forall todo running t log,
    exists m, (m <= length todo)%nat /\
      starts (snd (dispatch_loop winnow fuel W n todo running t log)) = starts log ++ firstn m todo /\
      (fst (dispatch_loop winnow fuel W n todo running t log) = POk -> m = length todo).
  Proof.
    induction todo as [|w rest IH]; intros running t log; cbn [dispatch_loop].
    - exists O. split; [cbn; lia|]. pose proof (wait_below_starts fuel W 1 running t log) as H.
      destruct (wait_below winnow fuel W 1 running t log) as [[r lg]|[[r' t'] lg]]; cbn [fst snd];
        (split; [rewrite H, app_nil_r; reflexivity | reflexivity]).
    - pose proof (wait_below_starts fuel W n (running ++ [(w, t)]) t (log ++ [EStart w])) as H.
      destruct (wait_below winnow fuel W n (running ++ [(w, t)]) t (log ++ [EStart w]))
        as [[r lg]|[[r' t'] lg]] eqn:E.
      + exists 1%nat. split; [cbn; lia|]. cbn [fst snd]. split.
        * rewrite H, starts_app. reflexivity.
        * intros ->. exfalso. eapply wait_never_ok. exact E.
      + destruct (IH r' t' lg) as (m & Hm & Hs & Hok).
        exists (Datatypes.S m). split; [cbn; lia|]. split.
        * rewrite Hs, H, starts_app. cbn. rewrite <- app_assoc. reflexivity.
        * intros Hp. rewrite (Hok Hp). reflexivity.
  Qed.
End Starts.

(* for EVERY world, bound and inspector: buffer_path_list is 0, 1, ..., m-1 for some m <= k, and
   all of 0..k-1 when the pool drained cleanly -- the order in which the buffers are added up
   owes nothing to the schedule *)
Theorem starts_are_dispatch_order : forall (variant : bool) (W : world) (n k : nat),
  let r := if variant then run_pool_dict W n k else run_pool_list W n k in
  exists m, (m <= k)%nat /\ starts (snd r) = seq 0 m /\ (fst r = POk -> starts (snd r) = seq 0 k).
Proof.
  intros variant W n k r.
  assert (H : forall winnow, exists m, (m <= k)%nat /\
            starts (snd (dispatch_loop winnow (pool_fuel W k) W n (seq 0 k) [] 0 [])) = seq 0 m /\
            (fst (dispatch_loop winnow (pool_fuel W k) W n (seq 0 k) [] 0 []) = POk ->
             starts (snd (dispatch_loop winnow (pool_fuel W k) W n (seq 0 k) [] 0 [])) = seq 0 k)).
  { intros winnow. destruct (dispatch_starts winnow (pool_fuel W k) W n (seq 0 k) [] 0%nat []) as (m & Hm & Hs & Hok).
    rewrite seq_length in *. exists m. split; [exact Hm|]. cbn [starts flat_map app] in Hs.
    assert (Hf : firstn m (seq 0 k) = seq 0 m).
    { clear - Hm. replace k with (m + (k - m))%nat by lia. rewrite seq_app, firstn_app, seq_length.
      replace (m - m)%nat with O by lia. cbn [firstn]. rewrite app_nil_r.
      apply firstn_all2. rewrite seq_length. lia. }
    split; [rewrite Hs; exact Hf|]. intros Hp. rewrite Hs, Hf, (Hok Hp). reflexivity. }
  subst r. destruct variant; [apply (H winnow_dict) | apply (H winnow_list)].
Qed.

(* hence: for a FIXED work split (k work units with partial sums `partial`, as produced by ONE
   worker count n) and whatever the schedule, a clean drain adds the partial sums up in dispatch
   order (`add` is any operation); two runs with clean workers agree.  (Audit 3, item 13: the
   former statement let two worker counts n1 n2 share k and partial; in the real
   _precompute_summary_stats_from_h5ad_and_lookup n_processors determines the split - n_per =
   ceil(n_cells / n_processors) - hence k and the partial sums.) *)
Theorem stats_merge_order_fixed :
  forall (A : Type) (add : A -> A -> A) (zero : A) (partial : nat -> A) (W1 W2 : world) (n k : nat),
  (1 <= n)%nat ->
  (forall w, (w < k)%nat -> code W1 w = 0%Z) -> (forall w, (w < k)%nat -> code W2 w = 0%Z) ->
  stats_result A add zero partial W1 n k = Some (merge_stats A add zero partial k) /\
  stats_result A add zero partial W2 n k = stats_result A add zero partial W1 n k.
Proof.
  intros A add zero partial W1 W2 n k H1 Hz1 Hz2.
  assert (R : forall W, (forall w, (w < k)%nat -> code W w = 0%Z) ->
              stats_result A add zero partial W n k = Some (merge_stats A add zero partial k)).
  { intros W Hz. unfold stats_result, merge_stats.
    pose proof (pool_clean W n k H1 Hz) as Hc. rewrite Hc.
    destruct (starts_are_dispatch_order false W n k) as (m & _ & _ & Hok). cbn zeta in Hok.
    rewrite (Hok Hc). reflexivity. }
  rewrite (R W1 Hz1), (R W2 Hz2). split; reflexivity.
Qed.

(* the order is not `seq 0 k` by fiat: a raise cuts it short (worker 0 fails at once, two slots:
   worker 2 is never dispatched) *)
Example starts_prefix_on_raise :
  let W := {| code := fun w => if Nat.eqb w 0 then 1%Z else 0%Z; dur := fun _ => 0%nat |} in
  fst (run_pool_list W 2 3) = PRaised 0 1 /\ starts (snd (run_pool_list W 2 3)) = [0; 1]%nat.
Proof. vm_compute. split; reflexivity. Qed.

(* ---- reference markers: the chunks are merged in sorted key order whatever the order in
   which the keys are listed *)
Theorem marker_merge_sorted : forall (A : Type) (chunk : Z -> list A) (k1 k2 : list Z),
  Permutation k1 k2 -> merge_markers chunk k1 = merge_markers chunk k2.
Proof. intros A chunk k1 k2 HP. unfold merge_markers. rewrite (zsort_perm_eq k1 k2 HP). reflexivity. Qed.

(* ---- selection: what the caller reads per parent does not depend on the order in which
   the workers filled the dict (distinct parents) *)
Theorem selection_keyed_by_parent : forall (A : Type) (parents : list Z) (f1 f2 : list (Z * A)),
  Permutation f1 f2 -> NoDup (map fst f1) -> read_keyed parents f1 = read_keyed parents f2.
Proof.
  intros A parents f1 f2 HP ND. unfold read_keyed. apply map_ext. intros p. apply zassoc_perm.
  - rewrite <- !Permutation_rev. exact HP.
  - eapply Permutation_NoDup; [apply Permutation_map; apply Permutation_rev | exact ND].
Qed.

(* ---- selection: the dict select_all_markers RETURNS (keys in order) does not depend on the
   order in which the workers filled output_dict (distinct parents) *)
Theorem selection_result_order_independent : forall (A : Type) (parents : list Z) (f1 f2 : list (Z * A)),
  Permutation f1 f2 -> NoDup (map fst f1) -> selection_result parents f1 = selection_result parents f2.
Proof.
  intros A parents f1 f2 HP ND.
  assert (HZ : forall p, zassoc p (rev f1) = zassoc p (rev f2)).
  { intros p. apply zassoc_perm.
    - rewrite <- !Permutation_rev. exact HP.
    - eapply Permutation_NoDup; [apply Permutation_map; apply Permutation_rev | exact ND]. }
  induction parents as [|p ps IH]; cbn [selection_result]; [reflexivity|].
  rewrite (HZ p), IH. reflexivity.
Qed.

(* its keys are parent_list, in that order, and each value is the one filled for that parent *)
Theorem selection_result_keys : forall (A : Type) (parents : list Z) (f : list (Z * A)) (l : list (Z * A)),
  selection_result parents f = Some l ->
  map fst l = parents /\ (forall p v, In (p, v) l -> In (p, v) f).
Proof.
  intros A parents f. induction parents as [|p ps IH]; cbn [selection_result]; intros l H.
  - inversion H; subst. split; [reflexivity | intros p v []].
  - destruct (zassoc p (rev f)) as [v|] eqn:E; [|discriminate].
    destruct (selection_result ps f) as [l'|] eqn:E'; [|discriminate].
    inversion H; subst. destruct (IH l' eq_refl) as [IH1 IH2].
    split; [cbn; rewrite IH1; reflexivity|].
    intros q w [Hq | Hq].
    + inversion Hq; subst. apply zassoc_in in E. apply in_rev. exact E.
    + apply IH2. exact Hq.
Qed.

(* every parent of parent_list was filled (each worker sets output_dict[parent] before it exits
   with code 0) -> there is a result *)
Theorem selection_result_total : forall (A : Type) (parents : list Z) (f : list (Z * A)),
  (forall p, In p parents -> In p (map fst f)) -> exists l, selection_result parents f = Some l.
Proof.
  intros A parents f. induction parents as [|p ps IH]; cbn [selection_result]; intros H.
  - exists []. reflexivity.
  - destruct (IH (fun q Hq => H q (or_intror Hq))) as [l' E']. rewrite E'.
    destruct (zassoc p (rev f)) as [v|] eqn:E.
    + exists ((p, v) :: l'). reflexivity.
    + exfalso. apply zassoc_none in E. apply E. rewrite map_rev. apply -> in_rev. apply H. left. reflexivity.
Qed.
