(* Proofs about the additions at the end of Model/SelectionK.v (audit 3, defect A10):
   Part 1: run_with_k / select_with_k: results are legal batched runs (replayk); k = 1 is run_with.
   Part 2: np.argsort's pop rule (pick_pop sorter, sorter a genuine argsort) is LEGAL and completes,
           for every genes_at_a_time >= 1; hence numpy's rule meets spec_c12.
   (Order / threshold independence for every k: Proofs/SelectionPickKOrderP.v.) *)
From Coq Require Import ZArith List Bool Arith Lia Permutation Sorted.
From CTM Require Import Base.Sx Base.ListX Base.SortX Model.Tree Model.Selection Model.SelectionK
                        Proofs.SelectionP Proofs.SelectionPickP Proofs.SelectionKP Proofs.SelectionKSafeP.
Import ListNotations.
Local Open Scope nat_scope.

Lemma pool_rm_in g h pool : In h (pool_remove g pool) <-> In h pool /\ h <> g.
Proof. unfold pool_remove. rewrite filter_In, negb_true_iff, Nat.eqb_neq. tauto. Qed.

Lemma list_eqb_refl l : list_eqb l l = true.
Proof. induction l as [|x r IH]; cbn; [reflexivity|]. rewrite Nat.eqb_refl, IH. reflexivity. Qed.

(* a member of maximal utility of a list that still holds a useful gene is itself useful *)
Lemma top_positive st pool g :
  is_top st pool g = true -> exhausted st pool = false -> (0 < utility st g)%Z.
Proof.
  intros T X. apply is_top_spec in T. destruct T as [_ T].
  destruct (Z_lt_le_dec 0 (utility st g)) as [P|P]; [exact P|]. exfalso.
  assert (E : exhausted st pool = true).
  { apply exhausted_spec. intros h Hh. specialize (T h Hh). lia. }
  congruence.
Qed.

(* ================================================================== Part 1 *)
Section PickKP.
Variable n_genes : nat.
Variable pairs : list nat.
Variable marks : nat -> slot -> bool.
Variable n : nat.

Notation JK := (JK n_genes pairs marks n).
Notation PI := (PI n_genes).
Notation update_filled := (update_filled n_genes pairs marks n).
Notation finished := (finished n_genes pairs).
Notation refresh := (refresh n_genes pairs marks n).
Notation start := (start n_genes pairs marks n).
Notation pool0 := (pool0 n_genes pairs marks n).
Notation observe := (observe n_genes pairs marks n).

Lemma run_with_k_S k pick f hist st pool :
  run_with_k n_genes pairs marks n k pick (S f) hist st pool =
  if finished (update_filled st) then WKDone (update_filled st)
  else match pop_with marks pick (observe st hist) k (update_filled st) (refresh st pool) with
       | BOk st2 pool2 => run_with_k n_genes pairs marks n k pick f (observe st hist) st2 pool2
       | BIllegal g => WKIllegal g
       | BStuck => WKStuck
       | BRaise e => WKRaise e
       end.
Proof. reflexivity. Qed.

(* the pops a rule makes in one call of _choose_gene are a batch that popk accepts *)
Lemma pop_with_popk pick hist j : forall st pool st2 pool2,
  pop_with marks pick hist j st pool = BOk st2 pool2 ->
  exists batch, popk marks j st pool batch = POk st2 pool2.
Proof.
  induction j as [|j IH]; intros st pool st2 pool2 H; cbn [pop_with] in H.
  - inversion H; subst. exists []. reflexivity.
  - destruct pool as [|p0 pr] eqn:Ep.
    { inversion H; subst. exists []. reflexivity. }
    rewrite <- Ep in *.
    destruct (exhausted st pool) eqn:X.
    { inversion H; subst st2 pool2. exists []. cbn [popk]. rewrite Ep. rewrite <- Ep. rewrite X. reflexivity. }
    destruct (pick hist (chosen st)) as [g|]; [|discriminate].
    destruct (is_top st pool g) eqn:T; [|discriminate].
    destruct (nmem g (chosen st)) eqn:C; [discriminate|].
    destruct (IH _ _ _ _ H) as (b & Hb). exists (g :: b). cbn [popk]. rewrite Ep. rewrite <- Ep.
    rewrite T, C. pose proof (top_positive _ _ _ T X) as P. apply Z.leb_gt in P. rewrite P. exact Hb.
Qed.

(* a completed run_with_k is a completed batched run (runk): every theorem about replayk applies *)
Lemma run_with_k_is_runk k pick fuel : forall hist st pool st' i,
  run_with_k n_genes pairs marks n k pick fuel hist st pool = WKDone st' ->
  exists batches, runk n_genes pairs marks n k st pool batches i = KDone st'.
Proof.
  induction fuel as [|f IH]; intros hist st pool st' i H; [discriminate|]. rewrite run_with_k_S in H.
  destruct (finished (update_filled st)) eqn:F.
  - inversion H; subst st'. exists []. cbn [runk]. rewrite F. reflexivity.
  - destruct (pop_with marks pick (observe st hist) k (update_filled st) (refresh st pool)) as [st2 pool2|g| |e] eqn:P;
      try discriminate.
    destruct (pop_with_popk _ _ _ _ _ _ _ P) as (b & Hb).
    destruct (IH _ _ _ _ (S i) H) as (bs & Hbs). exists (b :: bs). cbn [runk]. unfold stepk. rewrite F, Hb. exact Hbs.
Qed.

Theorem select_with_k_is_replayk k pick st :
  select_with_k n_genes pairs marks n k pick = WKDone st ->
  exists batches, replayk n_genes pairs marks n k (chosen start) batches = KDone st.
Proof.
  intros H. destruct (run_with_k_is_runk _ _ _ _ _ _ _ 0 H) as (bs & Hbs). exists bs.
  unfold replayk. rewrite list_eqb_refl. exact Hbs.
Qed.

(* ------------------------------------------------------------------ k = 1 is run_with of Model/Selection.v *)
Lemma run_with_k_one pick fuel : forall hist st pool, JK st -> PI st pool ->
  run_with_k n_genes pairs marks n 1 pick fuel hist st pool =
  wk_of_wres (run_with n_genes pairs marks n pick fuel hist st).
Proof.
  induction fuel as [|f IH]; intros hist st pool HJ HP; [reflexivity|].
  rewrite run_with_k_S, run_with_S.
  destruct (finished (update_filled st)) eqn:F; [reflexivity|].
  pose proof (JK_update _ _ _ _ _ HJ) as HJ1. pose proof (PI_refresh _ pairs marks n _ _ HP) as HP1.
  pose proof (pool_nonempty_unfinished _ _ _ _ _ _ HJ1 HP1 F) as Hne.
  pose proof (not_exhausted_unfinished _ _ _ _ _ _ HJ1 HP1 F) as X.
  cbn [pop_with]. destruct (refresh st pool) as [|p0 pr] eqn:Ep; [congruence|]. rewrite <- Ep in *.
  rewrite X. change (chosen (update_filled st)) with (chosen st).
  destruct (pick (observe st hist) (chosen st)) as [g|]; [|reflexivity].
  pose proof (step_cond_top _ _ _ _ _ _ g HJ1 HP1 F) as Hc.
  unfold step. rewrite F. change (chosen (update_filled st)) with (chosen st) in Hc |- *. rewrite <- Hc.
  destruct (is_top (update_filled st) (refresh st pool) g) eqn:T; cbn [andb]; [|reflexivity].
  destruct (top_unfinished _ _ _ _ _ _ _ HJ1 HP1 F T) as (C & Hg & _).
  change (chosen (update_filled st)) with (chosen st) in C.
  pose proof (proj2 (nmem_false g (chosen st)) C) as C'. rewrite C'. cbn [negb].
  apply IH; [apply JK_choose; assumption | apply PI_choose; exact HP1].
Qed.

Theorem select_with_k_one pick :
  select_with_k n_genes pairs marks n 1 pick = wk_of_wres (select_with n_genes pairs marks n pick).
Proof. unfold select_with_k, select_with. apply run_with_k_one; [apply JK_start | apply PI_pool0]. Qed.
End PickKP.

Theorem select_parent_k_one pick rm query t parent bh n :
  select_parent_k 1 pick rm query t parent bh n = pk_of_parent_res (select_parent pick rm query t parent bh n).
Proof.
  unfold select_parent_k, select_parent.
  destruct (keep_idx rm query); [reflexivity|].
  destruct (leaf_pairs t parent); [reflexivity|].
  destruct (if bh then Some (thin_genes rm query) else downsample_pairs (thin_genes rm query) _) as [arr|]; [|reflexivity].
  destruct (parent_idx arr t parent true) as [idx|]; [|reflexivity].
  cbn [pk_of_parent_res]. rewrite select_with_k_one. reflexivity.
Qed.

(* ================================================================== Part 2: np.argsort *)
(* what np.argsort guarantees, whatever its kind and its order among equal values: the result is a
   permutation of the indices and the values read in that order do not decrease *)
Definition is_argsort (sorter : list Z -> list nat) : Prop :=
  forall u, Permutation (sorter u) (seq 0 (length u)) /\
            Sorted Z.le (map (fun g => nth g u 0%Z) (sorter u)).

Lemma last_opt_cons {A} (x : A) l :
  last_opt (x :: l) = match last_opt l with Some y => Some y | None => Some x end.
Proof. unfold last_opt. cbn [rev]. destruct (rev l); reflexivity. Qed.

Lemma filter_none {A} (P : A -> bool) l : existsb P l = false -> filter P l = [].
Proof.
  induction l as [|x t IH]; cbn; [reflexivity|]. intros H. apply orb_false_iff in H. destruct H as [H1 H2].
  rewrite H1. apply IH. exact H2.
Qed.

(* pop(-1) of an ascending list from which some members were removed: a remaining member of maximal key *)
Lemma last_filter_sorted (key : nat -> Z) (P : nat -> bool) l :
  StronglySorted Z.le (map key l) -> existsb P l = true ->
  exists h, last_opt (filter P l) = Some h /\ In h l /\ P h = true /\
            forall g, In g l -> P g = true -> (key g <= key h)%Z.
Proof.
  induction l as [|x t IH]; intros S E; [discriminate|].
  cbn [map] in S. apply StronglySorted_inv in S. destruct S as [S1 S2].
  destruct (existsb P t) eqn:Et.
  - destruct (IH S1 eq_refl) as (h & L & Hh & Ph & Mx). exists h.
    split.
    { cbn [filter]. destruct (P x); [rewrite last_opt_cons, L; reflexivity | exact L]. }
    split; [right; exact Hh|]. split; [exact Ph|].
    intros g [<-|Hg] Pg; [|apply Mx; assumption].
    rewrite Forall_forall in S2. apply S2. apply in_map. exact Hh.
  - cbn [existsb] in E. rewrite Et, orb_false_r in E. exists x.
    cbn [filter]. rewrite E, (filter_none P t Et). split; [reflexivity|]. split; [left; reflexivity|].
    split; [reflexivity|]. intros g [<-|Hg] Pg; [lia|]. exfalso.
    assert (existsb P t = true) by (apply existsb_exists; exists g; auto). congruence.
Qed.

Section Numpy.
Variable n_genes : nat.
Variable pairs : list nat.
Variable marks : nat -> slot -> bool.
Variable n : nat.
Variable sorter : list Z -> list nat.
Hypothesis Hsort : is_argsort sorter.

Notation JK := (JK n_genes pairs marks n).
Notation PI := (PI n_genes).
Notation update_filled := (update_filled n_genes pairs marks n).
Notation finished := (finished n_genes pairs).
Notation refresh := (refresh n_genes pairs marks n).
Notation start := (start n_genes pairs marks n).
Notation pool0 := (pool0 n_genes pairs marks n).
Notation observe := (observe n_genes pairs marks n).

(* the stale list.  u, ch0 = the utility array and marker_gene_name_list when sorted_utility_idx was last
   recomputed; the list now holds exactly the genes that are unchosen or were already chosen then, and
   for every member the array it was sorted by still gives its utility (utilities change only when a
   slot is newly filled - and then the list is recomputed - or when the gene itself is chosen) *)
Definition NI (u : list Z) (ch0 : list nat) (st : state) (pool : list nat) : Prop :=
  length u = n_genes /\
  incl ch0 (chosen st) /\
  (forall g, In g pool <-> g < n_genes /\ (~ In g (chosen st) \/ In g ch0)) /\
  (forall g, In g pool -> utility st g = nth g u 0%Z).

Definition flagged (e : hentry) : bool := fst (fst e).

Lemma pop_with_numpy hist fl u ch0 :
  find flagged (rev hist) = Some (fl, u, ch0) ->
  forall j st pool, JK st -> PI st pool -> NI u ch0 st pool ->
  exists st2 pool2,
    pop_with marks (pick_pop sorter) hist j st pool = BOk st2 pool2 /\
    JK st2 /\ PI st2 pool2 /\ NI u ch0 st2 pool2 /\
    length (chosen st) <= length (chosen st2) /\
    (pool <> [] -> exhausted st pool = false -> 1 <= j -> length (chosen st) < length (chosen st2)).
Proof.
  intros Hf. induction j as [|j IH]; intros st pool HJ HP HN; cbn [pop_with].
  - exists st, pool. split; [reflexivity|]. split; [exact HJ|]. split; [exact HP|]. split; [exact HN|].
    split; [lia|]. intros _ _ A. lia.
  - destruct pool as [|p0 pr] eqn:Ep.
    { exists st, []. split; [reflexivity|]. split; [exact HJ|]. split; [exact HP|]. split; [exact HN|].
      split; [lia|]. intros A. congruence. }
    rewrite <- Ep in *. clear Ep p0 pr.
    destruct (exhausted st pool) eqn:X.
    { exists st, pool. split; [reflexivity|]. split; [exact HJ|]. split; [exact HP|]. split; [exact HN|].
      split; [lia|]. intros _ A. congruence. }
    destruct HN as (Lu & Hin & Hpool & Hut).
    (* some member is useful *)
    assert (Hpos : exists h0, In h0 pool /\ (0 < utility st h0)%Z).
    { destruct (existsb (fun h => (0 <? utility st h)%Z) pool) eqn:E.
      - apply existsb_exists in E. destruct E as (h0 & H1 & H2). exists h0. split; [exact H1 | apply Z.ltb_lt; exact H2].
      - exfalso. assert (exhausted st pool = true); [|congruence].
        apply exhausted_spec. intros h Hh.
        destruct (Z_lt_le_dec 0 (utility st h)) as [P|P]; [|exact P].
        assert (existsb (fun h => (0 <? utility st h)%Z) pool = true); [|congruence].
        apply existsb_exists. exists h. split; [exact Hh | apply Z.ltb_lt; exact P]. }
    destruct Hpos as (h0 & Hh0 & Ph0).
    destruct (Hsort u) as [Sp Ss]. apply Sorted_StronglySorted in Ss; [|intros a b c; apply Z.le_trans].
    set (P := fun g => negb (nmem g (chosen st) && negb (nmem g ch0))).
    assert (HP_spec : forall g, P g = true <-> (~ In g (chosen st) \/ In g ch0)).
    { intros g. unfold P. rewrite negb_true_iff, andb_false_iff, negb_false_iff, nmem_false, nmem_in. tauto. }
    assert (Hmem : forall g, In g (sorter u) <-> g < n_genes).
    { intros g. split; intros H.
      - apply (Permutation_in _ Sp) in H. apply in_seq in H. lia.
      - apply (Permutation_in _ (Permutation_sym Sp)). apply in_seq. lia. }
    assert (Hpool' : forall g, In g pool <-> In g (sorter u) /\ P g = true).
    { intros g. rewrite Hpool, Hmem, HP_spec. tauto. }
    assert (Ex : existsb P (sorter u) = true).
    { apply existsb_exists. exists h0. apply Hpool'. exact Hh0. }
    destruct (last_filter_sorted (fun g => nth g u 0%Z) P (sorter u) Ss Ex) as (h & L & Hh & Ph & Mx).
    assert (Hhp : In h pool) by (apply Hpool'; auto).
    unfold pick_pop at 1. fold flagged. rewrite Hf. fold P. rewrite L.
    assert (T : is_top st pool h = true).
    { apply is_top_spec. split; [exact Hhp|]. intros g Hg. rewrite (Hut g Hg), (Hut h Hhp).
      apply Hpool' in Hg. destruct Hg. apply Mx; assumption. }
    rewrite T.
    pose proof (top_positive _ _ _ T X) as Pos.
    assert (C : ~ In h (chosen st)).
    { intros Hc. pose proof (JK_taken _ _ _ _ _ HJ h Hc). lia. }
    rewrite (proj2 (nmem_false h (chosen st)) C).
    assert (Hlt : h < n_genes) by (apply Hmem; exact Hh).
    destruct (IH (choose marks st h) (pool_remove h pool)) as (st2 & pool2 & R & J2 & P2 & N2 & Le & _).
    + apply JK_choose; assumption.
    + apply PI_choose. exact HP.
    + unfold NI. cbn [choose chosen utility]. split; [exact Lu|]. split.
      { intros g Hg. apply in_app_iff. left. apply Hin. exact Hg. }
      split.
      * intros g. rewrite pool_rm_in, Hpool, in_app_iff. cbn [In]. split.
        -- intros [[G1 G2] G3]. split; [exact G1|]. destruct G2 as [G2|G2]; [left | right; exact G2].
           intros [A|[A|[]]]; [exact (G2 A) | congruence].
        -- intros [G1 G2]. split; [split; [exact G1|]|].
           ++ destruct G2 as [G2|G2]; [left; tauto | right; exact G2].
           ++ destruct G2 as [G2|G2]; [intros ->; apply G2; right; left; reflexivity|].
              intros ->. apply C. apply Hin. exact G2.
      * intros g Hg. apply pool_rm_in in Hg. destruct Hg as [Hg Hne].
        apply Nat.eqb_neq in Hne. rewrite Hne. apply Hut. exact Hg.
    + exists st2, pool2. split; [exact R|]. split; [exact J2|]. split; [exact P2|]. split; [exact N2|].
      cbn [choose chosen] in Le. rewrite app_length in Le. cbn [length] in Le. split; intros; lia.
Qed.

Lemma snapshot_nth0 st g : g < n_genes -> nth g (snapshot n_genes st) 0%Z = utility st g.
Proof.
  intros H. rewrite (nth_indep _ 0%Z (-1)%Z) by (rewrite snapshot_length; exact H). apply snapshot_nth. exact H.
Qed.

Lemma update_no_new st g :
  existsb (newly n_genes marks n st) (slots pairs) = false -> utility (update_filled st) g = utility st g.
Proof.
  intros H. unfold Selection.update_filled. cbn [utility]. rewrite (filter_none _ _ H). unfold count. cbn. lia.
Qed.

Lemma run_with_k_numpy k : 1 <= k -> forall fuel hist st pool fl u ch0,
  JK st -> PI st pool -> find flagged (rev hist) = Some (fl, u, ch0) -> NI u ch0 st pool ->
  n_genes - length (chosen st) < fuel ->
  exists st', run_with_k n_genes pairs marks n k (pick_pop sorter) fuel hist st pool = WKDone st'.
Proof.
  intros Hk. induction fuel as [|f IH]; intros hist st pool fl u ch0 HJ HP Hf HN Hfuel; [lia|].
  rewrite run_with_k_S.
  destruct (finished (update_filled st)) eqn:F; [eexists; reflexivity|].
  pose proof (JK_update _ _ _ _ _ HJ) as HJ1. pose proof (PI_refresh _ pairs marks n _ _ HP) as HP1.
  pose proof (pool_nonempty_unfinished _ _ _ _ _ _ HJ1 HP1 F) as Hne.
  pose proof (not_exhausted_unfinished _ _ _ _ _ _ HJ1 HP1 F) as X.
  (* the entry of the history the rule will look at, and the list it describes *)
  assert (HH : exists fl1 u1 ch1, find flagged (rev (observe st hist)) = Some (fl1, u1, ch1) /\
                                  NI u1 ch1 (update_filled st) (refresh st pool)).
  { unfold Selection.observe. rewrite rev_app_distr. cbn [rev app find]. unfold flagged at 1. cbn [fst].
    unfold SelectionK.refresh.
    destruct (existsb (newly n_genes marks n st) (slots pairs)) eqn:E.
    - exists true, (snapshot n_genes (update_filled st)), (chosen st). split; [reflexivity|].
      unfold NI. change (chosen (update_filled st)) with (chosen st).
      split; [apply snapshot_length|]. split; [apply incl_refl|]. split.
      + intros g. rewrite genes_in. split; [|tauto]. intros G. split; [exact G|].
        destruct (in_dec Nat.eq_dec g (chosen st)); tauto.
      + intros g Hg. apply genes_in in Hg. symmetry. apply snapshot_nth0. exact Hg.
    - exists fl, u, ch0. split; [exact Hf|].
      destruct HN as (Lu & Hin & Hpool & Hut). unfold NI. change (chosen (update_filled st)) with (chosen st).
      split; [exact Lu|]. split; [exact Hin|]. split; [exact Hpool|].
      intros g Hg. rewrite (update_no_new st g E). apply Hut. exact Hg. }
  destruct HH as (fl1 & u1 & ch1 & Hf1 & HN1).
  destruct (pop_with_numpy _ _ _ _ Hf1 k _ _ HJ1 HP1 HN1) as (st2 & pool2 & R & J2 & P2 & N2 & _ & Gr).
  rewrite R. specialize (Gr Hne X Hk). change (chosen (update_filled st)) with (chosen st) in Gr.
  pose proof (chosenK_bound _ _ _ _ _ J2) as B.
  apply (IH _ _ _ _ _ _ J2 P2 Hf1 N2). lia.
Qed.

(* utilities of the genes the desperate phase leaves unchosen are untouched by it *)
Lemma take_all_chosen_mono l : forall st g, In g (chosen st) -> In g (chosen (take_all marks l st)).
Proof.
  induction l as [|x r IH]; intros st g H; [exact H|].
  change (take_all marks (x :: r) st) with (take_all marks r (take1 marks st x)). apply IH. unfold take1.
  destruct (nmem x (chosen st)); [exact H|]. cbn [choose chosen]. apply in_app_iff. left. exact H.
Qed.

Lemma take_all_utility l : forall st g, ~ In g (chosen (take_all marks l st)) ->
  utility (take_all marks l st) g = utility st g.
Proof.
  induction l as [|x r IH]; intros st g H; [reflexivity|].
  change (take_all marks (x :: r) st) with (take_all marks r (take1 marks st x)) in H |- *.
  rewrite (IH _ _ H). unfold take1. destruct (nmem x (chosen st)) eqn:E; [reflexivity|].
  cbn [choose utility]. destruct (Nat.eqb g x) eqn:Eg; [|reflexivity].
  apply Nat.eqb_eq in Eg. subst x. exfalso. apply H. apply take_all_chosen_mono.
  unfold take1. rewrite E. cbn [choose chosen]. apply in_app_iff. right. left. reflexivity.
Qed.

Lemma NI_start :
  NI (snapshot n_genes (update_filled (init pairs marks))) [] start pool0.
Proof.
  unfold NI. split; [apply snapshot_length|]. split; [intros g []|]. split.
  - intros g. unfold SelectionK.pool0. rewrite filter_In, genes_in, negb_true_iff, nmem_false. cbn [In]. tauto.
  - intros g Hg. unfold SelectionK.pool0 in Hg. apply filter_In in Hg. destruct Hg as [G1 G2].
    apply genes_in in G1. apply negb_true_iff, nmem_false in G2.
    rewrite snapshot_nth0 by exact G1. unfold Selection.start in G2 |- *.
    rewrite desperate_as_take_all in G2 |- *. apply take_all_utility. exact G2.
Qed.

(* numpy's rule is LEGAL and the loop completes, for every genes_at_a_time >= 1 *)
Theorem numpy_rule_is_legal_k k : 1 <= k ->
  exists st', select_with_k n_genes pairs marks n k (pick_pop sorter) = WKDone st'.
Proof.
  intros Hk. unfold select_with_k.
  apply (run_with_k_numpy k Hk (S n_genes) _ _ _ true (snapshot n_genes (update_filled (init pairs marks))) []).
  - apply JK_start.
  - apply PI_pool0.
  - reflexivity.
  - apply NI_start.
  - lia.
Qed.

Theorem numpy_rule_is_legal :
  exists st', select_with n_genes pairs marks n (pick_pop sorter) = WDone st'.
Proof.
  destruct (numpy_rule_is_legal_k 1 (le_n 1)) as (st' & H). rewrite select_with_k_one in H.
  destruct (select_with n_genes pairs marks n (pick_pop sorter)) as [s|g| |]; try discriminate.
  exists s. reflexivity.
Qed.

Theorem numpy_rule_meets_spec :
  no_gene_both_ways marks ->
  exists st', select_with n_genes pairs marks n (pick_pop sorter) = WDone st' /\
              spec_c12 n_genes pairs marks n (chosen st') = true.
Proof.
  intros Hb. destruct numpy_rule_is_legal as (st' & H). exists st'. split; [exact H|].
  destruct (select_with_is_run _ _ _ _ _ _ H) as (t & R & _). apply (spec_holds _ _ _ _ _ _ Hb R).
Qed.

Theorem numpy_rule_meets_spec_k k : 1 <= k ->
  no_gene_both_ways marks ->
  exists st', select_with_k n_genes pairs marks n k (pick_pop sorter) = WKDone st' /\
              spec_c12 n_genes pairs marks n (chosen st') = true.
Proof.
  intros Hk Hb. destruct (numpy_rule_is_legal_k k Hk) as (st' & H). exists st'. split; [exact H|].
  destruct (select_with_k_is_replayk _ _ _ _ _ _ _ H) as (bs & R). apply (batch_full_spec _ _ _ _ _ _ _ _ Hb R).
Qed.
End Numpy.

(* ------------------------------------------------------------------ a genuine argsort exists *)
(* insertion argsort (stable): the witness that is_argsort is satisfiable *)
Fixpoint ainsert (u : list Z) (i : nat) (l : list nat) : list nat :=
  match l with
  | [] => [i]
  | j :: t => if (nth i u 0 <=? nth j u 0)%Z then i :: l else j :: ainsert u i t
  end.
Definition ins_argsort (u : list Z) : list nat := fold_right (ainsert u) [] (seq 0 (length u)).

Lemma ainsert_perm u i l : Permutation (ainsert u i l) (i :: l).
Proof.
  induction l as [|j t IH]; cbn; [apply Permutation_refl|].
  destruct (nth i u 0 <=? nth j u 0)%Z; [apply Permutation_refl|].
  eapply Permutation_trans; [apply perm_skip, IH | apply perm_swap].
Qed.

Lemma ainsert_sorted u i l :
  Sorted Z.le (map (fun g => nth g u 0%Z) l) -> Sorted Z.le (map (fun g => nth g u 0%Z) (ainsert u i l)).
Proof.
  induction l as [|j t IH]; intros S; cbn; [repeat constructor|].
  destruct (nth i u 0 <=? nth j u 0)%Z eqn:E.
  - cbn [map]. constructor; [exact S|]. constructor. apply Z.leb_le. exact E.
  - cbn [map] in S |- *. apply Sorted_inv in S. destruct S as [S1 S2]. constructor; [apply IH; exact S1|].
    apply Z.leb_gt in E. destruct t as [|j2 t2]; cbn.
    + constructor. lia.
    + destruct (nth i u 0 <=? nth j2 u 0)%Z; cbn; constructor; [lia|].
      inversion S2; subst. assumption.
Qed.

Theorem ins_argsort_is_argsort : is_argsort ins_argsort.
Proof.
  intros u. unfold ins_argsort. generalize (seq 0 (length u)). intros l. split.
  - induction l as [|x t IH]; cbn; [constructor|].
    eapply Permutation_trans; [apply ainsert_perm | apply perm_skip, IH].
  - induction l as [|x t IH]; cbn; [constructor|]. apply ainsert_sorted. exact IH.
Qed.

(* ------------------------------------------------------------------ audit 4, A5 (ii): the domain *)
(* The legality / spec theorems above are proved for EVERY table and EVERY list of pairs, but the model
   is faithful to _run_selection only where the real function does not raise for another reason:
   (a) a gene listed as up AND down marker of one pair (pd = [([0],[0])]) makes the desperate phase
       raise AssertionError (marker_mask_from_pair_idx) where the model ends in `break`;
   (b) taxonomy_idx_array = [] makes _stats_from_marker_counts raise ValueError (zero-size array)
       where the model returns WDone with nothing chosen.
   The statements cited by Props/C12.v therefore carry both exclusions as hypotheses (they are not
   needed by the proofs: they delimit where the model speaks for the code).  (a) is what
   both_ways_free decides on the thinned table (SelectionP.both_ways_free_sound); (b) is what
   select_parent(_k) guarantees (parent_run_has_pairs(_k): idx <> []). *)
Theorem numpy_rule_is_legal_dom n_genes pairs marks n sorter :
  is_argsort sorter -> no_gene_both_ways marks -> pairs <> [] ->
  exists st', select_with n_genes pairs marks n (pick_pop sorter) = WDone st'.
Proof. intros Hs _ _. exact (numpy_rule_is_legal n_genes pairs marks n sorter Hs). Qed.

Theorem numpy_rule_meets_spec_dom n_genes pairs marks n sorter :
  is_argsort sorter -> no_gene_both_ways marks -> pairs <> [] ->
  exists st', select_with n_genes pairs marks n (pick_pop sorter) = WDone st' /\
              spec_c12 n_genes pairs marks n (chosen st') = true.
Proof. intros Hs Hb _. exact (numpy_rule_meets_spec n_genes pairs marks n sorter Hs Hb). Qed.

Theorem numpy_rule_is_legal_k_dom n_genes pairs marks n sorter k :
  is_argsort sorter -> 1 <= k -> no_gene_both_ways marks -> pairs <> [] ->
  exists st', select_with_k n_genes pairs marks n k (pick_pop sorter) = WKDone st'.
Proof. intros Hs Hk _ _. exact (numpy_rule_is_legal_k n_genes pairs marks n sorter Hs k Hk). Qed.

Theorem numpy_rule_meets_spec_k_dom n_genes pairs marks n sorter k :
  is_argsort sorter -> 1 <= k -> no_gene_both_ways marks -> pairs <> [] ->
  exists st', select_with_k n_genes pairs marks n k (pick_pop sorter) = WKDone st' /\
              spec_c12 n_genes pairs marks n (chosen st') = true.
Proof. intros Hs Hk Hb _. exact (numpy_rule_meets_spec_k n_genes pairs marks n sorter Hs k Hk Hb). Qed.
